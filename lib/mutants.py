#!/usr/bin/env python3
"""lib/mutants.py - mechanical mutants of knut against the quick checks (a sensitivity measurement, not a check).

usage: lib/mutants.py [--per-file N] [--jobs J] [--seed S] [--only SUBSTR] [--out FILE]

For every target file below, N mutation points are drawn (lib/mutate: operator swaps, literals, negated conditions,
deleted statements).  Each mutant is written into a scratch worktree of /repo's HEAD (under /tmp, removed afterwards),
built, run through knut's own test suite (a mutant the tests kill says nothing about the checks) and, if it survives
the tests, through the quick tier of the checks named for the file (VERIF_REPO=<scratch>).  Result per mutant:
  nocompile | killed-by-tests | detected:<check> | timeout:<check> | survived
Survivors are either equivalent mutants, changes outside what the named properties speak about, or gaps: they are
listed with their description for review (DESIGN.md 8.4).  Nothing under /repo is touched; the evidence files the
check runs write belong to mutated trees: re-run the checks on /repo afterwards.
"""
import argparse, json, os, random, re, resource, shutil, subprocess, sys, tempfile, time
from concurrent.futures import ThreadPoolExecutor

VERIF = os.path.dirname(os.path.dirname(os.path.abspath(__file__)))
ENV = dict(os.environ, GOFLAGS="-mod=mod", GOPROXY="off", GOSUMDB="off", GOTOOLCHAIN="local")

TARGETS = [
    ("lib/model/price/prices.go", ["C12", "C03"]),
    ("lib/common/date/date.go", ["C11", "C10"]),
    ("lib/journal/process.go", ["C03", "C01", "C02"]),
    ("lib/journal/check/check.go", ["C04"]),
    ("lib/reports/balance/report.go", ["C02", "C01"]),
    ("lib/reports/balance/renderer.go", ["C02", "C17"]),
    ("lib/common/table/renderer.go", ["C17"]),
    ("lib/common/table/table.go", ["C17"]),
    ("lib/common/table/csv.go", ["C17", "C02"]),
    ("lib/syntax/printer/printer.go", ["C08", "C09"]),
    ("lib/syntax/parser/parser.go", ["C07", "C08"]),
    ("lib/syntax/scanner/scanner.go", ["C07"]),
    ("lib/model/transaction/transaction.go", ["C10", "C09"]),
    ("lib/model/posting/posting.go", ["C01", "C09"]),
    ("lib/journal/beancount/beancount.go", ["C16"]),
    ("lib/reports/weights/weights.go", ["C20", "C17"]),
    ("lib/reports/register/register.go", ["C06"]),
    ("cmd/commands/register.go", ["C06"]),
    ("cmd/importer/supercard/supercard.go", ["C13"]),
    ("lib/journal/performance/performance.go", ["C20"]),
    ("lib/syntax/bayes/bayes.go", ["C15"]),
    ("cmd/commands/infer.go", ["C15", "C18"]),
    ("cmd/commands/format.go", ["C18", "C08"]),
    ("lib/journal/journal.go", ["C19", "C05", "C02", "C06"]),
    ("lib/common/cpr/cpr.go", ["C19"]),
    ("lib/model/account/account.go", ["C02", "C03"]),
    ("lib/amounts/amounts.go", ["C02", "C01", "C06"]),
    ("cmd/flags/flags.go", ["C14", "C11"]),
    ("lib/syntax/syntax.go", ["C05", "C14", "C08"]),
    ("cmd/importer/revolut2/revolut2.go", ["C13"]),
    ("cmd/importer/swisscard2/swisscard2.go", ["C13"]),
    ("cmd/importer/wise/wise.go", ["C13"]),
]


def limits():
    os.setsid()
    resource.setrlimit(resource.RLIMIT_AS, (24 << 30, 24 << 30))


def run(cmd, cwd, timeout, env=ENV):
    p = subprocess.Popen(cmd, cwd=cwd, env=env, stdout=subprocess.PIPE, stderr=subprocess.STDOUT, text=True, preexec_fn=limits)
    try:
        out, _ = p.communicate(timeout=timeout)
        return p.returncode, out
    except subprocess.TimeoutExpired:
        try:
            os.killpg(p.pid, 9)
        except ProcessLookupError:
            pass
        p.wait()
        return None, ""


def one(job):
    f, k, checks = job
    w = tempfile.mkdtemp(prefix="mut.", dir="/tmp")
    os.rmdir(w)
    res = dict(file=f, point=k, checks=checks)
    t0 = time.time()
    try:
        subprocess.run(["git", "-C", "/repo", "worktree", "add", "-q", "--detach", w, "HEAD"], check=True,
                       stdout=subprocess.DEVNULL, stderr=subprocess.DEVNULL)
        p = subprocess.run(["/tmp/mutate", "-file", f, "-n", str(k)], cwd=w, capture_output=True, text=True)
        if p.returncode != 0:
            res["result"] = "mutator-error"
            return res
        res["desc"] = p.stderr.strip()
        open(os.path.join(w, f), "w").write(p.stdout)
        rc, out = run(["go", "build", "./..."], w, 600)
        if rc != 0:
            res["result"] = "nocompile"
            return res
        rc, out = run(["go", "test", "-vet=off", "-count=1", "-timeout", "120s", "./..."], w, 900)
        if rc != 0:
            res["result"] = "killed-by-tests"
            return res
        res["result"] = "survived"
        res["runs"] = []
        for c in checks:
            rc, out = run([os.path.join(VERIF, "check"), c, "--tier", "quick"], VERIF, 1500, dict(ENV, VERIF_REPO=w))
            if rc is None:
                res["result"] = "timeout:" + c
                break
            summ = [l for l in out.split("\n") if " quick:" in l]
            res["runs"].append((c, rc, summ[-1][:160] if summ else out[-200:]))
            for l in out.split("\n"):
                m = re.match(r"VIOLATION property=\S+ replay=(\S+)", l)
                if m:
                    d = os.path.dirname(m.group(1))
                    if d.startswith(os.path.join(VERIF, "replay")):
                        shutil.rmtree(d, ignore_errors=True)
            if rc != 0:
                res["result"] = "detected:" + c
                break
        return res
    except Exception as e:  # noqa
        res["result"] = "driver-error: %r" % (e,)
        return res
    finally:
        res["seconds"] = round(time.time() - t0)
        subprocess.run(["git", "-C", "/repo", "worktree", "remove", "--force", w], stdout=subprocess.DEVNULL, stderr=subprocess.DEVNULL)
        shutil.rmtree(w, ignore_errors=True)


def main():
    ap = argparse.ArgumentParser()
    ap.add_argument("--per-file", type=int, default=6)
    ap.add_argument("--jobs", type=int, default=4)
    ap.add_argument("--seed", type=int, default=1)
    ap.add_argument("--only", default="")
    ap.add_argument("--point", action="append", default=[], help="FILE:K - run exactly this mutation point (repeatable)")
    ap.add_argument("--checks", default="", help="with --point: the checks to run instead of the file's own list")
    ap.add_argument("--out", default=os.path.join(VERIF, "mutants", "results.jsonl"))
    a = ap.parse_args()
    subprocess.run(["go", "build", "-o", "/tmp/mutate", "."], cwd=os.path.join(VERIF, "lib", "mutate"), env=ENV, check=True)
    rnd = random.Random(a.seed)
    jobs = []
    for pt in a.point:
        f, k = pt.rsplit(":", 1)
        jobs.append((f, int(k), a.checks.split() or dict(TARGETS)[f]))
    for f, checks in ([] if a.point else TARGETS):
        if a.only and a.only not in f:
            continue
        n = int(subprocess.run(["/tmp/mutate", "-file", f, "-count"], cwd="/repo", capture_output=True, text=True).stdout or 0)
        for k in rnd.sample(range(n), min(n, a.per_file)):
            jobs.append((f, k, checks))
    os.makedirs(os.path.dirname(a.out), exist_ok=True)
    head = subprocess.run(["git", "-C", "/repo", "rev-parse", "--short", "HEAD"], capture_output=True, text=True).stdout.strip()
    print("%d mutants, %d at a time, /repo %s" % (len(jobs), a.jobs, head), flush=True)
    with ThreadPoolExecutor(a.jobs) as ex, open(a.out, "a") as fo:
        for r in ex.map(one, jobs):
            r["repo_head"], r["seed"] = head, a.seed
            fo.write(json.dumps(r) + "\n")
            fo.flush()
            print("%-28s %s" % (r.get("result"), r.get("desc", r["file"])), flush=True)


if __name__ == "__main__":
    main()
