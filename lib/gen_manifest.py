#!/usr/bin/env python3
"""writes MANIFEST.json from the per-property metadata in checks/*.py (run by hand after edits)"""
import importlib, json, os, sys
HERE = os.path.dirname(os.path.dirname(os.path.abspath(__file__)))
sys.path.insert(0, HERE); sys.path.insert(0, os.path.join(HERE, "lib"))
ALL = ["C%02d" % i for i in range(1, 21)]
checks, na = [], []
for pid in ALL:
    try:
        m = importlib.import_module("checks." + pid.lower())
    except ModuleNotFoundError:
        na.append(dict(property_id=pid, reason="no check has been built for this property yet (work in progress; see DESIGN.md section 7 for the plan)"))
        continue
    checks.append(dict(
        property_id=pid,
        quick_cmd="./check %s --tier quick" % pid,
        thorough_cmd="./check %s --tier thorough" % pid,
        evidence_file="/verif/evidence/%s.json" % pid,
        replay_cmd_template="./check %s --replay {path}" % pid,
        engine="coq-model+correspondence",
        level_claimed=dict(category="proof", text=m.LEVEL_TEXT, design_ref="DESIGN.md section 7, " + pid),
        level_note=m.LEVEL_NOTE,
        technique=m.TECHNIQUE))
hooks_commits = []
hc = os.path.join(HERE, "MANIFEST.hooks")
if os.path.exists(hc):
    hooks_commits = [l.split()[0] for l in open(hc) if l.strip() and not l.startswith("#")]
man = dict(
    version=1,
    setup_cmd="./setup.sh",
    hooks=dict(guard="verif", enable="go build -tags verif (the checks do this themselves, with the harness added through go build -overlay)",
               baseline_off_cmd="cd /repo && GOFLAGS=-mod=mod go test -vet=off -count=1 ./...",
               source_commits=hooks_commits, add_only=True),
    engines=[dict(name="coq-model+correspondence", path="/verif/coq + /verif/harness + /verif/check",
                  serves_properties=[c["property_id"] for c in checks],
                  kind_free_text="hand-written executable Gallina model of knut with the properties proved as Coq 8.16.1 theorems; "
                                 "the model is extracted to OCaml (kmodel) and run against the Go implementation on generated inputs on every check")],
    checks=checks,
    notes="See DESIGN.md. Every check re-runs the Coq build, re-checks its Properties/Cxx.v (Print Assumptions), rebuilds the harness and knut from /repo's working tree, and compares model and implementation.",
    not_applicable=na)
json.dump(man, open(os.path.join(HERE, "MANIFEST.json"), "w"), indent=1)
print("MANIFEST.json:", len(checks), "checks,", len(na), "not claimed")
