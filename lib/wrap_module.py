#!/usr/bin/env python3
"""wrap_module.py FILE.v NAME: wraps the body of a Coq file (everything after the leading
Require/Import/Open Scope header) in `Module NAME. ... End NAME. Export NAME.` so that the
monolithic OCaml extraction keeps its identifiers in a namespace of their own."""
import re, sys
path, name = sys.argv[1], sys.argv[2]
src = open(path).read()
if re.search(r"^Module %s\." % name, src, flags=re.M):
    sys.exit(0)
lines = src.split("\n")
# find the end of the header: last line among the first 60 that starts with From/Require/Import/Open Scope
last = -1
depth = 0
for i, l in enumerate(lines[:80]):
    s = l.strip()
    if re.match(r"^(From |Require |Import |Open Scope |Export )", s):
        last = i
hdr, body = lines[:last + 1], lines[last + 1:]
out = hdr + ["", "Module %s." % name] + body + ["End %s." % name, "Export %s." % name, ""]
open(path, "w").write("\n".join(out))
