"""Shared machinery of the checks: builds (Coq, kmodel, harness, knut), case running,
comparison, verdicts, evidence.  See DESIGN.md sections 4 and 5."""
import fcntl
import glob
import hashlib
import json
import os
import re
import shutil
import subprocess
import sys
import tempfile
import time

VERIF = os.path.dirname(os.path.dirname(os.path.abspath(__file__)))
REPO = os.environ.get("VERIF_REPO", "/repo")
COQ = os.path.join(VERIF, "coq")
BUILD = os.path.join(VERIF, "build")
KMODEL = os.path.join(BUILD, "kmodel")

GOENV = dict(os.environ, GOFLAGS="-mod=readonly", GOPROXY="off", GOSUMDB="off", GOTOOLCHAIN="local",
             CGO_ENABLED=os.environ.get("CGO_ENABLED", "0"))

FORBIDDEN = re.compile(
    r"\b(Axiom|Axioms|Parameter|Parameters|Conjecture|Admitted|admit|Admit Obligations|"
    r"Unset Guard Checking|bypass_check|Unset Positivity Checking|Unset Universe Checking)\b")


def log(*a):
    print(*a, file=sys.stderr, flush=True)


class Lock:
    def __init__(self, name):
        os.makedirs(BUILD, exist_ok=True)
        self.path = os.path.join(BUILD, name + ".lock")

    def __enter__(self):
        self.f = open(self.path, "w")
        fcntl.flock(self.f, fcntl.LOCK_EX)
        return self

    def __exit__(self, *a):
        fcntl.flock(self.f, fcntl.LOCK_UN)
        self.f.close()


# ------------------------------------------------------------------ Coq side

def coq_sources():
    out = []
    for d in ("Model", "Spec", "Proofs", "Properties"):
        out += sorted(glob.glob(os.path.join(COQ, d, "**", "*.v"), recursive=True))
    return out


def lint():
    """style rules of DESIGN.md section 3: no axioms, no admits, no disabled checks"""
    bad = []
    for f in coq_sources():
        txt = open(f, encoding="utf-8").read()
        txt = re.sub(r"\(\*.*?\*\)", "", txt, flags=re.S)
        for m in FORBIDDEN.finditer(txt):
            bad.append("%s: %s" % (os.path.relpath(f, VERIF), m.group(0)))
    return bad


def gen_coqproject():
    lines = ["-Q . Knut", "-arg -w", "-arg -notation-overridden,-deprecated-hint-without-locality,-deprecated-instance-without-locality"]
    lines += [os.path.relpath(f, COQ) for f in coq_sources()]
    txt = "\n".join(lines) + "\n"
    p = os.path.join(COQ, "_CoqProject")
    if not os.path.exists(p) or open(p).read() != txt:
        open(p, "w").write(txt)
        subprocess.run(["coq_makefile", "-f", "_CoqProject", "-o", "Makefile"], cwd=COQ, check=True,
                       stdout=subprocess.DEVNULL, stderr=subprocess.DEVNULL)


def gen_unicode_tables():
    """coq/Model/UnicodeTables.v (ranges of unicode.IsLetter / IsDigit) is generated from the Go
    toolchain that compiles knut; a committed copy exists, it is regenerated only when missing"""
    p = os.path.join(COQ, "Model", "UnicodeTables.v")
    if os.path.exists(p):
        return
    r = subprocess.run(["go", "run", os.path.join(VERIF, "lib", "gen_unicode_tables.go")], env=GOENV,
                       stdout=subprocess.PIPE, stderr=subprocess.PIPE, text=True, errors="replace", timeout=300)
    if r.returncode != 0:
        raise RuntimeError("gen_unicode_tables.go failed: " + r.stderr[-1000:])
    open(p, "w").write(r.stdout)


def gen_rx_tables():
    """coq/Model/RxTables.v (unicode.Categories/Scripts/FoldCategory/FoldScript and unicode.SimpleFold, for the model of
    regexp/syntax) is generated from the Go toolchain like UnicodeTables.v; the committed copy is regenerated only when missing"""
    p = os.path.join(COQ, "Model", "RxTables.v")
    if os.path.exists(p):
        return
    r = subprocess.run(["go", "run", os.path.join(VERIF, "lib", "gen_rx_tables.go")], env=GOENV,
                       stdout=subprocess.PIPE, stderr=subprocess.PIPE, text=True, timeout=300)
    if r.returncode != 0:
        raise RuntimeError("gen_rx_tables.go failed: " + r.stderr[-1000:])
    open(p, "w").write(r.stdout)


def coq_build(timeout=3000):
    """full .vo build; returns (ok, failing_file or None, tail of the log)"""
    with Lock("coq"):
        gen_unicode_tables()
        gen_rx_tables()
        gen_coqproject()
        t0 = time.time()
        p = subprocess.run(["make", "-j16", "-k"], cwd=COQ, stdout=subprocess.PIPE, stderr=subprocess.STDOUT,
                           timeout=timeout, text=True, errors="replace")
        os.makedirs(BUILD, exist_ok=True)
        open(os.path.join(BUILD, "coq_build.log"), "w").write(p.stdout)
        if p.returncode == 0:
            return True, None, "coq build ok in %.1fs" % (time.time() - t0)
        failing = re.findall(r'File "\./([^"]+)", line (\d+)', p.stdout)
        return False, failing, p.stdout[-3000:]


def coq_deps(vfile):
    """transitive Knut dependencies of a .v file (relative paths)"""
    seen = set()
    todo = [vfile]
    while todo:
        f = todo.pop()
        if f in seen or not os.path.exists(os.path.join(COQ, f)):
            continue
        seen.add(f)
        txt = open(os.path.join(COQ, f)).read()
        for m in re.finditer(r"From Knut Require (?:Import |Export )?([^.]*(?:\.[A-Za-z0-9_]+)*)\.", txt):
            for mod in m.group(1).split():
                todo.append(mod.replace(".", "/") + ".v")
    return seen


def property_obligations(pid, extra=()):
    """Re-checks Properties/<pid>.v (and the extra property files of the check) and reads the theorem
    lists and Print Assumptions output.  returns dict(theorems=[...], assumptions={name: text}, ok=bool, log=str)"""
    res = _property_obligations(os.path.join("Properties", pid + ".v"))
    for vf in extra:
        r = _property_obligations(vf)
        res["theorems"] += r["theorems"]
        res["assumptions"].update(r["assumptions"])
        res["ok"] = res["ok"] and r["ok"]
        res["log"] += r["log"]
    return res


def _property_obligations(vfile):
    src = open(os.path.join(COQ, vfile)).read()
    src_nc = re.sub(r"\(\*.*?\*\)", "", src, flags=re.S)
    theorems = re.findall(r"^\s*(?:Theorem|Example)\s+([A-Za-z0-9_']+)", src_nc, flags=re.M)
    with Lock("coq"):
        p = subprocess.run(["coqc", "-Q", ".", "Knut", vfile], cwd=COQ, stdout=subprocess.PIPE,
                           stderr=subprocess.STDOUT, text=True, errors="replace", timeout=1800)
    printed = re.findall(r"^Print Assumptions\s+([A-Za-z0-9_']+)\.", src_nc, flags=re.M)
    blocks = re.split(r"(?m)^(?=Closed under the global context|Axioms:)", p.stdout)
    blocks = [b.strip() for b in blocks if b.strip().startswith(("Closed under", "Axioms:"))]
    assumptions = {}
    for name, b in zip(printed, blocks):
        assumptions[name] = b
    return dict(theorems=theorems, assumptions=assumptions, ok=(p.returncode == 0), log=p.stdout[-2000:])


def kmodel_stale():
    if not os.path.exists(KMODEL):
        return True
    t = os.path.getmtime(KMODEL)
    srcs = coq_sources() + glob.glob(os.path.join(COQ, "Extract", "drv", "*.ml")) + \
        glob.glob(os.path.join(COQ, "Extract", "roots.d", "*.txt"))
    return any(os.path.getmtime(s) > t for s in srcs)


def build_kmodel():
    with Lock("kmodel"):
        if not kmodel_stale():
            return True, "kmodel up to date"
        p = subprocess.run([os.path.join(COQ, "Extract", "build_kmodel.sh"), BUILD], stdout=subprocess.PIPE,
                           stderr=subprocess.STDOUT, text=True, errors="replace", timeout=1800)
        return p.returncode == 0, p.stdout[-3000:]


# ------------------------------------------------------------------ Go side

class Workdir:
    """temp directory outside /repo and /verif, removed at exit"""

    def __init__(self):
        self.path = tempfile.mkdtemp(prefix="knutverif-")

    def __enter__(self):
        return self

    def __exit__(self, *a):
        shutil.rmtree(self.path, ignore_errors=True)


HARNESS_DROPPED = []
# VERIF_COVER=1 (lib/coverage.sh): knut and the harness are built with statement coverage of knut's own packages; every
# run of either then leaves its counters in $GOCOVERDIR.  Measures which part of knut the correspondence exercises.
COVER_FLAGS = (["-cover", "-coverpkg=./lib/...,./cmd/...,."] if os.environ.get("VERIF_COVER") else [])


def build_harness(wd, tags="verif"):
    """compiles /verif/harness/*.go into knut's module via -overlay; returns (ok, path or log).
    The harness is one Go package that calls exported functions of knut in-process for some properties.  When a change
    to knut alters the signature of such a function, only the harness files that use it stop compiling: they are left
    out (HARNESS_DROPPED) and the build is tried again, so that the checks of the other properties - which drive the
    binary - still run; a check whose generator or observer went away with a dropped file reports the build failure."""
    files = sorted(glob.glob(os.path.join(VERIF, "harness", "*.go")))
    keep_always = {"main.go", "vutil.go", "journal.go", "knutrun.go", "core.go"}
    del HARNESS_DROPPED[:]
    log_all = ""
    for _ in range(5):
        repl = {}
        for f in files:
            repl[os.path.join(REPO, "cmd", "verifharness", os.path.basename(f))] = f
        for f in sorted(glob.glob(os.path.join(VERIF, "harness", "overlay", "**", "*.go"), recursive=True)):
            rel = os.path.relpath(f, os.path.join(VERIF, "harness", "overlay"))
            repl[os.path.join(REPO, rel)] = f
        if COVER_FLAGS:
            # the cover tool does not read overlays: the harness files are copied into the tree, which must be a scratch
            # copy (lib/coverage.sh makes one)
            assert REPO.startswith("/tmp/"), "VERIF_COVER needs VERIF_REPO to be a scratch copy under /tmp"
            shutil.rmtree(os.path.join(REPO, "cmd", "verifharness"), ignore_errors=True)
            for dst, src in repl.items():
                os.makedirs(os.path.dirname(dst), exist_ok=True)
                shutil.copyfile(src, dst)
            repl = {}
        ov = os.path.join(wd.path, "overlay.json")
        json.dump({"Replace": repl}, open(ov, "w"))
        out = os.path.join(wd.path, "verifharness")
        p = subprocess.run(["go", "build"] + COVER_FLAGS + ["-tags", tags, "-overlay", ov, "-o", out, "./cmd/verifharness"],
                           cwd=REPO, env=GOENV, stdout=subprocess.PIPE, stderr=subprocess.STDOUT, text=True, errors="replace", timeout=900)
        if p.returncode == 0:
            if HARNESS_DROPPED and not source_changed():
                # the tree is the one the harness was written against: a file that does not compile is our own error
                return False, "harness files do not compile against the unchanged tree: %s\n%s" % (HARNESS_DROPPED, log_all[-3000:])
            return True, out
        log_all += p.stdout[-3000:]
        bad = set(re.findall(r"(?:cmd/verifharness|/harness)/(\w+\.go):\d+", p.stdout)) - keep_always
        if not bad:
            break
        HARNESS_DROPPED.extend(sorted(bad))
        files = [f for f in files if os.path.basename(f) not in bad]
    return False, log_all[-4000:]


def build_knut(wd, tags="verif", race=False):
    out = os.path.join(wd.path, "knut-race" if race else "knut")
    cmd = ["go", "build"] + COVER_FLAGS + ["-tags", tags, "-o", out]
    env = dict(GOENV)
    if race:
        cmd.insert(2, "-race")
        env["CGO_ENABLED"] = "1"
    p = subprocess.run(cmd + ["."], cwd=REPO, env=env, stdout=subprocess.PIPE, stderr=subprocess.STDOUT,
                       text=True, errors="replace", timeout=900)
    if p.returncode != 0:
        return False, p.stdout[-4000:]
    return True, out


# ------------------------------------------------------------------ cases

def run_harness(harness, gen, seed, n, args=(), env=None, timeout=3600):
    cmd = [harness, gen, str(seed), str(n)] + [str(a) for a in args]
    e = dict(os.environ)
    if env:
        e.update(env)
    p = subprocess.run(cmd, stdout=subprocess.PIPE, stderr=subprocess.PIPE, text=True, errors="replace", timeout=timeout, env=e)
    if p.returncode != 0:
        raise RuntimeError("harness %s failed (%d): %s" % (gen, p.returncode, p.stderr[-2000:]))
    return [l for l in p.stdout.split("\n") if l]


def run_harness_replay(harness, lines, env=None, timeout=3600):
    e = dict(os.environ)
    if env:
        e.update(env)
    inp = "\n".join("\t".join(l.split("\t")[:3]) for l in lines) + "\n"
    p = subprocess.run([harness, "replay"], input=inp, stdout=subprocess.PIPE, stderr=subprocess.PIPE, text=True, errors="replace",
                       timeout=timeout, env=e)
    if p.returncode != 0:
        raise RuntimeError("harness replay failed: %s" % p.stderr[-2000:])
    return [l for l in p.stdout.split("\n") if l]


def _big_stack():
    """the extracted model is not tail-recursive everywhere (list functions over 10^5 accrual parts): give kmodel the
    largest stack the system allows instead of the 8 MB default"""
    import resource
    try:
        soft, hard = resource.getrlimit(resource.RLIMIT_STACK)
        want = hard if hard != resource.RLIM_INFINITY else 4 << 30
        resource.setrlimit(resource.RLIMIT_STACK, (want, hard))
    except Exception:
        pass


def run_kmodel(lines, timeout=3600, shards=16):
    """feeds case lines to kmodel (sharded over processes); returns dict id -> (model, spec)"""
    if not lines:
        return {}
    shards = max(1, min(shards, len(lines) // 200 + 1))
    chunks = [lines[i::shards] for i in range(shards)]
    procs = []
    for ch in chunks:
        p = subprocess.Popen([KMODEL], stdin=subprocess.PIPE, stdout=subprocess.PIPE, text=True, errors="replace", preexec_fn=_big_stack)
        procs.append((p, ch))
    res = {}
    import threading
    outs = [None] * len(procs)

    def feed(i, p, ch):
        outs[i] = p.communicate("\n".join(ch) + "\n", timeout=timeout)[0]
    ths = [threading.Thread(target=feed, args=(i, p, ch)) for i, (p, ch) in enumerate(procs)]
    for t in ths:
        t.start()
    for t in ths:
        t.join()
    for o in outs:
        for l in (o or "").split("\n"):
            if not l:
                continue
            f = l.split("\t")
            if len(f) >= 3:
                res[f[0]] = (f[1], f[2])
    return res


class Case:
    __slots__ = ("id", "op", "input", "observed", "model", "spec")

    def __init__(self, line):
        f = line.split("\t")
        f += [""] * (4 - len(f))
        self.id, self.op, self.input, self.observed = f[0], f[1], f[2], f[3]
        self.model = None
        self.spec = None

    def line(self):
        return "\t".join([self.id, self.op, self.input, self.observed])

    def as_dict(self, limit=600):
        def cut(s):
            s = s or ""
            return s if len(s) <= limit else s[:limit] + "...(%d bytes)" % len(s)
        return dict(id=self.id, op=self.op, input=cut(self.input), observed=cut(self.observed),
                    model=cut(self.model), spec=self.spec)


def evaluate(lines, compare=None):
    """runs kmodel on the lines; returns (cases, spec_failures, disagreements)
    compare(case) -> bool may relax string equality per op (DESIGN 4.2)"""
    cases = [Case(l) for l in lines]
    ids = set()
    for c in cases:
        if c.id in ids:
            raise RuntimeError("duplicate case id " + c.id)
        ids.add(c.id)
    res = run_kmodel(lines)
    spec_fail, disagree = [], []
    for c in cases:
        m = res.get(c.id)
        if m is None:
            c.model, c.spec = "MISSING", "MISSING"
        else:
            c.model, c.spec = m
        if c.spec != "ok":
            spec_fail.append(c)
        same = compare(c) if compare else (c.model == c.observed)
        if not same and c.spec == "ok":
            disagree.append(c)
    return cases, spec_fail, disagree


# ------------------------------------------------------------------ source fingerprint

FINGERPRINT = os.path.join(VERIF, "fingerprint.json")


def source_fingerprint(repo=None):
    """sha256 over the non-test Go sources of knut (path and bytes), go.mod and go.sum"""
    repo = repo or REPO
    h = hashlib.sha256()
    files = []
    for top in ("lib", "cmd"):
        for root, _, names in os.walk(os.path.join(repo, top)):
            for n in names:
                if n.endswith(".go") and not n.endswith("_test.go"):
                    files.append(os.path.join(root, n))
    files += [os.path.join(repo, f) for f in ("main.go", "go.mod", "go.sum") if os.path.exists(os.path.join(repo, f))]
    for f in sorted(files):
        h.update(os.path.relpath(f, repo).encode() + b"\0")
        with open(f, "rb") as fh:
            h.update(fh.read())
        h.update(b"\0")
    return h.hexdigest()


def source_changed():
    """True when the sources under REPO differ from the tree the model was last validated against
    (fingerprint.json, written by `python3 lib/vlib.py fingerprint` after the quick checks passed on it).
    A check then triples its quick volume: a changed tree is where the correspondence has to be re-established."""
    try:
        base = json.load(open(FINGERPRINT))["sha256"]
    except Exception:
        return False
    return source_fingerprint() != base


# ------------------------------------------------------------------ known findings

def load_known(pid):
    # the one committed known-findings file; never written at run time
    paths = [os.path.join(VERIF, "known_findings.jsonl")]
    out = []
    for p in [q for q in paths if os.path.exists(q)]:
        for l in open(p):
            l = l.strip()
            if not l or l.startswith("#") or l.startswith("fixed:"):
                continue
            try:
                e = json.loads(l)
            except ValueError:
                continue
            if e.get("property") == pid and e.get("status") == "known":
                out.append(e)
    return out


def matches_known(case, known):
    """a known entry matches by op and a regular expression on 'input' and/or 'observed'"""
    for k in known:
        m = k.get("match", {})
        if m.get("op") and m["op"] != case.op:
            continue
        if m.get("input_re") and not re.search(m["input_re"], case.input, flags=re.S):
            continue
        if m.get("observed_re") and not re.search(m["observed_re"], case.observed or "", flags=re.S):
            continue
        if m.get("spec_re") and not re.search(m["spec_re"], case.spec or "", flags=re.S):
            continue
        return k
    return None


# ------------------------------------------------------------------ evidence / replay

def write_json(path, obj):
    os.makedirs(os.path.dirname(path), exist_ok=True)
    tmp = path + ".tmp%d" % os.getpid()
    json.dump(obj, open(tmp, "w"), indent=1, ensure_ascii=False)
    os.replace(tmp, path)


def write_replay(pid, kind, cases, extra=None):
    run = time.strftime("%Y%m%dT%H%M%S") + "-%d" % os.getpid()
    d = os.path.join(VERIF, "replay", pid, run)
    os.makedirs(d, exist_ok=True)
    path = os.path.join(d, "case.json" if kind == "spec" else "correspondence.json")
    obj = dict(property=pid, kind=kind, cases=[dict(line=c.line(), model=c.model, spec=c.spec) for c in cases])
    if extra:
        obj.update(extra)
    write_json(path, obj)
    return path


def canon_hash(s):
    return hashlib.sha1(s.encode("utf-8", "replace")).hexdigest()[:16]


if __name__ == "__main__" and len(sys.argv) > 1 and sys.argv[1] == "fingerprint":
    head = subprocess.run(["git", "-C", REPO, "rev-parse", "--short", "HEAD"], stdout=subprocess.PIPE, text=True, errors="replace").stdout.strip()
    write_json(FINGERPRINT, dict(repo_head=head, sha256=source_fingerprint(),
                                 note="non-test Go sources of /repo against which the quick checks last passed"))
    print(open(FINGERPRINT).read())
