#!/bin/sh
# usage: lib/seedall.sh [jobs]   tries every recorded seeded change (seeded/*/patch.diff) against the check of its
# property in scratch worktrees (lib/seedtry.sh) and prints one line per change: DETECTED / MISSED.
# A regression suite for the checks themselves; takes most of an hour with 4 jobs.
cd "$(dirname "$0")/.."
J=${1:-4}
ls -d seeded/*/ | sed 's|/$||' | xargs -P $J -I{} sh -c '
  d={}; p=$(python3 -c "import json,sys; print(json.load(open(sys.argv[1]+\"/meta.json\"))[\"property\"])" $d)
  out=$(lib/seedtry.sh $d $p 2>&1)
  if echo "$out" | grep -q "^VIOLATION property=$p"; then
    if echo "$out" | grep "^VIOLATION" | grep -q no-failing-input-found; then echo "DETECTED(no-input) $d $p"; else echo "DETECTED $d $p"; fi
  else echo "MISSED $d $p :: $(echo "$out" | tail -n 1 | cut -c1-160)"; fi'
