#!/bin/sh
# usage: lib/thorough_lane.sh <check ids...>   (meant for `vp run --with-repo`: runs the thorough tier of the named
# checks one after the other against $VP_RUN_REPO if set, else /repo; prints one summary line per check)
export GOFLAGS=-mod=mod GOPROXY=off GOSUMDB=off GOTOOLCHAIN=local
[ -n "${VP_RUN_REPO:-}" ] && export VERIF_REPO=$VP_RUN_REPO
cd "$(dirname "$0")/.."
[ -x build/kmodel ] || ./setup.sh > setup.log 2>&1 || { echo "setup failed"; tail -20 setup.log; exit 2; }
for c in "$@"; do
  /usr/bin/time -f "$c %es" ./check $c --tier thorough 2>&1 | grep -E "VIOLATION|KNOWN-FINDING|thorough:|Error|Traceback|^C[0-9]+ [0-9.]+s" | cut -c1-300
done
