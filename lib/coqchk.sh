#!/bin/sh
# usage: lib/coqchk.sh [out-file]   re-checks every compiled Properties/*.vo and everything they depend on with Coq's
# independent checker (coqchk) on a copy of coq/ and writes the summary it prints with -o (the axioms the checked
# libraries rely on) to out-file (default: coqchk_report.txt).  Takes tens of minutes; not part of any check.
set -u
HERE=$(cd "$(dirname "$0")/.." && pwd)
OUT=${1:-$HERE/coqchk_report.txt}
W=$(mktemp -d /tmp/coqchk.XXXXXX)
rsync -a "$HERE/coq/" "$W/coq/"
cd "$W/coq" || exit 2
MODS=$(ls Properties/*.vo | sed 's|Properties/\(.*\)\.vo|Knut.Properties.\1|' | tr '\n' ' ')
{ echo "coqchk -silent -o -Q . Knut $MODS"; echo "started $(date -u +%FT%TZ) on $(git -C "$HERE" rev-parse --short HEAD)"; 
  /usr/bin/time -f "elapsed %es, max RSS %MkB" timeout 10800 coqchk -silent -o -Q . Knut $MODS 2>&1 | tail -n 60; echo "exit=$?"; } > "$OUT" 2>&1
rm -rf "$W"
