#!/bin/sh
# usage: lib/seedtry.sh <dir with patch.diff> <check ids...>
# Runs the named checks against a scratch worktree of /repo HEAD with the patch applied (VERIF_REPO), so that
# several seeded changes can be tried at once without touching /repo.  The evidence files written by these runs
# belong to the patched tree: re-run the checks on /repo before committing evidence.  Development aid only;
# lib/seedkeep.py does the recorded run against /repo itself.
set -u
D=$(cd "$1" && pwd); shift
export GOFLAGS=-mod=mod GOPROXY=off GOSUMDB=off GOTOOLCHAIN=local
W=$(mktemp -d /tmp/seedtry.XXXXXX); rmdir $W
git -C /repo worktree add -q --detach $W HEAD || exit 2
git -C $W apply $D/patch.diff || { echo "PATCH DOES NOT APPLY"; git -C /repo worktree remove --force $W; exit 2; }
cd /verif
for c in "$@"; do VERIF_REPO=$W ./check $c --tier ${TIER:-quick} 2>&1 | grep -E "VIOLATION|KNOWN-FINDING|quick:|thorough:|Error|Traceback" | cut -c1-400; done
git -C /repo worktree remove --force $W
