#!/usr/bin/env python3
"""lib/seedkeep.py <source dir> <seed name> <check ids...>
Confirms a seeded change (lib/seedrun.sh), runs the named checks against /repo with the change applied, and
records everything under /verif/seeded/<seed name>/ (patch.diff, demo.sh, demo/, meta.json)."""
import json, os, re, shutil, subprocess, sys, time
src, name, checks = sys.argv[1], sys.argv[2], sys.argv[3:]
here = os.path.dirname(os.path.dirname(os.path.abspath(__file__)))
if os.environ.get("SEED_OUTPUT"):      # re-use the output of a seedrun.sh run that was already made
    out = open(os.environ["SEED_OUTPUT"]).read()
else:
    out = subprocess.run([os.path.join(here, "lib", "seedrun.sh"), src] + checks, stdout=subprocess.PIPE, stderr=subprocess.STDOUT, text=True).stdout
    print(out)
m = re.search(r"== demo on clean tree\nexit=(\d+)", out); clean = int(m.group(1)) if m else None
m = re.search(r"== demo on patched tree\nexit=(\d+)", out); patched = int(m.group(1)) if m else None
tests_ok = "tests done" in out and "FAIL" not in out.split("== demo on patched tree")[0].split("== build+tests with patch")[1]
dst = os.path.join(here, "seeded", name)
os.makedirs(dst, exist_ok=True)
same = os.path.realpath(src) == os.path.realpath(dst)
for f in ("patch.diff", "demo.sh"):
    if not same:
        shutil.copy(os.path.join(src, f), os.path.join(dst, f))
if os.path.isdir(os.path.join(src, "demo")) and not same:
    shutil.copytree(os.path.join(src, "demo"), os.path.join(dst, "demo"), dirs_exist_ok=True)
meta = {}
try:
    meta = json.load(open(os.path.join(src, "meta.json")))
except Exception as e:
    meta = {"note": "agent's meta.json unreadable: %s" % e}
# a re-run after strengthening keeps the record of the first run (and SEED_HISTORY says what was strengthened)
if "confirmed_by_us" in meta and "first_run" not in meta:
    meta["first_run"] = meta["confirmed_by_us"]
if os.environ.get("SEED_HISTORY"):
    meta["history"] = os.environ["SEED_HISTORY"]
results = {}
tail = out.split("== checks on /repo with patch applied")[-1]
for c in checks:
    lines = [l for l in tail.split("\n") if re.search(r"\b%s\b" % c, l)]
    viol = [l for l in lines if l.startswith("VIOLATION")]
    results[c] = dict(detected=bool(viol), violation_line=(viol[0] if viol else None),
                      concrete_input=bool(viol) and "no-failing-input-found" not in viol[0],
                      summary=[l for l in lines if ("quick:" in l or "thorough:" in l)][-1:] )
meta["confirmed_by_us"] = dict(
    when=time.strftime("%Y-%m-%dT%H:%M:%S"), repo_head=subprocess.run(["git", "-C", "/repo", "rev-parse", "--short", "HEAD"], stdout=subprocess.PIPE, text=True).stdout.strip(),
    applies_builds_and_suite_passes=bool(tests_ok), demo_exit_clean_tree=clean, demo_exit_patched_tree=patched,
    ran="lib/seedrun.sh: scratch worktree of /repo HEAD: demo.sh (clean), git apply patch.diff, go build ./..., go test -vet=off -count=1 ./..., demo.sh (patched); "
        "then git -C /repo apply patch.diff; " + "; ".join("./check %s --tier %s" % (c, os.environ.get("TIER", "quick")) for c in checks) + "; git -C /repo checkout -- .",
    checks=results)
json.dump(meta, open(os.path.join(dst, "meta.json"), "w"), indent=1, ensure_ascii=False)
print("kept:", dst, {c: r["detected"] for c, r in results.items()})
