#!/usr/bin/env python3
"""fix_driver_names.py DRIVER.ml MODULE...: rewrites `K.name` into `K.MODULE.name` for every name
that the extracted interface (build/kmodel_obj/kmodel_core.mli) declares inside one of the given
OCaml modules and not at top level with that spelling being ambiguous.  Used after a Model file
has been wrapped in a Coq Module (lib/wrap_module.py)."""
import re, sys
mli = open('/verif/build/kmodel_obj/kmodel_core.mli').read()
mods = {}
for m in re.finditer(r"^module (\w+) :\n sig\n(.*?)^ end", mli, flags=re.S | re.M):
    mods[m.group(1)] = m.group(2)
path, want = sys.argv[1], sys.argv[2:]
names = {}
for w in want:
    body = mods[w]
    for n in re.findall(r"^\s*(?:val|type(?: '\w+)?|and)\s+(?:\('?\w+(?:, '?\w+)*\)\s+)?(\w+)", body, flags=re.M):
        names.setdefault(n, w)
    for n in re.findall(r"^\s*\|\s*(\w+)", body, flags=re.M):
        names.setdefault(n, w)
    for rec in re.findall(r"\{([^}]*)\}", body):
        for n in re.findall(r"(\w+)\s*:", rec):
            names.setdefault(n, w)
s = open(path).read()
def rep(m):
    n = m.group(1)
    return "K.%s.%s" % (names[n], n) if n in names else m.group(0)
s2 = re.sub(r"\bK\.(\w+)(?!\.)", rep, s)
open(path, 'w').write(s2)
print(path, "rewritten", sum(1 for _ in re.finditer(r"\bK\.(?:%s)\." % "|".join(want), s2)))
