#!/bin/sh
# usage: lib/coverage.sh [check ids...]      (default: all twenty)
# Statement coverage of knut's own packages under the QUICK tier of the checks: knut and the harness are built with
# `go build -cover` (VERIF_COVER=1, lib/vlib.py), every run of the binary and of the in-process observers leaves its
# counters in $GOCOVERDIR, merged per check and reported per function.  Writes coverage_report.txt: the part of the
# code the correspondence between model and code actually runs through - functions at 0% are tied to the model by
# nothing.  Not a check and not part of any verdict; the evidence files written by these runs are ordinary ones.
set -u
cd "$(dirname "$0")/.."
export GOFLAGS=-mod=mod GOPROXY=off GOSUMDB=off GOTOOLCHAIN=local VERIF_COVER=1
C=$(mktemp -d /tmp/verifcov.XXXXXX)
mkdir -p $C/merged
# a scratch copy of the tree under test (the cover tool needs the harness files inside the module, lib/vlib.py)
rsync -a --exclude .git ${VERIF_REPO:-/repo}/ $C/tree/
export VERIF_REPO=$C/tree
IDS=$(echo ${*:-$(ls checks/c*.py | sed 's/.*\/c\([0-9]*\)\.py/C\1/')})
for id in $IDS; do
  mkdir -p $C/$id $C/merged/$id
  GOCOVERDIR=$C/$id ./check $id --tier quick 2>&1 | grep -E "VIOLATION|quick:" | cut -c1-200
  go tool covdata merge -i=$C/$id -o=$C/merged/$id 2>&1 | tail -2
  rm -rf $C/$id
done
DIRS=$(ls -d $C/merged/* | tr '\n' ',' | sed 's/,$//')
go tool covdata func -i=$DIRS > $C/func.txt 2>&1
python3 lib/coverage_report.py $C/func.txt "$IDS" > coverage_report.txt
tail -n 5 coverage_report.txt
rm -rf $C
