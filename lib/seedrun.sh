#!/bin/sh
# usage: lib/seedrun.sh <dir with patch.diff demo.sh> <check ids...>
# 1. confirms in a scratch worktree that the patch applies, builds, passes the suite, and that demo.sh
#    passes without and fails with it; 2. applies it to /repo, runs the named checks, reverts /repo.
set -u
D=$(cd "$1" && pwd); shift
export GOFLAGS=-mod=mod GOPROXY=off GOSUMDB=off GOTOOLCHAIN=local
W=$(mktemp -d /tmp/seedwt.XXXXXX); rmdir $W
git -C /repo worktree add -q --detach $W HEAD || exit 2
echo "== demo on clean tree"; sh $D/demo.sh $W >/dev/null 2>&1; echo "exit=$?"
git -C $W apply $D/patch.diff || { echo "PATCH DOES NOT APPLY"; git -C /repo worktree remove --force $W; exit 2; }
echo "== build+tests with patch"; (cd $W && go build ./... && go test -vet=off -count=1 ./... 2>&1 | grep -v "no test files" | grep -v "^ok" ; echo "tests done")
echo "== demo on patched tree"; sh $D/demo.sh $W >/dev/null 2>&1; echo "exit=$?"
git -C /repo worktree remove --force $W
echo "== checks on /repo with patch applied"
git -C /repo apply $D/patch.diff || exit 2
cd /verif
for c in "$@"; do ./check $c --tier ${TIER:-quick} 2>&1 | grep -E "VIOLATION|KNOWN-FINDING|quick:|thorough:|Error|Traceback" | cut -c1-300; done
git -C /repo checkout -- . && git -C /repo clean -fdq
git -C /repo status --short
