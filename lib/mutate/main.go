// mutate: a small source-level mutator for Go files (go/ast), used by lib/mutants.py to measure how many
// mechanical changes to knut the checks notice.  Not part of any check.
//
//	mutate -file F -count            number of mutation points in F
//	mutate -file F -n K              F with mutation point K applied, on stdout; a one-line description on stderr
//
// Operators: comparison and arithmetic swaps (< <=, > >=, == !=, + -, && ||), integer literals (0 <-> 1, n -> n+1),
// negated if-conditions, deleted statements (expression statements, ++/--, plain assignments, continue/break),
// `return ..., err` -> `return ..., nil` is NOT attempted (types).  Mutations inside functions named String, Error,
// or in files ending _test.go are skipped.
package main

import (
	"flag"
	"fmt"
	"go/ast"
	"go/parser"
	"go/printer"
	"go/token"
	"os"
	"strconv"
)

type point struct {
	desc  string
	apply func()
}

func main() {
	file := flag.String("file", "", "go source file")
	count := flag.Bool("count", false, "print the number of mutation points")
	n := flag.Int("n", -1, "mutation point to apply")
	flag.Parse()
	fset := token.NewFileSet()
	f, err := parser.ParseFile(fset, *file, nil, parser.ParseComments)
	if err != nil {
		fmt.Fprintln(os.Stderr, err)
		os.Exit(2)
	}
	var pts []point
	pos := func(p token.Pos) string { return fmt.Sprintf("%s:%d", *file, fset.Position(p).Line) }
	swap := map[token.Token]token.Token{token.LSS: token.LEQ, token.LEQ: token.LSS, token.GTR: token.GEQ, token.GEQ: token.GTR,
		token.EQL: token.NEQ, token.NEQ: token.EQL, token.ADD: token.SUB, token.SUB: token.ADD, token.LAND: token.LOR, token.LOR: token.LAND}
	for _, d := range f.Decls {
		fd, ok := d.(*ast.FuncDecl)
		if !ok || fd.Body == nil || fd.Name.Name == "String" || fd.Name.Name == "Error" {
			continue
		}
		fn := fd.Name.Name
		ast.Inspect(fd.Body, func(nd ast.Node) bool {
			switch x := nd.(type) {
			case *ast.BinaryExpr:
				if to, ok := swap[x.Op]; ok {
					// string concatenation: + -> - does not compile; the build step discards it
					from := x.Op
					pts = append(pts, point{fmt.Sprintf("%s %s: %s -> %s", pos(x.OpPos), fn, from, to), func() { x.Op = to }})
				}
			case *ast.BasicLit:
				if x.Kind == token.INT {
					if v, err := strconv.ParseInt(x.Value, 0, 64); err == nil {
						nv := v + 1
						if v == 1 {
							nv = 0
						}
						pts = append(pts, point{fmt.Sprintf("%s %s: literal %d -> %d", pos(x.Pos()), fn, v, nv), func() { x.Value = strconv.FormatInt(nv, 10) }})
					}
				}
			case *ast.IfStmt:
				pts = append(pts, point{fmt.Sprintf("%s %s: if-condition negated", pos(x.Pos()), fn), func() {
					x.Cond = &ast.UnaryExpr{Op: token.NOT, X: &ast.ParenExpr{X: x.Cond}}
				}})
			case *ast.BlockStmt:
				for i, st := range x.List {
					i, st := i, st
					del := false
					what := ""
					switch s := st.(type) {
					case *ast.ExprStmt:
						del, what = true, "call"
					case *ast.IncDecStmt:
						del, what = true, "inc/dec"
					case *ast.AssignStmt:
						if s.Tok != token.DEFINE {
							del, what = true, "assignment"
						}
					case *ast.BranchStmt:
						if s.Tok == token.CONTINUE || s.Tok == token.BREAK {
							del, what = true, s.Tok.String()
						}
					}
					if del {
						pts = append(pts, point{fmt.Sprintf("%s %s: %s deleted", pos(st.Pos()), fn, what), func() {
							x.List[i] = &ast.EmptyStmt{Semicolon: st.Pos(), Implicit: false}
						}})
					}
				}
			}
			return true
		})
	}
	if *count {
		fmt.Println(len(pts))
		return
	}
	if *n < 0 || *n >= len(pts) {
		fmt.Fprintln(os.Stderr, "no such mutation point")
		os.Exit(2)
	}
	pts[*n].apply()
	fmt.Fprintln(os.Stderr, pts[*n].desc)
	if err := printer.Fprint(os.Stdout, fset, f); err != nil {
		fmt.Fprintln(os.Stderr, err)
		os.Exit(2)
	}
}
