module verifmutate

go 1.21
