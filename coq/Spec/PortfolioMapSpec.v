(* Specification vocabulary for the mapping law of C20 (`portfolio weights -m`), on the model's
   side: the node of a report at a path, the weight the renderer reads there, the entries of
   the run without mapping carried through Model/Weights.map_path, and the rows of a rendered
   table as the [srow]s on which Spec/PortfolioSpec.mapping_law_b is evaluated. *)
From Coq Require Import ZArith QArith List Bool.
From Knut Require Import Model.Str Model.Dec Model.Date Model.Account Model.Ledger Model.Journal
     Model.Cli Model.Perf Model.Weights Model.CliPortfolio Spec.PortfolioSpec.
Import ListNotations.
Open Scope bool_scope.

(* ---------------------------------------------------------------- the node at a path *)

Fixpoint find_child (h : str) (l : list wnode) : option wnode :=
  match l with
  | [] => None
  | c :: r => if str_eqb h (wn_seg c) then Some c else find_child h r
  end.

Fixpoint wn_find (p : list str) (n : wnode) : option wnode :=
  match p with
  | [] => Some n
  | h :: t => match find_child h (wn_children n) with Some c => wn_find t c | None => None end
  end.

(* the number the renderer reads in a weight map for a date (wcell: a missing date is blank) *)
Definition cell_q (w : wmap) (d : Z) : Q :=
  match wm_get w d with Some x => oq x | None => 0%Q end.

(* the weight of the node at path [p] of the report [r] on [d]; a path without node weighs 0 *)
Definition node_weight (r : wnode) (p : list str) (d : Z) : Q :=
  match wn_find p r with Some n => cell_q (wn_weights n) d | None => 0%Q end.

(* ---------------------------------------------------------------- the unmapped entries, mapped *)

(* Query.Execute with -m books an entry where map_path sends the path of the entry of the run
   without -m; None = the Go slice expression panics *)
Fixpoint map_entries (m : list rule) (es0 : list entry) : option (list entry) :=
  match es0 with
  | [] => Some []
  | (ss, d, w) :: rest =>
    match map_path m ss, map_entries m rest with
    | Some q, Some l => Some ((q, d, w) :: l)
    | _, _ => None
    end
  end.

(* the weight of the entries [es0] of the run without mapping that the mapping sends to or
   below [p], on [d] *)
Definition mapped_weight (m : list rule) (es0 : list entry) (p : list str) (d : Z) : Q :=
  qsum (map (fun e : entry => let '(ss, dt, w) := e in
                      match map_path m ss with
                      | Some q => if path_prefix p q && (dt =? d)%Z then oq w else 0%Q
                      | None => 0%Q
                      end) es0).

(* ... that the mapping sends to [p] itself: the commodities folded into the row *)
Definition folded_weight (m : list rule) (es0 : list entry) (p : list str) (d : Z) : Q :=
  qsum (map (fun e : entry => let '(ss, dt, w) := e in
                      match map_path m ss with
                      | Some q => if path_eqb q p && (dt =? d)%Z then oq w else 0%Q
                      | None => 0%Q
                      end) es0).

(* the same command without -m *)
Definition pf_unmapped (cfg : pf_cfg) : pf_cfg :=
  mkPfCfg (pc_from cfg) (pc_to cfg) (pc_interval cfg) (pc_last cfg) (pc_valuation cfg) (pc_accounts cfg)
          (pc_commodities cfg) [] (pc_alpha cfg) (pc_universe cfg) (pc_lenient cfg).

(* ---------------------------------------------------------------- rendered rows as srows *)

(* the text table indents by two blanks per level; the parser of the check reads depth = indent / 2 *)
Definition srow_of_wrow (r : wrow) : srow := let '(indent, s, cells) := r in ((indent / 2)%Z, s, cells).

Definition srows (t : list Z * list wrow) : list srow := map srow_of_wrow (snd t).

(* no entry's path is a proper prefix of (or equal to a different spelling of) another's: in
   the table without -m no commodity is at once a row of its own and a group.  Universe.Locate
   yields class ++ [commodity]; this excludes a class named like a classified commodity's path *)
Definition proper_prefix (a b : list str) : bool := path_prefix a b && negb (path_prefix b a).

Definition prefix_free (es : list entry) : Prop :=
  forall e1 e2, In e1 es -> In e2 es ->
    proper_prefix (let '(ss, _, _) := e1 in ss) (let '(ss, _, _) := e2 in ss) = false.
