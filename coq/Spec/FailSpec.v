(* Specification vocabulary of C14 "commands fail cleanly on every input".

   1. [clean_run_b]: the property's statement about ONE run of the binary, evaluated by the
      check on what the implementation did (exit class, stdout, stderr).
   2. [guards]: the explicit, executable description of the inputs on which the pinned code
      does not panic (Proofs/NoPanic.v proves that it is sufficient, and that each conjunct is
      necessary: dropping it admits an input on which the model panics). *)
From Coq Require Import ZArith List Bool.
From Knut Require Import Model.Str Model.Dec Model.Date Model.Account Model.Ledger Model.Journal Model.Cli.
Import ListNotations.
Open Scope bool_scope.
Open Scope Z_scope.

(* ---------------------------------------------------------------- one run *)

(* how a run ended: exit 0; exit 1; a Go panic / runtime fatal error (exit 2, trace on
   stderr); no end within the time limit; memory exhausted under the address-space limit; any
   other exit status or death by signal *)
Inductive run_class := ClOK | ClERR | ClPANIC | ClHANG | ClOOM | ClEXIT.

(* "terminates, either successfully or with a non-zero exit status and a diagnostic on
   standard error; never panics, hangs, or exhausts memory; a failing report command leaves
   standard output empty".  knut's only failure status is 1. *)
Definition clean_run_b (report_cmd : bool) (c : run_class) (stdout_empty stderr_nonempty : bool) : bool :=
  match c with
  | ClOK => true
  | ClERR => stderr_nonempty && (if report_cmd then stdout_empty else true)
  | _ => false
  end.

(* what a command writes to standard output: the result type carries output only on success *)
Definition stdout_of (r : cresult str) : str := match r with COk out => out | _ => [] end.

(* ---------------------------------------------------------------- guards *)

(* -m level[:suffix],regex with non-negative numbers *)
Definition rule_nonneg (r : rule) : bool := (0 <=? r_level r) && (0 <=? r_suffix r).
Definition mapping_nonneg (m : list rule) : bool := forallb rule_nonneg m.

(* an accrual window that can be partitioned: it does not start on day 0 (Go's zero time,
   0001-01-01) and, unless the interval is "once", it does not end before it starts *)
Definition accrual_window_ok (ac : accrual) : bool :=
  negb (ac_start ac =? 0) &&
  match ac_interval ac with Once => true | _ => ac_start ac <=? ac_end ac end.

(* only income/expense postings are spread over the window *)
Definition books_IE (t : stxn) : bool :=
  existsb (fun b => is_IE (b_credit b) || is_IE (b_debit b)) (st_bookings t).

Definition sdirective_ok (d : sdirective) : bool :=
  match d with
  | STxn t => match st_accrual t with
              | Some ac => negb (books_IE t) || accrual_window_ok ac
              | None => true
              end
  | _ => true
  end.

Definition accruals_ok (ds : list sdirective) : bool := forallb sdirective_ok ds.

(* the date of the earliest transaction (after accrual expansion); 9999-12-31 if there is none *)
Definition first_txn_date (l : list directive) : Z :=
  fold_left (fun m d => match d with DTxn t => Z.min m (t_date t) | _ => m end) l max_date.

(* the start of the reporting window: the later of --from (day 0 when absent) and the first
   transaction *)
Definition window_start (from : Z) (l : list directive) : Z := Z.max from (first_txn_date l).

Definition window_start_ok (cfg : balance_cfg) (ds : list sdirective) : bool :=
  match parse_directives ds with
  | MOk l => negb (window_start (bc_from cfg) l =? 0)
  | _ => true
  end.

Definition guards (cfg : balance_cfg) (ds : list sdirective) : bool :=
  mapping_nonneg (bc_mapping cfg) && accruals_ok ds && window_start_ok cfg ds.
