(* C13 (group A), statement level, executable: for each importer X of ch.swisscard2, ch.postfinance,
   ch.viac, ch.supercard, ch.swisscard, ch.cumulus the journal text the property prescribes for a
   well-formed statement,

     X_statement_output : <account> -> list record -> option str        (None: not well-formed)

   built from the row readings of Spec/ImpSpecA.v (X_wf_row, X_fact, X_text: what a record says),
   the realisation of a row fact as ONE booking between the import account and Expenses:TBD
   (posting.Builder: pair_build) and the shared printer (print_directives = journal.Print of the
   built journal) -- NOT from the importer models Model/Imp/*.v.  Properties/C13.v proves that the
   importer command prints exactly this text (C13_<X>_stdout); ./check C13 evaluates it on the
   records of every generated well-formed statement and compares it byte for byte with the
   standard output of the binary (drv_c13a.ml, verdict `spec`). *)
From Coq Require Import ZArith List Bool.
From Knut Require Import Model.Str Model.Dec Model.Date Model.Account Model.Ledger
     Model.ImpCommonA Spec.ImpSpecA.
Import ListNotations.
Open Scope bool_scope.

(* ---------------------------------------------------------------- a row fact as a transaction *)
(* The relation `books` leaves open which way round a booking of nothing is written and in which
   decimal form the amount appears; the executable form fixes both.

   A bank statement row (postfinance, supercard, cumulus) says by how much the account changes:
   that signed amount, as written, is booked from Expenses:TBD to the account (a negative amount is
   turned round by posting.Builder: the absolute amount from the account to Expenses:TBD). *)
Definition change_directive (acct : account) (f : row_fact) (text : str) : directive :=
  simple_txn (rf_date f) text tbd_account acct (rf_com f) (rf_amount f).

(* A card statement row (swisscard2, swisscard) says what the card account is CHARGED (a refund is
   a negative charge): the charge -- the row fact's change, negated -- is booked from the account to
   Expenses:TBD.  The two forms differ for an amount of zero only: a charge of 0 is printed as
   "account Expenses:TBD 0", a change of 0 as "Expenses:TBD account 0". *)
Definition charge_directive (acct : account) (f : row_fact) (text : str) : directive :=
  simple_txn (rf_date f) text acct tbd_account (rf_com f) (neg (rf_amount f)).

(* two records are the same *)
Fixpoint rec_eqb (a b : list str) : bool :=
  match a, b with
  | [], [] => true
  | x :: a', y :: b' => str_eqb x y && rec_eqb a' b'
  | _, _ => false
  end.

(* the longest prefix whose elements satisfy f, and the rest *)
Fixpoint split_while {A} (f : A -> bool) (l : list A) : list A * list A :=
  match l with
  | [] => ([], [])
  | x :: t => if f x then let '(a, b) := split_while f t in (x :: a, b) else ([], l)
  end.

(* ---------------------------------------------------------------- ch.swisscard2 *)
(* the header record (not looked at), then booking rows *)
Definition sc2_statement_wf (recs : list (list str)) : bool :=
  match recs with _ :: rows => forallb sc2_wf_row rows | [] => false end.
Definition sc2_directives (acct : account) (rows : list (list str)) : list directive :=
  map (fun r => charge_directive acct (sc2_fact r) (sc2_text r)) rows.
Definition sc2_statement_output (acct : account) (recs : list (list str)) : option str :=
  if sc2_statement_wf recs then Some (print_directives (sc2_directives acct (tl recs))) else None.

(* ---------------------------------------------------------------- ch.postfinance *)
(* key/value lines (all leading records of two fields), the column header (the next record),
   booking rows (all following records of 7 or 8 fields), one further record, disclaimer lines *)
Definition pf_parts (recs : list (list str))
  : option (list (list str) * list str * list (list str) * list str * list (list str)) :=
  let '(kvs, r1) := split_while pf_is_kv recs in
  match r1 with
  | [] => None
  | header :: r2 =>
    let '(rows, r3) := split_while pf_is_row r2 in
    match r3 with
    | [] => None
    | d1 :: ds => Some (kvs, header, rows, d1, ds)
    end
  end.
Definition pf_statement_wf (recs : list (list str)) : bool :=
  match pf_parts recs with
  | None => false
  | Some (kvs, _, rows, _, ds) =>
    valid_name (pf_header_currency kvs s_CHF) && forallb pf_wf_row rows && forallb (fun r => len_is r 1) ds
  end.
Definition pf_directives (acct : account) (cur : commodity) (rows : list (list str)) : list directive :=
  map (fun r => change_directive acct (pf_fact cur r) (pf_text r)) rows.
Definition pf_statement_output (acct : account) (recs : list (list str)) : option str :=
  if pf_statement_wf recs then
    match pf_parts recs with
    | Some (kvs, _, rows, _, _) => Some (print_directives (pf_directives acct (pf_header_currency kvs s_CHF) rows))
    | None => None
    end
  else None.
(* the record after the booking rows (the pinned code printed it: F13) *)
Definition pf_after_rows (recs : list (list str)) : list str :=
  match pf_parts recs with Some (_, _, _, d1, _) => d1 | None => [] end.

(* ---------------------------------------------------------------- ch.viac *)
(* the decoded dailyWealth entries; from: the day of --from (0 without the flag) *)
Definition viac_statement_wf (from : option str) (l : list (str * str)) : bool :=
  match from with None => true | Some f => is_some (parse_iso f) end && forallb viac_wf_entry l.
Definition viac_statement_output (com : commodity) (from : option str) (l : list (str * str)) : option str :=
  if viac_statement_wf from l then
    let fr := match from with None => 0%Z | Some f => date_or0 (parse_iso f) end in
    Some (print_directives (map (price_of com s_CHF) (viac_prices fr l)))
  else None.

(* ---------------------------------------------------------------- ch.supercard *)
(* the line "sep=;" (read as two fields), the column header (not looked at), then rows *)
Definition sup_statement_wf (recs : list (list str)) : bool :=
  match recs with
  | first :: _ :: rows => rec_eqb first sup_first && forallb sup_wf_row rows
  | _ => false
  end.
Definition sup_directives (acct : account) (rows : list (list str)) : list directive :=
  map (fun r => change_directive acct (sup_fact r) (sup_text r)) (filter sup_is_booking rows).
Definition sup_statement_output (acct : account) (recs : list (list str)) : option str :=
  if sup_statement_wf recs then Some (print_directives (sup_directives acct (tl (tl recs)))) else None.

(* ---------------------------------------------------------------- ch.swisscard *)
(* every record is a row: a booking row or an ignored one (the header) *)
Definition sc_statement_wf (recs : list (list str)) : bool := forallb sc_wf_row recs.
Definition sc_directives (acct : account) (rows : list (list str)) : list directive :=
  map (fun r => charge_directive acct (sc_fact r) (sc_text r)) (filter sc_is_booking rows).
Definition sc_statement_output (acct : account) (recs : list (list str)) : option str :=
  if sc_statement_wf recs then Some (print_directives (sc_directives acct recs)) else None.

(* ---------------------------------------------------------------- ch.cumulus *)
(* The records of a statement are read as entries (Spec/ImpSpecA.v cum_entry), from the last record
   to the first: a comment row (only the third of five fields filled) belongs to the booking or
   rounding row before it; any other record is a booking row, a rounding row or an ignored record,
   whichever it is well-formed as (an ignored record cannot have comment rows).  The first
   component: the comment rows not yet attached to a row. *)
Fixpoint cum_parse (recs : list (list str)) : option (list str * list cum_entry) :=
  match recs with
  | [] => Some ([], [])
  | r :: rest =>
    match cum_parse rest with
    | None => None
    | Some (cs, es) =>
      if cum_is_comment r then Some (field r 2 :: cs, es)
      else if cum_wf_entry (CumBooking r cs) then Some ([], CumBooking r cs :: es)
      else if cum_wf_entry (CumRounding r cs) then Some ([], CumRounding r cs :: es)
      else match cs with
           | [] => if cum_wf_entry (CumIgnored r) then Some ([], CumIgnored r :: es) else None
           | _ :: _ => None
           end
    end
  end.
(* a statement does not begin with a comment row *)
Definition cum_entries (recs : list (list str)) : option (list cum_entry) :=
  match cum_parse recs with Some ([], es) => Some es | _ => None end.
Definition cum_statement_wf (recs : list (list str)) : bool := is_some (cum_entries recs).
Definition cum_entry_directives (acct : account) (e : cum_entry) : list directive :=
  map (fun ft => change_directive acct (fst ft) (snd ft)) (combine (cum_facts e) (cum_texts e)).
Definition cum_statement_output (acct : account) (recs : list (list str)) : option str :=
  match cum_entries recs with
  | Some es => Some (print_directives (flat_map (cum_entry_directives acct) es))
  | None => None
  end.
