(* C02: the unvalued balance report as an independent ledger computation.
   From the flat list of dated postings (after accrual expansion) the expected CSV rows are
   computed in closed form: no days, no stateful processors, no report tree, no renderer.
   Only the vocabulary is shared with the model: accounts, decimals (exact add), the mapping
   functions shorten/remap, the regular-expression subset, and the partition of C11. *)
From Coq Require Import ZArith List Bool.
From Knut Require Import Model.Str Model.Dec Model.Date Model.Account Model.Ledger Model.Report Model.Cli.
Import ListNotations.
Open Scope bool_scope.
Open Scope Z_scope.

Definition flat_postings (ds : list directive) : list (Z * posting) :=
  concat (map (fun d => match d with DTxn t => map (fun p => (t_date t, p)) (t_postings t) | _ => [] end) ds).

Definition dsum (l : list dec) : dec := fold_left add l dec_nil.

(* journal period: earliest transaction date .. latest transaction or price date, with the
   builder's initial values when there is none *)
Definition journal_period (ds : list directive) : period :=
  let tdates := concat (map (fun d => match d with DTxn t => [t_date t] | _ => [] end) ds) in
  let pdates := concat (map (fun d => match d with DPrice dt _ _ _ => [dt] | _ => [] end) ds) in
  mkPeriod (fold_left Z.min tdates (of_civil 9999 12 31)) (fold_left Z.max (tdates ++ pdates) 0).

Definition closable (a : account) : bool := negb (is_AL a) && negb (acc_eqb a [s_Equity; s_Equity]).

(* an entry of the ledger: column (period end), account, commodity, amount *)
Definition entry := (Z * account * commodity * dec)%type.

(* the period end a date is shown under: the period containing it, or the first shown period
   for earlier dates; None after the last period *)
Fixpoint column_for (ps : list period) (d : Z) : option Z :=
  match ps with
  | [] => None
  | p :: rest => if d <=? p_end p then Some (p_end p) else column_for rest d
  end.

Definition user_entries (span : period) (ps : list period) (posts : list (Z * posting)) : list entry :=
  concat (map (fun dp =>
    let '(d, p) := dp in
    if (p_start span <=? d) && (d <=? p_end span) then
      match column_for ps d with Some e => [(e, p_acc p, p_com p, p_qty p)] | None => [] end
    else []) posts).

(* distinct (account, commodity) pairs among the closable accounts *)
Fixpoint add_key (k : account * commodity) (l : list (account * commodity)) : list (account * commodity) :=
  match l with
  | [] => [k]
  | x :: rest => if acc_eqb (fst k) (fst x) && str_eqb (snd k) (snd x) then l else x :: add_key k rest
  end.

Definition closable_keys (span : period) (posts : list (Z * posting)) : list (account * commodity) :=
  fold_left (fun l dp =>
    let '(d, p) := dp in
    if (p_start span <=? d) && (d <=? p_end span) && closable (p_acc p) then add_key (p_acc p, p_com p) l else l)
    posts [].

Definition sum_between (posts : list (Z * posting)) (k : account * commodity) (lo hi : Z) : dec :=
  dsum (concat (map (fun dp =>
    let '(d, p) := dp in
    if (lo <=? d) && (d <=? hi) && acc_eqb (p_acc p) (fst k) && str_eqb (p_com p) (snd k) then [p_qty p] else []) posts)).

(* at the start S of every shown period the closable accounts are emptied into Equity:Equity:
   what they accumulated since the previous period start (since the window start for the first) *)
Fixpoint closing_entries (posts : list (Z * posting)) (keys : list (account * commodity)) (prev : Z) (ps : list period) : list entry :=
  match ps with
  | [] => []
  | p :: rest =>
    concat (map (fun k =>
      let acc := sum_between posts k prev (p_start p - 1) in
      if is_zero acc then []
      else [(p_end p, fst k, snd k, neg acc); (p_end p, [s_Equity; s_Equity], snd k, acc)]) keys)
    ++ closing_entries posts keys (p_start p) rest
  end.

Definition cfg_where (cfg : balance_cfg) (a : account) (c : commodity) : bool :=
  (match bc_accounts cfg with [] => true | rs => rxs_match rs (acc_name a) end)
  && (match bc_commodities cfg with [] => true | rs => rxs_match rs c end).

(* filters and mappings act on each entry separately *)
Definition mapped_entries (cfg : balance_cfg) (es : list entry) : list entry :=
  concat (map (fun e =>
    let '(col, a, c, v) := e in
    if cfg_where cfg a c then
      match shorten (bc_mapping cfg) (remap (bc_remap cfg) a) with
      | ShAcc a' => [(col, a', c, v)]
      | _ => []
      end
    else []) es).

(* ---------------------------------------------------------------- presentation *)

Fixpoint prefixes_from (acc : list str) (rest : list str) : list account :=
  match rest with
  | [] => []
  | s :: t => (acc ++ [s]) :: prefixes_from (acc ++ [s]) t
  end.

Fixpoint path_cmp (a b : list str) : comparison :=
  match a, b with
  | [], [] => Eq
  | [], _ => Lt
  | _, [] => Gt
  | x :: a', y :: b' => match str_cmp x y with Eq => path_cmp a' b' | c => c end
  end.

(* depth-first order of the report: top level by account type, below by segment name *)
Definition row_ltb (a b : account) : bool :=
  if acc_rank a <? acc_rank b then true
  else if acc_rank b <? acc_rank a then false
  else match path_cmp a b with Lt => true | _ => false end.

Fixpoint insert_row (r : account) (l : list account) : list account :=
  match l with
  | [] => [r]
  | x :: rest => if row_ltb r x then r :: l else if row_ltb x r then x :: insert_row r rest else l
  end.

Definition all_rows (es : list entry) : list account :=
  fold_left (fun l e => let '(_, a, _, _) := e in fold_left (fun l r => insert_row r l) (prefixes_from [] a) l) es [].

Fixpoint insert_com (c : commodity) (l : list commodity) : list commodity :=
  match l with
  | [] => [c]
  | x :: rest => match str_cmp c x with Eq => l | Lt => c :: l | Gt => x :: insert_com c rest end
  end.

Definition period_amount (es : list entry) (sel : account -> bool) (c : commodity) (col : Z) : dec :=
  dsum (concat (map (fun e => let '(col', a, c', v) := e in
                     if (col' =? col) && sel a && str_eqb c' c then [v] else []) es)).

(* commodities that have a non-zero amount in at least one column *)
Definition shown_commodities (es : list entry) (sel : account -> bool) (cols : list Z) : list commodity :=
  fold_left (fun l e => let '(_, a, c, _) := e in
              if sel a && existsb (fun col => negb (is_zero (period_amount es sel c col))) cols
              then insert_com c l else l) es [].

Fixpoint cells (diff negate : bool) (es : list entry) (sel : account -> bool) (c : commodity) (cols : list Z) (total : dec) : list str :=
  match cols with
  | [] => []
  | col :: rest =>
    let v := period_amount es sel c col in
    let total' := add total v in
    let shown := if diff then v else total' in
    to_string (if negate then neg shown else shown) :: cells diff negate es sel c rest total'
  end.

Definition lines_for (diff negate : bool) (es : list entry) (sel : account -> bool) (name : str) (cols : list Z) : list (list str) :=
  match shown_commodities es sel cols with
  | [] => [name :: ([] : str) :: map (fun _ => ([] : str)) cols]
  | coms => map (fun ic : bool * commodity => (if fst ic then name else []) :: snd ic :: cells diff negate es sel (snd ic) cols dec_nil)
                (combine (true :: map (fun _ => false) coms) coms)
  end.

Definition last_seg (a : account) : str := last a [].

Definition header_row (cols : list Z) : list str := s_Account :: s_Comm :: map format_date cols.

Definition is_AL_entry (e : entry) : bool := let '(_, a, _, _) := e in is_AL a.

Fixpoint union_com (a b : list commodity) : list commodity :=
  match a with [] => b | c :: rest => insert_com c (union_com rest b) end.

Definition delta_lines (diff : bool) (al eie : list entry) (cols : list Z) : list (list str) :=
  let all_sel := fun _ : account => true in
  match union_com (shown_commodities al all_sel cols) (shown_commodities eie all_sel cols) with
  | [] => [s_Delta :: ([] : str) :: map (fun _ => ([] : str)) cols]
  | coms => map (fun ic : bool * commodity => (if fst ic then s_Delta else []) :: snd ic
                           :: cells diff false (al ++ eie) all_sel (snd ic) cols dec_nil)
                (combine (true :: map (fun _ => false) coms) coms)
  end.

(* the expected CSV rows of `knut balance --csv -a` without valuation; None when the window's
   start is the zero time (the command does not produce a report then, see C14) *)
Definition ledger_csv (cfg : balance_cfg) (ds : list directive) : option (list (list str)) :=
  match bc_valuation cfg with
  | Some _ => None
  | None =>
    match new_partition (clip (mkPeriod (bc_from cfg) (bc_to cfg)) (journal_period ds)) (bc_interval cfg) (bc_last cfg) with
    | POk part =>
      let sp := span part in
      let ps := periods part in
      let cols := map p_end ps in
      let posts := flat_postings ds in
      let raw := user_entries sp ps posts ++
                 (if bc_close cfg then closing_entries posts (closable_keys sp posts) (p_start sp) ps else []) in
      let es := mapped_entries cfg raw in
      let al := filter is_AL_entry es in
      let eie := filter (fun e => negb (is_AL_entry e)) es in
      let all_sel := fun _ : account => true in
      let diff := bc_diff cfg in
      Some (header_row cols ::
            concat (map (fun r => lines_for diff false al (acc_eqb r) (last_seg r) cols) (all_rows al)) ++
            lines_for diff false al all_sel s_TotalAL cols ++
            concat (map (fun r => lines_for diff true eie (acc_eqb r) (last_seg r) cols) (all_rows eie)) ++
            lines_for diff true eie all_sel s_TotalEIE cols ++
            delta_lines diff al eie cols)
    | _ => None
    end
  end.

(* every row the independent computation lists is an account with a booking passing the
   filters inside the window, or a parent of one (by construction of all_rows) *)
Definition ledger_row (cfg : balance_cfg) (ds : list directive) (r : account) : Prop :=
  match new_partition (clip (mkPeriod (bc_from cfg) (bc_to cfg)) (journal_period ds)) (bc_interval cfg) (bc_last cfg) with
  | POk part =>
    exists e, In e (mapped_entries cfg (user_entries (span part) (periods part) (flat_postings ds) ++
                   (if bc_close cfg then closing_entries (flat_postings ds) (closable_keys (span part) (flat_postings ds)) (p_start (span part)) (periods part) else [])))
              /\ let '(_, a, _, _) := e in In r (prefixes_from [] a)
  | _ => False
  end.
