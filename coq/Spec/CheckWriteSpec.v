(* Specification vocabulary for `knut check --write` (C04w): which assertions the command is to
   print, in the words of Spec/WellformedSpec.v -- the canonical event sequence of the journal
   and its history functions.  Independent of the checker's state (Model/Check.v) and of the
   processor (Model/CheckWrite.v).

   At the end of every day [dt] of the journal (every date that occurs, also one that has prices
   only), with [pre] the events of the canonical sequence up to and including that day:
   - a position (account a, commodity c) is *live* when a is an asset or liability account and
     a was booked in c after its last close (closing an account forgets its positions; a
     position that was booked stays, also when its quantity is back to zero);
   - the command prints, in date order, one assertion per day that has a live position; the
     assertion lists every live position exactly once, ordered by account (type, name) and
     commodity, with a quantity equal in value to [quantity pre a c]. *)
From Coq Require Import ZArith List Bool Sorting.Sorted.
From Knut Require Import Model.Str Model.Dec Model.Account Model.Ledger Spec.WellformedSpec.
Import ListNotations.
Open Scope bool_scope.
Open Scope Z_scope.

(* the canonical sequence up to and including the day [dt] *)
Definition days_upto (ds : list directive) (dt : Z) : list Z := filter (fun x => x <=? dt) (dates ds).
Definition events_upto (ds : list directive) (dt : Z) : list event :=
  flat_map events_of (flat_map (of_day ds) (days_upto ds dt)).

(* booked after the last close *)
Definition live_step (a : account) (c : commodity) (l : bool) (e : event) : bool :=
  match e with
  | EPost a' c' _ => if same_acc a a' && same_com c c' then true else l
  | EClose a' => if same_acc a a' then false else l
  | _ => l
  end.
Definition live (pre : list event) (a : account) (c : commodity) : bool :=
  is_AL a && fold_left (live_step a c) pre false.

(* the order of the printed balance lines: account.Compare (type rank, then name), then the
   commodity name; strict *)
Definition pos_ltb (x y : balance) : bool :=
  if acc_ltb (bal_acc x) (bal_acc y) then true
  else if acc_ltb (bal_acc y) (bal_acc x) then false
  else str_ltb (bal_com x) (bal_com y).

Definition wassertions := list (Z * list balance).

Definition asserted (W : wassertions) (dt : Z) (a : account) (c : commodity) (q : dec) : Prop :=
  exists bs, In (dt, bs) W /\ In (mkBalance a q c) bs.

Record write_spec (ds : list directive) (W : wassertions) : Prop := mkWriteSpec {
  (* one assertion per day at most, in date order, only on days of the journal, never empty *)
  ws_dates : StronglySorted Z.lt (map fst W);
  ws_days : forall dt bs, In (dt, bs) W -> In dt (dates ds) /\ bs <> [];
  (* the lines of an assertion are strictly ordered: no position twice *)
  ws_sorted : forall dt bs, In (dt, bs) W -> StronglySorted (fun x y => pos_ltb x y = true) bs;
  (* every line is a live position with its running quantity *)
  ws_sound : forall dt a c q, asserted W dt a c q ->
    live (events_upto ds dt) a c = true /\ dec_equal (quantity (events_upto ds dt) a c) q = true;
  (* every live position of every day is asserted *)
  ws_complete : forall dt a c, In dt (dates ds) -> live (events_upto ds dt) a c = true ->
    exists q, asserted W dt a c q }.

(* ------------------------------------------------------------------ executable version *)

Definition posted_positions (pre : list event) : list (account * commodity) :=
  flat_map (fun e => match e with EPost a c _ => [(a, c)] | _ => [] end) pre.

Fixpoint sorted_by {A} (lt : A -> A -> bool) (l : list A) : bool :=
  match l with
  | [] => true
  | x :: rest => forallb (lt x) rest && sorted_by lt rest
  end.

Definition in_dates (dt : Z) (l : list Z) : bool := existsb (Z.eqb dt) l.

Definition ws_dates_b (W : wassertions) : bool := sorted_by Z.ltb (map fst W).
Definition ws_days_b (ds : list directive) (W : wassertions) : bool :=
  forallb (fun w => in_dates (fst w) (dates ds) && match snd w with [] => false | _ => true end) W.
Definition ws_sorted_b (W : wassertions) : bool := forallb (fun w => sorted_by pos_ltb (snd w)) W.

Definition line_ok_b (ds : list directive) (dt : Z) (b : balance) : bool :=
  let pre := events_upto ds dt in
  live pre (bal_acc b) (bal_com b) && dec_equal (quantity pre (bal_acc b) (bal_com b)) (bal_qty b).
Definition ws_sound_b (ds : list directive) (W : wassertions) : bool :=
  forallb (fun w => forallb (line_ok_b ds (fst w)) (snd w)) W.

Definition asserted_b (W : wassertions) (dt : Z) (a : account) (c : commodity) : bool :=
  existsb (fun w => (fst w =? dt) && existsb (fun b => same_acc a (bal_acc b) && same_com c (bal_com b)) (snd w)) W.
Definition ws_complete_b (ds : list directive) (W : wassertions) : bool :=
  forallb (fun dt => let pre := events_upto ds dt in
             forallb (fun p => negb (live pre (fst p) (snd p)) || asserted_b W dt (fst p) (snd p))
                     (posted_positions pre))
          (dates ds).

Definition write_spec_b (ds : list directive) (W : wassertions) : bool :=
  ws_dates_b W && ws_days_b ds W && ws_sorted_b W && ws_sound_b ds W && ws_complete_b ds W.

(* the first line that is not a live position with its running quantity (for the diagnostic) *)
Definition first_bad_line (ds : list directive) (W : wassertions) : option (Z * balance) :=
  fold_right (fun w acc =>
    match find (fun b => negb (line_ok_b ds (fst w) b)) (snd w) with
    | Some b => Some (fst w, b)
    | None => acc
    end) None W.

(* the first live position that no line asserts *)
Definition first_missing (ds : list directive) (W : wassertions) : option (Z * account * commodity) :=
  fold_right (fun dt acc =>
    let pre := events_upto ds dt in
    match find (fun p => live pre (fst p) (snd p) && negb (asserted_b W dt (fst p) (snd p))) (posted_positions pre) with
    | Some p => Some (dt, fst p, snd p)
    | None => acc
    end) None (dates ds).

(* the syntax-level directives read back from the printed text must be assertions only *)
Fixpoint assertions_only (l : list sdirective) : option wassertions :=
  match l with
  | [] => Some []
  | SAssert dt bs :: rest => match assertions_only rest with Some r => Some ((dt, bs) :: r) | None => None end
  | _ => None
  end.
