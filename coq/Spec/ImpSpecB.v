(* C13 specification vocabulary (group B importers: revolut2, revolut, wise, swissquote,
   interactivebrokers), independent of the importer models: what a statement row says (date,
   signed changes of the import account, the bookings it stands for), and what it means for a
   transaction to book a row.  The per-importer readings (X_wf_row, X_fact, X_legs, X_text) are
   executable. *)
From Coq Require Import ZArith QArith List Bool.
From Knut Require Import Model.Str Model.Dec Model.Date Model.Account Model.Ledger Proofs.DecValue
     Model.ImpCommonA Model.ImpCommonB Spec.ImpSpecA.
Import ListNotations.
Open Scope bool_scope.

(* what a row says: its date and the signed changes of the account the statement is about, each
   in a commodity (one change for a payment; two for a currency exchange or a security trade) *)
Record row_effect := mkEffect { re_date : Z; re_changes : list (commodity * dec) }.

(* the change the row implies in commodity c: the sum of its changes in c *)
Definition expected (chs : list (commodity * dec)) (c : commodity) : Q :=
  fold_right (fun x s => ((if str_eq_dec (fst x) c then dvalue (snd x) else 0) + s)%Q) 0%Q chs.

(* a booking [leg]: quantity l_qty of l_com moves from l_credit to l_debit; as postings: *)
Definition booking_postings (l : leg) : list posting :=
  pair_build (l_credit l) (l_debit l) (l_com l) (l_qty l) dec_nil.

(* the transaction consists of exactly these bookings, in this order *)
Definition consists_of (t : txn) (ls : list leg) : Prop :=
  t_postings t = concat (map booking_postings ls).

(* the transaction books the row: it is dated on the row's date, consists of exactly the row's
   bookings, changes the import account by the row's signed change in every commodity (hence by
   nothing in a commodity the row does not mention), and carries the given performance
   annotation *)
Definition books_b (acct : account) (f : row_effect) (ls : list leg) (tg : option (list commodity)) (t : txn) : Prop :=
  t_date t = re_date f /\
  consists_of t ls /\
  (forall c, effect acct c t == expected (re_changes f) c) /\
  t_targets t = tg.

(* a balance assertion the statement carries *)
Record balance_fact := mkBalFact { bf_date : Z; bf_com : commodity; bf_qty : dec }.
Definition assertion_of (acct : account) (b : balance_fact) : directive :=
  DAssert (bf_date b) [mkBalance acct (bf_qty b) (bf_com b)].

Definition opt_or {A} (o : option A) (d : A) : A := match o with Some x => x | None => d end.

(* ---- revolut2: Type, Product, Started Date, Completed Date, Description, Amount, Fee, Currency,
   State, Balance.  A row without Completed Date (a pending card payment) is not a booking.  A
   booking row is dated on the day of its Completed Date (its first ten bytes, yyyy-mm-dd); the
   account changes by Amount (signed) less Fee, in Currency; Balance is the balance of that
   currency after the row. *)
Definition r2_is_booking (r : list str) : bool := negb (is_empty (field r 3)).
Definition r2_date (r : list str) : Z := date_or0 (parse_iso (firstn 10 (field r 3))).
Definition r2_cur (r : list str) : commodity := field r 7.
Definition r2_amount (r : list str) : dec := dec_or0 (new_from_string (field r 5)).
Definition r2_fee (r : list str) : dec := dec_or0 (new_from_string (field r 6)).
Definition r2_balance (r : list str) : dec := dec_or0 (new_from_string (field r 9)).
Definition r2_wf_row (r : list str) : bool :=
  len_is r 10 &&
  (is_empty (field r 3) ||
   (Nat.leb 10 (length (field r 3)) && is_some (parse_iso (firstn 10 (field r 3))) && valid_name (field r 7) &&
    is_some (new_from_string (field r 5)) && is_some (new_from_string (field r 6)) &&
    is_some (new_from_string (field r 9)))).
Definition r2_fact (r : list str) : row_effect :=
  mkEffect (r2_date r) [(r2_cur r, sub (r2_amount r) (r2_fee r))].
(* Amount arrives from Expenses:TBD; a non-zero Fee leaves for the fee account *)
Definition r2_legs (acct feeacct : account) (r : list str) : list leg :=
  mkLeg tbd_account acct (r2_cur r) (r2_amount r) ::
  (if is_zero (r2_fee r) then [] else [mkLeg acct feeacct (r2_cur r) (r2_fee r)]).
Definition r2_text (r : list str) : str := field r 4.

(* the statement's closing balance of day d in currency c: the Balance of the last booking row
   of that day and currency *)
Definition r2_key_of (r : list str) : Z * commodity := (r2_date r, r2_cur r).
Definition key_eq_dec : forall a b : Z * commodity, {a = b} + {a <> b}.
Proof. decide equality; [apply str_eq_dec|apply Z.eq_dec]. Defined.
Fixpoint r2_closing (k : Z * commodity) (rows : list (list str)) : option dec :=
  match rows with
  | [] => None
  | r :: rest =>
    match r2_closing k rest with
    | Some v => Some v
    | None => if r2_is_booking r then (if key_eq_dec (r2_key_of r) k then Some (r2_balance r) else None) else None
    end
  end.

(* ---- revolut (older export): Completed Date, Reference, Paid Out (CUR), Paid In (CUR), Exchange
   Out, Exchange In, Balance (CUR), Exchange Rate, Category; the statement's currency CUR is
   named by the header.  Exactly one of Paid Out / Paid In is filled: the account changes by
   +Paid In resp. -Paid Out in CUR.  A row whose Reference contains "Sold X to Y" (X, Y capitals)
   is a currency sale: the account also receives the amount of Exchange Out ("<currency>
   <amount>"); one whose Reference contains "Bought X from Y" a purchase: the account also gives
   the amount of Exchange In.  Both are booked against the valuation account of the import account
   (Income:<rest>), every other row against Expenses:TBD.  Balance (CUR) is the balance after the
   row. *)
Inductive rv_kind_t := RvPlain | RvSell | RvBuy.
Definition rv_kind (r : list str) : rv_kind_t :=
  if rx_anywhere (rx_two_caps_here [83;111;108;100;32]%Z [32;116;111;32]%Z) (field r 1) then RvSell
  else if rx_anywhere (rx_two_caps_here [66;111;117;103;104;116;32]%Z [32;102;114;111;109;32]%Z) (field r 1) then RvBuy
  else RvPlain.
Definition rv_dec (s : str) : option dec := new_from_string (remove_byte 39 s).
Definition rv_other (f : str) : option (commodity * dec) :=
  match ufields f with
  | [c; a] => if valid_name c then match rv_dec a with Some q => Some (c, q) | None => None end else None
  | _ => None
  end.
Definition rv_exchange (r : list str) : option (commodity * dec) :=
  match rv_kind r with
  | RvPlain => None
  | RvSell => rv_other (field r 4)
  | RvBuy => match rv_other (field r 5) with Some (c, q) => Some (c, neg q) | None => None end
  end.
Definition rv_date (r : list str) : Z := date_or0 (parse_d_mon_y (field r 0)).
Definition rv_signed (r : list str) : dec :=
  if is_empty (field r 2) then dec_or0 (rv_dec (field r 3)) else neg (dec_or0 (rv_dec (field r 2))).
Definition rv_balance (r : list str) : dec := dec_or0 (rv_dec (field r 6)).
Definition rv_wf_row (r : list str) : bool :=
  len_is r 9 && is_some (parse_d_mon_y (field r 0)) && is_some (rv_dec (field r 6)) &&
  xorb (is_empty (field r 2)) (is_empty (field r 3)) &&
  is_some (rv_dec (if is_empty (field r 2) then field r 3 else field r 2)) &&
  match rv_kind r with RvPlain => true | _ => is_some (rv_exchange r) end.
Definition rv_fact (cur : commodity) (r : list str) : row_effect :=
  mkEffect (rv_date r) ((cur, rv_signed r) :: match rv_exchange r with Some x => [x] | None => [] end).
Definition rv_legs (acct : account) (cur : commodity) (r : list str) : list leg :=
  match rv_exchange r with
  | None => [mkLeg tbd_account acct cur (rv_signed r)]
  | Some (c, q) => [mkLeg (valuation_account_for acct) acct cur (rv_signed r);
                    mkLeg (valuation_account_for acct) acct c q]
  end.
Definition rv_text (r : list str) : str :=
  trim_space (collapse_ws false (join [32%Z] [field r 1; field r 7; field r 8])).

(* the shape of the output: the transaction of each row, preceded by an assertion of the row's
   Balance exactly when the row's date differs from the date of the row before it (for the first
   row: from 1 January of year 1, Go's zero time) *)
Fixpoint rv_weave (acct : account) (cur : commodity) (prev : Z) (rows : list (list str)) (ts : list txn) : list directive :=
  match rows, ts with
  | r :: rows', t :: ts' =>
    (if Z.eqb (rv_date r) prev then [] else [assertion_of acct (mkBalFact (rv_date r) cur (rv_balance r))]) ++
    DTxn t :: rv_weave acct cur (rv_date r) rows' ts'
  | _, _ => []
  end.

(* ---- com.wise: ID, Status, Direction, Created on, Finished on, Source fee amount, Source fee
   currency, Target fee amount, Target fee currency, Source name, Source amount (after fees),
   Source currency, Target name, Target amount (after fees), Target currency, Exchange rate,
   Reference, Batch.  A CANCELLED row is not a booking.  Direction OUT: the source amount leaves
   the account; IN: it arrives; NEUTRAL: money moves between the owner's balances.  Fees (each
   fee column pair with a currency and a non-zero amount) leave the account for the fee account.
   When source and target currency differ the source amount is converted into the target amount
   (against the trading account) and, for OUT, the target amount then leaves the account.
   A row thus stands for zero, one or two entries (ws_entries). *)
Definition ws_cancelled (r : list str) : bool := str_eqb (field r 1) [67;65;78;67;69;76;76;69;68]%Z.
Inductive ws_dir_t := WsOut | WsIn | WsNeutral | WsOther.
Definition ws_dir_of (r : list str) : ws_dir_t :=
  if str_eqb (field r 2) [79;85;84]%Z then WsOut
  else if str_eqb (field r 2) [73;78]%Z then WsIn
  else if str_eqb (field r 2) [78;69;85;84;82;65;76]%Z then WsNeutral else WsOther.
Definition ws_date (r : list str) : Z := date_or0 (parse_iso (firstn 10 (field r 3))).
Definition ws_fee_of (amount currency : str) : list (commodity * dec) :=
  if is_empty currency then []
  else let q := dec_or0 (new_from_string amount) in if is_zero q then [] else [(currency, q)].
Definition ws_fee_ok (amount currency : str) : bool :=
  is_empty currency ||
  (is_some (new_from_string amount) && (is_zero (dec_or0 (new_from_string amount)) || valid_name currency)).
Definition ws_fees (r : list str) : list (commodity * dec) :=
  ws_fee_of (field r 5) (field r 6) ++ ws_fee_of (field r 7) (field r 8).
Definition ws_src (r : list str) : dec := dec_or0 (new_from_string (field r 10)).
Definition ws_tgt (r : list str) : dec := dec_or0 (new_from_string (field r 13)).
Definition ws_scur (r : list str) : commodity := field r 11.
Definition ws_tcur (r : list str) : commodity := field r 14.
Definition ws_converted (r : list str) : bool := negb (str_eqb (ws_scur r) (ws_tcur r)).
Definition ws_wf_row (r : list str) : bool :=
  len_is r 18 && Nat.leb 10 (length (field r 3)) && is_some (parse_iso (firstn 10 (field r 3))) &&
  (ws_cancelled r ||
   (ws_fee_ok (field r 5) (field r 6) && ws_fee_ok (field r 7) (field r 8) &&
    is_some (new_from_string (field r 10)) && is_some (new_from_string (field r 13)) &&
    valid_name (ws_scur r) && valid_name (ws_tcur r) &&
    match ws_dir_of r with WsOther => false | _ => true end)).
Definition ws_id_text (r : list str) : str := map (fun c => if (c =? 45)%Z || (c =? 95)%Z then 32%Z else c) (field r 0).
Definition ws_text_payment (r : list str) : str := ws_id_text r ++ [32;47;32]%Z ++ field r 12.
Definition ws_text_convert (r : list str) : str :=
  ws_id_text r ++ [32;47;32;99;111;110;118;101;114;116;32]%Z ++ to_string (ws_src r) ++ [32%Z] ++ ws_scur r ++
  [32;116;111;32]%Z ++ to_string (ws_tgt r) ++ [32%Z] ++ ws_tcur r.

Record entry := mkEntry { en_fact : row_effect; en_legs : list leg; en_text : str }.

(* [repaired] selects the reading of "IN with conversion": false = what the code does (the
   account receives the target amount a second time), true = the account receives the source
   amount, which the conversion turns into the target amount *)
Definition ws_entries (repaired : bool) (acct feeacct trading : account) (r : list str) : list entry :=
  if ws_cancelled r then []
  else
    let d := ws_date r in
    let fee_legs := map (fun f => mkLeg acct feeacct (fst f) (snd f)) (ws_fees r) in
    let fee_changes := map (fun f => (fst f, neg (snd f))) (ws_fees r) in
    if ws_converted r then
      let conv := mkEntry (mkEffect d (fee_changes ++ [(ws_scur r, neg (ws_src r)); (ws_tcur r, ws_tgt r)]))
                          (fee_legs ++ [mkLeg acct trading (ws_scur r) (ws_src r); mkLeg trading acct (ws_tcur r) (ws_tgt r)])
                          (ws_text_convert r) in
      match ws_dir_of r with
      | WsOut => [conv; mkEntry (mkEffect d [(ws_tcur r, neg (ws_tgt r))]) [mkLeg acct tbd_account (ws_tcur r) (ws_tgt r)] (ws_text_payment r)]
      | WsIn => [conv; if repaired
                       then mkEntry (mkEffect d [(ws_scur r, ws_src r)]) [mkLeg tbd_account acct (ws_scur r) (ws_src r)] (ws_text_payment r)
                       else mkEntry (mkEffect d [(ws_tcur r, ws_tgt r)]) [mkLeg tbd_account acct (ws_tcur r) (ws_tgt r)] (ws_text_payment r)]
      | WsNeutral => [conv]
      | WsOther => []
      end
    else
      match ws_dir_of r with
      | WsOut => [mkEntry (mkEffect d (fee_changes ++ [(ws_scur r, neg (ws_src r))]))
                          (fee_legs ++ [mkLeg acct tbd_account (ws_scur r) (ws_src r)]) (ws_text_payment r)]
      | WsIn => [mkEntry (mkEffect d (fee_changes ++ [(ws_scur r, ws_src r)]))
                         (fee_legs ++ [mkLeg tbd_account acct (ws_scur r) (ws_src r)]) (ws_text_payment r)]
      | _ => []
      end.

(* what the row as a whole does to the account in commodity c: the sum over its entries *)
Definition ws_row_change (repaired : bool) (acct feeacct trading : account) (r : list str) (c : commodity) : Q :=
  fold_right (fun e s => (expected (re_changes (en_fact e)) c + s)%Q) 0%Q (ws_entries repaired acct feeacct trading r).

(* ---- ch.swissquote: Datum, Auftrag #, Transaktionen, Symbol, Name, ISIN, Anzahl, Stückpreis,
   Kosten, Aufgelaufene Zinsen, Nettobetrag, Saldo, Währung.  The kind of a row is given by
   Transaktionen.  The cash of the account changes by Nettobetrag in Währung; a purchase/sale
   also changes the holding of Symbol by Anzahl (a sale, recognised by positive proceeds
   Nettobetrag + Kosten, lowers it).  The two rows of a currency exchange (Forex-Gutschrift /
   Forex-Belastung, Fx-... Comp.) form ONE entry.  A dividend row is read as Stückpreis (gross)
   less Kosten (withholding tax). *)
Inductive sq_kind_t := SqTrade | SqForex | SqDividend | SqCustody | SqTransfer | SqInterest | SqOther.
Definition sqs_in (l : list str) (s : str) : bool := existsb (str_eqb s) l.
Definition sqs_forex : list str :=
  [[70;111;114;101;120;45;71;117;116;115;99;104;114;105;102;116]; [70;111;114;101;120;45;66;101;108;97;115;116;117;110;103];
   [70;120;45;71;117;116;115;99;104;114;105;102;116;32;67;111;109;112;46]; [70;120;45;66;101;108;97;115;116;117;110;103;32;67;111;109;112;46]]%Z.
Definition sqs_dividend : list str :=
  [[67;97;112;105;116;97;108;32;71;97;105;110]; [75;97;112;105;116;97;108;114;195;188;99;107;122;97;104;108;117;110;103];
   [68;105;118;105;100;101;110;100;101]]%Z.
Definition sqs_transfer : list str :=
  [[69;105;110;122;97;104;108;117;110;103]; [65;117;115;122;97;104;108;117;110;103];
   [86;101;114;103;195;188;116;117;110;103]; [66;101;108;97;115;116;117;110;103]]%Z.
Definition sqs_kind (r : list str) : sq_kind_t :=
  let t := field r 2 in
  if str_eqb t [75;97;117;102]%Z || str_eqb t [86;101;114;107;97;117;102]%Z then SqTrade
  else if sqs_in sqs_forex t then SqForex
  else if sqs_in sqs_dividend t then SqDividend
  else if str_eqb t [68;101;112;111;116;103;101;98;195;188;104;114;101;110]%Z then SqCustody
  else if sqs_in sqs_transfer t then SqTransfer
  else if str_eqb t [90;105;110;115]%Z then SqInterest
  else SqOther.
Definition sqs_dec (r : list str) (i : nat) : dec := dec_or0 (new_from_string (remove_byte 39 (field r i))).
Definition sqs_dec_ok (r : list str) (i : nat) : bool := is_some (new_from_string (remove_byte 39 (field r i))).
Definition sqs_date (r : list str) : Z := date_or0 (parse_dmy_dash (firstn 10 (field r 0))).
Definition sqs_cur (r : list str) : commodity := field r 12.
Definition sqs_sym (r : list str) : commodity := field r 3.
Definition sqs_net (r : list str) : dec := sqs_dec r 10.
Definition sqs_wf_row (r : list str) : bool :=
  len_is r 13 && Nat.leb 10 (length (field r 0)) && is_some (parse_dmy_dash (firstn 10 (field r 0))) &&
  (is_empty (field r 3) || valid_name (field r 3)) &&
  sqs_dec_ok r 6 && sqs_dec_ok r 7 && sqs_dec_ok r 8 && sqs_dec_ok r 9 && sqs_dec_ok r 10 && sqs_dec_ok r 11 &&
  valid_name (field r 12) &&
  match sqs_kind r with SqTrade | SqDividend => negb (is_empty (field r 3)) | _ => true end.

Definition tentry := (entry * option (list commodity))%type.   (* an entry and its performance annotation *)

Definition sqs_trade (acct fee trading : account) (r : list str) : tentry :=
  let proceeds := add (sqs_net r) (sqs_dec r 8) in
  let q := if is_pos proceeds then neg (sqs_dec r 6) else sqs_dec r 6 in
  (mkEntry (mkEffect (sqs_date r) [(sqs_sym r, q); (sqs_cur r, sqs_net r)])
           [mkLeg trading acct (sqs_sym r) q; mkLeg trading acct (sqs_cur r) proceeds; mkLeg fee acct (sqs_cur r) (neg (sqs_dec r 8))]
           (field r 1 ++ [32%Z] ++ field r 2 ++ [32%Z] ++ to_string (sqs_dec r 6) ++ [32;120;32]%Z ++ sqs_sym r ++ [32%Z] ++ field r 4 ++
            [32%Z] ++ field r 5 ++ [32;64;32]%Z ++ to_string (sqs_dec r 7) ++ [32%Z] ++ sqs_cur r),
   Some [sqs_sym r; sqs_cur r]).
(* first leg l, second leg r; dated on the second leg *)
Definition sqs_exchange (acct trading : account) (l r : list str) : tentry :=
  (mkEntry (mkEffect (sqs_date r) [(sqs_cur l, sqs_net l); (sqs_cur r, sqs_net r)])
           [mkLeg trading acct (sqs_cur l) (sqs_net l); mkLeg trading acct (sqs_cur r) (sqs_net r)]
           (field l 2 ++ [32%Z] ++ to_string (sqs_net l) ++ [32%Z] ++ sqs_cur l ++ [32;47;32]%Z ++
            field r 2 ++ [32%Z] ++ to_string (sqs_net r) ++ [32%Z] ++ sqs_cur r),
   Some [sqs_cur l; sqs_cur r]).
Definition sqs_single (acct dividend interest tax fee : account) (r : list str) : tentry :=
  let d := sqs_date r in let cur := sqs_cur r in
  match sqs_kind r with
  | SqDividend =>
    (mkEntry (mkEffect d ((cur, sqs_dec r 7) :: if is_zero (sqs_dec r 8) then [] else [(cur, neg (sqs_dec r 8))]))
             (mkLeg dividend acct cur (sqs_dec r 7) :: if is_zero (sqs_dec r 8) then [] else [mkLeg acct tax cur (sqs_dec r 8)])
             (field r 2 ++ [32%Z] ++ sqs_sym r ++ [32%Z] ++ field r 4 ++ [32%Z] ++ field r 5),
     Some [sqs_sym r])
  | SqCustody => (mkEntry (mkEffect d [(cur, sqs_net r)]) [mkLeg fee acct cur (sqs_net r)] (field r 2), Some [])
  | SqInterest => (mkEntry (mkEffect d [(cur, sqs_net r)]) [mkLeg interest acct cur (sqs_net r)] (field r 2), Some [cur])
  | _ => (mkEntry (mkEffect d [(cur, sqs_net r)]) [mkLeg tbd_account acct cur (sqs_net r)] (field r 2), None)
  end.

(* the entries of a statement; [pending] is the first row of an exchange whose second row has
   not been seen yet (a purchase/sale may stand between the two) *)
Fixpoint sqs_entries (acct dividend interest tax fee trading : account) (pending : option (list str))
         (rows : list (list str)) : list tentry :=
  match rows with
  | [] => []
  | r :: rest =>
    match sqs_kind r with
    | SqTrade => sqs_trade acct fee trading r :: sqs_entries acct dividend interest tax fee trading pending rest
    | SqForex =>
      match pending with
      | None => sqs_entries acct dividend interest tax fee trading (Some r) rest
      | Some l => sqs_exchange acct trading l r :: sqs_entries acct dividend interest tax fee trading None rest
      end
    | _ => sqs_single acct dividend interest tax fee r :: sqs_entries acct dividend interest tax fee trading None rest
    end
  end.

(* a well-formed statement: well-formed rows, exchange rows in pairs with nothing but purchases
   or sales between the two rows of a pair, no exchange left open at the end *)
Fixpoint sqs_wf (pending : bool) (rows : list (list str)) : bool :=
  match rows with
  | [] => negb pending
  | r :: rest =>
    sqs_wf_row r &&
    match sqs_kind r with
    | SqTrade => sqs_wf pending rest
    | SqForex => sqs_wf (negb pending) rest
    | _ => negb pending && sqs_wf false rest
    end
  end.

(* ---- us.interactivebrokers: an activity statement is a sequence of sections; the first field
   of a record names the section, the second is Header / Data / Total / SubTotal.  Booking rows:
     Trades,Data,Order,Stocks,<cur>,<symbol>,<date, time>,<quantity>,<price>,_,<proceeds>,<commission>,...
     Deposits & Withdrawals,Data,<cur>,<date>,<description>,<amount>
     Dividends,Data,<cur>,<date>,<description>,<amount>          (6 fields)
     Interest,Data,<cur>,<date>,<description>,<amount>           (6 fields)
     Withholding Tax,Data,<cur>,<date>,<description>,<amount>,<code>
   Amounts are signed and may carry "," as thousands separator.  ibs_num reads an amount exactly;
   the importer reads quantity, proceeds and deposit amounts ROUNDED to two places (ibs_num2). *)
Definition ibs_num (s : str) : option dec := new_from_string (remove_byte 44%Z s).
Definition ibs_num2 (s : str) : option dec := match ibs_num s with Some d => Some (round d 2) | None => None end.
(* the security a dividend / tax row is about: the first run of letters and digits of the description *)
Definition ibs_security (s : str) : str := fst (span is_alnum (drop_while (fun c => negb (is_alnum c)) s)).
