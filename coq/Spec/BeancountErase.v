(* The bridge between the model's emitted items (Model/Beancount.v bentry) and the entries the
   specification's reader produces (Spec/BeancountSpec.v sentry): what a reader sees of an item.
   Used to state the C16 theorems about the model in the specification's vocabulary, and by the
   check to test on every case that reading the model's text gives back the model's items. *)
From Coq Require Import ZArith List Bool.
From Knut Require Import Model.Str Model.Dec Model.Date Model.Account Model.Ledger Model.Journal
     Model.Beancount Spec.BeancountSpec.
Import ListNotations.
Open Scope bool_scope.
Open Scope Z_scope.

Definition erase_posting (v : commodity) (p : posting) : str * dec * str :=
  (acc_name (p_acc p), p_val p, strip_non_alphanum v).

Definition erase_entry (v : commodity) (e : bentry) : sentry :=
  match e with
  | BOpen d a => EOpen d (acc_name a)
  | BClose d a => EClose d (acc_name a)
  | BTxn t => ETxn (t_date t) (t_desc t) (map (erase_posting v) (t_postings t))
  end.

Definition erase_entries (v : commodity) (es : list bentry) : list sentry := map (erase_entry v) es.

(* equality of entries as text: amounts are compared through Decimal.String *)
Definition sposting_eqb (x y : str * dec * str) : bool :=
  str_eqb (account_of x) (account_of y) && str_eqb (to_string (amount_of x)) (to_string (amount_of y))
  && str_eqb (commodity_of x) (commodity_of y).

Fixpoint list_eqb {A} (eqb : A -> A -> bool) (a b : list A) : bool :=
  match a, b with
  | [], [] => true
  | x :: a', y :: b' => eqb x y && list_eqb eqb a' b'
  | _, _ => false
  end.

Definition sentry_eqb (x y : sentry) : bool :=
  match x, y with
  | EOpen d a, EOpen d' a' => (d =? d') && str_eqb a a'
  | EClose d a, EClose d' a' => (d =? d') && str_eqb a a'
  | ETxn d s ps, ETxn d' s' ps' => (d =? d') && str_eqb s s' && list_eqb sposting_eqb ps ps'
  | _, _ => false
  end.

(* reading the text of [transcode days v] gives back V and the erased items *)
Definition roundtrip_b (v : commodity) (days : list day) : bool :=
  match read_ledger (transcode days v) with
  | Some (v', es) => str_eqb v v' && list_eqb sentry_eqb es (erase_entries v (transcode_entries days []))
  | None => false
  end.
