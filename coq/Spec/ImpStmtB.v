(* C13 (group B), statement level, executable: for each importer X of revolut2, revolut, com.wise,
   ch.swissquote the journal text the property prescribes for a well-formed statement,

     X_statement_output : <accounts> -> list record -> option str        (None: not well-formed)

   built from the row readings of Spec/ImpSpecB.v (X_wf_row, X_fact, X_legs, X_text: what a record
   says), the realisation of a booking as posting pairs (posting.Builder: legs_txn) and the shared
   printer (print_directives = journal.Print of the built journal) -- NOT from the importer models
   Model/Imp/*.v.  Properties/C13b.v proves that the importer command prints exactly this text
   (C13_<X>_stdout); ./check C13 evaluates it on the records of every generated well-formed statement
   and compares it byte for byte with the standard output of the binary (drv_c13b.ml, verdict
   `spec`).  us.interactivebrokers: Spec/ImpSpecIB.v (ibs_statement_output). *)
From Coq Require Import ZArith List Bool.
From Knut Require Import Model.Str Model.Dec Model.Date Model.Account Model.Ledger
     Model.ImpCommonA Model.ImpCommonB Spec.ImpSpecA Spec.ImpSpecB Spec.ImpStmtA.
Import ListNotations.
Open Scope bool_scope.

(* the transaction that realises a booking row: dated on the row's date, described by the row's
   text, consisting of the row's bookings, annotated as the row says *)
Definition booking_directive (f : row_effect) (text : str) (ls : list leg) (tg : option (list commodity)) : directive :=
  legs_txn (re_date f) text ls tg.

(* ---------------------------------------------------------------- revolut2 *)
(* Type,Product,Started Date,Completed Date,Description,Amount,Fee,Currency,State,Balance *)
Definition r2s_header : list str :=
  [[84;121;112;101]; [80;114;111;100;117;99;116]; [83;116;97;114;116;101;100;32;68;97;116;101];
   [67;111;109;112;108;101;116;101;100;32;68;97;116;101]; [68;101;115;99;114;105;112;116;105;111;110];
   [65;109;111;117;110;116]; [70;101;101]; [67;117;114;114;101;110;99;121]; [83;116;97;116;101];
   [66;97;108;97;110;99;101]]%Z.

(* the (day, currency) pairs the statement has booking rows for, each once *)
Definition r2s_keys (rows : list (list str)) : list (Z * commodity) :=
  nodup key_eq_dec (map r2_key_of (filter r2_is_booking rows)).

(* the statement's closing balances: for each such pair the Balance of its last booking row *)
Definition r2s_closings (rows : list (list str)) : list balance_fact :=
  flat_map (fun k => match r2_closing k rows with Some v => [mkBalFact (fst k) (snd k) v] | None => [] end)
           (r2s_keys rows).

(* by day, then by the name of the currency (fix a319b05; before it: Go's map order) *)
Definition bf_key (b : balance_fact) : Z * commodity := (bf_date b, bf_com b).
Definition key_ltb (a b : Z * commodity) : bool :=
  (fst a <? fst b)%Z || ((fst a =? fst b)%Z && str_ltb (snd a) (snd b)).
Definition bf_ltb (a b : balance_fact) : bool := key_ltb (bf_key a) (bf_key b).
Definition r2s_balances (rows : list (list str)) : list balance_fact := sort_by bf_ltb (r2s_closings rows).

(* one transaction per booking row, in order; then the assertions of the closing balances *)
Definition r2s_directives (acct feeacct : account) (rows : list (list str)) : list directive :=
  map (fun r => booking_directive (r2_fact r) (r2_text r) (r2_legs acct feeacct r) None) (filter r2_is_booking rows) ++
  map (assertion_of acct) (r2s_balances rows).

(* a statement: the header record, then well-formed rows *)
Definition r2_statement_wf (recs : list (list str)) : bool :=
  match recs with
  | h :: rows => rec_eqb h r2s_header && forallb r2_wf_row rows
  | [] => false
  end.

Definition r2_statement_output (acct feeacct : account) (recs : list (list str)) : option str :=
  if r2_statement_wf recs then Some (print_directives (r2s_directives acct feeacct (tl recs))) else None.

(* ---------------------------------------------------------------- revolut (older export) *)
(* the currency of the statement: the third field of the header is "Paid Out (CUR)", CUR letters *)
Definition rvs_paid_out : str := [80;97;105;100;32;79;117;116;32;40]%Z.   (* "Paid Out (" *)
Definition rvs_currency (header : list str) : option commodity :=
  let f := field header 2 in
  if is_prefix rvs_paid_out f then
    let '(cur, rest) := span is_alpha (skipn (length rvs_paid_out) f) in
    if negb (is_empty cur) && str_eqb rest [41%Z] then Some cur else None
  else None.
(* 1 January of year 1: Go's zero time, "no row yet" *)
Definition rvs_zero_day : Z := of_civil 1 1 1.

(* the transaction of each row, preceded by the assertion of the row's Balance where the date changes *)
Fixpoint rvs_weave (acct : account) (cur : commodity) (prev : Z) (rows : list (list str)) : list directive :=
  match rows with
  | [] => []
  | r :: rows' =>
    (if Z.eqb (rv_date r) prev then [] else [assertion_of acct (mkBalFact (rv_date r) cur (rv_balance r))]) ++
    booking_directive (rv_fact cur r) (rv_text r) (rv_legs acct cur r) None :: rvs_weave acct cur (rv_date r) rows'
  end.

(* a statement: a header of nine fields that names the currency, then well-formed rows *)
Definition rv_statement_wf (recs : list (list str)) : bool :=
  match recs with
  | h :: rows => len_is h 9 && is_some (rvs_currency h) && forallb rv_wf_row rows
  | [] => false
  end.
Definition rv_statement_output (acct : account) (recs : list (list str)) : option str :=
  if rv_statement_wf recs then
    match recs with
    | h :: rows => match rvs_currency h with
                   | Some cur => Some (print_directives (rvs_weave acct cur rvs_zero_day rows))
                   | None => None
                   end
    | [] => None
    end
  else None.

(* ---------------------------------------------------------------- com.wise *)
Definition wss_header : list str :=
  [[73;68]; [83;116;97;116;117;115]; [68;105;114;101;99;116;105;111;110]; [67;114;101;97;116;101;100;32;111;110];
   [70;105;110;105;115;104;101;100;32;111;110]; [83;111;117;114;99;101;32;102;101;101;32;97;109;111;117;110;116];
   [83;111;117;114;99;101;32;102;101;101;32;99;117;114;114;101;110;99;121]; [84;97;114;103;101;116;32;102;101;101;32;97;109;111;117;110;116];
   [84;97;114;103;101;116;32;102;101;101;32;99;117;114;114;101;110;99;121]; [83;111;117;114;99;101;32;110;97;109;101];
   [83;111;117;114;99;101;32;97;109;111;117;110;116;32;40;97;102;116;101;114;32;102;101;101;115;41];
   [83;111;117;114;99;101;32;99;117;114;114;101;110;99;121]; [84;97;114;103;101;116;32;110;97;109;101];
   [84;97;114;103;101;116;32;97;109;111;117;110;116;32;40;97;102;116;101;114;32;102;101;101;115;41];
   [84;97;114;103;101;116;32;99;117;114;114;101;110;99;121]; [69;120;99;104;97;110;103;101;32;114;97;116;101];
   [82;101;102;101;114;101;110;99;101]; [66;97;116;99;104]]%Z.

(* the header record, then well-formed rows; one transaction per entry of each row (ws_entries) *)
Definition ws_statement_wf (recs : list (list str)) : bool :=
  match recs with
  | h :: rows => rec_eqb h wss_header && forallb ws_wf_row rows
  | [] => false
  end.
Definition ws_directives (repaired : bool) (acct feeacct trading : account) (rows : list (list str)) : list directive :=
  map (fun e => booking_directive (en_fact e) (en_text e) (en_legs e) None)
      (flat_map (ws_entries repaired acct feeacct trading) rows).
Definition ws_statement_output (repaired : bool) (acct feeacct trading : account) (recs : list (list str)) : option str :=
  if ws_statement_wf recs then Some (print_directives (ws_directives repaired acct feeacct trading (tl recs))) else None.

(* ---------------------------------------------------------------- ch.swissquote *)
(* a header record (not looked at), then a well-formed sequence of rows (sqs_wf: exchange rows in
   pairs); one transaction per entry (sqs_entries) *)
Definition sqs_statement_wf (recs : list (list str)) : bool :=
  match recs with _ :: rows => sqs_wf false rows | [] => false end.
Definition sqs_directives (acct dividend interest tax fee trading : account) (rows : list (list str)) : list directive :=
  map (fun e : tentry => booking_directive (en_fact (fst e)) (en_text (fst e)) (en_legs (fst e)) (snd e))
      (sqs_entries acct dividend interest tax fee trading None rows).
Definition sqs_statement_output (acct dividend interest tax fee trading : account) (recs : list (list str)) : option str :=
  if sqs_statement_wf recs then Some (print_directives (sqs_directives acct dividend interest tax fee trading (tl recs))) else None.
