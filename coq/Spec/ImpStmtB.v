(* C13 (group B), statement level, executable: for each importer X of revolut2, revolut, com.wise,
   ch.swissquote the journal text the property prescribes for a well-formed statement,

     X_statement_output : <accounts> -> list record -> option str        (None: not well-formed)

   built from the row readings of Spec/ImpSpecB.v (X_wf_row, X_fact, X_legs, X_text: what a record
   says), the realisation of a booking as posting pairs (posting.Builder: legs_txn) and the shared
   printer (print_directives = journal.Print of the built journal) -- NOT from the importer models
   Model/Imp/*.v.  Properties/C13b.v proves that the importer command prints exactly this text
   (C13_<X>_stdout); ./check C13 evaluates it on the records of every generated well-formed statement
   and compares it byte for byte with the standard output of the binary (drv_c13b.ml, verdict
   `spec`).  us.interactivebrokers: Spec/ImpSpecIB.v (ibs_statement_output). *)
From Coq Require Import ZArith List Bool.
From Knut Require Import Model.Str Model.Dec Model.Date Model.Account Model.Ledger
     Model.ImpCommonA Model.ImpCommonB Spec.ImpSpecA Spec.ImpSpecB Spec.ImpStmtA.
Import ListNotations.
Open Scope bool_scope.

(* the transaction that realises a booking row: dated on the row's date, described by the row's
   text, consisting of the row's bookings, annotated as the row says *)
Definition booking_directive (f : row_effect) (text : str) (ls : list leg) (tg : option (list commodity)) : directive :=
  legs_txn (re_date f) text ls tg.

(* ---------------------------------------------------------------- revolut2 *)
(* Type,Product,Started Date,Completed Date,Description,Amount,Fee,Currency,State,Balance *)
Definition r2s_header : list str :=
  [[84;121;112;101]; [80;114;111;100;117;99;116]; [83;116;97;114;116;101;100;32;68;97;116;101];
   [67;111;109;112;108;101;116;101;100;32;68;97;116;101]; [68;101;115;99;114;105;112;116;105;111;110];
   [65;109;111;117;110;116]; [70;101;101]; [67;117;114;114;101;110;99;121]; [83;116;97;116;101];
   [66;97;108;97;110;99;101]]%Z.

(* the (day, currency) pairs the statement has booking rows for, each once *)
Definition r2s_keys (rows : list (list str)) : list (Z * commodity) :=
  nodup key_eq_dec (map r2_key_of (filter r2_is_booking rows)).

(* the statement's closing balances: for each such pair the Balance of its last booking row *)
Definition r2s_closings (rows : list (list str)) : list balance_fact :=
  flat_map (fun k => match r2_closing k rows with Some v => [mkBalFact (fst k) (snd k) v] | None => [] end)
           (r2s_keys rows).

(* by day, then by the name of the currency (fix a319b05; before it: Go's map order) *)
Definition bf_key (b : balance_fact) : Z * commodity := (bf_date b, bf_com b).
Definition key_ltb (a b : Z * commodity) : bool :=
  (fst a <? fst b)%Z || ((fst a =? fst b)%Z && str_ltb (snd a) (snd b)).
Definition bf_ltb (a b : balance_fact) : bool := key_ltb (bf_key a) (bf_key b).
Definition r2s_balances (rows : list (list str)) : list balance_fact := sort_by bf_ltb (r2s_closings rows).

(* one transaction per booking row, in order; then the assertions of the closing balances *)
Definition r2s_directives (acct feeacct : account) (rows : list (list str)) : list directive :=
  map (fun r => booking_directive (r2_fact r) (r2_text r) (r2_legs acct feeacct r) None) (filter r2_is_booking rows) ++
  map (assertion_of acct) (r2s_balances rows).

(* a statement: the header record, then well-formed rows *)
Definition r2_statement_wf (recs : list (list str)) : bool :=
  match recs with
  | h :: rows => rec_eqb h r2s_header && forallb r2_wf_row rows
  | [] => false
  end.

Definition r2_statement_output (acct feeacct : account) (recs : list (list str)) : option str :=
  if r2_statement_wf recs then Some (print_directives (r2s_directives acct feeacct (tl recs))) else None.
