(* C03 for rows aggregated by --mapping / swapped by --remap: vocabulary of
   Properties/C03.v C03_windowed_mapped.  A row b of the report adds up every account that remap
   and the mapping rules send onto b (and that passes --account); its value is the sum of their
   mark-to-market values. *)
From Coq Require Import ZArith QArith List Bool.
From Knut Require Import Model.Str Model.Dec Model.Date Model.Account Model.Ledger Model.Cli
     Spec.WellformedSpec Spec.LedgerSpec Spec.ValuationSpec Spec.MarkToMarketReportSpec
     Proofs.LedgerProofs Proofs.MarkToMarketSteps.
Import ListNotations.
Open Scope Q_scope.

(* the row on which account a is shown: remap, then the first matching mapping rule *)
Definition lands_on (cfg : balance_cfg) (b a : account) : bool :=
  match shorten (bc_mapping cfg) (remap (bc_remap cfg) a) with ShAcc b' => acc_eqb b' b | _ => false end.

(* the two halves of cfg_where *)
Definition acc_pass (cfg : balance_cfg) (a : account) : bool :=
  match bc_accounts cfg with [] => true | rs => rxs_match rs (acc_name a) end.
Definition com_pass (cfg : balance_cfg) (c : commodity) : bool :=
  match bc_commodities cfg with [] => true | rs => rxs_match rs c end.

(* srcs lists, each once, the accounts that row b adds up: every account with a booking in the
   journal that lands on b and passes --account is listed; what is listed lands on b and passes *)
Definition row_sources (cfg : balance_cfg) (dl : list directive) (b : account) (srcs : list account) : Prop :=
  NoDup srcs /\
  (forall a, In a srcs -> account_ok a = true /\ lands_on cfg b a = true /\ acc_pass cfg a = true) /\
  (forall d p, In (d, p) (flat_postings dl) ->
     lands_on cfg b (p_acc p) = true -> acc_pass cfg (p_acc p) = true -> In (p_acc p) srcs).

(* sum over the aggregated accounts of their market values / of their step counts *)
Definition mv_row_sum (dl : list directive) (V : commodity) (srcs : list account) (T : Z) (coms : list commodity) : Q :=
  LedgerProofs.qsum (fun a => mv_row dl V a T coms) srcs.

Fixpoint steps_sum (dl : list directive) (V : commodity) (srcs : list account) (W E : Z) (coms : list commodity) : Z :=
  match srcs with
  | [] => 0%Z
  | a :: rest => (row_steps_tight dl V a W E coms + steps_sum dl V rest W E coms)%Z
  end.

(* executable: the accounts of the journal's bookings that land on b and pass --account, each once *)
Fixpoint dedup_acc (l : list account) : list account :=
  match l with
  | [] => []
  | x :: r => if existsb (acc_eqb x) r then dedup_acc r else x :: dedup_acc r
  end.

Definition sources_of (cfg : balance_cfg) (dl : list directive) (b : account) : list account :=
  dedup_acc (filter (fun a => lands_on cfg b a && acc_pass cfg a)
                    (map (fun dp : Z * posting => p_acc (snd dp)) (flat_postings dl))).
