(* C03: what the runtime check evaluates on a row that --mapping / --remap aggregate.
   The row b of a valued balance report adds up the accounts that land on it (sources_of: remap,
   then the first matching mapping rule; the accounts pass --account).  Its expectation is the sum
   of the per-account expectations (ValuationSpec.mtm_expected), its allowance the sum of the
   per-account allowances (ValuationSpec.step_bound).  Executable; extracted. *)
From Coq Require Import ZArith List Bool.
From Knut Require Import Model.Str Model.Dec Model.Date Model.Account Model.Ledger Model.Cli
     Spec.LedgerSpec Spec.ValuationSpec Spec.MarkToMarketMappedSpec.
Import ListNotations.
Open Scope Z_scope.

Fixpoint expected_sum (dl : list directive) (V : commodity) (srcs : list account) (W E : Z) : option dec :=
  match srcs with
  | [] => Some dec_nil
  | a :: rest =>
    match mtm_expected dl V a W E, expected_sum dl V rest W E with
    | Some e, Some s => Some (add e s)
    | _, _ => None
    end
  end.

Fixpoint bound_sum (dl : list directive) (srcs : list account) (W E : Z) : Z :=
  match srcs with
  | [] => 0
  | a :: rest => step_bound dl a W E + bound_sum dl rest W E
  end.

(* the row on which the report shows account a, if any (hidden by a level-0 rule: none) *)
Definition target_of (cfg : balance_cfg) (a : account) : option account :=
  match shorten (bc_mapping cfg) (remap (bc_remap cfg) a) with ShAcc b => Some b | _ => None end.

(* per column of the report: the accounts row b adds up, the expected value and the allowance *)
Definition mtm_row_mapped (cfg : balance_cfg) (dl : list directive) (b : account)
  : option (list account * list (option dec * Z)) :=
  match bc_valuation cfg with
  | None => None
  | Some V =>
    match new_partition (clip (mkPeriod (bc_from cfg) (bc_to cfg)) (journal_period dl)) (bc_interval cfg) (bc_last cfg) with
    | POk part =>
      let W := p_start (span part) in
      let srcs := sources_of cfg dl b in
      Some (srcs, map (fun p => (expected_sum dl V srcs W (p_end p), bound_sum dl srcs W (p_end p))) (periods part))
    | _ => None
    end
  end.
