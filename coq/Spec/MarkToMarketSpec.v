(* C03 end to end: vocabulary for one cell (account a, commodity c) of a valued journal, over
   days as they leave a pipeline stage.  Values are rationals (Proofs/DecValue.v dvalue), so
   sums are exact and independent of the order of addition (Decimal.Add is exact: C17). *)
From Coq Require Import ZArith QArith List Bool.
From Knut Require Import Model.Str Model.Dec Model.Account Model.Ledger Model.Price Model.Journal Model.Pipeline
     Spec.WellformedSpec Proofs.DecValue.
Import ListNotations.
Open Scope Q_scope.

(* the postings of a day / of a list of days, in processing order *)
Definition day_postings (d : day) : list posting := concat (map t_postings (d_txns d)).
Definition days_postings (ds : list day) : list posting := concat (map day_postings ds).

(* does posting p belong to the cell (a, c)?  (the comparison the report and the spec use) *)
Definition cellb (a : account) (c : commodity) (p : posting) : bool :=
  acc_eqb (p_acc p) a && str_eqb (p_com p) c.

Fixpoint qsum (f : posting -> Q) (l : list posting) : Q :=
  match l with [] => 0 | p :: r => f p + qsum f r end.

(* sum of the values / of the quantities of the cell's postings; number of the cell's postings *)
Definition cell_value (a : account) (c : commodity) (l : list posting) : Q :=
  qsum (fun p => if cellb a c p then dvalue (p_val p) else 0) l.
Definition cell_qty (a : account) (c : commodity) (l : list posting) : Q :=
  qsum (fun p => if cellb a c p then dvalue (p_qty p) else 0) l.
Fixpoint cell_count (a : account) (c : commodity) (l : list posting) : Z :=
  match l with [] => 0%Z | p :: r => ((if cellb a c p then 1 else 0) + cell_count a c r)%Z end.

(* the price of c in a day's normalised prices, as a rational; 0 where there is none (a position
   that is not zero always has one, see Proofs/MarkToMarket.v held_has_price) *)
Definition price_value (n : option nprices) (c : commodity) : Q :=
  match np_price_opt n c with Some p => dvalue p | None => 0 end.

(* the normalised prices of the last day (those in force at the end of the run) *)
Definition last_normalized (n0 : option nprices) (ds : list day) : option nprices :=
  fold_left (fun _ d => d_normalized d) ds n0.

(* the input side conditions of the end-to-end statements: accounts are syntactically valid
   (the parser guarantees it) and a booking of quantity zero carries no value (Builder: postings
   enter the pipeline with the zero Value) *)
Definition posting_in_ok (p : posting) : Prop :=
  account_ok (p_acc p) = true /\ (is_zero (p_qty p) = true -> dvalue (p_val p) == 0).
