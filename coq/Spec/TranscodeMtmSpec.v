(* C16, mark-to-market clause stated on the days handed to beancount.Transcode (the model side of
   Spec/BeancountMtmSpec.v, which states it on the emitted ledger): the exact sum of the values of
   the postings on an account, and the calendar side condition of the step count. *)
From Coq Require Import ZArith List Bool.
From Knut Require Import Model.Str Model.Dec Model.Date Model.Account Model.Ledger
     Spec.BeancountMtmSpec.
Import ListNotations.
Open Scope Z_scope.

(* exact decimal sum of the values posted to account a (the analogue of ledger_total on postings) *)
Definition posted_total (a : account) (ps : list posting) : dec :=
  fold_left (fun s p => if acc_eqb (p_acc p) a then add s (p_val p) else s) ps (mkDec 0 0).

(* every directive is dated on or after day 0 = 0001-01-01 (Go's zero time): the window
   [0, last_date] of the step count then contains the whole journal.  (Dates of the year 0000 are
   negative day numbers; the parser accepts them, the step count of mtm_check does not see them.) *)
Definition dates_nonneg (dl : list directive) : Prop := forall d, In d dl -> 0 <= directive_date d.

Definition dates_nonneg_b (dl : list directive) : bool := forallb (fun d => 0 <=? directive_date d) dl.
