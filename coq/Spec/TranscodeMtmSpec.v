(* C16, mark-to-market clause stated on the days handed to beancount.Transcode (the model side of
   Spec/BeancountMtmSpec.v, which states it on the emitted ledger): the exact sum of the values of
   the postings on an account. *)
From Coq Require Import ZArith List Bool.
From Knut Require Import Model.Str Model.Dec Model.Date Model.Account Model.Ledger
     Spec.BeancountMtmSpec.
Import ListNotations.
Open Scope Z_scope.

(* exact decimal sum of the values posted to account a (the analogue of ledger_total on postings) *)
Definition posted_total (a : account) (ps : list posting) : dec :=
  fold_left (fun s p => if acc_eqb (p_acc p) a then add s (p_val p) else s) ps (mkDec 0 0).
