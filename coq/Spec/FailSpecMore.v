(* Specification vocabulary of C14 for transcode, the portfolio commands and the syntax-level
   commands (the continuation of Spec/FailSpec.v).

   [pf_guards]: the explicit, executable description of the inputs on which the commands of
   Model/CliPortfolio.v (pinned load, partition, mapping) do not panic; the same three conjuncts
   as [guards] for balance.  transcode has no flag that can panic and no reporting window:
   its guard is [accruals_ok] alone. *)
From Coq Require Import ZArith List Bool.
From Knut Require Import Model.Str Model.Dec Model.Date Model.Account Model.Ledger Model.Journal Model.Cli
     Model.CliPortfolio Model.Bayes Model.SynPrinter Spec.FailSpec.
Import ListNotations.
Open Scope bool_scope.
Open Scope Z_scope.

(* the reporting window of a portfolio command - the later of --from and the first transaction -
   does not start on day 0 *)
Definition pf_window_start_ok (cfg : pf_cfg) (ds : list sdirective) : bool :=
  match parse_directives ds with
  | MOk l => negb (window_start (pc_from cfg) l =? 0)
  | _ => true
  end.

(* portfolio returns has no -m flag *)
Definition returns_guards (cfg : pf_cfg) (ds : list sdirective) : bool :=
  accruals_ok ds && pf_window_start_ok cfg ds.

Definition pf_guards (cfg : pf_cfg) (ds : list sdirective) : bool :=
  mapping_nonneg (pc_mapping cfg) && accruals_ok ds && pf_window_start_ok cfg ds.

(* what the syntax-level commands write to standard output: infer prints the text only when both
   files parse; format prints nothing (it rewrites the file) *)
Definition stdout_of_infer (r : infer_result) : str := match r with InferOut out => out | _ => [] end.
Definition stdout_of_format (r : cmd_result) : str := [].
