(* C03 on reports restricted by --account / --commodity: what the runtime check evaluates on a
   valued row of a filtered report.

   What the code does (cmd/commands/balance.go): the two filters are the Where predicate of the
   report's journal.Query - they decide which (account, commodity) amounts are ADDED to the report.
   They do not reach ComputePrices or Valuate: every price declaration is still inserted, every
   booking is still valued (and fails without a price), prices of commodities that are not shown
   are still needed - a shown commodity may be priced through them - and are still used.

   Hence: the price of c on day T (ValuationSpec.price_on), the quantity (qty_upto) and the
   condition under which the command must fail (missing_price_b) are those of the unfiltered
   report; only the SUM changes.  A row shows, of an account a, the commodities c with
   cfg_where cfg a c = true (a passes --account and c passes --commodity):

     market_value_where   sum over the held commodities that pass of Q_T(a,c) * p_T(c)
     mtm_expected_where   its change over the window
     step_bound_where     the allowance: one truncation per booking of the account in a commodity
                          that passes, one per (date of the journal in the window, held commodity
                          that passes), + 1
     mtm_row_where        per column, for an account shown as itself
     mtm_row_where_mapped per column, for a row that --mapping / --remap aggregate: the sum over
                          MarkToMarketMappedSpec.sources_of (the accounts that land on the row AND
                          pass --account)

   An account that does not pass --account has no commodity that passes: its expectation is 0 (and
   it is not among the sources of any row).  Without filters cfg_where is constantly true and these
   are ValuationSpec.mtm_row / ValuationMappedSpec.mtm_row_mapped (Proofs/MarkToMarketWhere.v
   mtm_row_where_unfiltered).  Executable; extracted. *)
From Coq Require Import ZArith List Bool.
From Knut Require Import Model.Str Model.Dec Model.Date Model.Account Model.Ledger Model.Price Model.Cli
     Spec.LedgerSpec Spec.ValuationSpec Spec.MarkToMarketMappedSpec.
Import ListNotations.
Open Scope bool_scope.
Open Scope Z_scope.

(* the commodities of account a that the report shows *)
Definition held_where (cfg : balance_cfg) (posts : list (Z * posting)) (a : account) : list commodity :=
  filter (cfg_where cfg a) (held_commodities posts a).

(* Σ_{c shown} Q_T(a,c) * p_T(c), exact; None if a shown commodity with non-zero quantity has no price *)
Definition market_value_where (cfg : balance_cfg) (dl : list directive) (V : commodity) (a : account) (T : Z) : option dec :=
  let posts := flat_postings dl in
  fold_left (fun acc c =>
    match acc with
    | None => None
    | Some s =>
      let q := qty_upto posts a c T in
      if is_zero q then Some s
      else match price_on dl V c T with
           | Some p => Some (add s (mul q p))
           | None => None
           end
    end) (held_where cfg posts a) (Some dec_nil).

Definition mtm_expected_where (cfg : balance_cfg) (dl : list directive) (V : commodity) (a : account) (W E : Z) : option dec :=
  match market_value_where cfg dl V a E, market_value_where cfg dl V a (W - 1) with
  | Some x, Some y => Some (sub x y)
  | _, _ => None
  end.

Definition step_bound_where (cfg : balance_cfg) (dl : list directive) (a : account) (W E : Z) : Z :=
  let posts := flat_postings dl in
  let nb := Z.of_nat (length (filter (fun dp => let '(d, p) := dp in
                                        (W <=? d) && (d <=? E) && acc_eqb (p_acc p) a && cfg_where cfg a (p_com p)) posts)) in
  let days := fold_left (fun l d =>
                let dt := match d with DPrice x _ _ _ | DOpen x _ | DClose x _ | DAssert x _ => x | DTxn t => t_date t end in
                if (W <=? dt) && (dt <=? E) && negb (existsb (Z.eqb dt) l) then dt :: l else l) dl [] in
  nb + Z.of_nat (length days) * Z.of_nat (length (held_where cfg posts a)) + 1.

(* per column of the report: expected value of account a (shown as itself) and the allowance *)
Definition mtm_row_where (cfg : balance_cfg) (dl : list directive) (a : account) : option (list (option dec * Z)) :=
  match bc_valuation cfg with
  | None => None
  | Some V =>
    match new_partition (clip (mkPeriod (bc_from cfg) (bc_to cfg)) (journal_period dl)) (bc_interval cfg) (bc_last cfg) with
    | POk part =>
      let W := p_start (span part) in
      Some (map (fun p => (mtm_expected_where cfg dl V a W (p_end p), step_bound_where cfg dl a W (p_end p))) (periods part))
    | _ => None
    end
  end.

(* rows aggregated by --mapping / --remap *)
Fixpoint expected_sum_where (cfg : balance_cfg) (dl : list directive) (V : commodity) (srcs : list account) (W E : Z) : option dec :=
  match srcs with
  | [] => Some dec_nil
  | a :: rest =>
    match mtm_expected_where cfg dl V a W E, expected_sum_where cfg dl V rest W E with
    | Some e, Some s => Some (add e s)
    | _, _ => None
    end
  end.

Fixpoint bound_sum_where (cfg : balance_cfg) (dl : list directive) (srcs : list account) (W E : Z) : Z :=
  match srcs with
  | [] => 0
  | a :: rest => step_bound_where cfg dl a W E + bound_sum_where cfg dl rest W E
  end.

(* per column of the report: the accounts row b adds up, the expected value and the allowance *)
Definition mtm_row_where_mapped (cfg : balance_cfg) (dl : list directive) (b : account)
  : option (list account * list (option dec * Z)) :=
  match bc_valuation cfg with
  | None => None
  | Some V =>
    match new_partition (clip (mkPeriod (bc_from cfg) (bc_to cfg)) (journal_period dl)) (bc_interval cfg) (bc_last cfg) with
    | POk part =>
      let W := p_start (span part) in
      let srcs := sources_of cfg dl b in
      Some (srcs, map (fun p => (expected_sum_where cfg dl V srcs W (p_end p), bound_sum_where cfg dl srcs W (p_end p))) (periods part))
    | _ => None
    end
  end.
