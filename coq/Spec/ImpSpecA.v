(* C13 specification vocabulary (group A importers), independent of the importer models:
   what a statement row says (a row fact), the effect of a transaction on an account, and
   what it means for a transaction to book a row. *)
From Coq Require Import ZArith QArith List Bool.
From Knut Require Import Model.Str Model.Dec Model.Date Model.Account Model.Ledger Proofs.DecValue.
Import ListNotations.

(* what a booking row of a statement says: the date, the signed change of the balance of the
   account the statement is about, and the currency *)
Record row_fact := mkFact { rf_date : Z; rf_amount : dec; rf_com : commodity }.

Definition str_eq_dec : forall a b : str, {a = b} + {a <> b} := list_eq_dec Z.eq_dec.
Definition acc_eq_dec : forall a b : account, {a = b} + {a <> b} := list_eq_dec str_eq_dec.

(* the change of account a's balance in commodity c caused by one posting *)
Definition posting_effect (a : account) (c : commodity) (p : posting) : Q :=
  if acc_eq_dec (p_acc p) a then if str_eq_dec (p_com p) c then dvalue (p_qty p) else 0 else 0.

(* ... and by a transaction: the sum over its postings *)
Definition effect (a : account) (c : commodity) (t : txn) : Q :=
  fold_right (fun p s => posting_effect a c p + s) 0 (t_postings t).

(* the transaction consists of exactly one booking between the two accounts in commodity c *)
Definition single_booking (a counter : account) (c : commodity) (t : txn) : Prop :=
  exists q, t_postings t = pair_build a counter c q dec_nil \/
            t_postings t = pair_build counter a c q dec_nil.

(* the transaction books the row: it is dated on the row's date, consists of exactly one booking
   between the import account and the counter-account in the row's currency, changes the import
   account by the row's signed amount in that currency and by nothing in any other currency,
   and carries no performance annotation *)
Definition books (acct counter : account) (f : row_fact) (t : txn) : Prop :=
  t_date t = rf_date f /\
  single_booking acct counter (rf_com f) t /\
  effect acct (rf_com f) t == dvalue (rf_amount f) /\
  (forall c, c <> rf_com f -> effect acct c t == 0) /\
  t_targets t = None.

(* a directive list consisting of transactions only *)
Definition only_txns (ds : list directive) (ts : list txn) : Prop := ds = map DTxn ts.

(* the prices a statement carries *)
Record price_fact := mkPriceFact { pf_date : Z; pf_price : dec }.
Definition price_of (com target : commodity) (f : price_fact) : directive :=
  DPrice (pf_date f) com (pf_price f) target.

(* executable: the number of double-quote bytes in a string *)
Definition count_quotes (s : str) : nat := length (filter (Z.eqb 34) s).

(* ---------------------------------------------------------------- reading rows *)
From Knut Require Import Model.ImpCommonA.
Open Scope bool_scope.

Definition field (r : list str) (i : nat) : str := nth i r [].
Definition is_some {A} (o : option A) : bool := match o with Some _ => true | None => false end.
Definition date_or0 (o : option Z) : Z := match o with Some d => d | None => 0%Z end.
Definition dec_or0 (o : option dec) : dec := match o with Some d => d | None => dec_nil end.
Definition sp3 : str := [32;47;32]%Z.

(* ---- ch.swisscard2: Transaktionsdatum, Beschreibung, Händler, Kartennummer, Währung, Betrag,
   Fremdwährung, Betrag in Fremdwährung, Debit/Kredit, Status, Händlerkategorie, Registrierte
   Kategorie.  Betrag is what the card account is charged (negative for a refund): the
   liability account changes by its negation. *)
Definition sc2_wf_row (r : list str) : bool :=
  len_is r 12 && is_some (parse_dmy (field r 0)) && valid_name (field r 4) &&
  is_some (new_from_string (field r 5)).
Definition sc2_fact (r : list str) : row_fact :=
  mkFact (date_or0 (parse_dmy (field r 0))) (neg (dec_or0 (new_from_string (field r 5)))) (field r 4).
Definition sc2_text (r : list str) : str :=
  join sp3 [field r 1; field r 2; field r 10; field r 3; field r 11; field r 8].

(* ---- ch.viac: the decoded dailyWealth entries (date, value).  The statement carries one
   price per entry that is not before --from and whose value is not zero; the price is the
   value rounded to two places (decimal.Round: half away from zero), in CHF. *)
Definition viac_wf_entry (e : str * str) : bool :=
  is_some (parse_iso (fst e)) && is_some (new_from_string (snd e)).
Definition viac_prices (from : Z) (l : list (str * str)) : list price_fact :=
  flat_map (fun e =>
    let d := date_or0 (parse_iso (fst e)) in
    let v := dec_or0 (new_from_string (snd e)) in
    if (d <? from)%Z || is_zero v then [] else [mkPriceFact d (round v 2)]) l.

(* ---- ch.swisscard: Transaction Date, Posting Date, Card Number, Billing Amount, Description,
   Merchant City, Merchant State, Merchant Zip, Reference Number, Debit/Credit Flag, SICMCC Code.
   A booking row is one whose first two fields contain something date-like (the importer's
   unanchored expression \d\d.\d\d.\d\d\d\d); every other row (the header) is ignored.  The
   Billing Amount, "CHF" and "'" removed, is what the card account is charged. *)
Definition sc_is_booking (r : list str) : bool :=
  match r with f0 :: f1 :: _ => date_rx f0 && date_rx f1 | _ => false end.
Definition sc_ignored (r : list str) : bool :=
  match r with
  | [] => false
  | [f0] => negb (date_rx f0)
  | f0 :: f1 :: _ => negb (date_rx f0 && date_rx f1)
  end.
Definition sc_amount_text (s : str) : str := remove_byte 39 (remove_all s_CHF s).
Definition sc_wf_row (r : list str) : bool :=
  if sc_is_booking r
  then len_is r 11 && is_some (parse_dmy (field r 0)) && is_some (new_from_string (sc_amount_text (field r 3)))
  else sc_ignored r.
Definition sc_fact (r : list str) : row_fact :=
  mkFact (date_or0 (parse_dmy (field r 0))) (neg (dec_or0 (new_from_string (sc_amount_text (field r 3))))) s_CHF.
Definition sc_text (r : list str) : str :=
  join [32%Z] (filter (fun w => negb (is_empty w))
                      (map trim_space [field r 2; field r 4; field r 5; field r 6; field r 7; field r 8])).

(* ---- ch.supercard: Kontonummer, Kartennummer, Konto-/Karteninhaber, Einkaufsdatum,
   Buchungstext, Branche, Betrag, Originalwährung, Kurs, Währung, Belastung, Gutschrift, Buchung.
   Ignored: "Saldovortrag" rows, rows of 11 fields, rows without account number.  A booking row
   credits the account by Gutschrift when that is filled, else charges it by Belastung. *)
Definition s_saldo : str := [83;97;108;100;111;118;111;114;116;114;97;103]%Z.
Definition sup_ignored (r : list str) : bool :=
  Nat.leb 5 (length r) &&
  (str_eqb (field r 4) s_saldo || len_is r 11 || is_empty (field r 0)).
Definition sup_amount_ok (r : list str) : bool :=
  if negb (is_empty (field r 11)) then is_some (new_from_string (field r 11))
  else negb (is_empty (field r 10)) && is_some (new_from_string (field r 10)).
Definition sup_is_booking (r : list str) : bool := negb (sup_ignored r).
Definition sup_wf_row (r : list str) : bool :=
  sup_ignored r ||
  (len_is r 13 && is_some (parse_dmy (field r 3)) && sup_amount_ok r && valid_name (field r 9)).
Definition sup_fact (r : list str) : row_fact :=
  mkFact (date_or0 (parse_dmy (field r 3)))
         (if negb (is_empty (field r 11)) then dec_or0 (new_from_string (field r 11))
          else neg (dec_or0 (new_from_string (field r 10))))
         (field r 9).
Definition sup_text (r : list str) : str := collapse_ws false (field r 4 ++ [32%Z] ++ field r 5).
Definition sup_first : list str := [[115;101;112;61]%Z; []].    (* "sep=;" read with Comma ';' *)

(* ---- ch.postfinance: key/value lines (two fields), the column header, booking rows of 7 or 8
   fields (Buchungsdatum, Avisierungstext, Gutschrift, Lastschrift, Label, Kategorie, Valuta
   [, Saldo]), then the disclaimer lines (one field each).  The amount is the filled one of
   Gutschrift/Lastschrift as written (PostFinance writes Lastschrift with a minus sign). *)
Definition pf_is_kv (r : list str) : bool := len_is r 2.
Definition pf_is_row (r : list str) : bool := Nat.leb 7 (length r) && Nat.leb (length r) 8.
Definition pf_amount_text (r : list str) : str :=
  remove_byte 39 (if is_empty (field r 2) then field r 3 else field r 2).
Definition pf_wf_row (r : list str) : bool :=
  pf_is_row r && is_some (parse_dmy (field r 0)) &&
  (xorb (is_empty (field r 2)) (is_empty (field r 3))) && is_some (new_from_string (pf_amount_text r)).
Definition pf_fact (cur : commodity) (r : list str) : row_fact :=
  mkFact (date_or0 (parse_dmy (field r 0))) (dec_or0 (new_from_string (pf_amount_text r))) cur.
Definition pf_text (r : list str) : str :=
  trim_space (join [32%Z] [trim_space (field r 1); trim_space (field r 5); trim_space (field r 4)]).
(* the currency named by the header: the last "Währung:" line, '=' and quotes trimmed; CHF if none *)
Definition s_waehr : str := [87;195;164;104;114;117;110;103;58]%Z.
Fixpoint pf_header_currency (kvs : list (list str)) (cur : str) : str :=
  match kvs with
  | [] => cur
  | r :: rest => pf_header_currency rest (if str_eqb s_waehr (field r 0) then trim_set [61; 34]%Z (field r 1) else cur)
  end.

(* ---- ch.cumulus: a statement is a sequence of entries: ignored records (headers,
   Saldovortrag, payments), booking rows (Einkaufs-Datum, Verbucht am, Beschreibung, Gutschrift
   CHF, Belastung CHF) each followed by its foreign-currency comment rows (only the third of
   five fields filled), and "Rundungskorrektur" rows (date, text, Gutschrift, Belastung). *)
Inductive cum_entry :=
| CumIgnored (r : list str)
| CumBooking (r : list str) (comments : list str)
| CumRounding (r : list str) (comments : list str).

Definition s_rund : str := [82;117;110;100;117;110;103;115;107;111;114;114;101;107;116;117;114]%Z.
Definition cum_comment_row (c : str) : list str := [[]; []; c; []; []].
Definition cum_records (e : cum_entry) : list (list str) :=
  match e with
  | CumIgnored r => [r]
  | CumBooking r cs | CumRounding r cs => r :: map cum_comment_row cs
  end.
Definition cum_is_comment (r : list str) : bool :=
  match r with
  | [f0; f1; f2; f3; f4] => is_empty f0 && is_empty f1 && negb (is_empty f2) && is_empty f3 && is_empty f4
  | _ => false
  end.
(* exactly one of the two amount columns is filled and parses once "'" is removed *)
Definition cum_amount_ok (gutschrift belastung : str) : bool :=
  xorb (is_empty gutschrift) (is_empty belastung) &&
  is_some (new_from_string (remove_byte 39 (if is_empty gutschrift then belastung else gutschrift))).
Definition cum_signed (gutschrift belastung : str) : dec :=
  if is_empty gutschrift then neg (dec_or0 (new_from_string (remove_byte 39 belastung)))
  else dec_or0 (new_from_string (remove_byte 39 gutschrift)).
Definition cum_wf_entry (e : cum_entry) : bool :=
  match e with
  | CumIgnored r =>
    negb (cum_is_comment r) &&
    match r with
    | [] => false
    | [f0] => negb (date_rx f0)
    | f0 :: f1 :: _ => negb (date_rx f0) || (negb (str_eqb f1 s_rund) && negb (date_rx f1))
    end
  | CumBooking r cs =>
    len_is r 5 && date_rx (field r 0) && date_rx (field r 1) && negb (str_eqb (field r 1) s_rund) &&
    is_some (parse_dmy (field r 0)) && cum_amount_ok (field r 3) (field r 4) &&
    forallb (fun c => negb (is_empty c)) cs
  | CumRounding r cs =>
    len_is r 4 && date_rx (field r 0) && str_eqb (field r 1) s_rund &&
    is_some (parse_dmy (field r 0)) && cum_amount_ok (field r 2) (field r 3) &&
    forallb (fun c => negb (is_empty c)) cs
  end.
Definition cum_facts (e : cum_entry) : list row_fact :=
  match e with
  | CumIgnored _ => []
  | CumBooking r _ => [mkFact (date_or0 (parse_dmy (field r 0))) (cum_signed (field r 3) (field r 4)) s_CHF]
  | CumRounding r _ => [mkFact (date_or0 (parse_dmy (field r 0))) (cum_signed (field r 2) (field r 3)) s_CHF]
  end.
Definition cum_texts (e : cum_entry) : list str :=
  match e with
  | CumIgnored _ => []
  | CumBooking r cs => [fold_left (fun d c => d ++ [32%Z] ++ c) cs (field r 2)]
  | CumRounding r cs => [fold_left (fun d c => d ++ [32%Z] ++ c) cs (field r 1)]
  end.
