(* Specification vocabulary for the balance report as it is observed (CSV rows of fields). *)
From Coq Require Import ZArith List Bool.
From Knut Require Import Model.Str Model.Dec Model.Account Model.Table Model.Report Model.Cli.
Import ListNotations.
Open Scope bool_scope.
Open Scope Z_scope.

(* a numeric CSV field that is empty or reads as zero *)
Definition field_zero (s : str) : bool :=
  match s with
  | [] => true
  | _ => match of_string s with Some d => is_zero d | None => false end
  end.

(* The rows of the Delta block: the row whose first field is "Delta" and the continuation rows
   (empty first field) that follow it.  [ncols_text] is the number of leading text columns
   (1, or 2 with a commodity column). *)
Fixpoint delta_rows (rows : list (list str)) (inside : bool) : list (list str) :=
  match rows with
  | [] => []
  | r :: rest =>
    match r with
    | [] => delta_rows rest inside
    | f :: _ =>
      if str_eqb f s_Delta then r :: delta_rows rest true
      else if inside && match f with [] => true | _ => false end then r :: delta_rows rest true
      else delta_rows rest false
    end
  end.

Definition delta_zero_b (text_cols : nat) (rows : list (list str)) : bool :=
  forallb (fun r => forallb field_zero (skipn text_cols r)) (delta_rows rows false)
  && negb (match delta_rows rows false with [] => true | _ => false end).

(* a configuration under which the report is complete: nothing filtered, nothing hidden *)
Definition complete_cfg (cfg : balance_cfg) : bool :=
  match bc_accounts cfg, bc_commodities cfg with
  | [], [] => forallb (fun r => negb (r_level r =? 0)) (bc_mapping cfg)
  | _, _ => false
  end.
