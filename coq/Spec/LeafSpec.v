(* Specification vocabulary of C07, part 2: the LEXICAL CLASS of every leaf of a syntax tree.
   "Each element's text is exactly the slice it points to" -- and that slice is a date, a
   decimal, an account, a commodity, an interval keyword, a quoted string.  Everything is
   executable: [wf_leaves_b] is extracted and evaluated on the tree the Go parser returns.

   A leaf's slice is first decoded into runes ([runes]: every byte sequence must be a complete
   encoding, so a range that cuts a rune in two, or covers an invalid byte, is rejected); the
   classes are regular expressions over runes, for ANY classification letter / digit:

     date        d d d d - d d - d d
     decimal     -? d+ (. d+)?
     commodity   a+                              a = letter or digit
     account     a+ (: a+)*   not starting with $      (Macro = false)
                 $ l+                                  (Macro = true),   l = letter
     interval    daily | weekly | monthly | quarterly  (bytes)
     quoted      Q c* Q       Q = the quote (34), c = any other rune;  Content = the string
                              without the two quotes

   The matchers are written as the regular expressions read (every way of splitting is tried),
   not as the parser's greedy loops: [frac_b] and [segs_b] carry a flag "at least one rune of
   the current run has been seen" and branch where the expression branches.

   [wf_leaves_b] is about the leaves only; ranges, nesting and order are [wf_tree_b]
   (Spec/SyntaxSpec.v); the keywords between the leaves are [wf_keywords_b] below.        *)
From Coq Require Import ZArith List Bool.
From Knut Require Import Model.Bytes Model.Utf8 Model.Scanner Model.Parser Spec.SyntaxSpec Spec.FormatSpec.
Import ListNotations.
Open Scope bool_scope.
Open Scope Z_scope.

Section Leaves.
Variable dec : str -> Z * Z.            (* utf8.DecodeRuneInString *)
Variables letter digit : Z -> bool.     (* unicode.IsLetter, unicode.IsDigit *)

(* ------------------------------------------------------------------ bytes to runes *)

(* None: some byte of w does not start a complete encoding (RuneError of width 1) *)
Fixpoint runes_fuel (n : nat) (w : str) : option (list Z) :=
  match w with
  | [] => Some []
  | _ :: _ =>
    match n with
    | O => None
    | S n' =>
      let (c, k) := dec w in
      if (k <? 1) || ((c =? rune_error) && (k =? 1)) then None
      else match runes_fuel n' (skipn (Z.to_nat k) w) with
           | Some rs => Some (c :: rs)
           | None => None
           end
    end
  end.

Definition runes (w : str) : option (list Z) := runes_fuel (length w) w.

Definition in_class (cls : list Z -> bool) (w : str) : bool :=
  match runes w with Some rs => cls rs | None => false end.

(* ------------------------------------------------------------------ the classes, on runes *)

Definition alnum_b (c : Z) : bool := letter c || digit c.
Definition is_b (x c : Z) : bool := c =? x.
Definition nonnil {A} (l : list A) : bool := match l with [] => false | _ :: _ => true end.

(* one predicate per rune *)
Fixpoint match_pat (ps : list (Z -> bool)) (rs : list Z) : bool :=
  match ps, rs with
  | [], [] => true
  | p :: ps', c :: rs' => p c && match_pat ps' rs'
  | _, _ => false
  end.

Definition date_pat : list (Z -> bool) :=
  [digit; digit; digit; digit; is_b 45; digit; digit; is_b 45; digit; digit].
Definition date_rs (rs : list Z) : bool := match_pat date_pat rs.

Definition commodity_rs (rs : list Z) : bool := nonnil rs && forallb alnum_b rs.

(* d+ (. d+)?  --  [seen]: a digit of the integer part has been read *)
Fixpoint frac_b (seen : bool) (rs : list Z) : bool :=
  match rs with
  | [] => seen
  | c :: r => (seen && (c =? 46) && nonnil r && forallb digit r) || (digit c && frac_b true r)
  end.

Definition decimal_rs (rs : list Z) : bool :=
  frac_b false rs || match rs with c :: r => (c =? 45) && frac_b false r | [] => false end.

(* a+ (: a+)*  --  [seen]: a rune of the current segment has been read *)
Fixpoint segs_b (seen : bool) (rs : list Z) : bool :=
  match rs with
  | [] => seen
  | c :: r => (seen && (c =? 58) && segs_b false r) || (alnum_b c && segs_b true r)
  end.

(* the Macro flag says whether the account is written $name *)
Definition account_rs (macro : bool) (rs : list Z) : bool :=
  if macro then match rs with c :: l => (c =? 36) && nonnil l && forallb letter l | [] => false end
  else match rs with c :: _ => negb (c =? 36) | [] => false end && segs_b false rs.

Definition notquote_b (c : Z) : bool := negb (c =? 34).

(* ------------------------------------------------------------------ leaves of a tree *)

Variable t : str.

Notation cut := (cut t).

Definition leaf_date (r : range) : bool := in_class date_rs (cut r).
Definition leaf_decimal (r : range) : bool := in_class decimal_rs (cut r).
Definition leaf_commodity (r : range) : bool := in_class commodity_rs (cut r).
Definition leaf_account (a : account) : bool := in_class (account_rs (acc_macro a)) (cut (acc_range a)).
Definition leaf_interval (r : range) : bool :=
  existsb (str_eqb (cut r)) [kw_daily; kw_weekly; kw_monthly; kw_quarterly].

(* the first and the last byte of the string are quotes, what is between them is Content and
   contains none *)
Definition leaf_quoted (q : quoted) : bool :=
  let s := r_start (qs_range q) in
  let e := r_end (qs_range q) in
  (s + 2 <=? e) &&
  str_eqb (slice t s (s + 1)) [34] && str_eqb (slice t (e - 1) e) [34] &&
  range_eqb (qs_content q) (mkRange (s + 1) (e - 1)) &&
  in_class (forallb notquote_b) (cut (qs_content q)).

Definition leaves_booking (b : booking) : bool :=
  leaf_account (bk_credit b) && leaf_account (bk_debit b) &&
  leaf_decimal (bk_quantity b) && leaf_commodity (bk_commodity b).

Definition leaves_balance (b : balance) : bool :=
  leaf_account (bl_account b) && leaf_decimal (bl_quantity b) && leaf_commodity (bl_commodity b).

(* an absent @accrue is the Go zero value; an absent @performance has no targets *)
Definition leaves_accrual (a : accrual) : bool :=
  is_zero_accrual a ||
  (leaf_interval (ac_interval a) && leaf_date (ac_start a) && leaf_date (ac_end a) &&
   leaf_account (ac_account a)).

Definition leaves_addons (a : addons) : bool :=
  forallb leaf_commodity (pf_targets (ad_perf a)) && leaves_accrual (ad_accrual a).

Definition leaves_body (b : dir_body) : bool :=
  match b with
  | BTrx x =>
    leaf_date (tx_date x) && leaf_quoted (tx_desc x) &&
    nonnil (tx_bookings x) && forallb leaves_booking (tx_bookings x) &&
    leaves_addons (tx_addons x)
  | BOpen o => leaf_date (op_date o) && leaf_account (op_account o)
  | BClose c => leaf_date (cl_date c) && leaf_account (cl_account c)
  | BAssertion a =>
    leaf_date (as_date a) && nonnil (as_balances a) && forallb leaves_balance (as_balances a)
  | BPrice p =>
    leaf_date (pr_date p) && leaf_commodity (pr_commodity p) && leaf_decimal (pr_price p) &&
    leaf_commodity (pr_target p)
  | BInclude i => leaf_quoted (in_path i)
  | BNone => false
  end.

Definition leaves_directive (d : directive) : bool := leaves_body (d_body d).

Definition wf_leaves_gen (f : file) : bool := forallb leaves_directive (f_directives f).

End Leaves.

(* with Go's decoder (Model/Utf8.v) *)
Definition wf_leaves_b (letter digit : Z -> bool) (t : str) (f : file) : bool :=
  wf_leaves_gen Utf8M.decode letter digit t f.

(* ================================================================== keywords

   The KIND of a node is justified by the text, too: between the date and the payload of a
   directive stand blanks, the keyword of the payload's kind and blanks again (a multi-line
   `balance` may end its line right after the keyword); a transaction's description follows the
   date after blanks only; an include starts with `include` and blanks; a present @performance
   starts with `@performance(` and ends with `)`; a present @accrue starts with `@accrue` and
   blanks.  Blanks are the bytes 32, 9, 13 ([is_ws_byte]).  Keywords and blanks are ASCII, so
   this part of the specification is about bytes.                                           *)

Section Keywords.
Variable t : str.

Definition blanks_b (w : str) : bool := forallb is_ws_byte w.
Definition blanks1_b (w : str) : bool := nonnil w && blanks_b w.

Fixpoint drop_blanks (w : str) : str :=
  match w with
  | b :: r => if is_ws_byte b then drop_blanks r else w
  | [] => []
  end.

Fixpoint drop_prefix (p w : str) : option str :=
  match p with
  | [] => Some w
  | a :: p' => match w with
               | b :: w' => if a =? b then drop_prefix p' w' else None
               | [] => None
               end
  end.

(* w = kw blank+ *)
Definition kw_then_blanks (kw w : str) : bool :=
  match drop_prefix kw w with Some r => blanks1_b r | None => false end.

(* w = blank+ kw blank+;  with [nl] also blank+ kw blank* newline *)
Definition kw_glue (kw : str) (nl : bool) (w : str) : bool :=
  match w with
  | b :: _ =>
    is_ws_byte b &&
    match drop_prefix kw (drop_blanks w) with
    | Some r => blanks1_b r || (nl && match drop_blanks r with [10] => true | _ => false end)
    | None => false
    end
  | [] => false
  end.

Definition kw_paren : str := kw_performance ++ [40].

Definition kw_perf (p : performance) : bool :=
  is_zero_perf p ||
  (let s := r_start (pf_range p) in
   let e := r_end (pf_range p) in
   (s + zlen kw_paren + 1 <=? e) &&
   str_eqb (slice t s (s + zlen kw_paren)) kw_paren && str_eqb (slice t (e - 1) e) [41]).

Definition kw_accrual (a : accrual) : bool :=
  is_zero_accrual a ||
  kw_then_blanks kw_accrue (slice t (r_start (ac_range a)) (r_start (ac_interval a))).

Definition kw_addons (a : addons) : bool := kw_perf (ad_perf a) && kw_accrual (ad_accrual a).

Definition kw_body (b : dir_body) : bool :=
  match b with
  | BTrx x =>
    blanks1_b (slice t (r_end (tx_date x)) (r_start (qs_range (tx_desc x)))) && kw_addons (tx_addons x)
  | BOpen o => kw_glue kw_open false (slice t (r_end (op_date o)) (r_start (acc_range (op_account o))))
  | BClose c => kw_glue kw_close false (slice t (r_end (cl_date c)) (r_start (acc_range (cl_account c))))
  | BAssertion a =>
    match as_balances a with
    | b :: _ => kw_glue kw_balance true (slice t (r_end (as_date a)) (r_start (bl_range b)))
    | [] => false
    end
  | BPrice p => kw_glue kw_price false (slice t (r_end (pr_date p)) (r_start (pr_commodity p)))
  | BInclude i => kw_then_blanks kw_include (slice t (r_start (in_range i)) (r_start (qs_range (in_path i))))
  | BNone => false
  end.

Definition wf_keywords_b (f : file) : bool := forallb (fun d => kw_body (d_body d)) (f_directives f).

End Keywords.
