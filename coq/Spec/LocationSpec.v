(* The RENDERED position of a parser error (C07): the `line:col` that
   directives.Range.Location() (lib/syntax/directives/directives.go) computes from the byte
   offset End of an error range and that every diagnostic of knut prints ("path: line:col msg").

     func (r Range) Location() Location {
         loc := Location{Line: 1, Col: 1}
         for pos, ch := range r.Text {
             if pos == r.End { return loc }
             if ch == '\n' { loc.Line++; loc.Col = 1 } else { loc.Col++ }
         }
         return loc
     }

   Go's `range` over a string walks its RUNES: at byte position pos it decodes text[pos:] with
   utf8.DecodeRuneInString (Model/Utf8.v), yields (pos, rune) and continues at pos + width; an
   invalid or truncated encoding is ONE rune U+FFFD of width 1.  [runes] is that walk -- the list
   of (rune, width) -- written by structural recursion on the bytes with a counter of the
   continuation bytes still to skip, so that no fuel is needed.  [loc_loop] is the loop above,
   [location] is Location() for Text = t and End = off.  When `off` is not the start of a rune
   of that walk (and not |t|) the comparison pos == End never succeeds and Go returns the
   position of the END of the text; so does [location].

   Vocabulary of the statements (everything executable; the check evaluates it on the
   position the Go code rendered):
     rlines rs            the lines of a text given as runes: split at the runes '\n'
                          (k newlines give k+1 lines, the last one is the unterminated rest)
     loc_inside_b t (l,c) the position exists in t: 1 <= l <= number of lines of t, and
                          1 <= c <= (number of runes of line l) + 1   (c = runes + 1 is the
                          position of the line's newline / of the end of the text)
     offset_of t (l,c)    the byte offset the position (l,c) denotes: the bytes of the first
                          l-1 lines with their newlines, plus the bytes of the first c-1 runes
                          of line l
     rune_boundary_b t o  o is the start of a rune of the walk, or |t|
   Lines are counted in runes of the walk over the WHOLE text (the line of an editor that
   decodes like Go); a newline is the rune 10, which -- for Go's decoder -- is the byte 10
   ([runes_newline_width] / [count_nl_runes] in Proofs/LocationProofs.v).                     *)
From Coq Require Import ZArith List Bool.
From Knut Require Import Model.Bytes Model.Utf8 Model.Scanner Spec.SyntaxSpec.
Import ListNotations.
Open Scope bool_scope.
Open Scope Z_scope.

Definition rune_w := (Z * Z)%type.      (* (rune, width in bytes) *)

Section WithDecoder.
Variable dec : str -> Z * Z.            (* utf8.DecodeRuneInString *)

(* for pos, ch := range s: the runes in order.  [skip]: bytes of the current rune not yet passed *)
Fixpoint runes_go (s : str) (skip : nat) : list rune_w :=
  match s with
  | [] => []
  | b :: s' =>
    match skip with
    | S k => runes_go s' k
    | O => let cw := dec (b :: s') in cw :: runes_go s' (Z.to_nat (snd cw - 1))
    end
  end.

Definition runes_with (t : str) : list rune_w := runes_go t 0.

End WithDecoder.

Definition is_nl (r : rune_w) : bool := fst r =? 10.

(* the body of Location(): pos is the byte position of the next rune *)
Fixpoint loc_loop (rs : list rune_w) (pos end_ line col : Z) : Z * Z :=
  match rs with
  | [] => (line, col)
  | r :: rs' =>
    if pos =? end_ then (line, col)
    else if is_nl r then loc_loop rs' (pos + snd r) end_ (line + 1) 1
    else loc_loop rs' (pos + snd r) end_ line (col + 1)
  end.

Definition location_with (dec : str -> Z * Z) (t : str) (off : Z) : Z * Z :=
  loc_loop (runes_with dec t) 0 off 1 1.

(* ------------------------------------------------------------------ what a position means *)

Definition sumw (rs : list rune_w) : Z := fold_right (fun r a => snd r + a) 0 rs.

(* split at every newline rune (as SyntaxSpec.split_nl does on bytes) *)
Fixpoint rlines (rs : list rune_w) : list (list rune_w) :=
  match rs with
  | [] => [[]]
  | r :: rs' =>
    if is_nl r then [] :: rlines rs'
    else match rlines rs' with
         | l :: ls => (r :: l) :: ls
         | [] => [[r]]
         end
  end.

Definition rloc_inside_b (rs : list rune_w) (lc : Z * Z) : bool :=
  let (line, col) := lc in
  (1 <=? line) &&
  match nth_error (rlines rs) (Z.to_nat (line - 1)) with
  | Some l => (1 <=? col) && (col <=? Z.of_nat (length l) + 1)
  | None => false
  end.

(* a newline is one byte *)
Definition roffset_of (rs : list rune_w) (lc : Z * Z) : Z :=
  let (line, col) := lc in
  let ls := rlines rs in
  fold_right (fun l a => sumw l + 1 + a) 0 (firstn (Z.to_nat (line - 1)) ls) +
  sumw (firstn (Z.to_nat (col - 1)) (nth (Z.to_nat (line - 1)) ls [])).

(* the byte positions at which the walk stands: 0, after the first rune, ..., |t| *)
Fixpoint boundaries (rs : list rune_w) (pos : Z) : list Z :=
  pos :: match rs with
         | [] => []
         | r :: rs' => boundaries rs' (pos + snd r)
         end.

Definition loc_inside_with (dec : str -> Z * Z) (t : str) (lc : Z * Z) : bool :=
  rloc_inside_b (runes_with dec t) lc.
Definition offset_of_with (dec : str -> Z * Z) (t : str) (lc : Z * Z) : Z :=
  roffset_of (runes_with dec t) lc.
Definition rune_boundary_with (dec : str -> Z * Z) (t : str) (o : Z) : bool :=
  existsb (Z.eqb o) (boundaries (runes_with dec t) 0).

(* ------------------------------------------------------------------ with Go's decoder *)

Definition runes : str -> list rune_w := runes_with Utf8M.decode.
Definition location : str -> Z -> Z * Z := location_with Utf8M.decode.
Definition loc_inside_b : str -> Z * Z -> bool := loc_inside_with Utf8M.decode.
Definition offset_of : str -> Z * Z -> Z := offset_of_with Utf8M.decode.
Definition rune_boundary_b : str -> Z -> bool := rune_boundary_with Utf8M.decode.

(* every error of a chain: the position rendered for its End lies inside the input *)
Definition errs_located_b (t : str) (e : list err) : bool :=
  forallb (fun x => loc_inside_b t (location t (er_end x))) e.

(* ... and denotes the byte the error points at *)
Definition errs_roundtrip_b (t : str) (e : list err) : bool :=
  forallb (fun x => offset_of t (location t (er_end x)) =? er_end x) e.

(* what the check evaluates on a position (line, col) that the Go code rendered for End = off *)
Definition observed_loc_ok_b (t : str) (off : Z) (lc : Z * Z) : bool :=
  loc_inside_b t lc && (offset_of t lc =? off).

(* the line in terms of BYTES: 1 + the number of bytes '\n' among the first off bytes *)
Definition byte_line (t : str) (off : Z) : Z :=
  1 + Z.of_nat (length (filter (fun b => b =? 10) (firstn (Z.to_nat off) t))).

(* the column a byte-counting Location() would print (the seeded change of round 7):
   1 + number of BYTES since the last newline; used only in examples *)
Definition byte_col (t : str) (off : Z) : Z :=
  1 + Z.of_nat (length (last (split_nl (firstn (Z.to_nat off) t)) [])).
