(* Specification vocabulary for C04 "check accepts exactly the well-formed journals".

   Independent of the checker (Model/Check.v) and of the day builder and the callback order
   (Model/Journal.v): a journal is a list of directives; its *canonical sequence* takes the
   directives by date and, within a day, in the order prices, opens, transactions, assertions,
   closes (each kind in input order); the sequence is flattened into *events* (one per opened
   account, per posting, per asserted balance line, per closed account); well-formedness is a
   condition on every event given the events before it.  There is no state: "open at that
   point" and "running quantity" are functions of the preceding events. *)
From Coq Require Import ZArith List Bool.
From Knut Require Import Model.Str Model.Dec Model.Account Model.Ledger.
Import ListNotations.
Open Scope bool_scope.
Open Scope Z_scope.

(* ------------------------------------------------------------------ canonical order *)

Definition ddate (d : directive) : Z :=
  match d with
  | DPrice dt _ _ _ => dt | DOpen dt _ => dt | DClose dt _ => dt | DAssert dt _ => dt
  | DTxn t => t_date t
  end.

(* prices, opens, transactions, assertions, closes *)
Definition dkind (d : directive) : Z :=
  match d with
  | DPrice _ _ _ _ => 0 | DOpen _ _ => 1 | DTxn _ => 2 | DAssert _ _ => 3 | DClose _ _ => 4
  end.

(* the directives of date [dt] and kind [k], in input order *)
Definition sel (ds : list directive) (dt k : Z) : list directive :=
  filter (fun d => (ddate d =? dt) && (dkind d =? k)) ds.

Definition of_day (ds : list directive) (dt : Z) : list directive :=
  sel ds dt 0 ++ sel ds dt 1 ++ sel ds dt 2 ++ sel ds dt 3 ++ sel ds dt 4.

(* the dates that occur, strictly ascending (characterised by [dates_spec] in
   Proofs/CheckProofs.v: strictly sorted, same members as [map ddate ds]) *)
Fixpoint insert_date (x : Z) (l : list Z) : list Z :=
  match l with
  | [] => [x]
  | y :: t => if x =? y then l else if x <? y then x :: l else y :: insert_date x t
  end.

Definition dates (ds : list directive) : list Z :=
  fold_left (fun l d => insert_date (ddate d) l) ds [].

Definition canonical (ds : list directive) : list directive := flat_map (of_day ds) (dates ds).

(* ------------------------------------------------------------------ events *)

Inductive event :=
| EOpen (a : account)
| EPost (a : account) (c : commodity) (q : dec)      (* one posting of a transaction *)
| EAssert (a : account) (c : commodity) (q : dec)    (* one line of a balance assertion *)
| EClose (a : account).

Definition ev_acc (e : event) : account :=
  match e with EOpen a => a | EPost a _ _ => a | EAssert a _ _ => a | EClose a => a end.

Definition events_of (d : directive) : list event :=
  match d with
  | DPrice _ _ _ _ => []
  | DOpen _ a => [EOpen a]
  | DTxn t => map (fun p => EPost (p_acc p) (p_com p) (p_qty p)) (t_postings t)
  | DAssert _ bs => map (fun b => EAssert (bal_acc b) (bal_com b) (bal_qty b)) bs
  | DClose _ a => [EClose a]
  end.

Definition events (ds : list directive) : list event := flat_map events_of (canonical ds).

(* ------------------------------------------------------------------ history functions *)

Definition str_eq_dec : forall a b : str, {a = b} + {a <> b} := list_eq_dec Z.eq_dec.
Definition acc_eq_dec : forall a b : account, {a = b} + {a <> b} := list_eq_dec str_eq_dec.
Definition same_acc (a b : account) : bool := if acc_eq_dec a b then true else false.
Definition same_com (a b : commodity) : bool := if str_eq_dec a b then true else false.

(* is account [a] open after the events [pre]?  The last open/close of [a] decides. *)
Definition open_step (a : account) (o : bool) (e : event) : bool :=
  match e with
  | EOpen a' => if same_acc a a' then true else o
  | EClose a' => if same_acc a a' then false else o
  | _ => o
  end.
Definition open_after (pre : list event) (a : account) : bool := fold_left (open_step a) pre false.

(* the running quantity of account [a] in commodity [c]: the sum of all postings so far, zero
   if there was none.  (Summed with the decimal addition of the code; only ever compared by
   value, see Proofs/DecEqProofs.v.) *)
Definition qty_step (a : account) (c : commodity) (q : dec) (e : event) : dec :=
  match e with
  | EPost a' c' x => if same_acc a a' && same_com c c' then add q x else q
  | _ => q
  end.
Definition quantity (pre : list event) (a : account) (c : commodity) : dec :=
  fold_left (qty_step a c) pre dec_nil.

(* ------------------------------------------------------------------ well-formedness *)

Definition ok_event (pre : list event) (e : event) : Prop :=
  match e with
  | EOpen a => open_after pre a = false
  | EPost a _ _ => open_after pre a = true
  | EAssert a c q =>
    open_after pre a = true /\ (is_AL a = true -> dec_equal (quantity pre a c) q = true)
  | EClose a =>
    open_after pre a = true /\ (is_AL a = true -> forall c, is_zero (quantity pre a c) = true)
  end.

Definition wellformed_events (evs : list event) : Prop :=
  forall pre e post, evs = pre ++ e :: post -> ok_event pre e.

Definition wellformed (ds : list directive) : Prop := wellformed_events (events ds).

(* why an event is not ok *)
Inductive reason := AlreadyOpen | NotOpen | AssertionFails | NonZeroPosition.

Definition violation (pre : list event) (e : event) (r : reason) : Prop :=
  match e with
  | EOpen a => r = AlreadyOpen /\ open_after pre a = true
  | EPost a _ _ => r = NotOpen /\ open_after pre a = false
  | EAssert a c q =>
    (r = NotOpen /\ open_after pre a = false) \/
    (r = AssertionFails /\ open_after pre a = true /\ is_AL a = true /\ dec_equal (quantity pre a c) q = false)
  | EClose a =>
    (r = NotOpen /\ open_after pre a = false) \/
    (r = NonZeroPosition /\ is_AL a = true /\ exists c, is_zero (quantity pre a c) = false)
  end.

(* ------------------------------------------------------------------ executable version *)

(* the commodities account [a] was posted in *)
Definition posted_coms (pre : list event) (a : account) : list commodity :=
  flat_map (fun e => match e with EPost a' c _ => if same_acc a a' then [c] else [] | _ => [] end) pre.

Definition ok_event_b (pre : list event) (e : event) : bool :=
  match e with
  | EOpen a => negb (open_after pre a)
  | EPost a _ _ => open_after pre a
  | EAssert a c q => open_after pre a && (negb (is_AL a) || dec_equal (quantity pre a c) q)
  | EClose a =>
    open_after pre a && (negb (is_AL a) || forallb (fun c => is_zero (quantity pre a c)) (posted_coms pre a))
  end.

Fixpoint wf_from (pre rest : list event) : bool :=
  match rest with
  | [] => true
  | e :: r => ok_event_b pre e && wf_from (pre ++ [e]) r
  end.

Definition wellformed_b (ds : list directive) : bool := wf_from [] (events ds).

(* the first event that is not ok, with the events before it *)
Fixpoint first_bad (pre rest : list event) : option (list event * event) :=
  match rest with
  | [] => None
  | e :: r => if ok_event_b pre e then first_bad (pre ++ [e]) r else Some (pre, e)
  end.

Definition offender (ds : list directive) : option (list event * event) := first_bad [] (events ds).

(* ------------------------------------------------------------------ syntactic validity *)

(* What the parser and the account registry guarantee for every account of a journal: the
   first segment is an account type, further segments are non-empty, and no segment contains
   a colon or a NUL byte.  (Accounts are lists of segments; knut identifies an account with
   its name, the segments joined by colons; under this condition the two coincide.) *)
Definition seg_ok (s : str) : bool := forallb (fun c => negb (c =? 0) && negb (c =? colon)) s.
Definition account_ok (a : account) : bool := valid_account a && forallb seg_ok a.

Definition syntactic (ds : list directive) : Prop :=
  forall d e, In d ds -> In e (events_of d) -> account_ok (ev_acc e) = true.

Definition syntactic_b (ds : list directive) : bool :=
  forallb (fun d => forallb (fun e => account_ok (ev_acc e)) (events_of d)) ds.
