(* C16, the lexical side conditions of the reader/writer round trip (Properties/C16.v
   C16_text_roundtrip): what a list of emitted items must satisfy for the reader of
   Spec/BeancountSpec.v to give the items back from their text, and what a journal must satisfy
   for `knut transcode` to emit such items.  Executable definitions only.

   The conditions are on bytes and weaker than what knut's parser guarantees (account segments and
   commodities are runs of letters and digits, years are 0000..9999, a description is any text
   without a double quote -- it MAY contain newlines). *)
From Coq Require Import ZArith List Bool.
From Knut Require Import Model.Str Model.Dec Model.Date Model.Account Model.Ledger Model.Journal
     Model.Beancount.
Import ListNotations.
Open Scope bool_scope.
Open Scope Z_scope.

Definition no_byte (c : Z) (s : str) : bool := negb (existsb (Z.eqb c) s).
Definition is_nil {A} (l : list A) : bool := match l with [] => true | _ => false end.

(* ---------------------------------------------------------------- emitted items *)

(* an account name: not empty, no space (it ends at the first space of a posting line), no
   newline, no double quote (a quote would open a string for the line splitter) *)
Definition name_lex_b (s : str) : bool :=
  negb (is_nil s) && no_byte 32 s && no_byte 10 s && no_byte 34 s.

(* time.Format("2006-01-02") prints four digits for the years 0..9999 only *)
Definition date_lex_b (d : Z) : bool := (0 <=? year_of d) && (year_of d <=? 9999).

(* a description: no double quote (guaranteed by knut's parser; since fix faa0268 also for the
   generated descriptions).  Newlines are allowed. *)
Definition desc_lex_b (s : str) : bool := no_byte 34 s.

(* the valuation commodity: it is written raw between quotes in the option line, and as
   stripNonAlphanum(V) on every posting line (which must not be empty: V has at least one byte
   that is not a UTF-8 continuation byte) *)
Definition commodity_lex_b (v : commodity) : bool :=
  no_byte 10 v && no_byte 34 v && negb (is_nil (strip_non_alphanum v)).

Definition entry_lex_b (e : bentry) : bool :=
  match e with
  | BOpen d a => date_lex_b d && name_lex_b (acc_name a)
  | BClose d a => date_lex_b d && name_lex_b (acc_name a)
  | BTxn t => date_lex_b (t_date t) && desc_lex_b (t_desc t) &&
              forallb (fun p => name_lex_b (acc_name (p_acc p))) (t_postings t)
  end.

Definition entries_lex_b (es : list bentry) : bool := forallb entry_lex_b es.

(* ---------------------------------------------------------------- journals *)

(* per segment, so that the condition carries over to the valuation account Income:<rest of A> *)
Definition seg_lex_b (s : str) : bool := no_byte 32 s && no_byte 10 s && no_byte 34 s.
Definition acc_lex_b (a : account) : bool :=
  match a with [] => false | s :: _ => negb (is_nil s) end && forallb seg_lex_b a.

(* the commodity of a posting appears in "Adjust value of C in account A" *)
Definition com_lex_b (c : commodity) : bool := no_byte 34 c.

Definition posting_lex_b (p : posting) : bool := acc_lex_b (p_acc p) && com_lex_b (p_com p).

Definition txn_lex_b (t : txn) : bool :=
  date_lex_b (t_date t) && desc_lex_b (t_desc t) && forallb posting_lex_b (t_postings t).

(* on the model directives (after accrual expansion), as postings_syntactic *)
Definition directive_lex_b (d : directive) : bool :=
  match d with
  | DPrice dt _ _ _ => date_lex_b dt
  | DOpen dt a => date_lex_b dt && acc_lex_b a
  | DClose dt a => date_lex_b dt && acc_lex_b a
  | DAssert dt _ => date_lex_b dt
  | DTxn t => txn_lex_b t
  end.

Definition journal_lex_b (dl : list directive) : bool := forallb directive_lex_b dl.
