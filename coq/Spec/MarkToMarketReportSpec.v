(* C03 on the rendered report: vocabulary of the final statements (Properties/C03.v
   C03_windowed, C03_mark_to_market_report).
   - the report side: the cell of an account under a commodity, cumulated over the columns up to
     a period end (what a row of the balance report shows without --diff, per commodity);
   - the journal side, on the directives as loaded (Spec/ValuationSpec.v price_on, qty_upto: no
     days, no processors): market value of a position on a date, number of truncating steps. *)
From Coq Require Import ZArith QArith List Bool.
From Knut Require Import Model.Str Model.Dec Model.Date Model.Account Model.Ledger Model.Price Model.Journal
     Model.Report Model.Cli
     Spec.WellformedSpec Spec.LedgerSpec Spec.ValuationSpec Spec.MarkToMarketSpec Spec.PriceDaySpec
     Proofs.DecValue Proofs.LedgerProofs.
Import ListNotations.
Open Scope Q_scope.

(* the report shows account a as itself: no mapping rule shortens it or anything else onto it, no
   remap swaps it (in particular: no --mapping and no --remap at all); other accounts may be
   shortened, swapped or hidden as long as they do not land on a *)
Definition shows_account (cfg : balance_cfg) (a : account) : Prop :=
  forall b, account_ok b = true ->
  match shorten (bc_mapping cfg) (remap (bc_remap cfg) b) with
  | ShAcc b' => acc_eqb b' a = acc_eqb b a
  | _ => acc_eqb b a = false
  end.

(* the value stored for account a and commodity c, summed over the columns up to col: the number
   a row shows under col when --diff is off (Properties/C02.v C02_row_cumulative), before the
   commodities of a valued row are added up *)
Definition cum_cell (a : account) (c : commodity) (part : partition) (col : Z) (r : report) : Q :=
  LedgerProofs.qsum (fun e => if (e <=? col)%Z then rcell a (Some e, Some c) r else 0) (end_dates part).

(* the days the balance command builds from the loaded directives (--close touches the period starts) *)
Definition built_days (close : bool) (dl : list directive) (part : partition) : list day :=
  b_days (if close then builder_touch (builder_of dl) (start_dates part) else builder_of dl).

(* ---- journal side, on builder days *)
Definition days_upto (T : Z) (ds : list day) : list day := filter (fun x => (d_date x <=? T)%Z) ds.

(* the prices in force after the first n days: those of day n - 1 (C12 "on a given day") *)
Definition prices_after (V : commodity) (ds : list day) (n : nat) : option nprices :=
  match n with O => None | S k => PriceDaySpec.price_on V ds k end.

Definition qty_on_days (a : account) (c : commodity) (ds : list day) (T : Z) : Q :=
  cell_qty a c (MarkToMarketSpec.days_postings (days_upto T ds)).
Definition price_on_days (V c : commodity) (ds : list day) (T : Z) : Q :=
  price_value (prices_after V ds (length (days_upto T ds))) c.

(* ---- journal side, on directives *)
Definition price_q (o : option dec) : Q := match o with Some p => dvalue p | None => 0 end.

(* quantity(a, c, T) * price(c, T): exact, in rationals; 0 stands for a missing price (a position
   that is not zero has one: Properties/C03.v C03_held_has_price) *)
Definition mv_cell (dl : list directive) (V : commodity) (a : account) (c : commodity) (T : Z) : Q :=
  dvalue (qty_upto (flat_postings dl) a c T) * price_q (ValuationSpec.price_on dl V c T).

Definition in_window (W E d : Z) : bool := ((W <=? d) && (d <=? E))%Z.

(* Multiply calls that can contribute to the cell inside [W, E]: one per booking of (a, c), one
   revaluation per day of the journal (a date that carries a directive; with --close also the
   period starts) *)
Definition bookings_in (dl : list directive) (a : account) (c : commodity) (W E : Z) : Z :=
  Z.of_nat (length (filter (fun dp : Z * posting => in_window W E (fst dp) && cellb a c (snd dp)) (flat_postings dl))).
Definition days_in (dl : list directive) (W E : Z) : Z :=
  Z.of_nat (length (filter (in_window W E) (WellformedSpec.dates dl))).
Definition cell_steps (cfg : balance_cfg) (dl : list directive) (part : partition) (a : account) (c : commodity) (E : Z) : Z :=
  (bookings_in dl a c (p_start (span part)) E + days_in dl (p_start (span part)) E
   + (if bc_close cfg then Z.of_nat (length (periods part)) else 0))%Z.

(* ---- the whole row: a valued row adds up the commodities of the account *)
Definition row_value (a : account) (part : partition) (col : Z) (r : report) (coms : list commodity) : Q :=
  LedgerProofs.qsum (fun c => cum_cell a c part col r) coms.
Definition mv_row (dl : list directive) (V : commodity) (a : account) (T : Z) (coms : list commodity) : Q :=
  LedgerProofs.qsum (fun c => mv_cell dl V a c T) coms.
(* the valuation commodity itself takes no Multiply *)
Fixpoint row_steps (cfg : balance_cfg) (dl : list directive) (part : partition) (V : commodity) (a : account) (E : Z)
         (coms : list commodity) : Z :=
  match coms with
  | [] => 0%Z
  | c :: rest => ((if str_eqb c V then 0 else cell_steps cfg dl part a c E) + row_steps cfg dl part V a E rest)%Z
  end.
