(* C16, clause "the set of transactions equals the valued transactions of the journal (user bookings plus the
   daily value adjustments) without loss or duplication": [complete_check] (Spec/BeancountSpec.v) finds every
   user transaction among the emitted ones and demands that the rest have the shape of value adjustments, but it
   cannot tell whether an adjustment is MISSING - that needs the prices.  This file adds the statement that does:
   in the emitted ledger the postings on every asset/liability account add up to the account's market value on
   the journal's last day, Sum_c Q_T(a,c) * p_T(c) (Spec/ValuationSpec.v: quantities and normalised prices
   straight from the directives, no days, no processors), within the truncation allowance of C03 (one 10^-8 per
   booking and per revaluation).  A lost (or doubled) value adjustment moves an account's total by
   (p_t - p_{t-1}) * Q_{t-1}.  Seeded change C16b-merge-drops-late-adjustments was reported as a bare
   model/binary disagreement before this clause existed. *)
From Coq Require Import ZArith List Bool.
From Knut Require Import Model.Str Model.Dec Model.Date Model.Account Model.Ledger Model.Price Model.Cli
     Spec.LedgerSpec Spec.ValuationSpec Spec.BeancountSpec.
Import ListNotations.
Open Scope bool_scope.
Open Scope Z_scope.

Definition directive_date (d : directive) : Z :=
  match d with DPrice x _ _ _ | DOpen x _ | DClose x _ | DAssert x _ => x | DTxn t => t_date t end.

Definition last_date (dl : list directive) : Z := fold_left (fun m d => Z.max m (directive_date d)) dl 0.

(* the earliest directive date (for an empty journal: last_date = 0).  Dates of the year 0000 are negative day
   numbers (day 0 = 0001-01-01), so the window of the step count starts here and not at 0. *)
Definition first_date (dl : list directive) : Z := fold_left (fun m d => Z.min m (directive_date d)) dl (last_date dl).

(* exact sum of the amounts the ledger posts to the account called [name] *)
Definition ledger_total (es : list sentry) (name : str) : dec :=
  fold_left (fun acc e =>
    match e with
    | ETxn _ _ ps => fold_left (fun a x => if str_eqb (account_of x) name then add a (amount_of x) else a) ps acc
    | _ => acc
    end) es (mkDec 0 0).

Definition k_mtm : str :=   (* account-total-not-mark-to-market *)
  [97;99;99;111;117;110;116;45;116;111;116;97;108;45;110;111;116;45;109;97;114;107;45;116;111;45;109;97;114;107;101;116].

Definition mtm_check (dl : list directive) (V : commodity) (es : list sentry) : list violation :=
  let T := last_date dl in
  flat_map (fun a =>
    match market_value dl V a T with
    | Some e => if within_bound (ledger_total es (acc_name a)) e (step_bound dl a (first_date dl) T) then []
                else [mkViol k_mtm (acc_name a) false]
    | None => []
    end) (al_accounts dl).

(* c16_verdict with the mark-to-market clause *)
Definition c16_verdict_mtm (sds : list sdirective) (V : commodity) (text : str) : str :=
  match read_ledger text with
  | Some (v, es) =>
    verdict_of (beancount_check v es ++ complete_check sds es ++
                match parse_directives sds with MOk dl => mtm_check dl V es | _ => [] end)
  | None => s_fail ++ k_unreadable
  end.
