(* Specification vocabulary of C07, part 3: the SEPARATORS -- the text BETWEEN the leaves of a
   node, and that the leaves and separators of a node reach from its start to its end.

   Spec/LeafSpec.v says what the slice of every leaf is ([wf_leaves_b]) and which keyword stands
   between a date and its payload ([wf_keywords_b]).  This file adds the rest of a directive's
   text (bytes; blanks are 32, 9, 13):

     booking        credit  blank+  debit  blank+  decimal  blank+  commodity
     balance line   account  blank+  decimal  blank+  commodity
     price          commodity  blank+  decimal  blank+  commodity        (after the keyword glue)
     @accrue        interval  blank+  date  blank+  date  blank+  account (after `@accrue` blank+)
     @performance(  blank*  [ commodity  ( blank* , blank*  commodity )* ]  blank*  )
     lines          after the description, after every booking / balance line of the multi-line
                    form and after every addon: blank* newline (the last line of a directive at
                    the very end of the text may lack the newline)
     adjacency      a node starts with its first leaf and ends with its last (or with the rest
                    of its last line); the date of a transaction follows its addon lines
     dropped addons the parser accepts addon lines in front of EVERY directive but keeps them
                    only in a transaction; in front of open / close / balance / price / include
                    they are part of the directive's range and of no node: of that text the
                    statement only says that it starts with `@` and ends with a newline.

   Everything is executable: [wf_separators_b] is extracted and evaluated on the tree the Go
   parser returns.  [pieces] / [determined_b] (below) enumerate ALL pieces of a text -- gaps,
   leaves, keyword windows, separators -- in source order with their classes.              *)
From Coq Require Import ZArith List Bool.
From Knut Require Import Model.Bytes Model.Utf8 Model.Scanner Model.Parser Spec.SyntaxSpec Spec.FormatSpec Spec.LeafSpec.
Import ListNotations.
Open Scope bool_scope.
Open Scope Z_scope.

(* ------------------------------------------------------------------ classes of separators *)

(* blank* newline *)
Definition restline_b (w : str) : bool :=
  match drop_blanks w with [b] => b =? 10 | _ => false end.

(* the rest of the last line of a node; at the end of the text the newline may be missing *)
Definition restline_end_b (eofok : bool) (w : str) : bool := restline_b w || (eofok && blanks_b w).

(* blank* , blank* *)
Definition comma_b (w : str) : bool :=
  match drop_blanks w with b :: r => (b =? 44) && blanks_b r | [] => false end.

(* addon lines that belong to no node: `@` ... newline *)
Definition dropped_b (w : str) : bool :=
  match w with [] => true | b :: _ => (b =? 64) && (last w 0 =? 10) end.

Section Separators.
Variable t : str.

Notation sl := (slice t).

Definition sep_booking (b : booking) : bool :=
  (r_start (bk_range b) =? r_start (acc_range (bk_credit b))) &&
  blanks1_b (sl (r_end (acc_range (bk_credit b))) (r_start (acc_range (bk_debit b)))) &&
  blanks1_b (sl (r_end (acc_range (bk_debit b))) (r_start (bk_quantity b))) &&
  blanks1_b (sl (r_end (bk_quantity b)) (r_start (bk_commodity b))) &&
  (r_end (bk_commodity b) =? r_end (bk_range b)).

Definition sep_balance (b : balance) : bool :=
  (r_start (bl_range b) =? r_start (acc_range (bl_account b))) &&
  blanks1_b (sl (r_end (acc_range (bl_account b))) (r_start (bl_quantity b))) &&
  blanks1_b (sl (r_end (bl_quantity b)) (r_start (bl_commodity b))) &&
  (r_end (bl_commodity b) =? r_end (bl_range b)).

(* the lines rs of a node that ends at hi: between two lines and after the last one stands the
   rest of a line *)
Fixpoint sep_lines (eofok : bool) (rs : list range) (hi : Z) : bool :=
  match rs with
  | [] => false
  | r :: rs' =>
    match rs' with
    | [] => restline_end_b eofok (sl (r_end r) hi)
    | r' :: _ => restline_b (sl (r_end r) (r_start r')) && sep_lines eofok rs' hi
    end
  end.

(* the targets of @performance( ... ) between pos and the closing parenthesis at hi *)
Fixpoint sep_targets (first : bool) (pos : Z) (cs : list range) (hi : Z) : bool :=
  match cs with
  | [] => (pos <=? hi) && blanks_b (sl pos hi)
  | c :: cs' =>
    (pos <=? r_start c) && (if first then blanks_b else comma_b) (sl pos (r_start c)) &&
    sep_targets false (r_end c) cs' hi
  end.

Definition sep_perf (p : performance) : bool :=
  is_zero_perf p ||
  sep_targets true (r_start (pf_range p) + zlen kw_paren) (pf_targets p) (r_end (pf_range p) - 1).

Definition sep_accrual (a : accrual) : bool :=
  is_zero_accrual a ||
  (blanks1_b (sl (r_end (ac_interval a)) (r_start (ac_start a))) &&
   blanks1_b (sl (r_end (ac_start a)) (r_start (ac_end a))) &&
   blanks1_b (sl (r_end (ac_end a)) (r_start (acc_range (ac_account a)))) &&
   (r_end (acc_range (ac_account a)) =? r_end (ac_range a))).

(* the present addons fill [lo, hi): each is followed by the rest of its line; they come in
   either order *)
Definition tile_ad_b (eofok : bool) (lo hi : Z) (p : performance) (c : accrual) : bool :=
  let pr := pf_range p in
  let cr := ac_range c in
  match is_zero_perf p, is_zero_accrual c with
  | true, true => lo =? hi
  | false, true =>
    (r_start pr =? lo) && (r_start pr <? r_end pr) && restline_end_b eofok (sl (r_end pr) hi)
  | true, false =>
    (r_start cr =? lo) && (r_start cr <? r_end cr) && restline_end_b eofok (sl (r_end cr) hi)
  | false, false =>
    (r_start pr <? r_end pr) && (r_start cr <? r_end cr) &&
    if r_start pr <? r_start cr
    then (r_start pr =? lo) && restline_b (sl (r_end pr) (r_start cr)) && restline_end_b eofok (sl (r_end cr) hi)
    else (r_start cr =? lo) && restline_b (sl (r_end cr) (r_start pr)) && restline_end_b eofok (sl (r_end pr) hi)
  end.

Definition sep_addons (a : addons) : bool :=
  is_zero_addons a ||
  ((r_start (ad_range a) <? r_end (ad_range a)) &&
   tile_ad_b false (r_start (ad_range a)) (r_end (ad_range a)) (ad_perf a) (ad_accrual a) &&
   sep_perf (ad_perf a) && sep_accrual (ad_accrual a)).

(* the text between the start of a directive and its date (its `include`) *)
Definition sep_dropped (lo hi : Z) : bool := (lo <=? hi) && dropped_b (sl lo hi).

Definition sep_body (d : range) (b : dir_body) : bool :=
  match b with
  | BTrx x =>
    let a := tx_addons x in
    let hi := r_end (tx_range x) in
    sep_addons a &&
    (if is_zero_addons a then r_start (tx_date x) =? r_start (tx_range x)
     else (r_start (ad_range a) =? r_start (tx_range x)) && (r_start (tx_date x) =? r_end (ad_range a))) &&
    match tx_bookings x with
    | b1 :: _ => restline_b (sl (r_end (qs_range (tx_desc x))) (r_start (bk_range b1)))
    | [] => false
    end &&
    sep_lines (hi =? zlen t) (map bk_range (tx_bookings x)) hi &&
    forallb sep_booking (tx_bookings x)
  | BOpen o =>
    sep_dropped (r_start (op_range o)) (r_start (op_date o)) &&
    (r_end (acc_range (op_account o)) =? r_end (op_range o))
  | BClose c =>
    sep_dropped (r_start (cl_range c)) (r_start (cl_date c)) &&
    (r_end (acc_range (cl_account c)) =? r_end (cl_range c))
  | BAssertion a =>
    let hi := r_end (as_range a) in
    sep_dropped (r_start (as_range a)) (r_start (as_date a)) &&
    forallb sep_balance (as_balances a) &&
    (match as_balances a with [b] => r_end (bl_range b) =? hi | _ => false end ||
     sep_lines (hi =? zlen t) (map bl_range (as_balances a)) hi)
  | BPrice p =>
    sep_dropped (r_start (pr_range p)) (r_start (pr_date p)) &&
    blanks1_b (sl (r_end (pr_commodity p)) (r_start (pr_price p))) &&
    blanks1_b (sl (r_end (pr_price p)) (r_start (pr_target p))) &&
    (r_end (pr_target p) =? r_end (pr_range p))
  | BInclude i =>
    sep_dropped (r_start d) (r_start (in_range i)) &&
    (r_end (qs_range (in_path i)) =? r_end (in_range i))
  | BNone => false
  end.

Definition wf_separators_b (f : file) : bool :=
  forallb (fun d => sep_body (d_range d) (d_body d)) (f_directives f).

End Separators.

(* ================================================================== every byte of the text

   [pieces t f]: the gaps, leaves, keyword windows and separators of a tree, in source order, each
   with its class.  [determined_b]: the pieces follow each other without a hole from 0 to |t|
   and the slice of each is in its class -- so the text is the concatenation of its pieces
   ([pieces_concat], Proofs/DeterminedProofs.v), every one of which is described by cover_b
   (gaps), wf_leaves_b (leaves), wf_keywords_b (keyword windows) or wf_separators_b.        *)

Inductive pclass :=
| PGap (after last : bool)      (* cover_b: whitespace-only and comment lines *)
| PDate | PDecimal | PCommodity | PInterval
| PAccount (a : account)
| PQuoted (q : quoted)
| PGlue (kw : str) (nl : bool)  (* blank+ kw blank+   (blank+ kw blank* newline) *)
| PKwBlanks (kw : str)          (* kw blank+ *)
| PLit (w : str)                (* `@performance(` and `)` *)
| PBlanks0                      (* blank* *)
| PBlanks1                      (* blank+ *)
| PComma                        (* blank* , blank* *)
| PRest                         (* blank* newline *)
| PRestEnd (eofok : bool)       (* blank* newline; blank* at the end of the text *)
| PRestOpt (eofok : bool)       (* nothing, or as PRestEnd *)
| PDropped.                     (* nothing, or `@` ... newline: addon lines of no node *)

Definition piece := (range * pclass)%type.

Section Pieces.
Variable dec : str -> Z * Z.
Variables letter digit : Z -> bool.
Variable t : str.

Definition piece_ok_b (p : piece) : bool :=
  let w := cut t (fst p) in
  match snd p with
  | PGap after last => gap_ok_b after last w && (negb after || last || nonnil w)
  | PDate => leaf_date dec digit t (fst p)
  | PDecimal => leaf_decimal dec digit t (fst p)
  | PCommodity => leaf_commodity dec letter digit t (fst p)
  | PInterval => leaf_interval t (fst p)
  | PAccount a => range_eqb (fst p) (acc_range a) && leaf_account dec letter digit t a
  | PQuoted q => range_eqb (fst p) (qs_range q) && leaf_quoted dec t q
  | PGlue kw nl => kw_glue kw nl w
  | PKwBlanks kw => kw_then_blanks kw w
  | PLit x => str_eqb w x
  | PBlanks0 => blanks_b w
  | PBlanks1 => blanks1_b w
  | PComma => comma_b w
  | PRest => restline_b w
  | PRestEnd eofok => restline_end_b eofok w
  | PRestOpt eofok => negb (nonnil w) || restline_end_b eofok w
  | PDropped => dropped_b w
  end.

(* the pieces ps lead from pos to hi without a hole, each in its class *)
Fixpoint chain_b (pos : Z) (ps : list piece) (hi : Z) : bool :=
  match ps with
  | [] => pos =? hi
  | p :: ps' =>
    (r_start (fst p) =? pos) && (pos <=? r_end (fst p)) && piece_ok_b p && chain_b (r_end (fst p)) ps' hi
  end.

Definition sepp (a b : Z) (c : pclass) : piece := (mkRange a b, c).

Definition pc_account (a : account) : piece := (acc_range a, PAccount a).

Definition pc_booking (b : booking) : list piece :=
  [pc_account (bk_credit b);
   sepp (r_end (acc_range (bk_credit b))) (r_start (acc_range (bk_debit b))) PBlanks1;
   pc_account (bk_debit b);
   sepp (r_end (acc_range (bk_debit b))) (r_start (bk_quantity b)) PBlanks1;
   (bk_quantity b, PDecimal);
   sepp (r_end (bk_quantity b)) (r_start (bk_commodity b)) PBlanks1;
   (bk_commodity b, PCommodity)].

Definition pc_balance (b : balance) : list piece :=
  [pc_account (bl_account b);
   sepp (r_end (acc_range (bl_account b))) (r_start (bl_quantity b)) PBlanks1;
   (bl_quantity b, PDecimal);
   sepp (r_end (bl_quantity b)) (r_start (bl_commodity b)) PBlanks1;
   (bl_commodity b, PCommodity)].

(* lines (bookings, balance lines) of a node that ends at hi *)
Fixpoint pc_lines {A} (pc : A -> list piece) (rg : A -> range) (lastc : pclass) (xs : list A) (hi : Z) : list piece :=
  match xs with
  | [] => []
  | x :: xs' =>
    pc x ++
    match xs' with
    | [] => [sepp (r_end (rg x)) hi lastc]
    | x' :: _ => sepp (r_end (rg x)) (r_start (rg x')) PRest :: pc_lines pc rg lastc xs' hi
    end
  end.

Fixpoint pc_targets (first : bool) (pos : Z) (cs : list range) (hi : Z) : list piece :=
  match cs with
  | [] => [sepp pos hi PBlanks0]
  | c :: cs' =>
    sepp pos (r_start c) (if first then PBlanks0 else PComma) :: (c, PCommodity) :: pc_targets false (r_end c) cs' hi
  end.

Definition pc_perf (p : performance) : list piece :=
  let s := r_start (pf_range p) in
  let e := r_end (pf_range p) in
  sepp s (s + zlen kw_paren) (PLit kw_paren) ::
  pc_targets true (s + zlen kw_paren) (pf_targets p) (e - 1) ++ [sepp (e - 1) e (PLit [41])].

Definition pc_accrual (a : accrual) : list piece :=
  [sepp (r_start (ac_range a)) (r_start (ac_interval a)) (PKwBlanks kw_accrue);
   (ac_interval a, PInterval);
   sepp (r_end (ac_interval a)) (r_start (ac_start a)) PBlanks1;
   (ac_start a, PDate);
   sepp (r_end (ac_start a)) (r_start (ac_end a)) PBlanks1;
   (ac_end a, PDate);
   sepp (r_end (ac_end a)) (r_start (acc_range (ac_account a))) PBlanks1;
   pc_account (ac_account a)].

Definition pc_addons (a : addons) : list piece :=
  if is_zero_addons a then [] else
  let p := ad_perf a in
  let c := ad_accrual a in
  let hi := r_end (ad_range a) in
  match is_zero_perf p, is_zero_accrual c with
  | true, true => []
  | false, true => pc_perf p ++ [sepp (r_end (pf_range p)) hi PRest]
  | true, false => pc_accrual c ++ [sepp (r_end (ac_range c)) hi PRest]
  | false, false =>
    if r_start (pf_range p) <? r_start (ac_range c)
    then pc_perf p ++ sepp (r_end (pf_range p)) (r_start (ac_range c)) PRest :: pc_accrual c ++ [sepp (r_end (ac_range c)) hi PRest]
    else pc_accrual c ++ sepp (r_end (ac_range c)) (r_start (pf_range p)) PRest :: pc_perf p ++ [sepp (r_end (pf_range p)) hi PRest]
  end.

Definition pc_body (d : range) (b : dir_body) : list piece :=
  match b with
  | BTrx x =>
    let hi := r_end (tx_range x) in
    pc_addons (tx_addons x) ++
    (tx_date x, PDate) ::
    sepp (r_end (tx_date x)) (r_start (qs_range (tx_desc x))) PBlanks1 ::
    (qs_range (tx_desc x), PQuoted (tx_desc x)) ::
    match tx_bookings x with
    | b1 :: _ => [sepp (r_end (qs_range (tx_desc x))) (r_start (bk_range b1)) PRest]
    | [] => []
    end ++
    pc_lines pc_booking bk_range (PRestEnd (hi =? zlen t)) (tx_bookings x) hi
  | BOpen o =>
    [sepp (r_start (op_range o)) (r_start (op_date o)) PDropped;
     (op_date o, PDate);
     sepp (r_end (op_date o)) (r_start (acc_range (op_account o))) (PGlue kw_open false);
     pc_account (op_account o)]
  | BClose c =>
    [sepp (r_start (cl_range c)) (r_start (cl_date c)) PDropped;
     (cl_date c, PDate);
     sepp (r_end (cl_date c)) (r_start (acc_range (cl_account c))) (PGlue kw_close false);
     pc_account (cl_account c)]
  | BAssertion a =>
    let hi := r_end (as_range a) in
    sepp (r_start (as_range a)) (r_start (as_date a)) PDropped ::
    (as_date a, PDate) ::
    match as_balances a with
    | b1 :: _ => [sepp (r_end (as_date a)) (r_start (bl_range b1)) (PGlue kw_balance true)]
    | [] => []
    end ++
    pc_lines pc_balance bl_range (PRestOpt (hi =? zlen t)) (as_balances a) hi
  | BPrice p =>
    [sepp (r_start (pr_range p)) (r_start (pr_date p)) PDropped;
     (pr_date p, PDate);
     sepp (r_end (pr_date p)) (r_start (pr_commodity p)) (PGlue kw_price false);
     (pr_commodity p, PCommodity);
     sepp (r_end (pr_commodity p)) (r_start (pr_price p)) PBlanks1;
     (pr_price p, PDecimal);
     sepp (r_end (pr_price p)) (r_start (pr_target p)) PBlanks1;
     (pr_target p, PCommodity)]
  | BInclude i =>
    [sepp (r_start d) (r_start (in_range i)) PDropped;
     sepp (r_start (in_range i)) (r_start (qs_range (in_path i))) (PKwBlanks kw_include);
     (qs_range (in_path i), PQuoted (in_path i))]
  | BNone => []
  end.

Fixpoint pc_file (pos : Z) (after : bool) (ds : list directive) : list piece :=
  match ds with
  | [] => [sepp pos (zlen t) (PGap after true)]
  | d :: ds' =>
    sepp pos (r_start (d_range d)) (PGap after false) ::
    pc_body (d_range d) (d_body d) ++ pc_file (r_end (d_range d)) true ds'
  end.

Definition pieces_gen (f : file) : list piece := pc_file 0 false (f_directives f).

Definition determined_gen (f : file) : bool := chain_b 0 (pieces_gen f) (zlen t).

End Pieces.

(* with Go's decoder *)
Definition pieces (t : str) (f : file) : list piece := pieces_gen t f.
Definition determined_b (letter digit : Z -> bool) (t : str) (f : file) : bool :=
  determined_gen Utf8M.decode letter digit t f.
