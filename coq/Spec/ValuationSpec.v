(* C03: valued balances are mark-to-market at the latest known price.
   Independent vocabulary: prices known on a day = the price declarations dated on or before
   it, inserted in date order (prices_insert, normalize: C12); quantity of a position on a
   day = exact sum of the bookings dated on or before it.  No days, no processors. *)
From Coq Require Import ZArith List Bool.
From Knut Require Import Model.Str Model.Dec Model.Date Model.Account Model.Ledger Model.Price Model.Cli
     Spec.LedgerSpec.
Import ListNotations.
Open Scope bool_scope.
Open Scope Z_scope.

(* price declarations dated <= T, ascending by date (stable: same-day declarations keep
   journal order; the property excludes conflicting same-day declarations) *)
Definition price_decls (dl : list directive) (T : Z) : list (Z * commodity * dec * commodity) :=
  sort_by (fun a b => fst (fst (fst a)) <? fst (fst (fst b)))
          (concat (map (fun d => match d with
                                 | DPrice dt c p t => if dt <=? T then [(dt, c, p, t)] else []
                                 | _ => [] end) dl)).

Definition prices_upto (dl : list directive) (T : Z) : option prices :=
  fold_left (fun acc x =>
    match acc with
    | None => None
    | Some ps => let '(_, c, p, t) := x in
                 match prices_insert ps c p t with InsOk ps' => Some ps' | _ => None end
    end) (price_decls dl T) (Some []).

(* the price of c in V on day T; None if V and c are not connected by declarations up to T *)
Definition price_on (dl : list directive) (V c : commodity) (T : Z) : option dec :=
  if str_eqb c V then Some one
  else match prices_upto dl T with
       | None => None
       | Some ps => match normalize ps V with Some np => np_price np c | None => None end
       end.

Definition qty_upto (posts : list (Z * posting)) (a : account) (c : commodity) (T : Z) : dec :=
  dsum (concat (map (fun dp => let '(d, p) := dp in
                  if (d <=? T) && acc_eqb (p_acc p) a && str_eqb (p_com p) c then [p_qty p] else []) posts)).

Definition held_commodities (posts : list (Z * posting)) (a : account) : list commodity :=
  fold_left (fun l dp => let '(_, p) := dp in if acc_eqb (p_acc p) a then insert_com (p_com p) l else l) posts [].

(* Σ_c Q_T(a,c) * p_T(c), exact; None if a held commodity with non-zero quantity has no price *)
Definition market_value (dl : list directive) (V : commodity) (a : account) (T : Z) : option dec :=
  let posts := flat_postings dl in
  fold_left (fun acc c =>
    match acc with
    | None => None
    | Some s =>
      let q := qty_upto posts a c T in
      if is_zero q then Some s
      else match price_on dl V c T with
           | Some p => Some (add s (mul q p))
           | None => None
           end
    end) (held_commodities posts a) (Some dec_nil).

(* what the column ending at E of a report whose window starts at W must show for account a,
   before the per-step truncations *)
Definition mtm_expected (dl : list directive) (V : commodity) (a : account) (W E : Z) : option dec :=
  match market_value dl V a E, market_value dl V a (W - 1) with
  | Some x, Some y => Some (sub x y)
  | _, _ => None
  end.

(* number of truncating multiplications that can contribute: one per booking on the account in
   the window, one per (day with a directive in the window, held commodity) revaluation *)
Definition step_bound (dl : list directive) (a : account) (W E : Z) : Z :=
  let posts := flat_postings dl in
  let nb := Z.of_nat (length (filter (fun dp => let '(d, p) := dp in (W <=? d) && (d <=? E) && acc_eqb (p_acc p) a) posts)) in
  let days := fold_left (fun l d =>
                let dt := match d with DPrice x _ _ _ | DOpen x _ | DClose x _ | DAssert x _ => x | DTxn t => t_date t end in
                if (W <=? dt) && (dt <=? E) && negb (existsb (Z.eqb dt) l) then dt :: l else l) dl [] in
  nb + Z.of_nat (length days) * Z.of_nat (length (held_commodities posts a)) + 1.

(* |observed - expected| <= n * 10^-8 *)
Definition within_bound (observed expected : dec) (n : Z) : bool :=
  negb (greater_than (dabs (sub observed expected)) (mkDec n (-8))).

(* a booking that needs a price which does not exist on its day *)
Definition missing_price_b (dl : list directive) (V : commodity) : bool :=
  existsb (fun dp => let '(d, p) := dp in
             negb (is_zero (p_qty p)) && negb (str_eqb (p_com p) V) &&
             match price_on dl V (p_com p) d with None => true | Some _ => false end)
          (flat_postings dl).

(* per column of the report: expected value of account a and the truncation allowance *)
Definition mtm_row (cfg : balance_cfg) (dl : list directive) (a : account) : option (list (option dec * Z)) :=
  match bc_valuation cfg with
  | None => None
  | Some V =>
    match new_partition (clip (mkPeriod (bc_from cfg) (bc_to cfg)) (journal_period dl)) (bc_interval cfg) (bc_last cfg) with
    | POk part =>
      let W := p_start (span part) in
      Some (map (fun p => (mtm_expected dl V a W (p_end p), step_bound dl a W (p_end p))) (periods part))
    | _ => None
    end
  end.

Definition al_accounts (dl : list directive) : list account :=
  fold_left (fun l dp => let '(_, p) := dp in if is_AL (p_acc p) then insert_row (p_acc p) l else l) (flat_postings dl) [].
