(* Specification vocabulary for include GRAPHS (C19, the loader with parseRec's ancestor chain).

   Files are numbers; [inc f] lists the include directives of f in file order (the same target may
   occur several times).  The graph may be cyclic.  A [visit] is what one parser task is about: a file
   together with the chain of files whose include directives led to it (root first) - Go's
   [ancestors] and [key] in syntax.parseRec; the chain of the task is [anc ++ [f]].

   [ipath root anc f]   the declarative notion: root = a0 -> a1 -> .. -> f is a path of include edges
                        and anc = [a0; a1; ..] are the files before f on it.
   [walks fuel anc f]   the executable enumeration of all visits below (anc, f): the visit itself and,
                        unless f is among its ancestors (an include cycle: the visit is a dead end),
                        the visits below every include directive of f.  With enough fuel (the number
                        of files, Proofs/IncludeGraphProofs.v [walks_spec]) the visits below
                        ([], root) are exactly the paths from the root whose proper prefix is simple
                        (no file twice): the simple paths, and the simple paths extended by one edge
                        back into themselves.
   [gvisits f vs]       the visit list of a finite include TREE (every file once per include path),
                        the relation [visits] of C05_layout (Proofs/OrderLayout.v) on numbered files. *)
From Coq Require Import List Bool Arith PeanoNat.
Import ListNotations.
Open Scope bool_scope.

Definition memn (x : nat) (l : list nat) : bool := existsb (Nat.eqb x) l.

Definition visit := (list nat * nat)%type.
Definition v_chain (v : visit) : list nat := fst v ++ [snd v].
(* the file of the visit is one of its own ancestors: parseRec returns "include cycle" *)
Definition v_cyc (v : visit) : bool := memn (snd v) (fst v).
Definition v_simple (v : visit) : bool := negb (v_cyc v).

Section Graph.
  Variable inc : nat -> list nat.

  Fixpoint walks (fuel : nat) (anc : list nat) (f : nat) : list visit :=
    (anc, f) ::
    (if memn f anc then []
     else match fuel with
          | 0 => []
          | S d => flat_map (walks d (anc ++ [f])) (inc f)
          end).

  (* a finite graph: the files reachable from the root are among [univ] *)
  Definition finite_graph (univ : list nat) (root : nat) : Prop :=
    In root univ /\ forall f g, In f univ -> In g (inc f) -> In g univ.

  (* all visits of a load of [root]; a simple path has at most [length univ] files *)
  Definition all_visits (univ : list nat) (root : nat) : list visit := walks (length univ) [] root.
  Definition simple_paths (univ : list nat) (root : nat) : list visit := filter v_simple (all_visits univ root).
  Definition cycle_closings (univ : list nat) (root : nat) : list visit := filter v_cyc (all_visits univ root).

  (* include paths that start at [a0] with ancestors [anc0] *)
  Inductive ipath_from (anc0 : list nat) (a0 : nat) : list nat -> nat -> Prop :=
  | ipath_here : ipath_from anc0 a0 anc0 a0
  | ipath_step : forall anc f g, ipath_from anc0 a0 anc f -> In g (inc f) -> ipath_from anc0 a0 (anc ++ [f]) g.

  Definition ipath (root : nat) : list nat -> nat -> Prop := ipath_from [] root.

  (* some include path from the root comes back to a file it has already passed *)
  Definition cycle_reachable (root : nat) : Prop := exists anc f, ipath root anc f /\ In f anc.

  Inductive gvisits : nat -> list nat -> Prop :=
  | gvisits_file : forall f vss, Forall2 gvisits (inc f) vss -> gvisits f (f :: concat vss).
End Graph.
