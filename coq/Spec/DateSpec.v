(* Specification vocabulary for C11 (reporting periods).  Independent of the algorithm in
   Model/Date.v: it uses only the calendar functions civil / year_of / month_of. *)
From Coq Require Import ZArith List Bool.
From Knut Require Import Model.Date.
Import ListNotations.
Open Scope bool_scope.
Open Scope Z_scope.

(* The calendar unit a day belongs to.  Day 0 (0001-01-01) is a Monday, so d / 7 (floor)
   numbers the Monday-to-Sunday weeks. *)
Definition unit_key (iv : interval) (d : Z) : Z * Z :=
  match iv with
  | Once => (0, 0)
  | Daily => (d, 0)
  | Weekly => (d / 7, 0)
  | Monthly => (year_of d, month_of d)
  | Quarterly => (year_of d, (month_of d - 1) / 3)
  | Yearly => (year_of d, 0)
  end.

Definition same_unit (iv : interval) (d1 d2 : Z) : Prop := unit_key iv d1 = unit_key iv d2.

Definition key_eqb (a b : Z * Z) : bool := (fst a =? fst b) && (snd a =? snd b).
Definition same_unit_b (iv : interval) (d1 d2 : Z) : bool := key_eqb (unit_key iv d1) (unit_key iv d2).

(* [tiles s e ps]: the periods are non-empty, the first starts at s, each next one starts the
   day after its predecessor ends, the last ends at e: consecutive, non-overlapping, covering
   [s, e] exactly. *)
Fixpoint tiles (s e : Z) (ps : list period) : Prop :=
  match ps with
  | [] => False
  | p :: rest =>
    p_start p = s /\ p_start p <= p_end p /\
    match rest with
    | [] => p_end p = e
    | _ :: _ => tiles (p_end p + 1) e rest
    end
  end.

Fixpoint tiles_b (s e : Z) (ps : list period) : bool :=
  match ps with
  | [] => false
  | p :: rest =>
    (p_start p =? s) && (p_start p <=? p_end p) &&
    match rest with
    | [] => p_end p =? e
    | _ :: _ => tiles_b (p_end p + 1) e rest
    end
  end.

(* no period straddles a unit boundary: its first and last day (hence every day between, see
   DateProofs.unit_convex) lie in the same unit *)
Definition within_unit (iv : interval) (p : period) : Prop :=
  forall d1 d2, p_start p <= d1 <= p_end p -> p_start p <= d2 <= p_end p -> same_unit iv d1 d2.

(* two adjacent periods never lie in the same unit, i.e. periods are whole units except for
   clipping at the window start *)
Fixpoint units_change (iv : interval) (ps : list period) : Prop :=
  match ps with
  | [] => True
  | p :: rest =>
    match rest with
    | [] => True
    | q :: _ => ~ same_unit iv (p_end p) (p_start q)
    end /\ units_change iv rest
  end.

Fixpoint units_change_b (iv : interval) (ps : list period) : bool :=
  match ps with
  | [] => true
  | p :: rest =>
    match rest with
    | [] => true
    | q :: _ => negb (same_unit_b iv (p_end p) (p_start q))
    end && units_change_b iv rest
  end.

Definition lastn {A} (n : nat) (l : list A) : list A := skipn (length l - n) l.

(* executable form of the whole C11 statement about one observed partition, used by the
   correspondence check on the implementation's output:
   s, e: window; iv; last; ps: periods returned *)
Definition within_unit_b (iv : interval) (p : period) : bool :=
  same_unit_b iv (p_start p) (p_end p).

Definition first_start (ps : list period) (default : Z) : Z :=
  match ps with [] => default | p :: _ => p_start p end.

Definition is_partition_b (s e : Z) (iv : interval) (last : Z) (ps : list period) : bool :=
  match iv with
  | Once => match ps with [p] => (p_start p =? s) && (p_end p =? e) | _ => false end
  | _ =>
    if e <? s then match ps with [] => true | _ => false end
    else
      tiles_b (first_start ps s) e ps
      && forallb (within_unit_b iv) ps
      && units_change_b iv ps
      && (if 0 <? last
          then (Z.of_nat (length ps) <=? last)
               && ((Z.of_nat (length ps) =? last) || (first_start ps s =? s))
          else first_start ps s =? s)
      && (s <=? first_start ps s)
  end.

(* the column a date is attributed to, by the property's wording *)
Fixpoint column_of (ps : list period) (d : Z) : option Z :=
  match ps with
  | [] => None
  | p :: rest => if (p_start p <=? d) && (d <=? p_end p) then Some (p_end p) else column_of rest d
  end.

Definition align_spec (ps : list period) (d : Z) : option Z :=
  match ps with
  | [] => None
  | p :: _ => if d <? p_start p then Some (p_end p) else column_of ps d
  end.

(* the column of a date for the partition of window [s, e]: Once has the single period (s, e)
   whatever its orientation; an inverted window has no period otherwise *)
Definition column_expected (s e : Z) (iv : interval) (ps : list period) (d : Z) : option Z :=
  match iv with
  | Once => if d <=? e then Some e else None
  | _ => if e <? s then None else align_spec ps d
  end.

(* ---- the window the commands partition: the --from/--to period clipped to the journal's period
   (cmd/flags Multiperiod.Partition: mp.period.Value().Clip(clip)).  By the property the reporting periods
   partition "the requested window", and a date outside the journal's period or outside the requested period
   belongs to no reporting period: the clipped window is the intersection; when the two periods do not meet it
   is an empty (inverted) window, which contains no date (seeded change C11c-clip-empty-window turned it into a
   one-day window and was not noticed by the library-level cases). *)
Definition clip_ok_b (w j c : period) : bool :=
  let s := Z.max (p_start w) (p_start j) in
  let e := Z.min (p_end w) (p_end j) in
  if s <=? e then (p_start c =? s) && (p_end c =? e)
  else p_end c <? p_start c.
