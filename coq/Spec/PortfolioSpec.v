(* Specification vocabulary for C20 (portfolio weights and returns).

   Part 1: what the property says, over rationals, independent of the processors of
           Model/Perf.v: valued positions of the (valued) days, totals, shares, the weight of
           a group as the sum over the entries below it, period returns.
   Part 2: the executable statements that the check evaluates on the output of the real
           binary (rows of a rendered weights table, the dates `portfolio returns` printed,
           cells of `balance -v`), extracted into kmodel. *)
From Coq Require Import ZArith QArith Qabs List Bool.
From Knut Require Import Model.Str Model.Dec Model.Date Model.Account Model.Ledger Model.Journal
     Model.Perf Model.Weights.
Import ListNotations.
Open Scope bool_scope.

(* ================================================================ Part 1 *)

Open Scope Q_scope.

Definition qsum (l : list Q) : Q := fold_right Qplus 0 l.

(* the postings of a list of days dated up to and including [d] *)
Definition postings_upto (days : list day) (d : Z) : list posting :=
  flat_map (fun x => if (d_date x <=? d)%Z then flat_map t_postings (d_txns x) else []) days.

(* the valued position of account [a] in commodity [c] at the end of day [d]: the sum of the
   values booked on it since the first day (what `balance -v` accumulates into the cell of
   [a], [c] when its window starts at or before the journal's first day) *)
Definition valued_position (days : list day) (a : account) (c : commodity) (d : Z) : Q :=
  qsum (map (fun p => if acc_eqb (p_acc p) a && str_eqb (p_com p) c then dec_q (p_val p) else 0)
            (postings_upto days d)).

(* the portfolio value in commodity [c] at the end of day [d] under the two filters: the sum
   over the bookings on asset/liability accounts passing the account filter *)
Definition portfolio_value (accf : account -> bool) (comf : commodity -> bool)
           (days : list day) (c : commodity) (d : Z) : Q :=
  if comf c then
    qsum (map (fun p => if is_AL (p_acc p) && accf (p_acc p) && str_eqb (p_com p) c then dec_q (p_val p) else 0)
              (postings_upto days d))
  else 0.

(* a list of accounts that names every account booked on exactly once *)
Definition covers (accs : list account) (days : list day) (d : Z) : Prop :=
  NoDup (map acc_name accs) /\
  forall p, In p (postings_upto days d) -> exists a, In a accs /\ acc_eqb (p_acc p) a = true.

(* the same value, account by account: the sum over the A/L accounts passing the filter of
   their valued positions *)
Definition portfolio_value_by_account (accf : account -> bool) (comf : commodity -> bool)
           (accs : list account) (days : list day) (c : commodity) (d : Z) : Q :=
  if comf c then
    qsum (map (fun a => if is_AL a && accf a then valued_position days a c d else 0) accs)
  else 0.

(* is [pre] a prefix of [l] *)
Fixpoint path_prefix (pre l : list str) : bool :=
  match pre, l with
  | [], _ => true
  | _ :: _, [] => false
  | x :: pre', y :: l' => str_eqb x y && path_prefix pre' l'
  end.

Definition oq (w : option Q) : Q := match w with Some q => q | None => 0 end.

(* the weight of the group (or leaf) at [path] on [date]: the sum of the entries at or below it *)
Definition group_weight (es : list entry) (path : list str) (date : Z) : Q :=
  qsum (map (fun e => let '(ss, d, w) := e in if path_prefix path ss && (d =? date)%Z then oq w else 0) es).

Definition defined_entries (es : list entry) : Prop :=
  Forall (fun e => let '(_, _, w) := e in w <> None) es.

(* ================================================================ Part 2 *)

Definition qzero : Q := 0.
Definition qdiv_exact (a b : Q) : Q := Qred (a / b).     (* used with b = 100 only *)

Definition close_b (tol a b : Q) : bool := Qle_bool (Qabs (a - b)) tol.

(* a rendered cell: None = blank, Some None = not a finite number, Some (Some q) *)
Definition scell := option (option Q).
(* a row of a rendered weights table: depth (indent / 2), label, cells *)
Definition srow := (Z * str * list scell)%type.

Definition srow_depth (r : srow) : Z := fst (fst r).
Definition srow_label (r : srow) : str := snd (fst r).
Definition scell_q (c : scell) : Q := match c with Some (Some q) => q | _ => 0 end.
Definition scol (j : nat) (r : srow) : Q := scell_q (nth j (snd r) None).
Definition scol_finite (j : nat) (r : srow) : bool :=
  match nth j (snd r) None with Some None => false | _ => true end.

(* the members of the group whose row precedes [rows]: the rows one level deeper, up to the
   next row that is not deeper than the group *)
Fixpoint members (d : Z) (rows : list srow) : list srow :=
  match rows with
  | [] => []
  | r :: rest =>
    if (srow_depth r <=? d)%Z then []
    else if (srow_depth r =? d + 1)%Z then r :: members d rest
    else members d rest
  end.

Definition col_sum (j : nat) (rows : list srow) : Q := qsum (map (scol j) rows).

(* every group's weight is the sum of its members, in every column that is finite *)
Fixpoint groups_ok_b (tol : Q) (ncols : nat) (rows : list srow) : bool :=
  match rows with
  | [] => true
  | r :: rest =>
    let ms := members (srow_depth r) rest in
    (match ms with
     | [] => true
     | _ => forallb (fun j => negb (forallb (scol_finite j) (r :: ms)) || close_b tol (scol j r) (col_sum j ms))
                    (seq 0 ncols)
     end) && groups_ok_b tol ncols rest
  end.

(* ---- the same law when a mapping (-m) folds commodities into a group that keeps other members: the group's
   row then is the sum of its member rows PLUS the commodities folded into the group itself.  Those are not rows
   of the mapped table; they are read off the table of the same command without the mapping ([leaves]: its leaf
   rows with their paths), through Model/Weights.map_path. *)

(* the path of every row (labels of the enclosing groups, read off the indentation) *)
Fixpoint row_paths (prev : list str) (rows : list srow) : list (list str * srow) :=
  match rows with
  | [] => []
  | r :: rest =>
    let p := firstn (Z.to_nat (srow_depth r)) prev ++ [srow_label r] in
    (p, r) :: row_paths p rest
  end.

Fixpoint leaf_rows (prs : list (list str * srow)) : list (list str * srow) :=
  match prs with
  | [] => []
  | pr :: rest =>
    match members (srow_depth (snd pr)) (map snd rest) with
    | [] => pr :: leaf_rows rest
    | _ => leaf_rows rest
    end
  end.

Definition path_eqb (a b : list str) : bool := path_prefix a b && path_prefix b a.

Definition mapped_to (m : list rule) (p : list str) (leaf : list str * srow) : bool :=
  match map_path m (fst leaf) with
  | Some q => path_eqb q p
  | None => false
  end.

(* the weight folded into the row at path [p] itself *)
Definition own_sum (m : list rule) (leaves : list (list str * srow)) (p : list str) (j : nat) : Q :=
  qsum (map (fun lf => if mapped_to m p lf then scol j (snd lf) else 0) leaves).

Fixpoint groups_own_ok_b (tol : Q) (ncols : nat) (m : list rule) (leaves : list (list str * srow))
         (prs : list (list str * srow)) : bool :=
  match prs with
  | [] => true
  | pr :: rest =>
    let r := snd pr in
    let ms := members (srow_depth r) (map snd rest) in
    forallb (fun j => negb (forallb (scol_finite j) (r :: ms) && forallb (fun lf => scol_finite j (snd lf)) leaves)
                      || close_b tol (scol j r) (own_sum m leaves (fst pr) j + col_sum j ms))
            (seq 0 ncols)
    && groups_own_ok_b tol ncols m leaves rest
  end.

(* every commodity of the unmapped table has a row to be folded into *)
Definition leaves_placed_b (m : list rule) (leaves : list (list str * srow)) (prs : list (list str * srow)) : bool :=
  forallb (fun lf => existsb (fun pr => mapped_to m (fst pr) lf) prs) leaves.

Definition mapping_law_b (tol : Q) (ncols : nat) (m : list rule) (unmapped mapped : list srow) : bool :=
  let leaves := leaf_rows (row_paths [] unmapped) in
  let prs := row_paths [] mapped in
  leaves_placed_b m leaves prs && groups_own_ok_b tol ncols m leaves prs.

(* the top level sums to 100% in every column that is finite *)
Definition top_ok_b (tol : Q) (ncols : nat) (rows : list srow) : bool :=
  let tops := filter (fun r => (srow_depth r =? 0)%Z) rows in
  forallb (fun j => negb (forallb (scol_finite j) rows) || close_b tol (col_sum j tops) 1) (seq 0 ncols).

(* the leaf rows (rows without members) *)
Fixpoint leaf_labels (rows : list srow) : list str :=
  match rows with
  | [] => []
  | r :: rest =>
    match members (srow_depth r) rest with
    | [] => srow_label r :: leaf_labels rest
    | _ => leaf_labels rest
    end
  end.

(* each commodity has at most one row of its own *)
Definition leaf_unique_b (coms : list commodity) (rows : list srow) : bool :=
  forallb (fun c => (length (filter (str_eqb c) (leaf_labels rows)) <=? 1)%nat) coms.

Fixpoint zlist_eqb (a b : list Z) : bool :=
  match a, b with
  | [], [] => true
  | x :: a', y :: b' => (x =? y)%Z && zlist_eqb a' b'
  | _, _ => false
  end.

(* `portfolio returns` printed exactly one line per period of the partition, in order, dated
   with the period's end *)
Definition periods_ok_b (part : partition) (reported : list Z) : bool :=
  if (p_start (span part) <=? p_end (span part))%Z then zlist_eqb (end_dates part) reported
  else true.      (* an empty window (--from after the last directive): `once` still yields one, empty, period *)

Definition subset_b (a b : list Z) : bool := forallb (fun x => existsb (Z.eqb x) b) a.

(* weight x total = the valued balance cell, up to the rounding of the printed weight *)
Definition share_ok_b (tol w total v : Q) : bool :=
  Qle_bool (Qabs (w * total - v)) (tol * Qabs total + tol).

(* a return in percent [r] against end value over start value minus one *)
Definition ratio_ok_b (tol r v0 v1 : Q) : bool :=
  if Qeq_bool v0 0 then true else close_b tol r (100 * (v1 / v0 - 1)).

Definition zero_ok_b (tol r : Q) : bool := close_b tol r 0.

(* classification of a period [s, e] of a journal (by the dates of its directives) *)
Definition in_period (s e d : Z) : bool := (s <=? d)%Z && (d <=? e)%Z.

(* no transaction is dated in the period (and none is spread by an accrual) *)
Definition no_txn_in (ds : list sdirective) (s e : Z) : bool :=
  forallb (fun x => match x with
                    | STxn t => match st_accrual t with Some _ => false | None => negb (in_period s e (st_date t)) end
                    | _ => true end) ds.

(* no price is declared in the period *)
Definition no_price_in (ds : list sdirective) (s e : Z) : bool :=
  forallb (fun x => match x with SPrice d _ _ _ => negb (in_period s e d) | _ => true end) ds.

(* every transaction of the period is a plain booking without performance annotation: what
   touches the portfolio from outside is an external deposit or withdrawal *)
Definition only_external_in (ds : list sdirective) (s e : Z) : bool :=
  forallb (fun x => match x with
                    | STxn t =>
                      match st_accrual t with
                      | Some _ => false
                      | None => negb (in_period s e (st_date t)) || match st_targets t with None => true | Some _ => false end
                      end
                    | _ => true end) ds.
