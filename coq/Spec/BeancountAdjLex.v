(* C16, the side condition of the verdict theorem (Properties/C16.v C16_model_verdict) on the
   journal's postings, after accrual expansion: the account is syntactic (WellformedSpec.account_ok:
   first segment an account type, further segments not empty, no colon and no NUL byte inside a
   segment -- so that an account is identified by its name) and the commodity contains no space.
   Both are needed to read "Adjust value of C in account A" back: the verdict's adjusted_account
   takes C up to the first space and A as the rest, and the ledger may carry one adjustment per
   day and description only if different positions have different descriptions.
   Executable definitions only.  knut's parser guarantees more (segments and commodities are runs
   of letters and digits): Proofs/BeancountInputLex.v. *)
From Coq Require Import ZArith List Bool.
From Knut Require Import Model.Str Model.Dec Model.Date Model.Account Model.Ledger
     Spec.WellformedSpec Spec.LedgerSpec Spec.BeancountLex.
Import ListNotations.
Open Scope bool_scope.
Open Scope Z_scope.

Definition posting_adj_lex_b (p : posting) : bool := account_ok (p_acc p) && no_byte 32 (p_com p).

Definition journal_adj_lex_b (dl : list directive) : bool :=
  forallb (fun dp : Z * posting => posting_adj_lex_b (snd dp)) (flat_postings dl).
