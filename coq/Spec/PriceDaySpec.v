(* C12, "on a given day": the prices in force on day k of a journal are the normalised prices of
   the history made of all price directives of the days up to and including k (days in date
   order, directives of a day in file order); none while nothing has been declared. *)
From Coq Require Import ZArith List Bool.
From Knut Require Import Model.Str Model.Dec Model.Price Model.Journal Spec.PriceSpec.
Import ListNotations.

Definition history_upto (ds : list day) (k : nat) : list decl :=
  concat (map d_prices (firstn (S k) ds)).

Definition prices_of_history (v : str) (h : list decl) : option nprices :=
  match h with
  | [] => None
  | _ => match build h with Some ps => normalize ps v | None => None end
  end.

Definition price_on (v : str) (ds : list day) (k : nat) : option nprices :=
  prices_of_history v (history_upto ds k).
