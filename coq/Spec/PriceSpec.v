(* Specification vocabulary for C12 (derived prices), independent of the traversal that
   Model/Price.v normalize performs:
   - a declaration history and the "latest declaration of an unordered pair wins" reading of it;
   - stored edges, paths of stored edges and the value of a path (product with per-step
     truncation to 8 decimals);
   - the executable statement [valid_price_b] that the check evaluates on the Go output:
     1 for the valuation commodity itself, the (truncated) direct price when the pair is stored,
     otherwise the value of SOME simple path, and no price exactly when there is no path. *)
From Coq Require Import ZArith List Bool.
From Knut Require Import Model.Str Model.Dec Model.Price.
Import ListNotations.
Open Scope bool_scope.
Open Scope Z_scope.

(* "price <commodity> <price> <target>" *)
Definition decl := (str * dec * str)%type.

(* what Insert stores for the reverse direction: 1/p at 16 places (half away from zero), cut to 8 *)
Definition recip (p : dec) : dec :=
  match div one p with DOk x => truncate x 8 | DPanic => dec_zero end.

(* ... stated without the division algorithm: n is a/b rounded to the nearest integer, ties away
   from zero *)
Definition nearest_half_away (a b n : Z) : Prop :=
  2 * Z.abs (a - n * b) <= Z.abs b /\
  (2 * Z.abs (a - n * b) = Z.abs b -> Z.abs a < Z.abs (n * b)).

(* 10^16 / p as a fraction of integers (p = coef * 10^ex) *)
Definition recip_fraction (p : dec) : Z * Z :=
  if ex p <=? 16 then (pow10 (16 - ex p), coef p) else (1, coef p * pow10 (ex p - 16)).

(* r is 1/p rounded to 16 places half away from zero, then cut (toward zero) to 8 places *)
Definition is_recip (p r : dec) : Prop :=
  exists n, nearest_half_away (fst (recip_fraction p)) (snd (recip_fraction p)) n /\
            r = mkDec (Z.quot n (pow10 8)) (-8).

(* ps[t][c]: the stored price of commodity c in target t *)
Definition stored (ps : prices) (t c : str) : option dec :=
  match sm_get ps t with Some m => sm_get m c | None => None end.

(* folding Insert over a history; None when an insert is rejected *)
Fixpoint build_from (ps : prices) (h : list decl) : option prices :=
  match h with
  | [] => Some ps
  | (c, p, t) :: rest =>
    match prices_insert ps c p t with
    | InsOk ps' => build_from ps' rest
    | _ => None
    end
  end.
Definition build (h : list decl) : option prices := build_from [] h.

(* what one declaration "c' p t'" says about the price of c in t.  A declaration of a commodity
   in itself stores the reciprocal last, hence the reverse reading is tried first. *)
Definition decl_value (d : decl) (c t : str) : option dec :=
  let '(c', p, t') := d in
  if str_eqb c t' && str_eqb t c' then Some (recip p)
  else if str_eqb c c' && str_eqb t t' then Some p
  else None.

(* the last declaration in the history that involves the unordered pair {c, t} *)
Fixpoint latest (h : list decl) (c t : str) : option dec :=
  match h with
  | [] => None
  | d :: rest =>
    match latest rest c t with
    | Some x => Some x
    | None => decl_value d c t
    end
  end.

(* names for the check's decimal operation (extraction renames Dec.div / Dec.mul) *)
Definition dec_div16 (a b : dec) : dresult dec := div a b.
Definition dec_mul (a b : dec) : dec := mul a b.

(* ---- paths of stored edges.  A path from v is the list of the commodities after v; its value
   multiplies the stored prices left to right, truncating to 8 decimals at each step. *)
Fixpoint path_value (ps : prices) (cur : str) (acc : dec) (path : list str) : option dec :=
  match path with
  | [] => Some acc
  | n :: rest =>
    match stored ps cur n with
    | Some p => path_value ps n (multiply p acc) rest
    | None => None
    end
  end.

Definition is_path (ps : prices) (v : str) (path : list str) (c : str) (x : dec) : Prop :=
  path_value ps v one path = Some x /\ last path v = c.

Definition connected (ps : prices) (v c : str) : Prop := exists path x, is_path ps v path c x.

(* ---- executable statement *)
Definition neighbours (ps : prices) (c : str) : list (str * dec) :=
  match sm_get ps c with Some m => m | None => [] end.

Definition mem (k : str) (l : list str) : bool := existsb (str_eqb k) l.

(* the values of all simple paths from cur (reached with value acc, having visited [visited])
   to target, of at most [fuel] edges *)
Fixpoint path_values (fuel : nat) (ps : prices) (cur : str) (acc : dec) (visited : list str)
         (target : str) : list dec :=
  if str_eqb cur target then [acc]
  else
    match fuel with
    | O => []
    | S f =>
      flat_map (fun np =>
                  if mem (fst np) visited then []
                  else path_values f ps (fst np) (multiply (snd np) acc) (fst np :: visited) target)
               (neighbours ps cur)
    end.

Definition opt_dec_equal (a b : option dec) : bool :=
  match a, b with
  | Some x, Some y => dec_equal x y
  | None, None => true
  | _, _ => false
  end.

(* x is an acceptable price of c in valuation commodity v, given the stored prices *)
Definition valid_price_b (ps : prices) (v c : str) (x : option dec) : bool :=
  if str_eqb c v then opt_dec_equal x (Some one)
  else
    match stored ps v c with
    | Some p => opt_dec_equal x (Some (truncate p 8))
    | None =>
      let vals := path_values (length ps) ps v one [v] c in
      match x with
      | Some y => existsb (dec_equal y) vals
      | None => match vals with [] => true | _ => false end
      end
    end.
