(* Specification vocabulary for C10 (accrual expansion).  Independent of the algorithm in
   Model/Ledger.v: quantities are read as rationals, "what an account is booked" is a plain sum
   over postings (or over the bookings of the source transaction), a "pair" is two postings that
   move one quantity between two accounts. *)
From Coq Require Import ZArith QArith List Bool.
From Knut Require Import Model.Str Model.Dec Model.Date Model.Account Model.Ledger.
Import ListNotations.
Open Scope bool_scope.
Open Scope Z_scope.

(* ---------------------------------------------------------------- values *)

(* the rational a decimal record denotes: coefficient * 10^exponent *)
Definition dvalue (d : dec) : Q := (inject_Z (coef d) * Qpower (10 # 1) (ex d))%Q.

(* ---------------------------------------------------------------- equality of names *)
(* structural equality of byte strings and of accounts (= equality of account names for the
   accounts the registry accepts, whose segments contain no ':') *)
Fixpoint list_eqb {A : Type} (eqb : A -> A -> bool) (l1 l2 : list A) : bool :=
  match l1, l2 with
  | [], [] => true
  | x :: r1, y :: r2 => eqb x y && list_eqb eqb r1 r2
  | _, _ => false
  end.

Definition s_eqb : str -> str -> bool := list_eqb Z.eqb.
Definition a_eqb : account -> account -> bool := list_eqb s_eqb.

(* ---------------------------------------------------------------- sums *)

(* posting p is a posting to account a in commodity c *)
Definition on (a : account) (c : commodity) (p : posting) : bool :=
  a_eqb (p_acc p) a && s_eqb (p_com p) c.

(* the total quantity a list of postings books on account a in commodity c *)
Fixpoint booked (a : account) (c : commodity) (ps : list posting) : Q :=
  match ps with
  | [] => 0%Q
  | p :: rest => ((if on a c p then dvalue (p_qty p) else 0) + booked a c rest)%Q
  end.

Definition all_postings (ts : list txn) : list posting := flat_map t_postings ts.

(* ... over a list of transactions *)
Definition booked_txns (a : account) (c : commodity) (ts : list txn) : Q := booked a c (all_postings ts).

(* what the source transaction books on (a, c), read off its booking lines
   "credit debit quantity commodity": the debit account receives the quantity, the credit
   account gives it (a negative quantity therefore moves the other way) *)
Fixpoint booked_src (a : account) (c : commodity) (bs : list booking) : Q :=
  match bs with
  | [] => 0%Q
  | b :: rest =>
    ((if s_eqb (b_com b) c
      then (if a_eqb (b_debit b) a then dvalue (b_qty b) else 0)
           - (if a_eqb (b_credit b) a then dvalue (b_qty b) else 0)
      else 0) + booked_src a c rest)%Q
  end.

(* the total of commodity c over all accounts *)
Fixpoint com_total (c : commodity) (ps : list posting) : Q :=
  match ps with
  | [] => 0%Q
  | p :: rest => ((if s_eqb (p_com p) c then dvalue (p_qty p) else 0) + com_total c rest)%Q
  end.

(* a transaction balances: per commodity its postings sum to zero *)
Definition balanced (ps : list posting) : Prop := forall c, (com_total c ps == 0)%Q.

(* account a occurs in a booking line of the source transaction *)
Definition in_bookings (a : account) (bs : list booking) : Prop :=
  exists b, In b bs /\ (b_credit b = a \/ b_debit b = a).

(* ---------------------------------------------------------------- pairs, legs *)

(* the two postings that move quantity q of commodity c from account x to account y *)
Definition pair_postings (x y : account) (c : commodity) (q : dec) : list posting :=
  [mkPosting x y c (neg q) dec_nil; mkPosting y x c q dec_nil].

(* ... in either order *)
Definition is_pair (x y : account) (c : commodity) (q : dec) (ps : list posting) : Prop :=
  ps = pair_postings x y c q \/ ps = rev (pair_postings x y c q).

(* the description of part i of n: "<desc> (accrual i/n)" *)
Definition part_desc (desc : str) (i n : Z) : str := desc ++ accrual_suffix i n.

(* [parts_ok desc targets acc p n i ends ts]: ts are the parts number i+1, i+2, ... of the leg p
   (a posting of the source transaction): one transaction per date in [ends], in the same order,
   dated at it, described "<desc> (accrual k/n)", carrying the targets, and consisting of one
   pair between the accrual account and the leg's account in the leg's commodity *)
Inductive parts_ok (desc : str) (targets : option (list commodity)) (acc : account) (p : posting) (n : Z)
  : nat -> list Z -> list txn -> Prop :=
| parts_nil : forall i, parts_ok desc targets acc p n i [] []
| parts_cons : forall i dt ends t ts,
    t_date t = dt ->
    t_desc t = part_desc desc (Z.of_nat i + 1) n ->
    t_targets t = targets ->
    (exists q, is_pair acc (p_acc p) (p_com p) q (t_postings t)) ->
    parts_ok desc targets acc p n (S i) ends ts ->
    parts_ok desc targets acc p n i (dt :: ends) (t :: ts).

(* the expansion of one leg p of the source transaction (date, desc, targets):
   income/expense legs are split over the period ends; every other leg is re-booked once
   against the accrual account with the original date and description *)
Definition leg_ok (date : Z) (desc : str) (targets : option (list commodity)) (acc : account)
           (ends : list Z) (p : posting) (ts : list txn) : Prop :=
  if is_IE (p_acc p)
  then parts_ok desc targets acc p (Z.of_nat (length ends)) 0 ends ts
  else exists t, ts = [t] /\ t_date t = date /\ t_desc t = desc /\ t_targets t = targets /\
                 is_pair acc (p_acc p) (p_com p) (p_qty p) (t_postings t).

(* strictly ascending dates *)
Fixpoint ascending (l : list Z) : Prop :=
  match l with
  | [] => True
  | x :: rest => match rest with [] => True | y :: _ => x < y end /\ ascending rest
  end.

(* ---------------------------------------------------------------- executable statement *)
(* What the correspondence check evaluates on the transactions the Go code returns.
   Sums are kept in lowest terms (Qred) so that the extracted arithmetic stays small. *)

Definition qadd (x y : Q) : Q := Qred (x + y).

Fixpoint booked_r (a : account) (c : commodity) (ps : list posting) : Q :=
  match ps with
  | [] => 0%Q
  | p :: rest => qadd (if on a c p then dvalue (p_qty p) else 0%Q) (booked_r a c rest)
  end.

Fixpoint booked_src_r (a : account) (c : commodity) (bs : list booking) : Q :=
  match bs with
  | [] => 0%Q
  | b :: rest =>
    qadd (if s_eqb (b_com b) c
          then ((if a_eqb (b_debit b) a then dvalue (b_qty b) else 0)
                - (if a_eqb (b_credit b) a then dvalue (b_qty b) else 0))%Q
          else 0%Q) (booked_src_r a c rest)
  end.

Fixpoint com_total_r (c : commodity) (ps : list posting) : Q :=
  match ps with
  | [] => 0%Q
  | p :: rest => qadd (if s_eqb (p_com p) c then dvalue (p_qty p) else 0%Q) (com_total_r c rest)
  end.

(* every transaction balances in every commodity it mentions *)
Definition balanced_b (ps : list posting) : bool :=
  forallb (fun p => Qeq_bool (com_total_r (p_com p) ps) 0) ps.

(* the (account, commodity) cells mentioned by postings / bookings *)
Definition cells_of_postings (ps : list posting) : list (account * commodity) :=
  map (fun p => (p_acc p, p_com p)) ps.
Definition cells_of_bookings (bs : list booking) : list (account * commodity) :=
  flat_map (fun b => [(b_credit b, b_com b); (b_debit b, b_com b)]) bs.

Definition str_eq_dec : forall a b : str, {a = b} + {a <> b} := list_eq_dec Z.eq_dec.
Definition account_eq_dec : forall a b : account, {a = b} + {a <> b} := list_eq_dec str_eq_dec.
Definition cell_eq_dec (x y : account * commodity) : {x = y} + {x <> y}.
Proof. decide equality; [apply str_eq_dec|apply account_eq_dec]. Defined.

(* conservation on every mentioned cell -- including the accrual account's cells: the accrual
   account must end with what the source booked on it, which is zero when it does not occur
   in the source transaction *)
Definition conserve_b (bs : list booking) (ts : list txn) : bool :=
  forallb (fun ac => Qeq_bool (booked_r (fst ac) (snd ac) (all_postings ts)) (booked_src_r (fst ac) (snd ac) bs))
          (nodup cell_eq_dec (cells_of_postings (all_postings ts) ++ cells_of_bookings bs)).

(* the accrual account nets to zero (required when it is not an account of the source) *)
Definition accrual_zero_b (acc : account) (ts : list txn) : bool :=
  forallb (fun c => Qeq_bool (booked_r acc c (all_postings ts)) 0) (nodup str_eq_dec (map p_com (all_postings ts))).

Definition in_bookings_b (a : account) (bs : list booking) : bool :=
  existsb (fun b => a_eqb (b_credit b) a || a_eqb (b_debit b) a) bs.

(* dates, descriptions, targets and the number of parts, order-free: every side of every
   booking line is a leg; the multiset of (date, description, leg account, commodity) of the
   generated transactions must be the expected one *)
Definition key := (Z * str * account * commodity)%type.

Definition key_eqb (k1 k2 : key) : bool :=
  let '(d1, s1, a1, c1) := k1 in
  let '(d2, s2, a2, c2) := k2 in
  (d1 =? d2) && s_eqb s1 s2 && a_eqb a1 a2 && s_eqb c1 c2.

Fixpoint numbered_from {A : Type} (i : Z) (l : list A) : list (Z * A) :=
  match l with
  | [] => []
  | x :: rest => (i, x) :: numbered_from (i + 1) rest
  end.

Definition leg_keys (date : Z) (desc : str) (ends : list Z) (a : account) (c : commodity) : list key :=
  if is_IE a
  then map (fun ie => (snd ie, part_desc desc (fst ie) (Z.of_nat (length ends)), a, c)) (numbered_from 1 ends)
  else [(date, desc, a, c)].

Definition expected_keys (date : Z) (desc : str) (ends : list Z) (bs : list booking) : list key :=
  flat_map (fun b => leg_keys date desc ends (b_credit b) (b_com b) ++ leg_keys date desc ends (b_debit b) (b_com b)) bs.

(* the leg account of a generated transaction: the account of its pair that is not the accrual
   account (the accrual account itself when both are) *)
Definition observed_key (acc : account) (t : txn) : option key :=
  match t_postings t with
  | [p1; p2] =>
    if a_eqb (p_acc p1) (p_other p2) && a_eqb (p_acc p2) (p_other p1) && s_eqb (p_com p1) (p_com p2)
       && (a_eqb (p_acc p1) acc || a_eqb (p_acc p2) acc)
    then Some (t_date t, t_desc t, (if a_eqb (p_acc p1) acc then p_acc p2 else p_acc p1), p_com p1)
    else None
  | _ => None
  end.

Definition count_key (k : key) (l : list key) : nat := length (filter (key_eqb k) l).

Definition same_keys_b (l1 l2 : list key) : bool :=
  Nat.eqb (length l1) (length l2) && forallb (fun k => Nat.eqb (count_key k l1) (count_key k l2)) l1.

Fixpoint all_some {A : Type} (l : list (option A)) : option (list A) :=
  match l with
  | [] => Some []
  | None :: _ => None
  | Some x :: rest => match all_some rest with Some r => Some (x :: r) | None => None end
  end.

Definition dates_b (date : Z) (desc : str) (acc : account) (ends : list Z) (bs : list booking) (ts : list txn) : bool :=
  match all_some (map (observed_key acc) ts) with
  | None => false
  | Some ks => same_keys_b (expected_keys date desc ends bs) ks
  end.

Definition targets_b (targets : option (list commodity)) (ts : list txn) : bool :=
  forallb (fun t => match targets, t_targets t with
                    | None, None => true
                    | Some l1, Some l2 => list_eqb s_eqb l1 l2
                    | _, _ => false
                    end) ts.

(* verdict: 0 = ok, otherwise the number of the first clause that fails
   1 a transaction does not balance; 2 conservation; 3 accrual account does not net to zero;
   4 dates/descriptions/number of parts; 5 targets *)
Definition accrual_verdict (s : stxn) (ac : accrual) (ends : list Z) (ts : list txn) : Z :=
  if negb (forallb (fun t => balanced_b (t_postings t)) ts) then 1
  else if negb (conserve_b (st_bookings s) ts) then 2
  else if negb (in_bookings_b (ac_account ac) (st_bookings s)) && negb (accrual_zero_b (ac_account ac) ts) then 3
  else if negb (dates_b (st_date s) (st_desc s) (ac_account ac) ends (st_bookings s) ts) then 4
  else if negb (targets_b (st_targets s) ts) then 5
  else 0.

(* ---------------------------------------------------------------- the standing example *)
Definition acc_equity_opening : account :=
  [ [69;113;117;105;116;121]; [79;112;101;110;105;110;103] ].                       (* Equity:Opening *)
Definition acc_expenses_rent : account :=
  [ [69;120;112;101;110;115;101;115]; [82;101;110;116] ].                           (* Expenses:Rent *)
Definition acc_assets_receivables : account :=
  [ [65;115;115;101;116;115]; [82;101;99;101;105;118;97;98;108;101;115] ].          (* Assets:Receivables *)
Definition chf : commodity := [67;72;70].

(* @accrue monthly 2020-01-01 2020-03-31 Assets:Receivables
   2020-01-15 "rent"
   Equity:Opening Expenses:Rent 300 CHF *)
Definition witness_accrual : accrual :=
  mkAccrual Monthly (of_civil 2020 1 1) (of_civil 2020 3 31) acc_assets_receivables.
Definition witness : stxn :=
  mkStxn (of_civil 2020 1 15) [114;101;110;116]
         [mkBooking acc_equity_opening acc_expenses_rent (mkDec 300 0) chf] None (Some witness_accrual).

