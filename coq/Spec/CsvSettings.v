(* Variations of a reader configuration (Model/Csv.v csv_cfg), used to say what a setting can change.
   Executable definitions only. *)
From Coq Require Import ZArith List Bool.
From Knut Require Import Model.Bytes Model.Csv.
Open Scope Z_scope.

(* the same reader with LazyQuotes = true *)
Definition set_lazy (cfg : csv_cfg) : csv_cfg :=
  {| cc_comma := cc_comma cfg; cc_comment := cc_comment cfg; cc_fpr := cc_fpr cfg; cc_lazy := true; cc_trim := cc_trim cfg |}.
