(* Specification vocabulary of C15: `knut infer` edits only the placeholder account.
   Executable; evaluated on every check run on the Go parser's trees of the target and of the
   text `knut infer` printed.  Written on meanings (Spec/FormatSpec.v), independently of
   Model/Bayes.v.

   infer_ok_b ph training target out :
     the directives of [out] are those of [target], one by one, identical except that in a
     booking a side whose account is the placeholder [ph] is either
       - an account that the training journal offers (an account of a training booking with no
         macro side and no placeholder side) and that differs from the OTHER side of the same
         booking as it stands in [out], or
       - still the placeholder, when the training journal offers no account different from
         that other side;
     every other string (dates, descriptions, quantities, commodities, annotations, the
     accounts of all other directives and sides, Macro flags) is unchanged.
   Together with equal gaps ("the column alignment they imply" is the printer's business:
   meanings and gaps do not contain it) this is the property's second sentence.             *)
From Coq Require Import ZArith List Bool.
From Knut Require Import Model.Bytes Model.Scanner Model.Parser Spec.FormatSpec.
Import ListNotations.
Open Scope bool_scope.
Open Scope Z_scope.

Module InferSpecM.

Section WithPlaceholder.
Variable ph : str.

Definition mem (x : str) (l : list str) : bool := existsb (str_eqb x) l.

(* the accounts the training journal offers *)
Definition offered_by_booking (b : sem_booking) : list str :=
  if snd (sb_credit b) || snd (sb_debit b) then []
  else if str_eqb (fst (sb_credit b)) ph || str_eqb (fst (sb_debit b)) ph then []
  else match fst (sb_credit b), fst (sb_debit b) with
       | [], _ | _, [] => []
       | c, d => [c; d]
       end.

Definition offered (training : list sem_directive) : list str :=
  flat_map (fun d => match d with SemTrx _ _ bs _ _ => flat_map offered_by_booking bs | _ => [] end) training.

(* one side: [old] in the target, [new] in the output, [other'] the other side in the output *)
Definition side_ok (off : list str) (old new : sem_account) (other' : str) : bool :=
  if str_eqb (fst old) ph then
    (mem (fst new) off && negb (str_eqb (fst new) other') && negb (snd new)) ||
    (sem_account_eqb new old && negb (existsb (fun a => negb (str_eqb a other')) off))
  else sem_account_eqb new old.

Definition booking_ok (off : list str) (b b' : sem_booking) : bool :=
  side_ok off (sb_credit b) (sb_credit b') (fst (sb_debit b')) &&
  side_ok off (sb_debit b) (sb_debit b') (fst (sb_credit b')) &&
  str_eqb (sb_quantity b) (sb_quantity b') && str_eqb (sb_commodity b) (sb_commodity b').

Definition directive_ok (off : list str) (d d' : sem_directive) : bool :=
  match d, d' with
  | SemTrx dt ds bs p a, SemTrx dt' ds' bs' p' a' =>
    str_eqb dt dt' && str_eqb ds ds' && list_eqb (booking_ok off) bs bs' &&
    option_eqb (list_eqb str_eqb) p p' && option_eqb sem_accrual_eqb a a'
  | _, _ => sem_directive_eqb d d'
  end.

Definition infer_ok_b (training target out : list sem_directive) : bool :=
  list_eqb (directive_ok (offered training)) target out.

End WithPlaceholder.

End InferSpecM.
Export InferSpecM.
