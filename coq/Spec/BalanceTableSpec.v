(* C02, table level: the TABLE that `knut balance` builds (the row list before text / CSV
   rendering, Model/Report.v render_report) described without the table-threading renderer:
   a header, then one block of lines per node of the (sorted) A/L tree, the total line, one
   block per node of the E/I/E tree, the total line, the delta line.
   Nothing here threads a table or recurses through render_node; the trees are only flattened. *)
From Coq Require Import ZArith List Bool.
From Knut Require Import Model.Str Model.Dec Model.Date Model.Account Model.Ledger Model.Table Model.Report Model.Cli
     Spec.LedgerSpec.
Import ListNotations.
Open Scope bool_scope.
Open Scope Z_scope.

(* number of columns of the table: account, (commodity,) one per date *)
Definition tw (rc : render_cfg) (dates : list Z) : nat :=
  ((if draw_comms rc then 2 else 1) + length dates)%nat.

(* the lines of one account / total / delta: a single name line when there are no amounts,
   else one line per commodity, the name on the first *)
Definition line_rows (rc : render_cfg) (dates : list Z) (indent : Z) (name : str) (neg_ : bool) (vals : ramounts)
  : list (list cell) :=
  match vals with
  | [] => [CText name ALeft indent :: repeat CEmpty (tw rc dates - 1)]
  | _ => render_rows rc dates indent name neg_ vals (ra_commodities vals) true
  end.

(* are the commodities of account p shown separately *)
Definition show_of (rc : render_cfg) (p : account) : bool :=
  match rc_valuation rc with None => true | Some _ => rxs_match (rc_details rc) (acc_name p) end.

(* the amounts a node shows: its own amounts, summed per (date, shown commodity), zeros dropped *)
Definition shown_vals (rc : render_cfg) (p : account) (a : ramounts) : ramounts :=
  ra_sum_into [] a (collapse_key (show_of rc p)).

(* the nodes of a tree in depth-first order, with the lines of each: (path, lines) *)
Fixpoint node_blocks (rc : render_cfg) (dates : list Z) (indent : Z) (neg_ : bool) (n : node)
  : list (account * list (list cell)) :=
  match n with
  | Node s p _ a ch =>
    (p, match s with [] => [] | _ => line_rows rc dates indent s neg_ (shown_vals rc p a) end)
    :: flat_map (node_blocks rc dates (indent + 2) neg_) ch
  end.

Definition blocks_rows (bs : list (account * list (list cell))) : list (list cell) := concat (map snd bs).

(* one section: per top-level account its subtree's blocks followed by an empty line *)
Definition section_rows (rc : render_cfg) (dates : list Z) (neg_ : bool) (tops : list node) : list (list cell) :=
  concat (map (fun top => blocks_rows (node_blocks rc dates 0 neg_ top) ++ [repeat CEmpty (tw rc dates)]) tops).

Definition header_cells (rc : render_cfg) (dates : list Z) : list cell :=
  CText s_Account ACenter 0 :: (if draw_comms rc then [CText s_Comm ACenter 0] else []) ++
  map (fun d => CText (format_date d) ACenter 0) dates.

Definition sorted_al (rc : render_cfg) (r : report) : node :=
  node_sort (rc_alpha rc) (match rc_valuation rc with Some _ => true | None => false end) (r_al r).
Definition sorted_eie (rc : render_cfg) (r : report) : node :=
  node_sort (rc_alpha rc) (match rc_valuation rc with Some _ => true | None => false end) (r_eie r).

Definition total_key (rc : render_cfg) : rkey -> rkey :=
  collapse_key (negb (match rc_valuation rc with Some _ => true | None => false end)).

(* the whole table *)
Definition report_table_rows (rc : render_cfg) (r : report) (dates : list Z) : list (list cell) :=
  let w := tw rc dates in
  let al := sorted_al rc r in
  let eie := sorted_eie rc r in
  let total_al := node_totals (total_key rc) al [] in
  let total_eie := node_totals (total_key rc) eie [] in
  [repeat CSep w; header_cells rc dates; repeat CSep w] ++
  section_rows rc dates false (n_children al) ++
  line_rows rc dates 0 s_TotalAL false total_al ++ [repeat CSep w] ++
  section_rows rc dates true (n_children eie) ++
  line_rows rc dates 0 s_TotalEIE true total_eie ++ [repeat CSep w] ++
  line_rows rc dates 0 s_Delta false (ra_plus total_al total_eie) ++ [repeat CSep w].

(* the account blocks of the table, in table order: (path, lines) for every node of the two
   sorted trees but the roots *)
Definition account_blocks (rc : render_cfg) (r : report) (dates : list Z) : list (account * list (list cell)) :=
  flat_map (node_blocks rc dates 0 false) (n_children (sorted_al rc r)) ++
  flat_map (node_blocks rc dates 0 true) (n_children (sorted_eie rc r)).

(* the nodes of a tree in depth-first order: (segment, path, own amounts) *)
Fixpoint tree_lines (n : node) : list (str * account * ramounts) :=
  match n with
  | Node s p _ a ch => (s, p, a) :: flat_map tree_lines ch
  end.

(* the accounts of the table in table order, each with the amounts stored in its node *)
Definition account_rows (rc : render_cfg) (r : report) : list (account * ramounts) :=
  map (fun l : str * account * ramounts => (snd (fst l), snd l))
      (flat_map tree_lines (n_children (sorted_al rc r)) ++ flat_map tree_lines (n_children (sorted_eie rc r))).

(* the name cell of an account line: last segment, indented two columns per level below the top *)
Definition name_indent (a : account) : Z := 2 * (Z.of_nat (length a) - 1).

(* the lines of one account: name = last segment, sign by account type *)
Definition acct_lines (rc : render_cfg) (dates : list Z) (p : account) (a : ramounts) : list (list cell) :=
  match last p [] with
  | [] => []
  | _ => line_rows rc dates (name_indent p) (last p []) (negb (is_AL p)) (shown_vals rc p a)
  end.

(* ---------------------------------------------------------------- the ledger side *)

(* the entries of the independent computation (Spec/LedgerSpec.v), as in ledger_csv *)
Definition ledger_entries (cfg : balance_cfg) (dl : list directive) (part : partition) : list entry :=
  mapped_entries cfg (user_entries (span part) (periods part) (flat_postings dl) ++
    (if bc_close cfg
     then closing_entries (flat_postings dl) (closable_keys (span part) (flat_postings dl)) (p_start (span part)) (periods part)
     else [])).

(* the amounts of one line: LedgerSpec.cells before printing -- per column the period amount,
   accumulated over the columns unless --diff, negated for E/I/E rows *)
Fixpoint cell_amounts (diff negate : bool) (es : list entry) (sel : account -> bool) (c : commodity) (cols : list Z) (total : dec) : list dec :=
  match cols with
  | [] => []
  | col :: rest =>
    let v := period_amount es sel c col in
    let total' := add total v in
    let shown := if diff then v else total' in
    (if negate then neg shown else shown) :: cell_amounts diff negate es sel c rest total'
  end.

(* a numeric cell holding a decimal of the same value (cmp = 0) *)
Definition num_is (cl : cell) (d : dec) : Prop :=
  match cl with CNum n => dec_equal n d = true | _ => False end.

(* the lines of one account block against the ledger: one line per commodity, the name on the
   first, the commodity, then per column the amount *)
Fixpoint lines_ok (name : str) (indent : Z) (first : bool) (coms : list commodity) (amts : commodity -> list dec)
         (b : list (list cell)) : Prop :=
  match coms, b with
  | [], [] => True
  | c :: coms', line :: b' =>
    (exists nums, line = (if first then CText name ALeft indent else CEmpty) :: CText c ALeft 0 :: nums
                  /\ Forall2 num_is nums (amts c))
    /\ lines_ok name indent false coms' amts b'
  | _, _ => False
  end.

Definition block_ok (w : nat) (name : str) (indent : Z) (coms : list commodity) (amts : commodity -> list dec)
           (b : list (list cell)) : Prop :=
  match coms with
  | [] => b = [CText name ALeft indent :: repeat CEmpty (w - 1)]
  | _ => lines_ok name indent true coms amts b
  end.

(* strictly ascending commodities *)
Fixpoint coms_sorted (l : list commodity) : Prop :=
  match l with
  | [] => True
  | c :: l' => Forall (fun d => str_cmp c d = Lt) l' /\ coms_sorted l'
  end.

Definition balance_render_cfg (cfg : balance_cfg) : render_cfg :=
  mkRenderCfg (bc_valuation cfg) (bc_details cfg) (bc_alpha cfg) (bc_diff cfg).

(* the account rows the independent computation lists, with their full paths, in the order of
   ledger_csv: (A/L rows, E/I/E rows).  Used by the check to name a row that is missing from the
   binary's report or that no ledger row explains. *)
Definition ledger_row_paths (cfg : balance_cfg) (ds : list directive) : option (list account * list account) :=
  match bc_valuation cfg with
  | Some _ => None
  | None =>
    match new_partition (clip (mkPeriod (bc_from cfg) (bc_to cfg)) (journal_period ds)) (bc_interval cfg) (bc_last cfg) with
    | POk part =>
      let es := ledger_entries cfg ds part in
      Some (all_rows (filter is_AL_entry es), all_rows (filter (fun e => negb (is_AL_entry e)) es))
    | _ => None
    end
  end.
