(* Specification vocabulary for the text table of `knut portfolio weights` (C17, weights part).
   Rectangularity is Spec.TableSpec.rect_b, a predicate on the rendered bytes.  New here:
   - when a percent cell fills exactly the width of its column ([pcell_fits_b]): the renderer
     reserves the width of "%.2f%%" of the weight n but writes n * 100 with --digits places,
     and writes nothing at all for a NaN;
   - well-formed weights tables ([wtable_wf]);
   - what a printed percentage has to do with the weight ([pct_cell_ok_b]): stated on exact
     rationals, independent of the float model of Model/F64.v.
   Everything executable here is evaluated on the Go implementation's output (drv_c17w.ml). *)
From Coq Require Import ZArith QArith List Bool.
From Knut Require Import Model.Str Model.Dec Model.Table Model.F64 Model.WeightsTable Spec.TableSpec.
Import ListNotations.
Open Scope bool_scope.
Open Scope Z_scope.

(* the runes Fprintf writes for a percent cell that is a number when no padding is needed:
   the numeral of n * 100 and the percent sign *)
Definition pct_len (round : Z) (n : f64) : Z := rune_count (pct_num round n) + 1.

(* the cell is rendered to exactly w runes: always for the cells of Model/Table.v (given the
   width dominates the minimal length); for a percent cell iff --digits is in 0..1e6 (fmt
   writes "%!(BADPREC)" in front of the padded numeral otherwise) and numeral and percent sign
   fit into w; for a NaN -- nothing is written -- iff w = 0 *)
Definition pcell_fits_b (round : Z) (c : pcell) (w : Z) : bool :=
  match c with
  | WBase _ => true
  | WPct n => if f64_is_nan n then w =? 0 else negb (pct_badprec round) && (pct_len round n <=? w)
  end.

Definition wtable_fits_b (round : Z) (t : wtable) : bool :=
  let ws := w_final_widths round t in
  forallb (fun row => forall2b (pcell_fits_b round) row ws) (wt_rows t).

(* the first cell that does not fit: row, column (for the check's notes) *)
Fixpoint first_misfit_row (round : Z) (row : list pcell) (ws : list Z) (j : Z) : option (Z * pcell) :=
  match row, ws with
  | c :: row', w :: ws' => if pcell_fits_b round c w then first_misfit_row round row' ws' (j + 1) else Some (j, c)
  | _, _ => None
  end.

Fixpoint first_misfit_rows (round : Z) (rows : list (list pcell)) (ws : list Z) (i : Z) : option (Z * Z * pcell) :=
  match rows with
  | [] => None
  | r :: rest =>
    match first_misfit_row round r ws 0 with
    | Some (j, c) => Some (i, j, c)
    | None => first_misfit_rows round rest ws (i + 1)
    end
  end.

Definition first_misfit (round : Z) (t : wtable) : option (Z * Z * pcell) :=
  first_misfit_rows round (wt_rows t) (w_final_widths round t) 0.

(* ------------------------------------------------------------------ well-formed tables *)
Definition pcell_indent_ok (c : pcell) : Prop := match c with WBase b => cell_indent_ok b | WPct _ => True end.
Definition pcell_no_nl (c : pcell) : Prop := match c with WBase b => cell_no_nl b | WPct _ => True end.

Definition wtable_wf (t : wtable) : Prop :=
  (0 < wt_width t)%nat /\
  Forall (fun r => length r = wt_width t /\ Forall pcell_indent_ok r /\ Forall pcell_no_nl r) (wt_rows t).

(* the rows of a weights report: one cell per date, indents not negative, no line break in a
   label (commodity and class names cannot contain one) *)
Definition frow_ok (ndates : nat) (r : frow) : Prop :=
  let '(ind, s, cells) := r in length cells = ndates /\ 0 <= ind /\ ~ In 10 s.

(* every weight of the report is a number in [0, 1]: a portfolio without short positions *)
Definition f64_in_unit (n : f64) : Prop :=
  match n with
  | FFin false m e => 0 <= m /\ (if 0 <=? e then m * 2 ^ e <= 1 else m <= 2 ^ (- e))
  | _ => False
  end.

Definition frow_unit (r : frow) : Prop :=
  let '(_, _, cells) := r in Forall (fun c => match c with Some n => f64_in_unit n | None => True end) cells.

(* every percent cell needs at most w runes *)
Definition frow_fits (round w : Z) (r : frow) : Prop :=
  let '(_, _, cells) := r in
  Forall (fun c => match c with Some n => pcell_fits_b round (WPct n) w = true | None => True end) cells.

(* ------------------------------------------------------------------ numerically faithful *)
(* A printed percentage [s] (padding removed, percent sign included) for the weight of exact
   value [v], at [p] >= 0 places, [slack] >= 0: a numeral -?digits(.digits)? with p fractional
   digits followed by '%' whose value is within half a unit of the last place, plus slack, of
   100 * v.  With slack = |100 v| * 2^-52 this holds of every correctly rounded float product
   n * 100 printed with correct rounding; the check uses a larger slack when v is the model's
   rational weight and the binary's weight is a float computed along another path. *)
Definition qabs (q : Q) : Q := if Qnum q <? 0 then Qopp q else q.
Definition qle_b (a b : Q) : bool := match Qcompare a b with Gt => false | _ => true end.

Definition dec_to_q (d : dec) : Q :=
  if 0 <=? ex d then inject_Z (coef d * 10 ^ ex d) else Qmake (coef d) (Z.to_pos (10 ^ (- ex d))).

Fixpoint strip_last_pct (s : str) : option str :=
  match s with
  | [] => None
  | [37] => Some []
  | c :: t => match strip_last_pct t with Some r => Some (c :: r) | None => None end
  end.

Definition pct_cell_ok_b (p : Z) (v slack : Q) (s : str) : bool :=
  match strip_last_pct s with
  | None => false
  | Some num =>
    is_numstr_b num && (frac_len num =? Z.max p 0) &&
    match of_string num with
    | None => false
    | Some d =>
      let half_unit := Qmake 1 (Z.to_pos (2 * 10 ^ (Z.max p 0))) in
      qle_b (qabs (Qminus (dec_to_q d) (Qmult (inject_Z 100) v))) (Qplus half_unit slack)
    end
  end.

(* the value of a printed percentage; a blank cell stands for 0 *)
Definition pct_value (s : str) : option Q :=
  match s with
  | [] => Some (inject_Z 0)
  | _ => match strip_last_pct s with
         | Some num => option_map dec_to_q (of_string num)
         | None => None
         end
  end.

(* two printed percentages at p places are at most one unit of the last place apart (the
   comparison of the binary's table, computed with float64, with the model's, computed from
   the nearest float64 of the exact weight, tolerates this and nothing else) *)
Definition pct_close_b (p : Z) (a b : str) : bool :=
  match pct_value a, pct_value b with
  | Some x, Some y => qle_b (qabs (Qminus x y)) (Qmake 1 (Z.to_pos (10 ^ (Z.max p 0))))
  | _, _ => false
  end.
