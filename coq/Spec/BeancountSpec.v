(* Specification vocabulary for C16: a line-based reader of the beancount text that
   `knut transcode` emits, and the executable statement of the property on the entries read:
   every transaction sums to exactly zero (decimal addition, no rounding), dates never go back,
   every posting's account has an open directive dated on or before the posting and no close
   directive before it, and the transactions are those of the journal plus value adjustments.

   Nothing here refers to Model/Beancount.v: the reader and the checker work on the bytes the
   binary printed.  (Model/Ledger.v is used for one purpose only: [complete_check] needs the
   journal's transactions after accrual expansion.) *)
From Coq Require Import ZArith List Bool.
From Knut Require Import Model.Str Model.Dec Model.Date Model.Account Model.Ledger.
Import ListNotations.
Open Scope bool_scope.
Open Scope Z_scope.

Inductive sentry :=
| EOpen (date : Z) (acc : str)
| EClose (date : Z) (acc : str)
| ETxn (date : Z) (desc : str) (ps : list (str * dec * str)).   (* account, amount, commodity *)

Definition entry_date (e : sentry) : Z :=
  match e with EOpen d _ => d | EClose d _ => d | ETxn d _ _ => d end.

(* ---------------------------------------------------------------- reader *)

Fixpoint split_on_aux (c : Z) (s : str) (cur : str) : list str :=
  match s with
  | [] => [rev cur]
  | x :: t => if x =? c then rev cur :: split_on_aux c t [] else split_on_aux c t (x :: cur)
  end.
Definition split_on (c : Z) (s : str) : list str := split_on_aux c s [].

Fixpoint strip_prefix (p s : str) : option str :=
  match p, s with
  | [], _ => Some s
  | _ :: _, [] => None
  | x :: p', y :: s' => if x =? y then strip_prefix p' s' else None
  end.

Definition d2 (a b : Z) : Z := (a - 48) * 10 + (b - 48).

(* yyyy-mm-dd followed by the rest of the line *)
Definition read_date (s : str) : option (Z * str) :=
  match s with
  | a :: b :: c :: d :: 45 :: e :: f :: 45 :: g :: h :: rest =>
    if forallb is_digit [a; b; c; d; e; f; g; h]
    then match parse_ymd (d2 a b * 100 + d2 c d) (d2 e f) (d2 g h) with
         | Some dt => Some (dt, rest)
         | None => None
         end
    else None
  | _ => None
  end.

Definition s_kw_open : str := [32;111;112;101;110;32].          (* " open " *)
Definition s_kw_close : str := [32;99;108;111;115;101;32].      (* " close " *)
Definition s_kw_txn : str := [32;42;32;34].                     (* space asterisk space quote *)
Definition s_kw_option : str :=          (* the option line up to the quote opening the currency *)
  [111;112;116;105;111;110;32;34;111;112;101;114;97;116;105;110;103;95;99;117;114;114;101;110;99;121;34;32;34].

Definition strip_last_quote (s : str) : option str :=
  match rev s with
  | 34 :: r => Some (rev r)
  | _ => None
  end.

Inductive line :=
| LBlank
| LOpen (d : Z) (a : str)
| LClose (d : Z) (a : str)
| LTxn (d : Z) (desc : str)
| LPosting (a : str) (q : dec) (c : str)
| LBad.

Definition no_space (s : str) : bool := negb (existsb (Z.eqb 32) s) && negb (match s with [] => true | _ => false end).

Definition read_line (l : str) : line :=
  match l with
  | [] => LBlank
  | 32 :: 32 :: rest =>
    match split_on 32 rest with
    | [a; q; c] =>
      match of_string q with
      | Some x => if no_space a && no_space c then LPosting a x c else LBad
      | None => LBad
      end
    | _ => LBad
    end
  | _ =>
    match read_date l with
    | None => LBad
    | Some (d, rest) =>
      match strip_prefix s_kw_open rest with
      | Some a => if no_space a then LOpen d a else LBad
      | None =>
        match strip_prefix s_kw_close rest with
        | Some a => if no_space a then LClose d a else LBad
        | None =>
          match strip_prefix s_kw_txn rest with
          | Some r => match strip_last_quote r with Some desc => LTxn d desc | None => LBad end
          | None => LBad
          end
        end
      end
    end
  end.

(* entries are read line by line; a transaction is closed by the blank line that follows its
   postings.  [cur] is the transaction being read (postings in reverse). *)
Fixpoint read_lines (ls : list str) (cur : option (Z * str * list (str * dec * str))) (acc : list sentry)
  : option (list sentry) :=
  match ls with
  | [] => match cur with None => Some (rev acc) | Some _ => None end
  | l :: rest =>
    match read_line l, cur with
    | LBlank, None => read_lines rest None acc
    | LBlank, Some (d, desc, ps) => read_lines rest None (ETxn d desc (rev ps) :: acc)
    | LPosting a q c, Some (d, desc, ps) => read_lines rest (Some (d, desc, (a, q, c) :: ps)) acc
    | LOpen d a, None => read_lines rest None (EOpen d a :: acc)
    | LClose d a, None => read_lines rest None (EClose d a :: acc)
    | LTxn d desc, None => read_lines rest (Some (d, desc, [])) acc
    | _, _ => None
    end
  end.

(* the lines of the text.  A newline inside a double-quoted string does not end the line:
   beancount strings may span lines, and knut's parser accepts a newline inside a description
   (parseQuotedString reads up to the next double quote), which writeTrx prints as it is.  A
   description never contains a double quote, so quotes come in pairs.  [inq]: inside a string. *)
Fixpoint split_lines_aux (s cur : str) (inq : bool) : list str :=
  match s with
  | [] => [rev cur]
  | x :: t =>
    if (x =? 10) && negb inq then rev cur :: split_lines_aux t [] false
    else split_lines_aux t (x :: cur) (if x =? 34 then negb inq else inq)
  end.
Definition split_lines (s : str) : list str := split_lines_aux s [] false.

(* the whole text: the option line with the operating currency, a blank line, the entries *)
Definition read_ledger (text : str) : option (str * list sentry) :=
  match split_lines text with
  | first :: rest =>
    match strip_prefix s_kw_option first with
    | Some r =>
      match strip_last_quote r with
      | Some v => match read_lines rest None [] with Some es => Some (v, es) | None => None end
      | None => None
      end
    | None => None
    end
  | [] => None
  end.

(* the reader as it was before multi-line descriptions were taken into account: every newline
   ends a line.  Kept for Properties/C16.v C16_linewise_reader_refuted: it rejects the text of a
   journal that knut accepts and transcodes correctly. *)
Definition read_ledger_linewise (text : str) : option (str * list sentry) :=
  match split_on 10 text with
  | first :: rest =>
    match strip_prefix s_kw_option first with
    | Some r =>
      match strip_last_quote r with
      | Some v => match read_lines rest None [] with Some es => Some (v, es) | None => None end
      | None => None
      end
    | None => None
    end
  | [] => None
  end.

(* ---------------------------------------------------------------- the property, executable *)

(* [known_shape] marks the one shape recorded as a known finding (DESIGN.md F16): a posting of
   a value-adjustment transaction to the valuation account of its A/L account while that
   account has no open directive in force. *)
Record violation := mkViol { v_kind : str; v_detail : str; v_known_shape : bool }.

Definition amount_of (x : str * dec * str) : dec := snd (fst x).
Definition account_of (x : str * dec * str) : str := fst (fst x).
Definition commodity_of (x : str * dec * str) : str := snd x.

(* exact decimal sum of the amounts *)
Definition sum_amounts (ps : list (str * dec * str)) : dec :=
  fold_left (fun acc x => add acc (amount_of x)) ps (mkDec 0 0).
Definition txn_balanced_b (ps : list (str * dec * str)) : bool := is_zero (sum_amounts ps).

Definition entry_balanced (e : sentry) : Prop :=
  match e with ETxn _ _ ps => txn_balanced_b ps = true | _ => True end.

Definition mem (a : str) (l : list str) : bool := existsb (str_eqb a) l.
Fixpoint mem_dated (a : str) (d : Z) (l : list (str * Z)) : bool :=
  match l with
  | [] => false
  | (a', d') :: rest => (str_eqb a a' && (d' <=? d)) || mem_dated a d rest
  end.

(* the accounts with an open directive so far that is not followed by a close directive
   (with the open's date), and the accounts that have had a close directive so far *)
Record bstate := mkBst { st_last : Z; st_open : list (str * Z); st_closed : list str }.

(* [st_last] starts at 0000-01-01, the least date [read_date] can return (day 0 is 0001-01-01, the
   dates of the year 0000, which time.Parse and knut accept, are negative day numbers: with 0 here
   the first entry of a ledger of the year 0000 was reported as out of order,
   Properties/C16.v C16_order_year0_example) *)
Definition min_date : Z := -366.
Definition bst_init : bstate := mkBst min_date [] [].

Definition k_order : str := [111;114;100;101;114].                                           (* order *)
Definition k_unbalanced : str := [117;110;98;97;108;97;110;99;101;100].                       (* unbalanced *)
Definition k_commodity : str := [99;111;109;109;111;100;105;116;121].                         (* commodity *)
Definition k_unopened : str := [117;110;111;112;101;110;101;100].                             (* unopened *)
Definition k_use_after_close : str := [117;115;101;45;97;102;116;101;114;45;99;108;111;115;101]. (* use-after-close *)
Definition k_unopened_val : str :=    (* unopened-valuation-account *)
  [117;110;111;112;101;110;101;100;45;118;97;108;117;97;116;105;111;110;45;97;99;99;111;117;110;116].
Definition k_closed_val : str :=      (* closed-valuation-account *)
  [99;108;111;115;101;100;45;118;97;108;117;97;116;105;111;110;45;97;99;99;111;117;110;116].
Definition k_lost : str := [108;111;115;116;45;116;114;97;110;115;97;99;116;105;111;110].    (* lost-transaction *)
Definition k_spurious : str :=        (* spurious-transaction *)
  [115;112;117;114;105;111;117;115;45;116;114;97;110;115;97;99;116;105;111;110].
Definition k_dup_adjust : str :=      (* duplicated-adjustment *)
  [100;117;112;108;105;99;97;116;101;100;45;97;100;106;117;115;116;109;101;110;116].
Definition k_unreadable : str := [117;110;114;101;97;100;97;98;108;101].                      (* unreadable *)
Definition s_reopened : str := [32;114;101;111;112;101;110;101;100].                          (* " reopened" *)

Definition s_adjust_prefix : str := [65;100;106;117;115;116;32;118;97;108;117;101;32;111;102;32].  (* "Adjust value of " *)
Definition s_in_account : str := [105;110;32;97;99;99;111;117;110;116;32].                      (* "in account " *)

Fixpoint take_until (c : Z) (s : str) : str :=
  match s with [] => [] | x :: t => if x =? c then [] else x :: take_until c t end.
Fixpoint drop_until (c : Z) (s : str) : str :=     (* from the first c on, c included *)
  match s with [] => [] | x :: t => if x =? c then s else drop_until c t end.

(* description "Adjust value of <commodity> in account <account>" -> the account *)
Definition adjusted_account (desc : str) : option str :=
  match strip_prefix s_adjust_prefix desc with
  | None => None
  | Some r =>
    match drop_until 32 r with
    | 32 :: r' => strip_prefix s_in_account r'
    | _ => None
    end
  end.

Definition is_al_name (a : str) : bool :=
  let t := take_until 58 a in str_eqb t s_Assets || str_eqb t s_Liabilities.

(* the name Registry.ValuationAccountFor gives: "Income" followed by the rest of the path *)
Definition valuation_name (a : str) : str := s_Income ++ drop_until 58 a.

(* [acc] is posted to by a value adjustment of an A/L account that the ledger has opened *)
Definition valuation_posting (st : bstate) (desc acc : str) : bool :=
  match adjusted_account desc with
  | Some a => is_al_name a && str_eqb acc (valuation_name a)
              && (existsb (fun x => str_eqb a (fst x)) (st_open st) || mem a (st_closed st))
  | None => false
  end.

Definition check_posting (st : bstate) (date : Z) (desc : str) (x : str * dec * str) : list violation :=
  let a := account_of x in
  if mem_dated a date (st_open st) then
    (* an account that was closed and opened again is in force again: knut accepts re-opening
       (C04), and the property only forbids use after a close that no later open undoes *)
    []
  else if valuation_posting st desc a then
    [mkViol (if mem a (st_closed st) then k_closed_val else k_unopened_val) a true]
  else if mem a (st_closed st) then [mkViol k_use_after_close a false]
  else [mkViol k_unopened a false].

Definition all_ascii_letters (s : str) : bool :=
  forallb (fun b => ((65 <=? b) && (b <=? 90)) || ((97 <=? b) && (b <=? 122))) s.

(* the amounts are "in V": one commodity per ledger, spelled V when V consists of ASCII
   letters (otherwise beancount could not read it and the writer substitutes X) *)
Definition commodity_ok (v : str) (c : str) : bool :=
  if all_ascii_letters v then str_eqb c v else all_ascii_letters c && (Z.of_nat (length c) <=? Z.of_nat (length v)).

Definition entry_label (e : sentry) : str :=
  match e with EOpen _ a => a | EClose _ a => a | ETxn _ desc _ => desc end.

(* the state after an entry: an open directive puts the account (with the directive's date)
   into force, a close directive removes it and is remembered *)
Definition next_state (st : bstate) (e : sentry) : bstate :=
  let last := Z.max (entry_date e) (st_last st) in
  match e with
  | EOpen d a => mkBst last ((a, d) :: st_open st) (st_closed st)
  | EClose _ a => mkBst last (filter (fun x => negb (str_eqb a (fst x))) (st_open st)) (a :: st_closed st)
  | ETxn _ _ _ => mkBst last (st_open st) (st_closed st)
  end.

Definition state_after (es : list sentry) : bstate := fold_left next_state es bst_init.

Definition check_entry (v : str) (st : bstate) (e : sentry) : list violation * bstate :=
  let d := entry_date e in
  let vo := if d <? st_last st then [mkViol k_order (entry_label e) false] else [] in
  (vo ++ match e with
         | ETxn _ desc ps =>
           (if txn_balanced_b ps then [] else [mkViol k_unbalanced desc false])
           ++ (if forallb (fun x => commodity_ok v (commodity_of x)) ps then [] else [mkViol k_commodity desc false])
           ++ flat_map (check_posting st d desc) ps
         | _ => []
         end,
   next_state st e).

Fixpoint check_entries (v : str) (st : bstate) (es : list sentry) : list violation :=
  match es with
  | [] => []
  | e :: rest => let '(vs, st') := check_entry v st e in vs ++ check_entries v st' rest
  end.

Definition beancount_check (v : str) (es : list sentry) : list violation := check_entries v bst_init es.

(* ---------------------------------------------------------------- completeness *)

(* what identifies a transaction in the text: date, description, the accounts of its postings *)
Definition tkey := (Z * str * list str)%type.

Fixpoint strs_eqb (a b : list str) : bool :=
  match a, b with
  | [], [] => true
  | x :: a', y :: b' => str_eqb x y && strs_eqb a' b'
  | _, _ => false
  end.

Definition tkey_eqb (x y : tkey) : bool :=
  (fst (fst x) =? fst (fst y)) && str_eqb (snd (fst x)) (snd (fst y)) && strs_eqb (snd x) (snd y).

Fixpoint remove_one (k : tkey) (l : list tkey) : option (list tkey) :=
  match l with
  | [] => None
  | x :: rest => if tkey_eqb k x then Some rest
                 else match remove_one k rest with Some r => Some (x :: r) | None => None end
  end.

Definition directive_keys (ds : list directive) : list tkey :=
  flat_map (fun d => match d with
                     | DTxn t => [(t_date t, t_desc t, map (fun p => acc_name (p_acc p)) (t_postings t))]
                     | _ => [] end) ds.

Definition entry_keys (es : list sentry) : list tkey :=
  flat_map (fun e => match e with ETxn d desc ps => [(d, desc, map account_of ps)] | _ => [] end) es.

(* the keys of [user] are taken out of [emitted] one by one *)
Fixpoint remove_all (user emitted : list tkey) : list violation * list tkey :=
  match user with
  | [] => ([], emitted)
  | k :: rest =>
    match remove_one k emitted with
    | Some e' => remove_all rest e'
    | None => let '(vs, e') := remove_all rest emitted in (mkViol k_lost (snd (fst k)) false :: vs, e')
    end
  end.

(* what remains must be value adjustments: description "Adjust value of C in account A" with A
   an asset or liability account, two postings, to A and to its valuation account; at most one
   per day and description *)
Definition adjustment_key (k : tkey) : bool :=
  match adjusted_account (snd (fst k)) with
  | Some a => is_al_name a &&
              (strs_eqb (snd k) [a; valuation_name a] || strs_eqb (snd k) [valuation_name a; a])
  | None => false
  end.

Fixpoint check_remainder (l : list tkey) : list violation :=
  match l with
  | [] => []
  | k :: rest =>
    (if adjustment_key k then
       if existsb (fun k' => (fst (fst k) =? fst (fst k')) && str_eqb (snd (fst k)) (snd (fst k'))) rest
       then [mkViol k_dup_adjust (snd (fst k)) false] else []
     else [mkViol k_spurious (snd (fst k)) false]) ++ check_remainder rest
  end.

Definition complete_check (sds : list sdirective) (es : list sentry) : list violation :=
  match parse_directives sds with
  | MOk ds => let '(vs, rest) := remove_all (directive_keys ds) (entry_keys es) in vs ++ check_remainder rest
  | _ => []
  end.

(* ---------------------------------------------------------------- verdict *)

(* the first violation that is not of the known shape; if there is none, the first of the known
   shape; otherwise ok *)
Definition s_ok : str := [111;107].
Definition s_fail : str := [70;65;73;76;58].

Definition render_violation (x : violation) : str := s_fail ++ v_kind x ++ [32] ++ v_detail x.

Definition verdict_of (vs : list violation) : str :=
  match filter (fun x => negb (v_known_shape x)) vs with
  | x :: _ => render_violation x
  | [] => match vs with x :: _ => render_violation x | [] => s_ok end
  end.

(* beancount_ok_b on the text alone: balanced, chronological, opened and not closed *)
Definition beancount_ok_b (text : str) : str :=
  match read_ledger text with
  | Some (v, es) => verdict_of (beancount_check v es)
  | None => s_fail ++ k_unreadable
  end.

(* the same together with completeness against the journal that was transcoded *)
Definition c16_verdict (sds : list sdirective) (text : str) : str :=
  match read_ledger text with
  | Some (v, es) => verdict_of (beancount_check v es ++ complete_check sds es)
  | None => s_fail ++ k_unreadable
  end.
