(* Specification vocabulary of C17 "Rendered balance tables are rectangular and numerically
   faithful".  Independent of the render path of Model/Table.v: rounding is defined from the
   mathematical description (nearest multiple of 10^-p, ties away from zero) on integers at
   a common scale, grouping is read off the rendered string from the decimal point leftwards,
   rectangularity is a predicate on the rendered bytes.  Everything here is executable and is
   evaluated on the Go implementation's output by the correspondence check (drv_c17.ml). *)
From Coq Require Import ZArith List Bool.
From Knut Require Import Model.Str Model.Dec Model.Table.
Import ListNotations.
Open Scope bool_scope.
Open Scope Z_scope.

(* ------------------------------------------------------------------ values *)
(* A decimal denotes coef * 10^ex.  Instead of rationals: the coefficient at a scale m <= ex. *)
Definition coef_at (d : dec) (m : Z) : Z := coef d * 10 ^ (ex d - m).

(* same value: same coefficient at the smaller of the two exponents *)
Definition dec_eqv (a b : dec) : Prop :=
  coef_at a (Z.min (ex a) (ex b)) = coef_at b (Z.min (ex a) (ex b)).
Definition dec_eqv_b (a b : dec) : bool :=
  coef_at a (Z.min (ex a) (ex b)) =? coef_at b (Z.min (ex a) (ex b)).

(* ------------------------------------------------------------------ rounding *)
(* [r] is [d] rounded half away from zero to [p] places (p may be negative: tens, hundreds).
   At the common scale m = min (ex d) (-p) the unit of the last kept digit is U = 10^(-p-m);
   D is d's coefficient, R is r's.  r is a multiple of U nearest to D; on a tie the one of
   larger magnitude. *)
Definition is_round_haz (d : dec) (p : Z) (r : dec) : Prop :=
  ex r = - p /\
  let m := Z.min (ex d) (- p) in
  let U := 10 ^ (- p - m) in
  let D := coef_at d m in
  let R := coef r * U in
  2 * Z.abs (D - R) <= U /\ (2 * Z.abs (D - R) = U -> Z.abs D < Z.abs R).

(* the executable form: floor (|D| / U + 1/2) with the sign of D *)
Definition round_haz (d : dec) (p : Z) : dec :=
  let m := Z.min (ex d) (- p) in
  let U := 10 ^ (- p - m) in
  let D := coef_at d m in
  mkDec (Z.sgn D * ((2 * Z.abs D + U) / (2 * U))) (- p).

(* exact division by 1000 *)
Definition div1000 (d : dec) : dec := mkDec (coef d) (ex d - 3).

(* the amount a text cell shows *)
Definition shown_amount (thousands : bool) (d : dec) : dec := if thousands then div1000 d else d.

(* ------------------------------------------------------------------ numeric strings *)
Definition strip_commas (s : str) : str := filter (fun c => negb (c =? 44)) s.
Definition all_digits (s : str) : bool := forallb is_digit s.
Definition nonempty {A : Type} (l : list A) : bool := match l with [] => false | _ => true end.

(* split at the first '.' *)
Fixpoint split_at_dot (s : str) : str * option str :=
  match s with
  | [] => ([], None)
  | c :: t => if c =? 46 then ([], Some t) else let '(a, b) := split_at_dot t in (c :: a, b)
  end.

Definition unsign (s : str) : bool * str := match s with 45 :: t => (true, t) | _ => (false, s) end.
Definition starts_minus (s : str) : bool := fst (unsign s).

(* -?digits(.digits)? *)
Definition is_numstr_b (s : str) : bool :=
  let '(ip, fp) := split_at_dot (snd (unsign s)) in
  nonempty ip && all_digits ip &&
  match fp with None => true | Some f => nonempty f && all_digits f end.

(* number of digits after the point *)
Definition frac_len (s : str) : Z :=
  match snd (split_at_dot s) with None => 0 | Some f => Z.of_nat (length f) end.

(* The integer part read from the decimal point leftwards: groups of exactly three digits,
   each followed (to the left) by a single comma, and a last -- leading -- group of one to
   three digits.  Hence: a comma exactly before every third integer digit counted from the
   point, none leading, none next to the sign. *)
Fixpoint groups_rev_ok (r : str) : bool :=
  match r with
  | [] => false
  | [a] => is_digit a
  | [a; b] => is_digit a && is_digit b
  | [a; b; c] => is_digit a && is_digit b && is_digit c
  | a :: b :: c :: s :: rest =>
    is_digit a && is_digit b && is_digit c && (s =? 44) && groups_rev_ok rest
  end.

(* grouping of a rendered number: sign, grouped integer part, fraction of digits only *)
Definition grouping_ok_b (s : str) : bool :=
  let '(ip, fp) := split_at_dot (snd (unsign s)) in
  groups_rev_ok (rev ip) && match fp with None => true | Some f => all_digits f end.

(* One numeric cell [s] (padding removed) of a text table rendered with --digits p and
   --thousands k, for the amount [d]:  well grouped; without the commas a plain decimal
   numeral with max p 0 fractional digits that denotes the amount (divided by 1000 under k)
   rounded half away from zero to p places; a minus sign iff that rounded value is negative. *)
Definition num_cell_ok_b (thousands : bool) (p : Z) (d : dec) (s : str) : bool :=
  let r := round_haz (shown_amount thousands d) p in
  let plain := strip_commas s in
  grouping_ok_b s &&
  is_numstr_b plain &&
  (frac_len plain =? Z.max p 0) &&
  Bool.eqb (starts_minus s) (coef r <? 0) &&
  match of_string plain with Some x => dec_eqv_b x r | None => false end.

(* ... and it is byte for byte shopspring's fixed-point numeral of that rounded value *)
Definition num_cell_exact_b (thousands : bool) (p : Z) (d : dec) (s : str) : bool :=
  str_eqb (strip_commas s) (to_string_gen false (round_haz (shown_amount thousands d) p)).

Definition all_spaces (s : str) : bool := forallb (Z.eqb 32) s.

(* ------------------------------------------------------------------ rectangularity *)
Definition is_cont (b : Z) : bool := (128 <=? b) && (b <? 192).
(* one byte per rune: its first byte *)
Definition rune_starts (s : str) : str := filter (fun b => negb (is_cont b)) s.
Definition is_sepchar (c : Z) : bool := (c =? 124) || (c =? 43).     (* | + *)

(* the newline-terminated lines of s, and the unterminated rest *)
Fixpoint lines (s : str) : list str * str :=
  match s with
  | [] => ([], [])
  | c :: t =>
    let '(ls, r) := lines t in
    if c =? 10 then ([] :: ls, r)
    else match ls with [] => ([], c :: r) | l :: ls' => ((c :: l) :: ls', r) end
  end.

(* rune positions at which every line has a column separator (rune_starts computed once per line) *)
Definition sep_columns (body : list str) : list nat :=
  let rs := map rune_starts body in
  match rs with
  | [] => []
  | r0 :: _ => filter (fun p => forallb (fun r => is_sepchar (nth p r 0)) rs) (seq 0 (length r0))
  end.

Definition is_nil {A : Type} (l : list A) : bool := match l with [] => true | _ => false end.

(* the table lines of a rendering: all terminated lines but the last, which must be the extra
   empty line; nothing after it *)
Definition table_lines (s : str) : option (list str) :=
  let '(ls, r) := lines s in
  if is_nil r && nonempty ls && is_nil (last ls [0]) then Some (removelast ls) else None.

(* A rendering of a table with n columns is rectangular: every line has the same number of
   runes, and there are at least n+1 rune positions -- among them the first and the last --
   at which every line carries a separator character. *)
Definition rect_b (n : nat) (s : str) : bool :=
  match table_lines s with
  | None => false
  | Some [] => true
  | Some ((l0 :: _) as body) =>
    let L := length (rune_starts l0) in
    let P := sep_columns body in
    forallb (fun l => Nat.eqb (length (rune_starts l)) L) body &&
    Nat.leb (S n) (length P) && existsb (Nat.eqb 0) P && existsb (Nat.eqb (L - 1)) P
  end.

(* ------------------------------------------------------------------ CSV *)
(* a cell that renders to the empty CSV field *)
Definition cell_blank (c : cell) : bool :=
  match c with CSep | CEmpty => true | CText s _ _ => is_nil s | CNum _ => false end.

(* rows consisting only of blank cells are dropped *)
Definition csv_row_visible (r : list cell) : bool := existsb (fun c => negb (cell_blank c)) r.

(* a field carries its cell: text verbatim, a number as a plain decimal numeral denoting
   exactly the cell's amount *)
Definition csv_field_ok_b (c : cell) (f : str) : bool :=
  match c with
  | CSep | CEmpty => is_nil f
  | CText s _ _ => str_eqb f s
  | CNum n => is_numstr_b f && match of_string f with Some x => dec_eqv_b x n | None => false end
  end.

Fixpoint forall2b {A B : Type} (f : A -> B -> bool) (la : list A) (lb : list B) : bool :=
  match la, lb with
  | [], [] => true
  | a :: la', b :: lb' => f a b && forall2b f la' lb'
  | _, _ => false
  end.

(* the records of the CSV are the visible rows of the table, cell by cell, in order *)
Definition csv_ok_b (rows : list (list cell)) (recs : list (list str)) : bool :=
  forall2b (forall2b csv_field_ok_b) (filter csv_row_visible rows) recs.

(* ------------------------------------------------------------------ well-formed tables *)
Definition cell_indent_ok (c : cell) : Prop :=
  match c with CText _ _ ind => 0 <= ind | _ => True end.
Definition cell_no_nl (c : cell) : Prop :=
  match c with CText s _ _ => ~ In 10 s | _ => True end.

(* every row as wide as the table (AddRow ... FillEmpty, AddSeparatorRow, AddEmptyRow, and
   the rows of the balance report), at least one column, indents not negative, no line
   break inside a text cell *)
Definition table_wf (t : table) : Prop :=
  (0 < t_width t)%nat /\
  Forall (fun r => length r = t_width t /\ Forall cell_indent_ok r /\ Forall cell_no_nl r) (t_rows t).
