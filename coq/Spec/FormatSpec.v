(* Specification vocabulary of C08 (and C15): the MEANING of a parsed file -- per directive the
   kind and the strings of its date, accounts, quantities, commodities, description and
   annotations, cut out of the text -- and the GAPS: the text between directives.
   Both are executable and are evaluated on the Go parser's trees of the original and of the
   formatted text on every check run.  Nothing here mentions the printer.

   Annotations are a pair (performance?, accrual?), so their order in the text is not part of
   the meaning; an annotation is present iff its range is not empty (Range.Empty, as the model
   builder of lib/model/transaction decides).  Addons written before a directive that is not
   a transaction are dropped by the parser and are not part of the meaning.                  *)
From Coq Require Import ZArith List Bool.
From Knut Require Import Model.Bytes Model.Scanner Model.Parser.
Import ListNotations.
Open Scope bool_scope.
Open Scope Z_scope.

Module FmtSpecM.

Definition sem_account := (str * bool)%type.      (* the text incl. `$`, and the Macro flag *)

Record sem_booking := mkSemBooking {
  sb_credit : sem_account; sb_debit : sem_account; sb_quantity : str; sb_commodity : str }.

Record sem_accrual := mkSemAccrual {
  sa_interval : str; sa_start : str; sa_end : str; sa_account : sem_account }.

Inductive sem_directive :=
| SemTrx (date desc : str) (bookings : list sem_booking)
         (performance : option (list str)) (accrual : option sem_accrual)
| SemOpen (date : str) (acc : sem_account)
| SemClose (date : str) (acc : sem_account)
| SemAssertion (date : str) (balances : list (sem_account * str * str))
| SemPrice (date commodity price target : str)
| SemInclude (path : str)
| SemNone.

Section WithText.
Variable t : str.

Definition cut (r : range) : str := slice t (r_start r) (r_end r).
Definition sem_acc (a : account) : sem_account := (cut (acc_range a), acc_macro a).

Definition sem_of_booking (b : booking) : sem_booking :=
  mkSemBooking (sem_acc (bk_credit b)) (sem_acc (bk_debit b)) (cut (bk_quantity b)) (cut (bk_commodity b)).

Definition sem_of_directive (d : directive) : sem_directive :=
  match d_body d with
  | BTrx x =>
    SemTrx (cut (tx_date x)) (cut (qs_content (tx_desc x))) (map sem_of_booking (tx_bookings x))
      (let p := ad_perf (tx_addons x) in
       if range_empty (pf_range p) then None else Some (map cut (pf_targets p)))
      (let a := ad_accrual (tx_addons x) in
       if range_empty (ac_range a) then None
       else Some (mkSemAccrual (cut (ac_interval a)) (cut (ac_start a)) (cut (ac_end a)) (sem_acc (ac_account a))))
  | BOpen o => SemOpen (cut (op_date o)) (sem_acc (op_account o))
  | BClose c => SemClose (cut (cl_date c)) (sem_acc (cl_account c))
  | BAssertion a =>
    SemAssertion (cut (as_date a))
      (map (fun b => (sem_acc (bl_account b), cut (bl_quantity b), cut (bl_commodity b))) (as_balances a))
  | BPrice p => SemPrice (cut (pr_date p)) (cut (pr_commodity p)) (cut (pr_price p)) (cut (pr_target p))
  | BInclude i => SemInclude (cut (qs_content (in_path i)))
  | BNone => SemNone
  end.

Definition sem (f : file) : list sem_directive := map sem_of_directive (f_directives f).

(* the text before the first directive, between directives, after the last: n+1 strings *)
Fixpoint gaps_from (pos : Z) (ds : list directive) : list str :=
  match ds with
  | [] => [slice t pos (zlen t)]
  | d :: ds' => slice t pos (r_start (d_range d)) :: gaps_from (r_end (d_range d)) ds'
  end.

Definition gaps (f : file) : list str := gaps_from 0 (f_directives f).

End WithText.

(* ------------------------------------------------------------------ decidable equality *)

Definition sem_account_eqb (a b : sem_account) : bool := str_eqb (fst a) (fst b) && Bool.eqb (snd a) (snd b).

Fixpoint list_eqb {A} (eqb : A -> A -> bool) (a b : list A) : bool :=
  match a, b with
  | [], [] => true
  | x :: a', y :: b' => eqb x y && list_eqb eqb a' b'
  | _, _ => false
  end.

Definition option_eqb {A} (eqb : A -> A -> bool) (a b : option A) : bool :=
  match a, b with
  | None, None => true
  | Some x, Some y => eqb x y
  | _, _ => false
  end.

Definition sem_booking_eqb (a b : sem_booking) : bool :=
  sem_account_eqb (sb_credit a) (sb_credit b) && sem_account_eqb (sb_debit a) (sb_debit b) &&
  str_eqb (sb_quantity a) (sb_quantity b) && str_eqb (sb_commodity a) (sb_commodity b).

Definition sem_accrual_eqb (a b : sem_accrual) : bool :=
  str_eqb (sa_interval a) (sa_interval b) && str_eqb (sa_start a) (sa_start b) &&
  str_eqb (sa_end a) (sa_end b) && sem_account_eqb (sa_account a) (sa_account b).

Definition sem_directive_eqb (a b : sem_directive) : bool :=
  match a, b with
  | SemTrx d1 x1 b1 p1 a1, SemTrx d2 x2 b2 p2 a2 =>
    str_eqb d1 d2 && str_eqb x1 x2 && list_eqb sem_booking_eqb b1 b2 &&
    option_eqb (list_eqb str_eqb) p1 p2 && option_eqb sem_accrual_eqb a1 a2
  | SemOpen d1 a1, SemOpen d2 a2 => str_eqb d1 d2 && sem_account_eqb a1 a2
  | SemClose d1 a1, SemClose d2 a2 => str_eqb d1 d2 && sem_account_eqb a1 a2
  | SemAssertion d1 b1, SemAssertion d2 b2 =>
    str_eqb d1 d2 &&
    list_eqb (fun x y => sem_account_eqb (fst (fst x)) (fst (fst y)) &&
                         str_eqb (snd (fst x)) (snd (fst y)) && str_eqb (snd x) (snd y)) b1 b2
  | SemPrice d1 c1 p1 t1, SemPrice d2 c2 p2 t2 => str_eqb d1 d2 && str_eqb c1 c2 && str_eqb p1 p2 && str_eqb t1 t2
  | SemInclude p1, SemInclude p2 => str_eqb p1 p2
  | SemNone, SemNone => true
  | _, _ => false
  end.

(* the executable statement of C08 on two texts with their trees:
   same meaning, same gaps *)
Definition same_sem_gaps_b (t1 : str) (f1 : file) (t2 : str) (f2 : file) : bool :=
  list_eqb sem_directive_eqb (sem t1 f1) (sem t2 f2) && list_eqb str_eqb (gaps t1 f1) (gaps t2 f2).

End FmtSpecM.
Export FmtSpecM.
