(* C13 specification vocabulary for us.interactivebrokers at the level of a whole activity
   statement (the row-level readings ibs_num, ibs_num2, ibs_security are in Spec/ImpSpecB.v).
   Independent of Model/Imp/Interactivebrokers.v: what each record of a statement is (ibs_kind),
   when it is well-formed (ibs_wf_row), what it says (ibs_row: the transaction it stands for, with
   date, signed changes of the import account, bookings, text and performance annotation, or the
   balance it reports) and how the two context records (Base Currency, Period) act on the
   records after them (ibs_next).  Executable.

   An activity statement is a CSV file of sections; field 0 of a record names the section, field 1
   is Header / Data / Total / SubTotal / Notes.  Only Data records of nine sections matter:

     Account Information,Data,Base Currency,<cur>
     Statement,Data,Period,"<Month D, YYYY> - <Month D, YYYY>"
     Trades,Data,Order,Stocks,<cur>,<symbol>,"<yyyy-mm-dd, time>",<quantity>,<price>,_,<proceeds>,<commission>,...
     Trades,Data,Order,Forex,<cur>,<SYM.CUR>,"<yyyy-mm-dd, time>",<quantity>,<price>,_,<proceeds>,<commission in base currency>,...
     Deposits & Withdrawals,Data,<cur>,<date>,<description>,<amount>
     Dividends,Data,<cur>,<date>,<description>,<amount>                  (exactly 6 fields)
     Interest,Data,<cur>,<date>,<description>,<amount>                   (exactly 6 fields)
     Withholding Tax,Data,<cur>,<date>,<description>,<amount>,<code>
     Open Positions,Data,Summary,<category>,<cur>,<symbol>,<quantity>,...
     Forex Balances,Data,Forex,<cur>,<description = currency>,<quantity>,...

   Amounts are signed and may carry "," as thousands separator (ibs_num).  KNOWN FINDING
   C13-ib-rounding (findings/C13-interactivebrokers-rounding.md): the importer reads trade
   quantities, proceeds, Forex commissions, deposit amounts and cash balances ROUNDED to two
   places, half away from zero (ibs_num2), and everything else exactly.  The readings below say
   what the code books (ibs_num2 where it rounds), not what the statement says; the two agree on
   amounts with at most two decimals (Properties/C13b.v, C13_interactivebrokers_two_places_exact). *)
From Coq Require Import ZArith QArith List Bool.
From Knut Require Import Model.Str Model.Dec Model.Date Model.Account Model.Ledger Proofs.DecValue
     Model.ImpCommonA Model.ImpCommonB Spec.ImpSpecA Spec.ImpSpecB.
Import ListNotations.
Open Scope bool_scope.

(* ---------------------------------------------------------------- the words of the format *)
Definition ibs_data : str := [68;97;116;97]%Z.                                           (* Data *)
Definition ibs_account_information : str :=
  [65;99;99;111;117;110;116;32;73;110;102;111;114;109;97;116;105;111;110]%Z.            (* Account Information *)
Definition ibs_base_currency : str := [66;97;115;101;32;67;117;114;114;101;110;99;121]%Z. (* Base Currency *)
Definition ibs_statement : str := [83;116;97;116;101;109;101;110;116]%Z.                 (* Statement *)
Definition ibs_period_word : str := [80;101;114;105;111;100]%Z.                          (* Period *)
Definition ibs_trades : str := [84;114;97;100;101;115]%Z.                                (* Trades *)
Definition ibs_order : str := [79;114;100;101;114]%Z.                                    (* Order *)
Definition ibs_forex : str := [70;111;114;101;120]%Z.                                    (* Forex *)
Definition ibs_stocks : str := [83;116;111;99;107;115]%Z.                                (* Stocks *)
Definition ibs_deposits : str :=
  [68;101;112;111;115;105;116;115;32;38;32;87;105;116;104;100;114;97;119;97;108;115]%Z.  (* Deposits & Withdrawals *)
Definition ibs_total : str := [84;111;116;97;108]%Z.                                     (* Total *)
Definition ibs_dividends : str := [68;105;118;105;100;101;110;100;115]%Z.                (* Dividends *)
Definition ibs_interest : str := [73;110;116;101;114;101;115;116]%Z.                     (* Interest *)
Definition ibs_withholding : str :=
  [87;105;116;104;104;111;108;100;105;110;103;32;84;97;120]%Z.                           (* Withholding Tax *)
Definition ibs_open_positions : str :=
  [79;112;101;110;32;80;111;115;105;116;105;111;110;115]%Z.                              (* Open Positions *)
Definition ibs_summary : str := [83;117;109;109;97;114;121]%Z.                           (* Summary *)
Definition ibs_forex_balances : str :=
  [70;111;114;101;120;32;66;97;108;97;110;99;101;115]%Z.                                 (* Forex Balances *)

(* ---------------------------------------------------------------- what a record is *)
Inductive ibs_kind_t :=
| IbBase | IbPeriod                                              (* context records *)
| IbForex | IbStock | IbDeposit | IbDividend | IbInterest | IbWithholding   (* booking rows *)
| IbPosition | IbCash                                            (* balance rows *)
| IbOther.                                                       (* everything else: ignored *)

Definition ibs_kind (r : list str) : ibs_kind_t :=
  let sec := field r 0 in
  if negb (str_eqb (field r 1) ibs_data) then IbOther
  else if str_eqb sec ibs_account_information then
    (if str_eqb (field r 2) ibs_base_currency then IbBase else IbOther)
  else if str_eqb sec ibs_statement then
    (if str_eqb (field r 2) ibs_period_word then IbPeriod else IbOther)
  else if str_eqb sec ibs_trades then
    (if str_eqb (field r 2) ibs_order then
       (if str_eqb (field r 3) ibs_forex then IbForex
        else if str_eqb (field r 3) ibs_stocks then IbStock else IbOther)
     else IbOther)
  else if str_eqb sec ibs_deposits then
    (* the section's total rows name "Total" as currency or have no settle date *)
    (if str_eqb (field r 2) ibs_total || is_empty (field r 3) then IbOther else IbDeposit)
  else if str_eqb sec ibs_dividends then
    (if is_prefix ibs_total (field r 2) || negb (len_is r 6) then IbOther else IbDividend)
  else if str_eqb sec ibs_interest then
    (if is_prefix ibs_total (field r 2) || negb (len_is r 6) then IbOther else IbInterest)
  else if str_eqb sec ibs_withholding then
    (if is_prefix ibs_total (field r 2) then IbOther else IbWithholding)
  else if str_eqb sec ibs_open_positions then
    (if str_eqb (field r 2) ibs_summary then IbPosition else IbOther)
  else if str_eqb sec ibs_forex_balances then
    (if str_eqb (field r 2) ibs_forex then IbCash else IbOther)
  else IbOther.

(* the records of the nine sections have the fields that tell the kinds apart: two, and a Data
   record four (Trades, Deposits & Withdrawals) resp. three.  (A shorter record of one of these
   sections makes the importer index out of range: findings/C13-interactivebrokers-rounding.md,
   "Other observations".)  Records of other sections are arbitrary. *)
Definition ibs_min_fields (r : list str) : nat :=
  let sec := field r 0 in
  if str_eqb sec ibs_trades || str_eqb sec ibs_deposits then
    (if str_eqb (field r 1) ibs_data then 4 else 2)
  else if str_eqb sec ibs_account_information || str_eqb sec ibs_statement || str_eqb sec ibs_dividends ||
          str_eqb sec ibs_interest || str_eqb sec ibs_withholding || str_eqb sec ibs_open_positions ||
          str_eqb sec ibs_forex_balances then
    (if str_eqb (field r 1) ibs_data then 3 else 2)
  else 0.

(* ---------------------------------------------------------------- the context *)
(* the base currency named by the last Base Currency record and the end of the period named by
   the last Period record so far *)
Record ibs_ctx := mkIbCtx { ibc_base : option commodity; ibc_end : option Z }.
Definition ibs_ctx0 : ibs_ctx := mkIbCtx None None.

(* s = a ++ " - " ++ b with the first occurrence of " - " *)
Fixpoint ibs_cut_dash (s : str) : option (str * str) :=
  match s with
  | [] => None
  | c :: t =>
    match t with
    | c2 :: c3 :: rest =>
      if (c =? 32)%Z && (c2 =? 45)%Z && (c3 =? 32)%Z then Some ([], rest)
      else match ibs_cut_dash t with Some (a, b) => Some (c :: a, b) | None => None end
    | _ => None
    end
  end.

(* "<from> - <to>" (anything after a second " - " is not looked at): both in the form
   "January 2, 2006" *)
Definition ibs_period (v : str) : option (Z * Z) :=
  match ibs_cut_dash v with
  | None => None
  | Some (a, b) =>
    let b1 := match ibs_cut_dash b with Some (x, _) => x | None => b end in
    match parse_month_d_y a, parse_month_d_y b1 with
    | Some f, Some t => Some (f, t)
    | _, _ => None
    end
  end.

Definition ibs_next (ctx : ibs_ctx) (r : list str) : ibs_ctx :=
  match ibs_kind r with
  | IbBase => mkIbCtx (Some (field r 3)) (ibc_end ctx)
  | IbPeriod => mkIbCtx (ibc_base ctx) (option_map snd (ibs_period (field r 3)))
  | _ => ctx
  end.

(* 1 January of year 1: Go's zero time, which the importer takes for "no Period record yet" *)
Definition ibs_zero_day : Z := of_civil 1 1 1.

(* ---------------------------------------------------------------- what a record says *)
Definition ibs_day (s : str) : Z := date_or0 (parse_iso s).
Definition ibs_stamp_day (s : str) : Z := date_or0 (parse_iso (firstn 10 s)).   (* "2020-07-06, 09:30:00" *)
Definition ibs_q (s : str) : dec := dec_or0 (ibs_num s).           (* exact *)
Definition ibs_q2 (s : str) : dec := dec_or0 (ibs_num2 s).         (* AS THE CODE ROUNDS IT: two places *)
Definition ibs_exact (s : str) : dec := dec_or0 (new_from_string s). (* exact, no thousands separators *)
(* "EUR.CHF" -> "EUR" *)
Definition ibs_before_dot (s : str) : str := fst (span (fun c => negb (c =? 46)%Z) s).

(* "Buy 10 AAPL @ 120.5 USD" / "Sell -10 AAPL @ 120.5 USD" *)
Definition ibs_trade_text (qty : dec) (sym : commodity) (price : dec) (cur : commodity) : str :=
  (if is_pos qty then [66;117;121;32]%Z else [83;101;108;108;32]%Z) ++ to_string qty ++ [32%Z] ++ sym ++
  [32;64;32]%Z ++ to_string price ++ [32%Z] ++ cur.
(* "Deposit 1000 CHF" / "Withdraw -1000 CHF" *)
Definition ibs_transfer_text (q : dec) (cur : commodity) : str :=
  (if is_pos q then [68;101;112;111;115;105;116;32]%Z else [87;105;116;104;100;114;97;119;32]%Z) ++
  to_string q ++ [32%Z] ++ cur.

(* a purchase/sale of a security: the holding changes by the quantity, the cash by the proceeds
   (both against the trading account) and by the signed commission (against the fee account) *)
Definition ibs_stock_trade (acct fee trading : account) (r : list str) : tentry :=
  let cur := field r 4 in let sym := field r 5 in
  let qty := ibs_q2 (field r 7) in let proceeds := ibs_q2 (field r 10) in let comm := ibs_exact (field r 11) in
  (mkEntry (mkEffect (ibs_stamp_day (field r 6)) [(sym, qty); (cur, proceeds); (cur, comm)])
           [mkLeg trading acct sym qty; mkLeg trading acct cur proceeds; mkLeg fee acct cur comm]
           (ibs_trade_text qty sym (ibs_q (field r 8)) cur),
   Some [sym; cur]).

(* a currency trade: as a security trade with the currency bought/sold as symbol; the commission
   is in the BASE currency of the account and is booked only when (rounded) it is not zero *)
Definition ibs_forex_trade (acct fee trading : account) (base : commodity) (r : list str) : tentry :=
  let cur := field r 4 in let sym := ibs_before_dot (field r 5) in
  let qty := ibs_q2 (field r 7) in let proceeds := ibs_q2 (field r 10) in let comm := ibs_q2 (field r 11) in
  (mkEntry (mkEffect (ibs_stamp_day (field r 6))
                     ([(sym, qty); (cur, proceeds)] ++ if is_zero comm then [] else [(base, comm)]))
           ([mkLeg trading acct sym qty; mkLeg trading acct cur proceeds] ++
            if is_zero comm then [] else [mkLeg fee acct base comm])
           (ibs_trade_text qty sym (ibs_q (field r 8)) cur),
   Some [sym; cur]).

Definition ibs_deposit (acct : account) (r : list str) : tentry :=
  let cur := field r 2 in let q := ibs_q2 (field r 5) in
  (mkEntry (mkEffect (ibs_day (field r 3)) [(cur, q)]) [mkLeg tbd_account acct cur q] (ibs_transfer_text q cur), None).

(* dividend, interest, withholding tax: the amount against the respective account; annotated
   with the security the description names (interest: with the currency) *)
Definition ibs_income (acct other : account) (tg : list commodity) (r : list str) : tentry :=
  let cur := field r 2 in let q := ibs_q (field r 5) in
  (mkEntry (mkEffect (ibs_day (field r 3)) [(cur, q)]) [mkLeg other acct cur q] (field r 4), Some tg).

(* a statement stands for transactions and balance assertions *)
Inductive ibs_item := IbTxn (e : tentry) | IbBal (b : balance_fact).

Definition ibs_row (acct dividend interest tax fee trading : account) (ctx : ibs_ctx) (r : list str) : list ibs_item :=
  match ibs_kind r with
  | IbForex => [IbTxn (ibs_forex_trade acct fee trading (opt_or (ibc_base ctx) []) r)]
  | IbStock => [IbTxn (ibs_stock_trade acct fee trading r)]
  | IbDeposit => [IbTxn (ibs_deposit acct r)]
  | IbDividend => [IbTxn (ibs_income acct dividend [ibs_security (field r 4)] r)]
  | IbInterest => [IbTxn (ibs_income acct interest [field r 2] r)]
  | IbWithholding => [IbTxn (ibs_income acct tax [ibs_security (field r 4)] r)]
  (* balances are reported for the end of the statement period *)
  | IbPosition => [IbBal (mkBalFact (opt_or (ibc_end ctx) 0%Z) (field r 5) (ibs_exact (field r 6)))]
  | IbCash => [IbBal (mkBalFact (opt_or (ibc_end ctx) 0%Z) (field r 4) (ibs_q2 (field r 5)))]
  | IbBase | IbPeriod | IbOther => []
  end.

Fixpoint ibs_items (acct dividend interest tax fee trading : account) (ctx : ibs_ctx) (rows : list (list str))
  : list ibs_item :=
  match rows with
  | [] => []
  | r :: rest => ibs_row acct dividend interest tax fee trading ctx r ++
                 ibs_items acct dividend interest tax fee trading (ibs_next ctx r) rest
  end.

(* ---------------------------------------------------------------- well-formed statements *)
Definition ibs_stamp_ok (s : str) : bool := Nat.leb 10 (length s) && is_some (parse_iso (firstn 10 s)).
Definition ibs_end_ok (ctx : ibs_ctx) : bool :=
  match ibc_end ctx with Some t => negb (t =? ibs_zero_day)%Z | None => false end.

Definition ibs_wf_row (ctx : ibs_ctx) (r : list str) : bool :=
  Nat.leb (ibs_min_fields r) (length r) &&
  match ibs_kind r with
  | IbBase => Nat.leb 4 (length r) && valid_name (field r 3)
  | IbPeriod => Nat.leb 4 (length r) && is_some (ibs_period (field r 3))
  | IbForex =>            (* needs the Base Currency record before it *)
    Nat.leb 12 (length r) && is_some (ibc_base ctx) && valid_name (field r 4) && valid_name (ibs_before_dot (field r 5)) &&
    ibs_stamp_ok (field r 6) && is_some (ibs_num2 (field r 7)) && is_some (ibs_num (field r 8)) &&
    is_some (ibs_num2 (field r 10)) && is_some (ibs_num2 (field r 11))
  | IbStock =>
    Nat.leb 12 (length r) && valid_name (field r 4) && valid_name (field r 5) &&
    ibs_stamp_ok (field r 6) && is_some (ibs_num2 (field r 7)) && is_some (ibs_num (field r 8)) &&
    is_some (ibs_num2 (field r 10)) && is_some (new_from_string (field r 11))
  | IbDeposit =>
    Nat.leb 6 (length r) && valid_name (field r 2) && is_some (parse_iso (field r 3)) && is_some (ibs_num2 (field r 5))
  | IbDividend =>
    valid_name (field r 2) && is_some (parse_iso (field r 3)) && is_some (ibs_num (field r 5)) &&
    negb (is_empty (ibs_security (field r 4)))
  | IbInterest =>
    valid_name (field r 2) && is_some (parse_iso (field r 3)) && is_some (ibs_num (field r 5))
  | IbWithholding =>
    Nat.leb 6 (length r) && valid_name (field r 2) && is_some (parse_iso (field r 3)) && is_some (ibs_num (field r 5)) &&
    negb (is_empty (ibs_security (field r 4)))
  | IbPosition =>         (* needs the Period record before it *)
    Nat.leb 7 (length r) && ibs_end_ok ctx && valid_name (field r 5) && is_some (new_from_string (field r 6))
  | IbCash =>
    Nat.leb 6 (length r) && ibs_end_ok ctx && valid_name (field r 4) && is_some (ibs_num2 (field r 5))
  | IbOther => true
  end.

Fixpoint ibs_wf (ctx : ibs_ctx) (rows : list (list str)) : bool :=
  match rows with
  | [] => true
  | r :: rest => ibs_wf_row ctx r && ibs_wf (ibs_next ctx r) rest
  end.

(* ---------------------------------------------------------------- what the importer must emit *)
(* for a transaction item: a transaction that books it (date, exactly its bookings, the account
   changes by exactly its signed amounts in every commodity, its annotation) under its text;
   for a balance item: the assertion of that balance on the import account *)
Definition ibs_emitted (acct : account) (i : ibs_item) (d : directive) : Prop :=
  match i with
  | IbTxn e => exists t, d = DTxn t /\ books_b acct (en_fact (fst e)) (en_legs (fst e)) (snd e) t /\
                         t_desc t = build_desc (en_text (fst e))
  | IbBal b => d = assertion_of acct b
  end.

(* the booking rows and the balance rows of a statement *)
Definition ibs_is_booking (r : list str) : bool :=
  match ibs_kind r with IbForex | IbStock | IbDeposit | IbDividend | IbInterest | IbWithholding => true | _ => false end.
Definition ibs_is_balance (r : list str) : bool :=
  match ibs_kind r with IbPosition | IbCash => true | _ => false end.
Definition is_txn_dir (d : directive) : bool := match d with DTxn _ => true | _ => false end.

(* ---------------------------------------------------------------- executable form (the check runs it) *)
(* the directive that realises an item: the transaction built from its bookings (posting.Builder
   semantics: legs_postings), dated, described and annotated as the item says, resp. the assertion *)
Definition ibs_directive (acct : account) (i : ibs_item) : directive :=
  match i with
  | IbTxn e => legs_txn (re_date (en_fact (fst e))) (en_text (fst e)) (en_legs (fst e)) (snd e)
  | IbBal b => assertion_of acct b
  end.

(* what `knut import us.interactivebrokers` must print for a well-formed statement; None for a
   statement that is not well-formed *)
Definition ibs_statement_output (acct dividend interest tax fee trading : account) (rows : list (list str)) : option str :=
  if ibs_wf ibs_ctx0 rows
  then Some (print_directives (map (ibs_directive acct) (ibs_items acct dividend interest tax fee trading ibs_ctx0 rows)))
  else None.
