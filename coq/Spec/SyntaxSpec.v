(* Specification vocabulary of C07 (and of C08's "gaps"): what it means for a syntax tree to
   be a well-formed, lossless cover of a text.  Everything is executable: these very
   functions are extracted and evaluated on the tree the Go parser returns.

   wf_tree_b t f    every range lies in [0,|t|] with start <= end; children lie inside their
                    parent, in source order and without overlap; the file range is the whole
                    text; top-level directives are non-empty, strictly increasing and disjoint;
                    a directive's payload has the directive's own range (an include may start
                    later, after addon lines); the content of a quoted string is the string
                    without its two quote bytes; absent addons are Go zero values.
   cover_b t f      the text outside the directives consists of whitespace-only lines and
                    comment lines (see gap_ok_b).
   interleave t f   gap0 ++ directive1 ++ gap1 ++ ... ++ gapn, which wf_tree_b makes equal to t.
   err_in_bounds_b  every error of a chain has 0 <= start <= end <= |t|.                      *)
From Coq Require Import ZArith List Bool.
From Knut Require Import Model.Bytes Model.Scanner Model.Parser.
Import ListNotations.
Open Scope bool_scope.
Open Scope Z_scope.

(* ------------------------------------------------------------------ ranges *)

Definition rng_in (lo hi : Z) (r : range) : bool :=
  (lo <=? r_start r) && (r_start r <=? r_end r) && (r_end r <=? hi).

(* the ranges follow each other inside [lo, hi]: lo <= s1 <= e1 <= s2 <= e2 <= ... <= hi *)
Fixpoint ordered_in (lo hi : Z) (rs : list range) : bool :=
  match rs with
  | [] => lo <=? hi
  | r :: rs' => (lo <=? r_start r) && (r_start r <=? r_end r) && ordered_in (r_end r) hi rs'
  end.

Definition range_eqb (a b : range) : bool := (r_start a =? r_start b) && (r_end a =? r_end b).
Definition nonempty_range (r : range) : bool := r_start r <? r_end r.

(* strictly increasing and disjoint *)
Fixpoint strict_order_b (rs : list range) : bool :=
  match rs with
  | [] => true
  | r :: rs' =>
    nonempty_range r &&
    match rs' with [] => true | r' :: _ => r_end r <=? r_start r' end &&
    strict_order_b rs'
  end.

(* ------------------------------------------------------------------ nodes *)

Definition is_zero_range (r : range) : bool := (r_start r =? 0) && (r_end r =? 0).
Definition is_zero_account (a : account) : bool := is_zero_range (acc_range a) && negb (acc_macro a).
Definition is_zero_perf (p : performance) : bool :=
  is_zero_range (pf_range p) && match pf_targets p with [] => true | _ => false end.
Definition is_zero_accrual (a : accrual) : bool :=
  is_zero_range (ac_range a) && is_zero_range (ac_interval a) && is_zero_range (ac_start a) &&
  is_zero_range (ac_end a) && is_zero_account (ac_account a).
Definition is_zero_addons (a : addons) : bool :=
  is_zero_range (ad_range a) && is_zero_perf (ad_perf a) && is_zero_accrual (ad_accrual a).

Definition wf_account (lo hi : Z) (a : account) : bool := rng_in lo hi (acc_range a).

(* "...": the content is the string without the two quotes *)
Definition wf_quoted (lo hi : Z) (q : quoted) : bool :=
  rng_in lo hi (qs_range q) &&
  (r_start (qs_content q) =? r_start (qs_range q) + 1) &&
  (r_end (qs_content q) =? r_end (qs_range q) - 1) &&
  (r_start (qs_content q) <=? r_end (qs_content q)).

Definition wf_booking (lo hi : Z) (b : booking) : bool :=
  rng_in lo hi (bk_range b) &&
  ordered_in (r_start (bk_range b)) (r_end (bk_range b))
    [acc_range (bk_credit b); acc_range (bk_debit b); bk_quantity b; bk_commodity b].

Definition wf_balance (lo hi : Z) (b : balance) : bool :=
  rng_in lo hi (bl_range b) &&
  ordered_in (r_start (bl_range b)) (r_end (bl_range b))
    [acc_range (bl_account b); bl_quantity b; bl_commodity b].

Definition wf_perf (lo hi : Z) (p : performance) : bool :=
  rng_in lo hi (pf_range p) &&
  ordered_in (r_start (pf_range p)) (r_end (pf_range p)) (pf_targets p).

Definition wf_accrual (lo hi : Z) (a : accrual) : bool :=
  rng_in lo hi (ac_range a) &&
  ordered_in (r_start (ac_range a)) (r_end (ac_range a))
    [ac_interval a; ac_start a; ac_end a; acc_range (ac_account a)].

Definition disjoint_b (a b : range) : bool := (r_end a <=? r_start b) || (r_end b <=? r_start a).

(* @performance and @accrue lines may come in either order *)
Definition wf_addons (lo hi : Z) (a : addons) : bool :=
  rng_in lo hi (ad_range a) &&
  let s := r_start (ad_range a) in
  let e := r_end (ad_range a) in
  (is_zero_perf (ad_perf a) || wf_perf s e (ad_perf a)) &&
  (is_zero_accrual (ad_accrual a) || wf_accrual s e (ad_accrual a)) &&
  (is_zero_perf (ad_perf a) || is_zero_accrual (ad_accrual a) ||
   disjoint_b (pf_range (ad_perf a)) (ac_range (ad_accrual a))).

Definition addons_ranges (a : addons) : list range :=
  if is_zero_addons a then [] else [ad_range a].

Definition wf_transaction (lo hi : Z) (t : transaction) : bool :=
  rng_in lo hi (tx_range t) &&
  let s := r_start (tx_range t) in
  let e := r_end (tx_range t) in
  (is_zero_addons (tx_addons t) || wf_addons s e (tx_addons t)) &&
  ordered_in s e (addons_ranges (tx_addons t) ++ tx_date t :: qs_range (tx_desc t) ::
                  map bk_range (tx_bookings t)) &&
  wf_quoted s e (tx_desc t) &&
  forallb (wf_booking s e) (tx_bookings t) &&
  match tx_bookings t with [] => false | _ => true end.

Definition wf_open (lo hi : Z) (o : opening) : bool :=
  rng_in lo hi (op_range o) &&
  ordered_in (r_start (op_range o)) (r_end (op_range o)) [op_date o; acc_range (op_account o)].

Definition wf_close (lo hi : Z) (c : closing) : bool :=
  rng_in lo hi (cl_range c) &&
  ordered_in (r_start (cl_range c)) (r_end (cl_range c)) [cl_date c; acc_range (cl_account c)].

Definition wf_assertion (lo hi : Z) (a : assertion) : bool :=
  rng_in lo hi (as_range a) &&
  let s := r_start (as_range a) in
  let e := r_end (as_range a) in
  ordered_in s e (as_date a :: map bl_range (as_balances a)) &&
  forallb (wf_balance s e) (as_balances a) &&
  match as_balances a with [] => false | _ => true end.

Definition wf_price (lo hi : Z) (p : price) : bool :=
  rng_in lo hi (pr_range p) &&
  ordered_in (r_start (pr_range p)) (r_end (pr_range p))
    [pr_date p; pr_commodity p; pr_price p; pr_target p].

Definition wf_include (lo hi : Z) (i : include) : bool :=
  rng_in lo hi (in_range i) &&
  wf_quoted (r_start (in_range i)) (r_end (in_range i)) (in_path i).

(* the payload lies in the directive; except for include (which may follow addon lines that
   belong to the directive's range) it has exactly the directive's range *)
Definition wf_body (d : range) (b : dir_body) : bool :=
  let lo := r_start d in
  let hi := r_end d in
  match b with
  | BTrx t => wf_transaction lo hi t && range_eqb (tx_range t) d
  | BOpen o => wf_open lo hi o && range_eqb (op_range o) d
  | BClose c => wf_close lo hi c && range_eqb (cl_range c) d
  | BAssertion a => wf_assertion lo hi a && range_eqb (as_range a) d
  | BPrice p => wf_price lo hi p && range_eqb (pr_range p) d
  | BInclude i => wf_include lo hi i && (r_end (in_range i) =? hi)
  | BNone => false
  end.

Definition wf_directive (lo hi : Z) (d : directive) : bool :=
  rng_in lo hi (d_range d) && nonempty_range (d_range d) && wf_body (d_range d) (d_body d).

Definition wf_tree_b (t : str) (f : file) : bool :=
  let n := zlen t in
  range_eqb (f_range f) (mkRange 0 n) &&
  ordered_in 0 n (map d_range (f_directives f)) &&
  strict_order_b (map d_range (f_directives f)) &&
  forallb (wf_directive 0 n) (f_directives f).

(* ------------------------------------------------------------------ gaps *)

Definition is_ws_byte (b : Z) : bool := (b =? 32) || (b =? 9) || (b =? 13).
Definition ws_only (l : str) : bool := forallb is_ws_byte l.

(* a line that starts (in column 0) with `*`, `#` or `//` *)
Definition is_comment_line (l : str) : bool :=
  match l with
  | b :: l' => (b =? 42) || (b =? 35) ||
               ((b =? 47) && match l' with c :: _ => c =? 47 | [] => false end)
  | [] => false
  end.

(* a gap line, without its newline; [first_ws]: comments are not allowed (the first line of
   a gap that follows a directive is the rest of the directive's last line) *)
Definition line_ok_b (first_ws : bool) (l : str) : bool :=
  ws_only l || (negb first_ws && is_comment_line l).

(* split at every '\n': k newlines give k+1 pieces; the last piece is the unterminated rest *)
Fixpoint split_nl (g : str) : list str :=
  match g with
  | [] => [[]]
  | b :: g' =>
    if b =? 10 then [] :: split_nl g'
    else match split_nl g' with
         | l :: ls => (b :: l) :: ls
         | [] => [[b]]
         end
  end.

(* [open_end]: the last line may lack its newline (only at the end of the text) *)
Fixpoint lines_ok_b (first_ws open_end : bool) (ls : list str) : bool :=
  match ls with
  | [] => true
  | [l] => match l with [] => true | _ => open_end && line_ok_b first_ws l end
  | l :: ls' => line_ok_b first_ws l && lines_ok_b false open_end ls'
  end.

Definition gap_ok_b (first_ws open_end : bool) (g : str) : bool :=
  lines_ok_b first_ws open_end (split_nl g).

(* gaps from position [pos] on; [after] = a directive ends at pos.  A gap between two
   directives is not empty (it contains at least the newline) and every gap that is followed
   by a directive ends with a newline, so directives start in column 0. *)
Fixpoint gaps_b (t : str) (pos : Z) (after : bool) (ds : list directive) : bool :=
  match ds with
  | [] => gap_ok_b after true (slice t pos (zlen t))
  | d :: ds' =>
    (pos <=? r_start (d_range d)) &&
    (negb after || (pos <? r_start (d_range d))) &&
    gap_ok_b after false (slice t pos (r_start (d_range d))) &&
    gaps_b t (r_end (d_range d)) true ds'
  end.

Definition cover_b (t : str) (f : file) : bool := gaps_b t 0 false (f_directives f).

Fixpoint interleave_from (t : str) (pos : Z) (ds : list directive) : str :=
  match ds with
  | [] => slice t pos (zlen t)
  | d :: ds' =>
    slice t pos (r_start (d_range d)) ++
    slice t (r_start (d_range d)) (r_end (d_range d)) ++
    interleave_from t (r_end (d_range d)) ds'
  end.

Definition interleave (t : str) (f : file) : str := interleave_from t 0 (f_directives f).

(* ------------------------------------------------------------------ errors *)

Definition err_in_bounds_b (t : str) (e : list err) : bool :=
  forallb (fun x => (0 <=? er_start x) && (er_start x <=? er_end x) && (er_end x <=? zlen t)) e.
