(* C02: what the parser guarantees about the accounts of a journal's postings (vocabulary of
   Spec/WellformedSpec.v: first segment an account type, further segments non-empty, no colon and
   no NUL byte inside a segment).  Under this condition an account is identified by its name.
   The model keys the positions of CloseAccounts by the string name ++ NUL ++ commodity
   (Model/Check.v pos_key); knut keys them by (account pointer, commodity pointer) and interns
   accounts by name.  The two agree exactly when account names are NUL-free and determine the
   account, which is what [postings_syntactic] states. *)
From Coq Require Import ZArith List Bool.
From Knut Require Import Model.Str Model.Dec Model.Date Model.Account Model.Ledger
     Spec.WellformedSpec Spec.LedgerSpec.
Import ListNotations.

Definition postings_syntactic (ds : list directive) : Prop :=
  forall d p, In (d, p) (flat_postings ds) -> account_ok (p_acc p) = true.

Definition postings_syntactic_b (ds : list directive) : bool :=
  forallb (fun dp : Z * posting => account_ok (p_acc (snd dp))) (flat_postings ds).
