(* Specification vocabulary of C09 "print emits a normal form that round-trips".

   A journal is given as its syntax-level directives [ds] (Model/Ledger.v); [reparse] is the
   model of "read this text as a journal" (the parser of C07 followed by Model/ToModel.v).
   For a printer [pr] (Cli.print_cmd_pinned = the pinned journal.Print, Cli.print_cmd = the
   repaired one):

     accepted l ds          knut check accepts ds
     printed pr ds text     knut print succeeds on ds and writes text
     normal_form pr l text  text is read back as some accepted ds' and printing ds' writes
                            text again, byte for byte
     same_report cfg ds text  the balance report (CSV) of the re-read text under configuration
                            cfg is the one of ds

   The [_b] versions are what the correspondence check evaluates on the output of the real
   binary (spec verdict of op C09.print). *)
From Coq Require Import ZArith List Bool.
From Knut Require Import Model.Str Model.Dec Model.Date Model.Account Model.Ledger Model.Journal
     Model.Check Model.Pipeline Model.Table Model.Report Model.JPrinter Model.Cli Model.ToModel.
Import ListNotations.
Open Scope bool_scope.
Open Scope Z_scope.

Definition printer := list sdirective -> cresult Str.str.

Definition accepted (lenient : bool) (ds : list sdirective) : Prop := check_cmd_current lenient ds = COk tt.
Definition printed (pr : printer) (ds : list sdirective) (text : Str.str) : Prop := pr ds = COk text.

Definition normal_form (pr : printer) (lenient : bool) (text : Str.str) : Prop :=
  exists ds', reparse text = MOk ds' /\ accepted lenient ds' /\ printed pr ds' text.

Definition same_report (cfg : balance_cfg) (ds : list sdirective) (text : Str.str) : Prop :=
  exists ds', reparse text = MOk ds' /\ balance_csv cfg ds' = balance_csv cfg ds.

(* ---------------------------------------------------------------- executable versions *)

Definition normal_form_b (pr : printer) (text : Str.str) : bool :=
  match reparse text with
  | MOk ds' =>
    match check_cmd_current true ds' with
    | COk _ => match pr ds' with COk t2 => Str.str_eqb t2 text | _ => false end
    | _ => false
    end
  | _ => false
  end.

(* equality of command results: the same output, or both fail the same way *)
Definition cres_eqb (a b : cresult Str.str) : bool :=
  match a, b with
  | COk x, COk y => Str.str_eqb x y
  | CErr _ _, CErr _ _ => true
  | CPanic _, CPanic _ => true
  | _, _ => false
  end.

Definition same_report_b (cfg : balance_cfg) (ds : list sdirective) (text : Str.str) : bool :=
  match reparse text with
  | MOk ds' => cres_eqb (balance_csv cfg ds') (balance_csv cfg ds)
  | _ => false
  end.
