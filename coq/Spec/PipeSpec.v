(* Specification vocabulary for C19 (cpr.Seq): what a correct begin/end event trace is, stated
   declaratively over prefixes (independent of the checker [trace_ok] in Model/Pipe.v), and the
   state predicates of the ownership / order / conservation statements.                       *)
From Coq Require Import List Bool Arith PeanoNat.
From Knut Require Import Model.Pipe.
Import ListNotations.

(* [ev_ok n pre e]: event e may follow the events pre.  For an event of stage i and item k:
   begin  - k is the number of begins stage i has made so far: stage i takes the items in source
            order 0,1,2,.. and none twice;
          - stage i has ended everything it began (begin and end alternate);
          - i = 1, or stage i-1 has already ended item k (its ends are numbered 0,1,2,.. too, so
            "k < number of ends of stage i-1" says exactly that end(i-1,k) is in pre);
          - back-pressure (the channels are unbuffered): every later stage i+j <= n has ended at
            least k-j items - stage i can take item k only after handing k-1 to stage i+1, which
            can take that only after handing k-2 to stage i+2, and so on;
   end    - stage i has exactly one open begin, and it is for item k.                          *)
Definition ev_ok (n : nat) (pre : list event) (e : event) : Prop :=
  let i := ev_stage e in
  let k := ev_item e in
  1 <= i <= n /\
  match ev_ph e with
  | EvBegin =>
      k = count_ev i EvBegin pre /\
      count_ev i EvBegin pre = count_ev i EvEnd pre /\
      (i = 1 \/ k < count_ev (pred i) EvEnd pre) /\
      (forall j, 1 <= j -> i + j <= n -> k <= count_ev (i + j) EvEnd pre + j)
  | EvEnd =>
      count_ev i EvBegin pre = S (count_ev i EvEnd pre) /\
      k = count_ev i EvEnd pre
  end.

(* every event of the trace is acceptable after the events before it *)
Definition tr_spec (n : nat) (tr : list event) : Prop :=
  forall pre e post, tr = pre ++ e :: post -> ev_ok n pre e.

(* node i holds item k: it has received it and not yet passed it on *)
Definition holds (nd : node) (k : nat) : Prop := In k (held nd).

Definition begins_of (i : nat) (tr : list event) : list nat :=
  map ev_item (filter (fun e => (ev_stage e =? i) && evphase_eqb (ev_ph e) EvBegin) tr).
Definition ends_of (i : nat) (tr : list event) : list nat :=
  map ev_item (filter (fun e => (ev_stage e =? i) && evphase_eqb (ev_ph e) EvEnd) tr).

(* position of the first occurrence of an event satisfying p *)
Fixpoint index_of (p : event -> bool) (tr : list event) : option nat :=
  match tr with
  | [] => None
  | e :: rest => if p e then Some 0 else option_map S (index_of p rest)
  end.

Definition is_ev (i : nat) (p : evphase) (k : nat) (e : event) : bool :=
  (ev_stage e =? i) && evphase_eqb (ev_ph e) p && (ev_item e =? k).

(* ------------------------------------------------------------------------------------------
   The checker as it was before the back-pressure clause (kept for the refutation
   trace_ok_loose_exact_refuted: it accepts traces that no run of the transition system emits). *)
Definition ev_ok_loose_b (n : nat) (pre : list event) (e : event) : bool :=
  let i := ev_stage e in
  let k := ev_item e in
  (1 <=? i) && (i <=? n) &&
  match ev_ph e with
  | EvBegin =>
      (k =? count_ev i EvBegin pre) &&
      (count_ev i EvBegin pre =? count_ev i EvEnd pre) &&
      ((i =? 1) || (k <? count_ev (pred i) EvEnd pre))
  | EvEnd =>
      (count_ev i EvBegin pre =? S (count_ev i EvEnd pre)) &&
      (k =? count_ev i EvEnd pre)
  end.

Fixpoint trace_ok_loose_aux (n : nat) (pre_rev tr : list event) : bool :=
  match tr with
  | [] => true
  | e :: rest => ev_ok_loose_b n pre_rev e && trace_ok_loose_aux n (e :: pre_rev) rest
  end.

Definition trace_ok_loose (n : nat) (tr : list event) : bool := trace_ok_loose_aux n [] tr.

(* ------------------------------------------------------------------------------------------
   Which traces a given instance (m items, failure oracle [fails]) can emit, beyond what the
   checker sees: items are below m, and a begin of item k at stage i needs
     - stage i-1 to have ended k successfully (a failed stage hands nothing over),
     - stage i itself to have succeeded on k-1, stage i+1 on k-2, ..., stage i+j on k-1-j
       (a stage that failed never receives again, so the stages before it block in Push).
   [respects] is what the oracle adds to [tr_spec]; Properties/C19.v C19_trace_exact. *)
Definition respects_ev (n m : nat) (fails : nat -> nat -> bool) (e : event) : Prop :=
  ev_item e < m /\
  (ev_ph e = EvBegin ->
     (2 <= ev_stage e -> fails (pred (ev_stage e)) (ev_item e) = false) /\
     (forall j, ev_stage e + j <= n -> S j <= ev_item e ->
        fails (ev_stage e + j) (ev_item e - S j) = false)).

Definition respects (n m : nat) (fails : nat -> nat -> bool) (tr : list event) : Prop :=
  Forall (respects_ev n m fails) tr.
