(* Model of `knut check --write`: lib/journal/check/check.go with Checker.Write = true (the
   DayEnd callback [dayEnd] collects one assertion per day) and cmd/commands/check.go
   ([execute], [writeFile]: the collected assertions are added to a fresh journal.Builder and
   printed with journal.Print).  Additive: the checker's other callbacks are the ones of
   Model/Check.v ([check_proc_fixed], what the code does now), lifted to the state extended by
   the list of collected assertions.  Checker.NoCheck (--no-check) is not modelled. *)
From Coq Require Import ZArith List Bool.
From Knut Require Import Model.Str Model.Dec Model.Date Model.Account Model.Ledger Model.Price
     Model.Journal Model.Check Model.Pipeline Model.JPrinter Model.Cli.
Import ListNotations.
Open Scope bool_scope.
Open Scope Z_scope.

(* model.Assertion as the checker creates it: a date and its balances *)
Definition wassertion := (Z * list balance)%type.

(* assertion.CompareBalance: account.Compare (type, then name), commodity.Compare (name),
   compare.Decimal; as a strict "less" *)
Definition bal_ltb (x y : balance) : bool :=
  if acc_ltb (bal_acc x) (bal_acc y) then true
  else if acc_ltb (bal_acc y) (bal_acc x) then false
  else if str_ltb (bal_com x) (bal_com y) then true
  else if str_ltb (bal_com y) (bal_com x) then false
  else cmp (bal_qty x) (bal_qty y) <? 0.

(* one model.Balance per entry of ch.quantities.  (Go ranges over the map in random order and
   sorts; the positions of the map are pairwise different in (account, commodity), so the
   sorted slice does not depend on the order of the range.) *)
Definition entry_balance (x : str * (account * commodity * dec)) : balance :=
  let '(_, (a, c, q)) := x in mkBalance a q c.

Definition day_end_balances (m : positions) : list balance :=
  sort_by bal_ltb (map entry_balance m).

(* Checker.dayEnd: nothing when no position exists; else one assertion with every position of
   the map, zero quantities included *)
Definition day_end_assertions (m : positions) (dt : Z) : list wassertion :=
  match m with
  | [] => []
  | _ => [(dt, day_end_balances m)]
  end.

Definition wstate := (check_state * list wassertion)%type.

(* the callbacks of the checker do not look at ch.assertions *)
Definition lift_cb {A} (f : check_state -> A -> presult check_state) (s : wstate) (x : A) : presult wstate :=
  rbind (f (fst s) x) (fun s' => ROk (s', snd s)).

Definition lift_posting (f : check_state -> txn -> posting -> presult (check_state * posting))
           (s : wstate) (t : txn) (p : posting) : presult (wstate * posting) :=
  rbind (f (fst s) t p) (fun sp => ROk ((fst sp, snd s), snd sp)).

Definition lift_balance (f : check_state -> list balance -> balance -> presult check_state)
           (s : wstate) (a : list balance) (b : balance) : presult wstate :=
  rbind (f (fst s) a b) (fun s' => ROk (s', snd s)).

Definition wr_day_end (s : wstate) (d : day) : presult (wstate * day) :=
  ROk ((fst s, snd s ++ day_end_assertions (ck_qty (fst s)) (d_date d)), d).

(* Checker{Write: true}.Check() *)
Definition check_write_proc : processor wstate :=
  mkProc None None (Some (lift_cb ck_open_cb)) None (Some (lift_posting ck_posting_cb))
         (Some (lift_balance ck_balance_fixed)) (Some (lift_cb ck_close_cb)) (Some wr_day_end).

Definition wstate_init : wstate := (check_init, []).

(* checker.Assertions() after j.Build().Process(checker.Check()) *)
Definition check_write_assertions (ds : list sdirective) : cresult (list wassertion) :=
  cbind (load ds) (fun b =>
  cbind (run_stage check_write_proc wstate_init (b_days b)) (fun r => COk (snd (fst r)))).

(* writeFile: journal.New(), Add each assertion, journal.Print(out, j.Build()) *)
Definition assertion_directive (a : wassertion) : directive := DAssert (fst a) (snd a).

Definition write_file (l : list wassertion) : str :=
  print_journal (b_days (builder_of (map assertion_directive l))).

(* knut check --write FILE: stdout, or the error (stdout stays empty: nothing is written
   before the checker has run over all days) *)
Definition check_write_cmd (ds : list sdirective) : cresult str :=
  cbind (check_write_assertions ds) (fun l => COk (write_file l)).

(* the collected assertions as syntax-level directives (what reading the printed text gives) *)
Definition assertion_sdirective (a : wassertion) : sdirective := SAssert (fst a) (snd a).

(* the command as a function of the loaded journal (the form of Model/Source.v [check_of],
   [print_of]: C06's arrival theorems apply to every function of the builder) *)
Definition check_write_of (b : builder) : cresult str :=
  cbind (run_stage check_write_proc wstate_init (b_days b)) (fun r => COk (write_file (snd (fst r)))).
