(* Model of lib/model: postings (posting.go), transactions incl. accrual expansion
   (transaction.go), the other directives, and ParseDirective (model.go).
   Input is the structured form of a parsed journal ("syntax-level directives"): the harness
   generates these, renders them as journal text for knut, and hands the same structure to
   the model.  Amount literals arrive as decimals already read by Dec.of_string. *)
From Coq Require Import ZArith List Bool.
From Knut Require Import Model.Str Model.Dec Model.Date Model.Account.
Import ListNotations.
Open Scope bool_scope.
Open Scope Z_scope.

Definition commodity := str.

Record posting := mkPosting {
  p_acc : account; p_other : account; p_com : commodity; p_qty : dec; p_val : dec }.

(* the zero value of decimal.Decimal (nil big.Int, exponent 0) behaves as 0 * 10^0 *)
Definition dec_nil : dec := mkDec 0 0.

(* posting.Builder.Build: two postings; credit/debit are swapped for a negative quantity
   (or a zero quantity and a negative value) *)
Definition pair_build (credit debit : account) (com : commodity) (qty val : dec) : list posting :=
  let swap := is_neg qty || (is_zero qty && is_neg val) in
  let '(cr, db, q, v) := if swap then (debit, credit, neg qty, neg val) else (credit, debit, qty, val) in
  [ mkPosting cr db com (neg q) (neg v); mkPosting db cr com q v ].

Record booking := mkBooking { b_credit : account; b_debit : account; b_qty : dec; b_com : commodity }.

Record accrual := mkAccrual { ac_interval : interval; ac_start : Z; ac_end : Z; ac_account : account }.

Record stxn := mkStxn {
  st_date : Z; st_desc : str; st_bookings : list booking;
  st_targets : option (list commodity); st_accrual : option accrual }.

Record txn := mkTxn {
  t_date : Z; t_desc : str; t_postings : list posting; t_targets : option (list commodity) }.

Record balance := mkBalance { bal_acc : account; bal_qty : dec; bal_com : commodity }.

Inductive sdirective :=
| SPrice (date : Z) (com : commodity) (price : dec) (target : commodity)
| SOpen (date : Z) (acc : account)
| SClose (date : Z) (acc : account)
| SAssert (date : Z) (bals : list balance)
| STxn (t : stxn)
| SInclude.

Inductive directive :=
| DPrice (date : Z) (com : commodity) (price : dec) (target : commodity)
| DOpen (date : Z) (acc : account)
| DClose (date : Z) (acc : account)
| DAssert (date : Z) (bals : list balance)
| DTxn (t : txn).

Inductive mresult (A : Type) := MOk (a : A) | MErr (msg : str) | MPanic (msg : str).
Arguments MOk {A} a.
Arguments MErr {A} msg.
Arguments MPanic {A} msg.

Definition mbind {A B} (x : mresult A) (f : A -> mresult B) : mresult B :=
  match x with MOk a => f a | MErr m => MErr m | MPanic m => MPanic m end.

Definition e_account : str := [97;99;99;111;117;110;116].             (* "account" *)
Definition e_divzero : str := [100;105;118;48].                          (* "div0" *)
Definition e_zerotime : str := [122;101;114;111;116;105;109;101].        (* "zerotime" *)

Definition check_account (a : account) : mresult unit :=
  if valid_account a then MOk tt else MErr e_account.

(* posting.Create *)
Fixpoint postings_create (bs : list booking) : mresult (list posting) :=
  match bs with
  | [] => MOk []
  | b :: rest =>
    mbind (check_account (b_credit b)) (fun _ =>
    mbind (check_account (b_debit b)) (fun _ =>
    mbind (postings_create rest) (fun ps =>
    MOk (pair_build (b_credit b) (b_debit b) (b_com b) (b_qty b) dec_nil ++ ps))))
  end.

(* " (accrual i/n)" *)
Definition accrual_suffix (i n : Z) : str :=
  [32;40;97;99;99;114;117;97;108;32] ++ digits i ++ [47] ++ digits n ++ [41].

Fixpoint accrual_parts (desc : str) (targets : option (list commodity)) (acc : account) (p : posting)
         (amount rem : dec) (n : Z) (i : Z) (ends : list Z) : list txn :=
  match ends with
  | [] => []
  | dt :: rest =>
    let a := if i =? 0 then add amount rem else amount in
    mkTxn dt (desc ++ accrual_suffix (i + 1) n) (pair_build acc (p_acc p) (p_com p) a dec_nil) targets
    :: accrual_parts desc targets acc p amount rem n (i + 1) rest
  end.

(* Which postings of the original transaction are re-booked against the accrual account on the
   original date.  The pinned transaction.go tests [p.Account.IsAL()], so postings on Equity
   accounts are neither re-booked nor split: they vanish (finding C10-equity-dropped, DESIGN F7).
   The repaired code tests [!p.Account.IsIE()].  Everything below is parameterised by this
   predicate; since the fix landed in /repo (969b5ee) the unsuffixed names (what Cli.v and the
   drivers run) and the [_fixed] names are the repaired behaviour; [rebook_pinned] is kept so
   that Properties/C10.v can state what the pinned code did (C10_equity_refuted). *)
Definition rebook_pinned (a : account) : bool := is_AL a.
Definition rebook_fixed (a : account) : bool := negb (is_IE a).

(* the body of the loop in transaction.expand for one posting *)
Definition expand_posting_gen (rebook : account -> bool) (t : txn) (ac : accrual) (p : posting) : mresult (list txn) :=
  let r1 :=
    if rebook (p_acc p)
    then [mkTxn (t_date t) (t_desc t) (pair_build (ac_account ac) (p_acc p) (p_com p) (p_qty p) dec_nil) (t_targets t)]
    else [] in
  if is_IE (p_acc p) then
    match new_partition (mkPeriod (ac_start ac) (ac_end ac)) (ac_interval ac) 0 with
    | PPanic => MPanic e_zerotime
    | POutOfFuel => MPanic e_zerotime
    | POk part =>
      let n := Z.of_nat (length (periods part)) in
      match quo_rem (p_qty p) (of_int n) 1 with
      | DPanic => MPanic e_divzero
      | DOk (amount, rem) =>
        MOk (r1 ++ accrual_parts (t_desc t) (t_targets t) (ac_account ac) p amount rem n 0 (end_dates part))
      end
    end
  else MOk r1.

Fixpoint expand_postings_gen (rebook : account -> bool) (t : txn) (ac : accrual) (ps : list posting) : mresult (list txn) :=
  match ps with
  | [] => MOk []
  | p :: rest =>
    mbind (expand_posting_gen rebook t ac p) (fun l1 =>
    mbind (expand_postings_gen rebook t ac rest) (fun l2 => MOk (l1 ++ l2)))
  end.

(* transaction.expand *)
Definition expand_gen (rebook : account -> bool) (t : txn) (ac : accrual) : mresult (list txn) :=
  mbind (check_account (ac_account ac)) (fun _ => expand_postings_gen rebook t ac (t_postings t)).

(* transaction.Create *)
Definition txn_create_gen (rebook : account -> bool) (s : stxn) : mresult (list txn) :=
  mbind (postings_create (st_bookings s)) (fun ps =>
  let t := mkTxn (st_date s) (st_desc s) ps (st_targets s) in
  match st_accrual s with
  | Some ac => expand_gen rebook t ac
  | None => MOk [t]
  end).

(* the code as it is now (repaired) *)
Definition expand_posting := expand_posting_gen rebook_fixed.
Definition expand_postings := expand_postings_gen rebook_fixed.
Definition expand := expand_gen rebook_fixed.
Definition txn_create := txn_create_gen rebook_fixed.

(* same, under the names Properties/C10.v uses *)
Definition expand_posting_fixed := expand_posting_gen rebook_fixed.
Definition expand_postings_fixed := expand_postings_gen rebook_fixed.
Definition expand_fixed := expand_gen rebook_fixed.
Definition txn_create_fixed := txn_create_gen rebook_fixed.

Fixpoint check_balances (bs : list balance) : mresult unit :=
  match bs with
  | [] => MOk tt
  | b :: rest => mbind (check_account (bal_acc b)) (fun _ => check_balances rest)
  end.

(* model.ParseDirective *)
Definition parse_directive (s : sdirective) : mresult (list directive) :=
  match s with
  | SPrice d c p t => MOk [DPrice d c p t]
  | SOpen d a => mbind (check_account a) (fun _ => MOk [DOpen d a])
  | SClose d a => mbind (check_account a) (fun _ => MOk [DClose d a])
  | SAssert d bs => mbind (check_balances bs) (fun _ => MOk [DAssert d bs])
  | STxn t => mbind (txn_create t) (fun ts => MOk (map DTxn ts))
  | SInclude => MOk []
  end.

Fixpoint parse_directives (l : list sdirective) : mresult (list directive) :=
  match l with
  | [] => MOk []
  | s :: rest =>
    mbind (parse_directive s) (fun ds =>
    mbind (parse_directives rest) (fun ds' => MOk (ds ++ ds')))
  end.
