(* Character classes of Go's regexp/syntax (go1.23.5 parse.go, perl_groups.go), as far as the parser needs
   them: a class is the slice re.Rune read as pairs (lo, hi).  The functions that append to a class look at
   its LAST two ranges, so a class under construction is kept newest-range-first ([cbuild]); [cb_done]
   gives the slice in Go's order.

     appendRange appendFoldedRange appendClass appendFoldedClass appendNegatedClass appendTable
     appendNegatedTable negateClass cleanClass appendLiteral minFoldRune unicodeTable perlGroup posixGroup
     unicode.SimpleFold (table generated from the toolchain: Model/RxTables.v)

   Executable definitions only. *)
From Coq Require Import ZArith List Bool.
From Knut Require Import Model.Str Model.RxTables.
Import ListNotations.
Open Scope bool_scope.
Open Scope Z_scope.

Module RxClassM.

(* ---------------------------------------------------------------- a map from positive numbers *)

Inductive ptree (A : Type) := PLeaf | PNode (l : ptree A) (v : option A) (r : ptree A).
Arguments PLeaf {A}.
Arguments PNode {A} l v r.

Fixpoint pget {A} (k : positive) (t : ptree A) : option A :=
  match t with
  | PLeaf => None
  | PNode l v r => match k with xH => v | xO k' => pget k' l | xI k' => pget k' r end
  end.

Fixpoint pset {A} (k : positive) (x : option A) (t : ptree A) : ptree A :=
  match k with
  | xH => match t with PLeaf => PNode PLeaf x PLeaf | PNode l _ r => PNode l x r end
  | xO k' => match t with PLeaf => PNode (pset k' x PLeaf) None PLeaf | PNode l v r => PNode (pset k' x l) v r end
  | xI k' => match t with PLeaf => PNode PLeaf None (pset k' x PLeaf) | PNode l v r => PNode l v (pset k' x r) end
  end.

(* ---------------------------------------------------------------- unicode.SimpleFold *)

Definition max_rune : Z := 1114111.

Definition fold_map : ptree Z :=
  fold_left (fun t rf => match fst rf with Zpos p => pset p (Some (snd rf)) t | _ => t end) simple_fold_pairs PLeaf.

Definition simple_fold (r : Z) : Z :=
  match r with
  | Zpos p => match pget p fold_map with Some f => f | None => r end
  | _ => r
  end.

(* the runes SimpleFold reaches from c before it comes back to c: "for f := SimpleFold(c); f != c; f = SimpleFold(f)".
   The orbits of Unicode 15 have at most four members (lemma fold_orbit_closes: the walk is back at c when
   the three steps are used up, for every rune of the table). *)
Fixpoint orbit_from (n : nat) (c f : Z) : list Z :=
  match n with
  | O => []
  | S n' => if f =? c then [] else f :: orbit_from n' c (simple_fold f)
  end.
Definition fold_orbit (c : Z) : list Z := orbit_from 4 c (simple_fold c).

(* minFoldRune *)
Definition min_fold_rune (r : Z) : Z :=
  if (r <? fold_lo) || (fold_hi <? r) then r
  else fold_left Z.min (fold_orbit r) r.

(* ---------------------------------------------------------------- classes *)

Definition cls := list (Z * Z).       (* Go's order *)
Definition cbuild := list (Z * Z).    (* newest range first *)

Definition cb_of (c : cls) : cbuild := rev c.
Definition cb_done (b : cbuild) : cls := rev b.

Definition touches (lo hi rlo rhi : Z) : bool := (lo <=? rhi + 1) && (rlo <=? hi + 1).

(* appendRange: widen the last or the next-to-last range if [lo, hi] overlaps or abuts it *)
Definition append_range (r : cbuild) (lo hi : Z) : cbuild :=
  match r with
  | (rlo, rhi) :: t =>
    if touches lo hi rlo rhi then (Z.min lo rlo, Z.max hi rhi) :: t
    else match t with
         | (rlo2, rhi2) :: t2 =>
           if touches lo hi rlo2 rhi2 then (rlo, rhi) :: (Z.min lo rlo2, Z.max hi rhi2) :: t2
           else (lo, hi) :: r
         | [] => (lo, hi) :: r
         end
  | [] => [(lo, hi)]
  end.

(* "for c := lo; c <= hi; c += stride { r = f r c }" *)
Fixpoint loop_from (n : nat) (c stride : Z) (f : cbuild -> Z -> cbuild) (r : cbuild) : cbuild :=
  match n with
  | O => r
  | S n' => loop_from n' (c + stride) stride f (f r c)
  end.
Definition count_steps (lo hi stride : Z) : nat :=
  if hi <? lo then O else Z.to_nat ((hi - lo) / stride + 1).

Definition fold_one (r : cbuild) (c : Z) : cbuild :=
  fold_left (fun r f => append_range r f f) (fold_orbit c) (append_range r c c).

(* appendFoldedRange *)
Definition append_folded_range (r : cbuild) (lo hi : Z) : cbuild :=
  if (lo <=? fold_lo) && (fold_hi <=? hi) then append_range r lo hi
  else if (hi <? fold_lo) || (fold_hi <? lo) then append_range r lo hi
  else
    let '(r, lo) := if lo <? fold_lo then (append_range r lo (fold_lo - 1), fold_lo) else (r, lo) in
    let '(r, hi) := if fold_hi <? hi then (append_range r (fold_hi + 1) hi, fold_hi) else (r, hi) in
    loop_from (count_steps lo hi 1) lo 1 fold_one r.

Definition append_literal (r : cbuild) (x : Z) (fold : bool) : cbuild :=
  if fold then append_folded_range r x x else append_range r x x.

(* appendClass, appendFoldedClass: x in Go's order *)
Definition append_class (r : cbuild) (x : cls) : cbuild :=
  fold_left (fun r p => append_range r (fst p) (snd p)) x r.
Definition append_folded_class (r : cbuild) (x : cls) : cbuild :=
  fold_left (fun r p => append_folded_range r (fst p) (snd p)) x r.

(* appendNegatedClass: x clean *)
Fixpoint neg_loop (r : cbuild) (x : cls) (next_lo : Z) : cbuild :=
  match x with
  | [] => if next_lo <=? max_rune then append_range r next_lo max_rune else r
  | (lo, hi) :: t =>
    neg_loop (if next_lo <=? lo - 1 then append_range r next_lo (lo - 1) else r) t (hi + 1)
  end.
Definition append_negated_class (r : cbuild) (x : cls) : cbuild := neg_loop r x 0.

(* negateClass: the class is clean, the result is built from nothing (Go overwrites in place) *)
Definition negate_class (x : cls) : cls :=
  (fix go (x : cls) (next_lo : Z) : cls :=
     match x with
     | [] => if next_lo <=? max_rune then [(next_lo, max_rune)] else []
     | (lo, hi) :: t => if next_lo <=? lo - 1 then (next_lo, lo - 1) :: go t (hi + 1) else go t (hi + 1)
     end) x 0.

(* a unicode.RangeTable: the R16 ranges followed by the R32 ranges, (lo, hi, stride) *)
Definition rtable := list (Z * Z * Z).

(* appendTable *)
Definition append_table (r : cbuild) (x : rtable) : cbuild :=
  fold_left (fun r e =>
    let '(lo, hi, stride) := e in
    if stride =? 1 then append_range r lo hi
    else loop_from (count_steps lo hi stride) lo stride (fun r c => append_range r c c) r) x r.

(* appendNegatedTable: the state is the class and nextLo *)
Definition append_negated_table (r : cbuild) (x : rtable) : cbuild :=
  let step (st : cbuild * Z) (lo hi : Z) : cbuild * Z :=
    ((if snd st <=? lo - 1 then append_range (fst st) (snd st) (lo - 1) else fst st), hi + 1) in
  let '(r, next_lo) :=
    fold_left (fun st e =>
      let '(lo, hi, stride) := e in
      if stride =? 1 then step st lo hi
      else
        (fix go (n : nat) (c : Z) (st : cbuild * Z) : cbuild * Z :=
           match n with O => st | S n' => go n' (c + stride) (step st c c) end) (count_steps lo hi stride) lo st)
      x (r, 0) in
  if next_lo <=? max_rune then append_range r next_lo max_rune else r.

(* cleanClass: sort by lo increasing, hi decreasing; merge abutting and overlapping ranges *)
Definition range_le (a b : Z * Z) : bool :=
  (fst a <? fst b) || ((fst a =? fst b) && (snd b <=? snd a)).
Fixpoint insert_range (a : Z * Z) (l : cls) : cls :=
  match l with
  | [] => [a]
  | b :: t => if range_le a b then a :: l else b :: insert_range a t
  end.
Definition sort_ranges (l : cls) : cls := fold_right insert_range [] l.

Fixpoint merge_ranges (cur : Z * Z) (l : cls) : cls :=
  match l with
  | [] => [cur]
  | (lo, hi) :: t =>
    if lo <=? snd cur + 1 then merge_ranges (fst cur, Z.max (snd cur) hi) t
    else cur :: merge_ranges (lo, hi) t
  end.
Definition clean_class (c : cls) : cls :=
  match sort_ranges c with
  | [] => []
  | a :: t => merge_ranges a t
  end.

(* ---------------------------------------------------------------- named groups *)

Definition code_d : cls := [(48, 57)].
Definition code_s : cls := [(9, 10); (12, 13); (32, 32)].
Definition code_w : cls := [(48, 57); (65, 90); (95, 95); (97, 122)].

(* perlGroup[`\c`]: (negated, class) *)
Definition perl_group (c : Z) : option (bool * cls) :=
  if c =? 100 then Some (false, code_d) else if c =? 68 then Some (true, code_d)
  else if c =? 115 then Some (false, code_s) else if c =? 83 then Some (true, code_s)
  else if c =? 119 then Some (false, code_w) else if c =? 87 then Some (true, code_w)
  else None.

(* posixGroup: the name between "[:" and ":]", without a leading ^ *)
Definition posix_names : list (str * cls) :=
  [ ([97;108;110;117;109], [(48, 57); (65, 90); (97, 122)]);            (* alnum *)
    ([97;108;112;104;97], [(65, 90); (97, 122)]);                       (* alpha *)
    ([97;115;99;105;105], [(0, 127)]);                                  (* ascii *)
    ([98;108;97;110;107], [(9, 9); (32, 32)]);                          (* blank *)
    ([99;110;116;114;108], [(0, 31); (127, 127)]);                      (* cntrl *)
    ([100;105;103;105;116], [(48, 57)]);                                (* digit *)
    ([103;114;97;112;104], [(33, 126)]);                                (* graph *)
    ([108;111;119;101;114], [(97, 122)]);                               (* lower *)
    ([112;114;105;110;116], [(32, 126)]);                               (* print *)
    ([112;117;110;99;116], [(33, 47); (58, 64); (91, 96); (123, 126)]); (* punct *)
    ([115;112;97;99;101], [(9, 13); (32, 32)]);                         (* space *)
    ([117;112;112;101;114], [(65, 90)]);                                (* upper *)
    ([119;111;114;100], [(48, 57); (65, 90); (95, 95); (97, 122)]);     (* word *)
    ([120;100;105;103;105;116], [(48, 57); (65, 70); (97, 102)]) ].     (* xdigit *)

Fixpoint assoc_str {A} (l : list (str * A)) (k : str) : option A :=
  match l with
  | [] => None
  | (n, v) :: t => if str_eqb n k then Some v else assoc_str t k
  end.

Definition posix_group (inner : str) : option (bool * cls) :=
  match inner with
  | 94 :: n => match assoc_str posix_names n with Some c => Some (true, c) | None => None end
  | n => match assoc_str posix_names n with Some c => Some (false, c) | None => None end
  end.

(* appendGroup *)
Definition append_group (fold : bool) (r : cbuild) (g : bool * cls) : cbuild :=
  let '(negated, class) := g in
  let class := if fold then clean_class (cb_done (append_folded_class [] class)) else class in
  if negated then append_negated_class r class else append_class r class.

(* unicodeTable: the table and the table of additional fold-equivalent code points *)
Definition any_table : rtable := [(0, 65535, 1); (65536, max_rune, 1)].
Definition name_any : str := [65;110;121].

Definition unicode_table (name : str) : option (rtable * option rtable) :=
  if str_eqb name name_any then Some (any_table, Some any_table)
  else match assoc_str unicode_categories name with
       | Some t => Some (t, assoc_str unicode_fold_category name)
       | None =>
         match assoc_str unicode_scripts name with
         | Some t => Some (t, assoc_str unicode_fold_script name)
         | None => None
         end
       end.

(* the class part of parseUnicodeClass: name already stripped of a leading ^ *)
Definition append_unicode (fold : bool) (r : cbuild) (negated : bool) (tab : rtable) (ftab : option rtable) : cbuild :=
  match fold, ftab with
  | true, Some ft =>
    let tmp := clean_class (cb_done (append_table (append_table [] tab) ft)) in
    if negated then append_negated_class r tmp else append_class r tmp
  | _, _ => if negated then append_negated_table r tab else append_table r tab
  end.

End RxClassM.
Export RxClassM.
