(* Representation of strings across the whole model: a byte is a Z in 0..255, a string is a
   list of bytes, a rune is a Z code point.  (Shared with Model/Dec.v.)                      *)
From Coq Require Import ZArith List Bool.
Import ListNotations.
Open Scope bool_scope.
Open Scope Z_scope.

Module BytesM.

Definition byte := Z.
Definition str := list Z.
Definition rune := Z.

(* s[a:b] for 0 <= a <= b <= |s| (truncates silently outside; callers prove the bounds) *)
Definition slice (s : str) (a b : Z) : str :=
  firstn (Z.to_nat (b - a)) (skipn (Z.to_nat a) s).

Definition zlen (s : str) : Z := Z.of_nat (length s).

Fixpoint str_eqb (a b : str) : bool :=
  match a, b with
  | [], [] => true
  | x :: a', y :: b' => (x =? y) && str_eqb a' b'
  | _, _ => false
  end.

End BytesM.
Export BytesM.
