(* Model of the concurrency protocol of lib/common/cpr/cpr.go (Seq, Produce, ForEach, Push, Pop,
   FanIn) as it is run by sourcegraph/conc v0.3.0 pool.New().WithContext(ctx).WithCancelOnError()
   .WithFirstError(), and of the loader (syntax.ParseFileRecursively -> model.FromStream ->
   journal.FromModelStream).  Labelled transition systems; executable definitions only.
   Proofs: Proofs/PipeProofs.v, Proofs/LoaderProofs.v.  Statements: Properties/C19.v.

   ------------------------------------------------------------------------------------------
   cpr.Seq(ctx, ts, f_1 .. f_n) starts n+2 goroutines ("nodes"):
     node 0      the source:   for _, t := range ts { Push(ctx, ch_0, t) }; return nil
     node i      stage i:      ForEach(ctx, ch_{i-1}, func(t) { if err := f_i(t) ...; Push(ctx, ch_i, t) })
     node n+1    the sink:     ForEach(ctx, ch_n, func(t) { res = append(res, t) }); Push(ctx, out, res)
   ch_0..ch_n are unbuffered; every goroutine closes its output channel when it returns
   (`defer close(ch)` in Produce/FanIn).  Items are identified with their index 0..m-1 in ts.

   A node is (phase, counter, status).  The phase/counter pair is
     PIdle c      c items completely handled; blocked in Pop (the source: about to take item c)
     PHolding k   item k received, f not yet called
     PWorking k   inside f(t_k)          (between the hook events begin and end)
     PReady k     f(t_k) returned nil; blocked in Push (the source: blocked pushing item k)
     PFailed k    f(t_k) returned an error: the goroutine has returned from its worker (its channel
                  is closed) but conc's wrapper has not yet run addErr/cancel
   status is Running | Done (returned nil) | Stopped (returned an error; recorded).  Phase and
   counter are frozen when a node stops, so the item a stopped node was holding stays visible.

   Labels (DESIGN.md Appendix C.1; Work is split into Begin/End because the hook events are, and
   a failure into End (f returns) and Report (conc: addErr, then cancel), because the goroutine's
   channel is closed in between):
     Fetch             source: PIdle c, c < m  ->  PReady c
     Hand i            rendezvous on ch_i: node i PReady k, node i+1 PIdle -> node i PIdle (k+1);
                       node i+1 PHolding k — or, when the context is already cancelled, node i+1
                       Stopped (Pop returns the item together with ctx.Err(); ForEach returns it)
     Begin i / End i   PHolding k -> PWorking k -> PReady k | PFailed k (fails i k) ; the sink appends
     Report i          PFailed k -> Stopped; errs += EFail i k; cancelled := true   (addErr before cancel)
     CloseCh i         PIdle and input channel closed -> Done (or Stopped if cancelled: Pop returns
                       ok=false together with ctx.Err()); the source: c = m -> Done
     ObserveCancel i   cancelled and blocked in Push (PReady) or Pop (PIdle, i >= 1) -> Stopped,
                       errs += ECanceled i (conc adds the bystander's error too; WithFirstError
                       keeps the head of errs)
   [step] returns None for a disabled label; [run] skips disabled labels, so every list of labels
   is a schedule.                                                                              *)
From Coq Require Import List Bool Arith PeanoNat.
Import ListNotations.
Open Scope bool_scope.

Inductive phase := PIdle | PHolding | PWorking | PReady | PFailed.
Inductive status := Running | Done | Stopped.
Record node := mkNode { ph : phase; cnt : nat; stat : status }.

Inductive err := EFail (stage item : nat) | ECanceled (who : nat).
Inductive evphase := EvBegin | EvEnd.
Record event := mkEv { ev_stage : nat; ev_ph : evphase; ev_item : nat }.

Record state := mkState {
  nodes : nat -> node;
  cancelled : bool;
  errs : list err;             (* in the order of conc's addErr calls; WithFirstError returns the head *)
  sinkacc : list nat;          (* `res` of the sink goroutine *)
  result : option (list nat);  (* what the sink pushed into FanIn's buffered channel *)
  trace_rev : list event       (* hook events so far, newest first (history variable) *)
}.

Inductive label :=
  | Fetch | Hand (i : nat) | Begin (i : nat) | End (i : nat) | Report (i : nat)
  | CloseCh (i : nat) | ObserveCancel (i : nat).

Definition phase_eqb (a b : phase) : bool :=
  match a, b with
  | PIdle, PIdle | PHolding, PHolding | PWorking, PWorking | PReady, PReady | PFailed, PFailed => true
  | _, _ => false
  end.

Definition evphase_eqb (a b : evphase) : bool :=
  match a, b with EvBegin, EvBegin | EvEnd, EvEnd => true | _, _ => false end.

Definition is_running (nd : node) : bool := match stat nd with Running => true | _ => false end.

(* running and in phase p *)
Definition live (nd : node) (p : phase) : bool := is_running nd && phase_eqb (ph nd) p.

(* the node's output channel is closed: its goroutine has returned *)
Definition closed (nd : node) : bool := negb (is_running nd) || phase_eqb (ph nd) PFailed.

Definition upd (f : nat -> node) (i : nat) (v : node) : nat -> node :=
  fun j => if j =? i then v else f j.

Definition set_node (st : state) (i : nat) (v : node) : state :=
  mkState (upd (nodes st) i v) (cancelled st) (errs st) (sinkacc st) (result st) (trace_rev st).

Definition add_err (e : err) (st : state) : state :=
  mkState (nodes st) (cancelled st) (errs st ++ [e]) (sinkacc st) (result st) (trace_rev st).

Definition emit (e : event) (st : state) : state :=
  mkState (nodes st) (cancelled st) (errs st) (sinkacc st) (result st) (e :: trace_rev st).

Definition stop_node (nd : node) : node := mkNode (ph nd) (cnt nd) Stopped.

Definition init : state :=
  mkState (fun _ => mkNode PIdle 0 Running) false [] [] None [].

Section Seq.
  Variable n : nat.                    (* number of stages f_1 .. f_n *)
  Variable m : nat.                    (* number of items *)
  Variable fails : nat -> nat -> bool. (* fails i k: f_i(t_k) returns an error *)

  Definition step (l : label) (st : state) : option state :=
    match l with
    | Fetch =>
        let a := nodes st 0 in
        if live a PIdle && (cnt a <? m)
        then Some (set_node st 0 (mkNode PReady (cnt a) Running))
        else None
    | Hand i =>
        let a := nodes st i in
        let b := nodes st (S i) in
        if (i <=? n) && live a PReady && live b PIdle
        then
          let st1 := set_node st i (mkNode PIdle (S (cnt a)) Running) in
          if cancelled st
          then Some (add_err (ECanceled (S i)) (set_node st1 (S i) (mkNode PHolding (cnt a) Stopped)))
          else Some (set_node st1 (S i) (mkNode PHolding (cnt a) Running))
        else None
    | Begin i =>
        let a := nodes st i in
        if (1 <=? i) && (i <=? S n) && live a PHolding
        then
          let st1 := set_node st i (mkNode PWorking (cnt a) Running) in
          Some (if i <=? n then emit (mkEv i EvBegin (cnt a)) st1 else st1)
        else None
    | End i =>
        let a := nodes st i in
        if (1 <=? i) && (i <=? S n) && live a PWorking
        then
          if i <=? n
          then
            let a' := mkNode (if fails i (cnt a) then PFailed else PReady) (cnt a) Running in
            Some (emit (mkEv i EvEnd (cnt a)) (set_node st i a'))
          else
            let st1 := set_node st i (mkNode PIdle (S (cnt a)) Running) in
            Some (mkState (nodes st1) (cancelled st1) (errs st1) (sinkacc st1 ++ [cnt a]) (result st1)
                          (trace_rev st1))
        else None
    | Report i =>
        let a := nodes st i in
        if (1 <=? i) && (i <=? n) && live a PFailed
        then
          let st1 := add_err (EFail i (cnt a)) (set_node st i (stop_node a)) in
          Some (mkState (nodes st1) true (errs st1) (sinkacc st1) (result st1) (trace_rev st1))
        else None
    | CloseCh i =>
        let a := nodes st i in
        if (i <=? S n) && live a PIdle &&
           (if i =? 0 then cnt a =? m else closed (nodes st (pred i)))
        then
          if (i =? 0) || negb (cancelled st)
          then
            let st1 := set_node st i (mkNode PIdle (cnt a) Done) in
            Some (if i =? S n
                  then mkState (nodes st1) (cancelled st1) (errs st1) (sinkacc st1) (Some (sinkacc st1))
                               (trace_rev st1)
                  else st1)
          else Some (add_err (ECanceled i) (set_node st i (stop_node a)))
        else None
    | ObserveCancel i =>
        let a := nodes st i in
        if (i <=? S n) && cancelled st && (live a PReady || ((1 <=? i) && live a PIdle))
        then Some (add_err (ECanceled i) (set_node st i (stop_node a)))
        else None
    end.

  Definition step_or_stay (st : state) (l : label) : state :=
    match step l st with Some st' => st' | None => st end.

  (* every list of labels is a schedule: disabled labels are skipped *)
  Definition run (sched : list label) (st : state) : state := fold_left step_or_stay sched st.

  (* number of labels of the schedule that were enabled when their turn came *)
  Fixpoint effective (sched : list label) (st : state) : nat :=
    match sched with
    | [] => 0
    | l :: rest =>
        match step l st with
        | Some st' => S (effective rest st')
        | None => effective rest st
        end
    end.

  Definition terminal (st : state) : bool :=
    forallb (fun i => negb (is_running (nodes st i))) (seq 0 (n + 2)).

  Definition labels_of (i : nat) : list label :=
    [Hand i; Begin i; End i; Report i; CloseCh i; ObserveCancel i].

  Definition all_labels : list label := Fetch :: flat_map labels_of (seq 0 (n + 2)).

  Definition enabled (st : state) (l : label) : bool :=
    match step l st with Some _ => true | None => false end.

  (* a canonical scheduler: the first enabled label in a fixed enumeration *)
  Definition pick (st : state) : option label := find (enabled st) all_labels.

  Fixpoint drain (fuel : nat) (st : state) : state :=
    match fuel with
    | 0 => st
    | S f => match pick st with
             | Some l => drain f (step_or_stay st l)
             | None => st
             end
    end.

  (* an upper bound on the number of effective steps of any schedule *)
  Definition bound : nat := (n + 2) * (4 * m + 5).

  (* what Seq returns: p.Wait()'s error if any (WithFirstError: the first one added), else <-ch *)
  Inductive outcome := Success (res : list nat) | Failure (e : err) | NoResult.

  Definition outcome_of (st : state) : outcome :=
    match errs st with
    | e :: _ => Failure e
    | [] => match result st with Some r => Success r | None => NoResult end
    end.

  Definition trace (st : state) : list event := rev (trace_rev st).
End Seq.

(* ------------------------------------------------------------------------------------------
   counters of a node; the channel invariant is  sent (node i) = recv (node (i+1))            *)
Definition recv (nd : node) : nat := match ph nd with PIdle => cnt nd | _ => S (cnt nd) end.
Definition sent (nd : node) : nat := cnt nd.
Definition begun (nd : node) : nat :=
  match ph nd with PIdle | PHolding => cnt nd | _ => S (cnt nd) end.
Definition ended (nd : node) : nat :=
  match ph nd with PIdle | PHolding | PWorking => cnt nd | _ => S (cnt nd) end.
(* the item a node holds (received and not yet passed on) *)
Definition held (nd : node) : list nat := match ph nd with PIdle => [] | _ => [cnt nd] end.

(* items held by nodes j+len-1, ..., j  (downstream first) *)
Fixpoint inflight_from (f : nat -> node) (j len : nat) : list nat :=
  match len with
  | 0 => []
  | S l => inflight_from f (S j) l ++ held (f j)
  end.

(* items in the stages and the sink, downstream first *)
Definition inflight (n : nat) (st : state) : list nat := inflight_from (nodes st) 1 (S n).
(* items the source has not handed over yet *)
Definition unsent (m : nat) (st : state) : list nat :=
  seq (sent (nodes st 0)) (m - sent (nodes st 0)).

(* ------------------------------------------------------------------------------------------
   The trace checker used on the hook events of real runs (KNUT_VERIF_TRACE).
   An event (i, begin|end, k): stage i in 1..n, item index k in the order of the source list.  *)
Definition count_ev (i : nat) (p : evphase) (tr : list event) : nat :=
  length (filter (fun e => (ev_stage e =? i) && evphase_eqb (ev_ph e) p) tr).

(* is event e acceptable after the events pre (in any order: only counts are used)?
   The last clause of a begin is the back-pressure of the unbuffered channels: stage i receives
   item k only after it has handed k-1 to stage i+1, which receives it only after having handed
   k-2 to stage i+2, ... : stage i+j has ended at least k-j items (j = 1 .. n-i; the sink emits
   no events).  Without that clause the checker accepts traces that no run produces
   (Properties/C19.v, trace_ok_loose_exact_refuted; the earlier checker is Spec/PipeSpec.v
   trace_ok_loose). *)
Definition ev_ok_b (n : nat) (pre : list event) (e : event) : bool :=
  let i := ev_stage e in
  let k := ev_item e in
  (1 <=? i) && (i <=? n) &&
  match ev_ph e with
  | EvBegin =>
      (k =? count_ev i EvBegin pre) &&
      (count_ev i EvBegin pre =? count_ev i EvEnd pre) &&
      ((i =? 1) || (k <? count_ev (pred i) EvEnd pre)) &&
      forallb (fun j => k <=? count_ev (i + j) EvEnd pre + j) (seq 1 (n - i))
  | EvEnd =>
      (count_ev i EvBegin pre =? S (count_ev i EvEnd pre)) &&
      (k =? count_ev i EvEnd pre)
  end.

Fixpoint trace_ok_aux (n : nat) (pre_rev tr : list event) : bool :=
  match tr with
  | [] => true
  | e :: rest => ev_ok_b n pre_rev e && trace_ok_aux n (e :: pre_rev) rest
  end.

Definition trace_ok (n : nat) (tr : list event) : bool := trace_ok_aux n [] tr.

(* a successful run: every stage began and ended each of the m items *)
Definition trace_complete (n m : nat) (tr : list event) : bool :=
  forallb (fun i => (count_ev i EvBegin tr =? m) && (count_ev i EvEnd tr =? m)) (seq 1 n).

(* the trace of the sequential program  for k in items { for i in stages { f_i(t_k) } } *)
Definition item_events (n k : nat) : list event :=
  flat_map (fun i => [mkEv i EvBegin k; mkEv i EvEnd k]) (seq 1 n).
Definition stage_events (i m : nat) : list event :=
  flat_map (fun k => [mkEv i EvBegin k; mkEv i EvEnd k]) (seq 0 m).
Definition seq_trace (n m : nat) : list event := flat_map (item_events n) (seq 0 m).
Definition proj_stage (i : nat) (tr : list event) : list event :=
  filter (fun e => ev_stage e =? i) tr.
Definition proj_item (k : nat) (tr : list event) : list event :=
  filter (fun e => ev_item e =? k) tr.
