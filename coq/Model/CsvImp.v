(* The reader configurations of the importers (cmd/importer/<name>) and the step from the statement's BYTES to the
   reader items the importer models Model/Imp/*.v start from: csv.NewReader(f) with the importer's settings, Read
   until io.EOF or the first error.
     swisscard2          swisscard2.go:98-99     TrimLeadingSpace, FieldsPerRecord = 12 (Comma ',' from NewReader)
     swisscard           swisscard.go:101        TrimLeadingSpace (FieldsPerRecord 0: set by the first record)
     cumulus             cumulus.go:108-110      FieldsPerRecord = -1, LazyQuotes
     revolut2            revolut2.go:107-109     TrimLeadingSpace, Comma ',', FieldsPerRecord = 10
     revolut             revolut.go:102-104      TrimLeadingSpace, Comma ';', FieldsPerRecord = 0
     wise                wise.go:119-121         TrimLeadingSpace, Comma ',', FieldsPerRecord = 18
     swissquote          swissquote.go:126-128   LazyQuotes, Comma ';', FieldsPerRecord = 13
     interactivebrokers  interactivebrokers.go:129-131   FieldsPerRecord = -1, LazyQuotes
     postfinance         postfinance.go:83 csv.NewReader(utfbom.SkipOnly(reader)); :112-115 LazyQuotes, TrimLeadingSpace,
                         Comma ';', FieldsPerRecord = -1   (skip_bom: utfbom.go detectUtf - a UTF-32, UTF-8 or UTF-16 byte
                         order mark, tested in that order, is dropped; nothing is decoded)
   Not here: supercard (charmap.ISO8859_1 decoder in front, FieldsPerRecord changed between calls of Read): its reader
   stays observed.  No importer sets Comment.
   Executable definitions only. *)
From Coq Require Import ZArith List Bool.
From Knut Require Import Model.Bytes Model.Csv Model.ImpCommonA.
Import ListNotations.
Open Scope Z_scope.

Definition mk_cfg (comma fpr : Z) (lazy trim : bool) : csv_cfg :=
  {| cc_comma := comma; cc_comment := 0; cc_fpr := fpr; cc_lazy := lazy; cc_trim := trim |}.

Definition cfg_swisscard2 : csv_cfg := mk_cfg 44 12 false true.
Definition cfg_swisscard : csv_cfg := mk_cfg 44 0 false true.
Definition cfg_cumulus : csv_cfg := mk_cfg 44 (-1) true false.
Definition cfg_revolut2 : csv_cfg := mk_cfg 44 10 false true.
Definition cfg_revolut : csv_cfg := mk_cfg 59 0 false true.
Definition cfg_wise : csv_cfg := mk_cfg 44 18 false true.
Definition cfg_swissquote : csv_cfg := mk_cfg 59 13 true false.
Definition cfg_interactivebrokers : csv_cfg := mk_cfg 44 (-1) true false.
Definition cfg_postfinance : csv_cfg := mk_cfg 59 (-1) true true.

(* utfbom.SkipOnly *)
Definition starts_with (p s : str) : bool := str_eqb p (firstn (length p) s).
Definition skip_bom (s : str) : str :=
  if starts_with [0;0;254;255] s then skipn 4 s
  else if starts_with [255;254;0;0] s then skipn 4 s
  else if starts_with [239;187;191] s then skipn 3 s
  else if starts_with [254;255] s then skipn 2 s
  else if starts_with [255;254] s then skipn 2 s
  else s.

(* the results of the successive calls of Read: the records, then CBad if the reader stopped with an error *)
Definition items_of_result (r : csv_result) : list citem :=
  match r with
  | CsvRecords rs => map CRec rs
  | CsvError before _ => map CRec before ++ [CBad]
  | CsvOutOfFuel => [CBad]        (* unreachable: C13_csv_total *)
  end.

Definition csv_items (cfg : csv_cfg) (file : str) : list citem := items_of_result (csv_read_all cfg file).
Definition csv_items_bom (cfg : csv_cfg) (file : str) : list citem := csv_items cfg (skip_bom file).
