(* Shared helpers of the importer models swisscard2, viac, cumulus, postfinance, swisscard,
   supercard (cmd/importer/<name>): the parts of Go's time, strings, fmt, regexp and
   shopspring/decimal those importers call, and the shape of an importer run.

   The input of an importer model is the statement AS Go's reader delivers it: the sequence of
   results of csv.Reader.Read with that importer's reader configuration (a record or an
   error; after the last item Read returns io.EOF).  encoding/csv, encoding/json, BOM skipping
   and charmap decoding are therefore not modelled (the harness runs them).  Strings are byte
   lists holding valid UTF-8.  Executable definitions only. *)
From Coq Require Import ZArith List Bool.
From Knut Require Import Model.Str Model.Dec Model.Date Model.Account Model.Ledger Model.Journal
     Model.Table Model.JPrinter.
Import ListNotations.
Open Scope bool_scope.
Open Scope Z_scope.

(* ---------------------------------------------------------------- reader items *)
Inductive citem := CRec (r : list str) | CBad.

(* r[i]; None where Go panics with "index out of range" *)
Definition fld (r : list str) (i : nat) : option str := nth_error r i.

Definition e_eof : str := [69;79;70].                          (* "EOF" *)
Definition e_csv : str := [99;115;118].                        (* "csv": the reader's error *)
Definition e_date : str := [100;97;116;101].                   (* "date" *)
Definition e_amount : str := [97;109;111;117;110;116].         (* "amount" *)
Definition e_commodity : str := [99;111;109;109;111;100;105;116;121].
Definition e_index : str := [105;110;100;101;120].             (* "index": index out of range *)
Definition e_items : str := [105;116;101;109;115].             (* "items": wrong field count *)
Definition e_nil : str := [110;105;108].                       (* "nil": nil account/commodity *)
Definition e_flag : str := [102;108;97;103].                   (* "flag" *)
Definition e_line : str := [108;105;110;101].                  (* "line" *)

(* r[i] or panic *)
Definition fld_p {A} (r : list str) (i : nat) (k : str -> mresult A) : mresult A :=
  match fld r i with Some s => k s | None => MPanic e_index end.

Definition is_empty (s : str) : bool := match s with [] => true | _ => false end.
Definition len_is (r : list str) (n : nat) : bool := Nat.eqb (length r) n.

(* ---------------------------------------------------------------- time.Parse *)
Definition digit_val (c : Z) : option Z := if is_digit c then Some (c - 48) else None.

Definition num2 (a b : Z) : option Z :=
  match digit_val a, digit_val b with Some x, Some y => Some (x * 10 + y) | _, _ => None end.
Definition num4 (a b c d : Z) : option Z :=
  match num2 a b, num2 c d with Some x, Some y => Some (x * 100 + y) | _, _ => None end.

(* range checks of time.Parse: month 1..12, day 1..daysIn(month, year) *)
Definition mk_date (y m dd : Z) : option Z :=
  if (1 <=? m) && (m <=? 12) && (1 <=? dd) && (dd <=? days_in_month y m)
  then Some (of_civil y m dd) else None.

(* time.Parse("02.01.2006", s): exactly dd.mm.yyyy, two/two/four digits *)
Definition parse_dmy (s : str) : option Z :=
  match s with
  | [d1; d2; 46; m1; m2; 46; y1; y2; y3; y4] =>
    match num2 d1 d2, num2 m1 m2, num4 y1 y2 y3 y4 with
    | Some dd, Some m, Some y => mk_date y m dd
    | _, _, _ => None
    end
  | _ => None
  end.

(* time.Parse("2006-01-02", s) *)
Definition parse_iso (s : str) : option Z :=
  match s with
  | [y1; y2; y3; y4; 45; m1; m2; 45; d1; d2] =>
    match num4 y1 y2 y3 y4, num2 m1 m2, num2 d1 d2 with
    | Some y, Some m, Some dd => mk_date y m dd
    | _, _, _ => None
    end
  | _ => None
  end.

(* ---------------------------------------------------------------- decimal.NewFromString *)
(* with scientific notation: the text after the first 'E'/'e' goes through
   strconv.ParseInt(.., 10, 32); the exponent must stay inside int32 *)
Definition int32_ok (x : Z) : bool := (-2147483648 <=? x) && (x <=? 2147483647).

Definition parse_int32 (s : str) : option Z :=
  let '(negative, ds) :=
    match s with
    | 45 :: t => (true, t)
    | 43 :: t => (false, t)
    | _ => (false, s)
    end in
  match ds with
  | [] => None
  | _ => match parse_digits ds 0 with
         | None => None
         | Some v => let x := if negative then - v else v in
                     if int32_ok x then Some x else None
         end
  end.

Fixpoint split_e (s : str) (acc : str) : option (str * str) :=
  match s with
  | [] => None
  | c :: t => if (c =? 69) || (c =? 101) then Some (rev acc, t) else split_e t (c :: acc)
  end.

Definition new_from_string (s : str) : option dec :=
  match split_e s [] with
  | None => of_string s
  | Some (m, e) =>
    match parse_int32 e with
    | None => None
    | Some x =>
      match of_string m with
      | None => None
      | Some d => if int32_ok (ex d + x) then Some (mkDec (coef d) (ex d + x)) else None
      end
    end
  end.

(* ---------------------------------------------------------------- commodity / account names *)
Definition is_alnum (c : Z) : bool :=
  is_digit c || ((65 <=? c) && (c <=? 90)) || ((97 <=? c) && (c <=? 122)).

(* commodity.isValidCommodity / account.isValidSegment restricted to ASCII: non-empty, letters
   and digits (non-ASCII letters are accepted by Go and rejected here; generated currencies
   and accounts are ASCII) *)
Definition valid_name (s : str) : bool := negb (is_empty s) && forallb is_alnum s.

Definition s_CHF : str := [67;72;70].
Definition tbd_account : account := [s_Expenses; [84;66;68]].   (* Expenses:TBD *)

(* flags.AccountFlag.Value: "" gives a nil account without error *)
Inductive aflag := ANil | AErr | AAcc (a : account).

Definition account_flag (s : str) : aflag :=
  if is_empty s then ANil
  else let a := acc_of_name s in
       match a with
       | [] => AErr
       | t :: tail => match parse_atype t with
                      | None => AErr
                      | Some _ => if forallb valid_name tail then AAcc a else AErr
                      end
       end.

(* ---------------------------------------------------------------- package strings *)
(* unicode.IsSpace: the ASCII bytes and the UTF-8 encodings of U+0085, U+00A0, U+1680,
   U+2000..U+200A, U+2028, U+2029, U+202F, U+205F, U+3000 *)
Definition ws1 (c : Z) : bool :=
  (c =? 9) || (c =? 10) || (c =? 11) || (c =? 12) || (c =? 13) || (c =? 32).

Definition ws_multi : list str :=
  [[194;133]; [194;160]; [225;154;128];
   [226;128;128]; [226;128;129]; [226;128;130]; [226;128;131]; [226;128;132]; [226;128;133];
   [226;128;134]; [226;128;135]; [226;128;136]; [226;128;137]; [226;128;138];
   [226;128;168]; [226;128;169]; [226;128;175]; [226;129;159]; [227;128;128]].

Fixpoint drop_prefix_any (ps : list str) (s : str) : option str :=
  match ps with
  | [] => None
  | p :: rest => if is_prefix p s then Some (skipn (length p) s) else drop_prefix_any rest s
  end.

Fixpoint trim_left_fuel (multi : list str) (fuel : nat) (s : str) : str :=
  match fuel with
  | O => s
  | S f =>
    match s with
    | [] => []
    | c :: t =>
      if ws1 c then trim_left_fuel multi f t
      else match drop_prefix_any multi s with
           | Some s' => trim_left_fuel multi f s'
           | None => s
           end
    end
  end.

Definition trim_left (s : str) : str := trim_left_fuel ws_multi (length s) s.
Definition trim_right (s : str) : str := rev (trim_left_fuel (map (@rev Z) ws_multi) (length s) (rev s)).
Definition trim_space (s : str) : str := trim_right (trim_left s).          (* strings.TrimSpace *)

(* strings.Trim(s, cutset) for a cutset of ASCII bytes *)
Fixpoint drop_while (f : Z -> bool) (s : str) : str :=
  match s with
  | [] => []
  | c :: t => if f c then drop_while f t else s
  end.
Definition trim_set (cut : str) (s : str) : str :=
  let f c := existsb (Z.eqb c) cut in rev (drop_while f (rev (drop_while f s))).

(* strings.ReplaceAll(s, "'", "") *)
Definition remove_byte (b : Z) (s : str) : str := filter (fun c => negb (c =? b)) s.

(* strings.ReplaceAll(s, old, "") for a non-empty old: leftmost non-overlapping matches *)
Fixpoint remove_all_fuel (fuel : nat) (old : str) (s : str) : str :=
  match fuel with
  | O => s
  | S f =>
    match s with
    | [] => []
    | c :: t => if is_prefix old s then remove_all_fuel f old (skipn (length old) s)
                else c :: remove_all_fuel f old t
    end
  end.
Definition remove_all (old : str) (s : str) : str := remove_all_fuel (length s) old s.

(* non-empty words joined by one space *)
Definition join_sp (l : list str) : str := join [32] l.

(* ---------------------------------------------------------------- package regexp *)
(* the byte length of the UTF-8 sequence starting with lead byte c *)
Definition rune_len (c : Z) : nat :=
  if c <? 192 then 1%nat else if c <? 224 then 2%nat else if c <? 240 then 3%nat else 4%nat.

(* `.`: one rune other than "\n" *)
Definition skip_dot (s : str) : option str :=
  match s with
  | [] => None
  | c :: _ => if c =? 10 then None else Some (skipn (rune_len c) s)
  end.

Definition two_digits_then (s : str) : option str :=
  match s with
  | a :: b :: t => if is_digit a && is_digit b then Some t else None
  | _ => None
  end.

(* `\d\d.\d\d.\d\d\d\d` anchored at the start of s *)
Definition date_rx_here (s : str) : bool :=
  match two_digits_then s with
  | None => false
  | Some s1 =>
    match skip_dot s1 with
    | None => false
    | Some s2 =>
      match two_digits_then s2 with
      | None => false
      | Some s3 =>
        match skip_dot s3 with
        | None => false
        | Some s4 =>
          match two_digits_then s4 with
          | None => false
          | Some s5 => match two_digits_then s5 with Some _ => true | None => false end
          end
        end
      end
    end
  end.

(* dateRegex.MatchString: unanchored *)
Fixpoint date_rx (s : str) : bool :=
  date_rx_here s || match s with [] => false | _ :: t => date_rx t end.

(* regexp `\s+` -> " " (ReplaceAllString); \s is [\t\n\f\r ] *)
Definition re_space (c : Z) : bool := (c =? 9) || (c =? 10) || (c =? 12) || (c =? 13) || (c =? 32).
Fixpoint collapse_ws (in_ws : bool) (s : str) : str :=
  match s with
  | [] => []
  | c :: t => if re_space c then (if in_ws then collapse_ws true t else 32 :: collapse_ws true t)
              else c :: collapse_ws false t
  end.

(* ---------------------------------------------------------------- decimal sign handling *)
(* sign := decimal.NewFromInt(1) [.Neg()]; amount.Mul(sign) *)
Definition mul_sign (negative : bool) (d : dec) : dec :=
  mul d (if negative then neg (of_int 1) else of_int 1).

(* ---------------------------------------------------------------- an importer run *)
Inductive istatus := SOk | SErr | SPanic.
Record irun := mkRun { ir_stdout : str; ir_status : istatus }.

Definition has_txn (ds : list directive) : bool :=
  existsb (fun d => match d with DTxn _ => true | _ => false end) ds.

(* journal.Print(w, builder.Build()) *)
Definition print_directives (ds : list directive) : str := print_journal (b_days (builder_of ds)).

(* the tail of every run(): an error is reported on stderr (exit 1), otherwise the journal is
   printed.  With a nil account (flag "") Sort/UpdatePadding dereference it as soon as there
   is a transaction. *)
Definition finish_run (nil_account : bool) (pre : str) (r : mresult (list directive)) : irun :=
  match r with
  | MOk ds => if nil_account && has_txn ds then mkRun pre SPanic
              else mkRun (pre ++ print_directives ds) SOk
  | MErr _ => mkRun pre SErr
  | MPanic _ => mkRun pre SPanic
  end.

(* transaction.Builder.Build (since fix faa0268): strings.ReplaceAll(Description, double quote, single quote) --
   the journal syntax has no escape for a double quote inside a quoted description *)
Definition build_desc (s : str) : str := map (fun c => if c =? 34 then 39 else c) s.

(* one transaction with a single booking, as all six importers build it
   (transaction.Builder{...}.Build()); [simple_txn_pinned] is Build before faa0268 *)
Definition simple_txn (date : Z) (desc : str) (credit debit : account) (com : commodity) (q : dec) : directive :=
  DTxn (mkTxn date (build_desc desc) (pair_build credit debit com q dec_nil) None).
Definition simple_txn_pinned (date : Z) (desc : str) (credit debit : account) (com : commodity) (q : dec) : directive :=
  DTxn (mkTxn date desc (pair_build credit debit com q dec_nil) None).
