(* Model of flag handling: the value parsers behind knut's command-line flags and the part of
   spf13/pflag (v1.0.5) and spf13/cobra (v1.7.0) that decides "usage error" versus "the command runs".

     cmd/flags/flags.go   DateFlag.Set (time.Parse "2006-01-02"), RegexFlag.Set (regexp.Compile),
                          MappingFlag.Set (level[:suffix][,regex], negative numbers rejected since 78c5401),
                          CommodityFlag / AccountFlag (any string; validated later by the registry)
     cmd/flags/templates.go  Multiperiod: --from --to --last + the interval flags (mutually exclusive)
     pflag int.go int32.go bool.go   strconv.ParseInt(s, 0, 64 / 32), strconv.ParseBool
     strconv/atoi.go (go1.23)        ParseUint / ParseInt / Atoi / underscoreOK, byte by byte
     pflag flag.go        parseArgs / parseLongArg / parseShortArg / parseSingleShortArg
     cobra command.go     execute: ParseFlags, help, ValidateArgs, ValidateRequiredFlags, ValidateFlagGroups
     regexp/syntax/parse.go   "compiles / does not compile" on every string: Model/RxSyntax.v [rx_valid]

   Executable definitions only; Proofs/FlagsProofs.v has the lemmas. *)
From Coq Require Import ZArith List Bool.
(* Model.RxSyntax first: the names of the modules after it take precedence (is_letter, is_digit, decode ...) *)
From Knut Require Import Model.RxSyntax.
From Knut Require Import Model.Str Model.Date Model.Utf8 Model.UnicodeTables.
Import ListNotations.
Open Scope bool_scope.
Open Scope Z_scope.

Module FlagsM.

(* ---------------------------------------------------------------- strconv *)

Inductive nerr := NSyntax | NRange.
Inductive nres := NOk (v : Z) | NErr (e : nerr).

(* the digit value ParseUint assigns to a byte: '0'..'9', 'a'..'z' and 'A'..'Z' (lower(c) = c|0x20) *)
Definition digit_val (c : Z) : option Z :=
  if (48 <=? c) && (c <=? 57) then Some (c - 48)
  else if (97 <=? c) && (c <=? 122) then Some (c - 87)
  else if (65 <=? c) && (c <=? 90) then Some (c - 55)
  else None.

Definition two64 : Z := 18446744073709551616.
(* the smallest number such that cutoff*base > maxUint64 *)
Definition pu_cutoff (base : Z) : Z := (two64 - 1) / base + 1.

Inductive pures := PUOk (n : Z) (underscores : bool) | PUErr (e : nerr).

(* the loop of ParseUint.  In Go the sum n*base+d is computed modulo 2^64 and compared with
   n and maxVal; below the cutoff n*base < 2^64, so "wrapped or above maxVal" is "above maxVal"
   for the exact sum (maxVal <= 2^64-1). *)
Fixpoint pu_loop (base maxval : Z) (base0 : bool) (s : str) (n : Z) (us : bool) : pures :=
  match s with
  | [] => PUOk n us
  | c :: t =>
    if (c =? 95) && base0 then pu_loop base maxval base0 t n true
    else match digit_val c with
         | None => PUErr NSyntax
         | Some d =>
           if base <=? d then PUErr NSyntax
           else if pu_cutoff base <=? n then PUErr NRange
           else if maxval <? n * base + d then PUErr NRange
           else pu_loop base maxval base0 t (n * base + d) us
         end
  end.

Definition is_b (c : Z) : bool := (c =? 98) || (c =? 66).
Definition is_o (c : Z) : bool := (c =? 111) || (c =? 79).
Definition is_x (c : Z) : bool := (c =? 120) || (c =? 88).
Definition is_dec (c : Z) : bool := (48 <=? c) && (c <=? 57).
Definition is_hexletter (c : Z) : bool := ((97 <=? c) && (c <=? 102)) || ((65 <=? c) && (c <=? 70)).

(* underscoreOK: underscores only between digits (a base prefix counts as a digit) *)
Inductive usaw := UBeg | UDig | UUnd | UOth.
Fixpoint uok_loop (hex : bool) (s : str) (saw : usaw) : bool :=
  match s with
  | [] => match saw with UUnd => false | _ => true end
  | c :: t =>
    if is_dec c || (hex && is_hexletter c) then uok_loop hex t UDig
    else if c =? 95 then
      match saw with UDig => uok_loop hex t UUnd | _ => false end
    else match saw with UUnd => false | _ => uok_loop hex t UOth end
  end.

Definition underscore_ok (s : str) : bool :=
  let s := match s with c :: t => if (c =? 45) || (c =? 43) then t else s | [] => s end in
  match s with
  | z :: p :: t =>
    if (z =? 48) && (is_b p || is_o p || is_x p) then uok_loop (is_x p) t UDig else uok_loop false s UBeg
  | _ => uok_loop false s UBeg
  end.

(* base 0: "0b" "0o" "0x" need at least one more byte; any other leading "0" means octal *)
Definition base_prefix (s : str) : Z * str :=
  match s with
  | c :: rest =>
    if c =? 48 then
      match rest with
      | p :: _ :: _ =>
        if is_b p then (2, tl rest) else if is_o p then (8, tl rest) else if is_x p then (16, tl rest) else (8, rest)
      | _ => (8, rest)
      end
    else (10, s)
  | [] => (10, s)
  end.

(* strconv.ParseUint(s, base, bits) for base = 0 or 2..36, bits in 1..64 *)
Definition parse_uint (s : str) (base bits : Z) : nres :=
  match s with
  | [] => NErr NSyntax
  | _ =>
    let base0 := base =? 0 in
    let '(b, digits) := if base0 then base_prefix s else (base, s) in
    match pu_loop b (2 ^ bits - 1) base0 digits 0 false with
    | PUErr e => NErr e
    | PUOk n us => if us && negb (underscore_ok s) then NErr NSyntax else NOk n
    end
  end.

(* strconv.ParseInt(s, base, bits).  A range error of ParseUint leaves un = maxVal = 2^bits-1,
   which the two comparisons that follow reject as well (bits >= 2). *)
Definition parse_int (s : str) (base bits : Z) : nres :=
  match s with
  | [] => NErr NSyntax
  | c :: t =>
    let neg := c =? 45 in
    let body := if (c =? 43) || (c =? 45) then t else s in
    match parse_uint body base bits with
    | NErr e => NErr e
    | NOk un =>
      let cutoff := 2 ^ (bits - 1) in
      if negb neg && (cutoff <=? un) then NErr NRange
      else if neg && (cutoff <? un) then NErr NRange
      else NOk (if neg then - un else un)
    end
  end.

Fixpoint dec_loop (s : str) (n : Z) : option Z :=
  match s with
  | [] => Some n
  | c :: t => if is_dec c then dec_loop t (n * 10 + (c - 48)) else None
  end.

(* strconv.Atoi on a 64-bit platform: the fast path for 1..18 bytes, ParseInt(s, 10, 0) otherwise *)
Definition atoi (s : str) : nres :=
  let n := Z.of_nat (length s) in
  if (0 <? n) && (n <? 19) then
    match s with
    | [] => NErr NSyntax
    | c :: t =>
      let signed := (c =? 45) || (c =? 43) in
      let body := if signed then t else s in
      match body with
      | [] => NErr NSyntax
      | _ => match dec_loop body 0 with
             | Some v => NOk (if c =? 45 then - v else v)
             | None => NErr NSyntax
             end
      end
    end
  else parse_int s 10 64.

(* strconv.ParseBool *)
Definition parse_bool (s : str) : option bool :=
  if str_eqb s [49] || str_eqb s [116] || str_eqb s [84] || str_eqb s [84;82;85;69]
     || str_eqb s [116;114;117;101] || str_eqb s [84;114;117;101] then Some true
  else if str_eqb s [48] || str_eqb s [102] || str_eqb s [70] || str_eqb s [70;65;76;83;69]
     || str_eqb s [102;97;108;115;101] || str_eqb s [70;97;108;115;101] then Some false
  else None.

(* ---------------------------------------------------------------- time.Parse("2006-01-02") *)

(* four digits, '-', two digits, '-', two digits, nothing else; month 1..12, day 1..days in month *)
Definition parse_date_flag (s : str) : option Z :=
  match s with
  | [y1; y2; y3; y4; h1; m1; m2; h2; d1; d2] =>
    if is_dec y1 && is_dec y2 && is_dec y3 && is_dec y4
       && (h1 =? 45) && is_dec m1 && is_dec m2
       && (h2 =? 45) && is_dec d1 && is_dec d2
    then parse_ymd (1000 * (y1 - 48) + 100 * (y2 - 48) + 10 * (y3 - 48) + (y4 - 48))
                   (10 * (m1 - 48) + (m2 - 48))
                   (10 * (d1 - 48) + (d2 - 48))
    else None
  | _ => None
  end.

(* ---------------------------------------------------------------- commodity names *)

(* commodity.isValidCommodity: non-empty, every rune a letter or a digit (an invalid byte
   decodes to U+FFFD, which is neither) *)
Fixpoint runes_alnum (fuel : nat) (s : str) : bool :=
  match s with
  | [] => true
  | _ =>
    match fuel with
    | O => false
    | S f =>
      let '(r, w) := decode s in
      (is_letter r || is_digit r) && runes_alnum f (skipn (Z.to_nat w) s)
    end
  end.
Definition commodity_name_ok (s : str) : bool :=
  match s with [] => false | _ => runes_alnum (length s) s end.

(* ---------------------------------------------------------------- regexp.Compile: does it compile? *)

(* regexp.Compile(s) fails exactly when regexp/syntax.Parse(s, syntax.Perl) does; Model/RxSyntax.v follows
   that parser on every byte string ([rx_valid], total: Proofs/RxSyntaxProofs.v). *)

(* what the accepted pattern matches, for the patterns Model/Str.v can express: alternatives of
   ^?literal$? (plain bytes), ".*" (everything) and "$^" (only the empty string) *)
Definition is_plain (c : Z) : bool :=
  (32 <=? c) && (c <=? 126) &&
  negb (existsb (Z.eqb c) [92;46;43;42;63;40;41;124;91;93;123;125;94;36]).

Fixpoint split_bar_aux (s cur : str) : list str :=
  match s with
  | [] => [rev cur]
  | c :: t => if c =? 124 then rev cur :: split_bar_aux t [] else split_bar_aux t (c :: cur)
  end.

Definition rx_alt (a : str) : option rx :=
  let (st, a1) := match a with 94 :: t => (true, t) | _ => (false, a) end in
  let (en, a2) := match rev a1 with 36 :: t => (true, rev t) | _ => (false, a1) end in
  if forallb is_plain a2 then Some (mkRx st a2 en) else None.

Fixpoint all_some {A} (l : list (option A)) : option (list A) :=
  match l with
  | [] => Some []
  | Some x :: t => match all_some t with Some r => Some (x :: r) | None => None end
  | None :: _ => None
  end.

Definition rx_sem (s : str) : option (list rx) :=
  if str_eqb s [46;42] then Some [mkRx false [] false]
  else if str_eqb s [36;94] then Some [mkRx true [] true]
  else all_some (map rx_alt (split_bar_aux s [])).

(* ---------------------------------------------------------------- MappingFlag.Set *)

(* the text before the first occurrence of c, and the text after it if there is one *)
Fixpoint split_first (c : Z) (s : str) : str * option str :=
  match s with
  | [] => ([], None)
  | x :: t => if x =? c then ([], Some t)
              else let (a, b) := split_first c t in (x :: a, b)
  end.

Inductive merr := MShape | MInt | MNegative | MRegex.
Inductive mres := MapOk (level suffix : Z) (rx : option str) | MapErr (e : merr).

Definition mapping_finish (level suffix : Z) (rxpart : option str) : mres :=
  if (level <? 0) || (suffix <? 0) then MapErr MNegative
  else match rxpart with
       | None => MapOk level suffix None
       | Some r => if rx_valid r then MapOk level suffix (Some r) else MapErr MRegex
       end.

(* strings.SplitN(v, ",", 2), strings.Split(s[0], ":") with 1 or 2 parts, strconv.Atoi, the sign
   check, regexp.Compile - in this order *)
Definition parse_mapping (v : str) : mres :=
  let (nums, rxpart) := split_first 44 v in
  match split_first 58 nums with
  | (a, None) =>
    match atoi a with NOk l => mapping_finish l 0 rxpart | NErr _ => MapErr MInt end
  | (a, Some b) =>
    if existsb (Z.eqb 58) b then MapErr MShape
    else match atoi a with
         | NErr _ => MapErr MInt
         | NOk l => match atoi b with NOk sf => mapping_finish l sf rxpart | NErr _ => MapErr MInt end
         end
  end.

(* ---------------------------------------------------------------- flag values *)

Inductive fkind := KBool | KInt64 | KInt32 | KDate | KRegex | KMapping | KString.

Inductive fvalue :=
| VBool (b : bool)
| VInt (n : Z)
| VDate (d : Z)
| VRegex (src : str)
| VRule (level suffix : Z) (rx : option str)
| VStr (s : str).

Inductive verr := EBool | EIntSyntax | EIntRange | EDate | ERegex | EMapShape | EMapInt | EMapNegative | EMapRegex.
Inductive vres := VOk (v : fvalue) | VErr (e : verr).

Definition int_value (bits : Z) (s : str) : vres :=
  match parse_int s 0 bits with
  | NOk n => VOk (VInt n)
  | NErr NSyntax => VErr EIntSyntax
  | NErr NRange => VErr EIntRange
  end.

(* flag.Value.Set(value) *)
Definition parse_value (k : fkind) (s : str) : vres :=
  match k with
  | KBool => match parse_bool s with Some b => VOk (VBool b) | None => VErr EBool end
  | KInt64 => int_value 64 s
  | KInt32 => int_value 32 s
  | KDate => match parse_date_flag s with Some d => VOk (VDate d) | None => VErr EDate end
  | KRegex => if rx_valid s then VOk (VRegex s) else VErr ERegex
  | KMapping =>
    match parse_mapping s with
    | MapOk l sf r => VOk (VRule l sf r)
    | MapErr MShape => VErr EMapShape
    | MapErr MInt => VErr EMapInt
    | MapErr MNegative => VErr EMapNegative
    | MapErr MRegex => VErr EMapRegex
    end
  | KString => VOk (VStr s)
  end.

(* the statement "the accepted value is in range" per kind *)
Definition value_in_range (k : fkind) (v : fvalue) : bool :=
  match k, v with
  | KBool, VBool _ => true
  | KInt64, VInt n => (- 2 ^ 63 <=? n) && (n <? 2 ^ 63)
  | KInt32, VInt n => (- 2 ^ 31 <=? n) && (n <? 2 ^ 31)
  | KDate, VDate d => (0 <=? year_of d) && (year_of d <=? 9999)
  | KRegex, VRegex _ => true
  | KMapping, VRule l sf _ => (0 <=? l) && (0 <=? sf)
  | KString, VStr _ => true
  | _, _ => false
  end.

(* ---------------------------------------------------------------- pflag: the argument list *)

Record fdef := mkF { f_name : str; f_short : Z (* 0: none *); f_kind : fkind }.

Fixpoint find_long (defs : list fdef) (name : str) : option fdef :=
  match defs with
  | [] => None
  | d :: t => if str_eqb (f_name d) name then Some d else find_long t name
  end.
Fixpoint find_short (defs : list fdef) (c : Z) : option fdef :=
  match defs with
  | [] => None
  | d :: t => if (f_short d =? c) && negb (c =? 0) then Some d else find_short t c
  end.

Inductive perr :=
| PBadSyntax                       (* bad flag syntax: --=x, ---x *)
| PUnknownFlag (name : str)
| PUnknownShort (c : Z)
| PNeedsArg (name : str)
| PInvalid (name : str) (e : verr)  (* invalid argument ... for ... flag *)
| PArgCount (n : Z)                (* accepts 1 arg(s), received n *)
| PRequired (name : str)
| PExclusive.                      (* more than one of --days --weeks --months --quarters --years *)

Definition setting := (str * fvalue)%type.

(* what one argv element does *)
Inductive argstep :=
| ASets (l : list setting) (used_next : bool)
| APos
| ADashDash
| AErr (e : perr).

Definition k_true : str := [116;114;117;101].

Definition set_flag (d : fdef) (v : str) : argstep :=
  match parse_value (f_kind d) v with
  | VOk x => ASets [(f_name d, x)] false
  | VErr e => AErr (PInvalid (f_name d) e)
  end.

(* parseLongArg on the text after "--" *)
Definition long_arg (defs : list fdef) (body : str) (next : option str) : argstep :=
  match body with
  | [] => ADashDash
  | c :: _ =>
    if (c =? 45) || (c =? 61) then AErr PBadSyntax
    else
      let (name, eqval) := split_first 61 body in
      match find_long defs name with
      | None => AErr (PUnknownFlag name)
      | Some d =>
        match eqval with
        | Some v => set_flag d v
        | None =>
          match f_kind d with
          | KBool => set_flag d k_true                  (* NoOptDefVal *)
          | _ => match next with
                 | Some v => match set_flag d v with ASets l _ => ASets l true | r => r end
                 | None => AErr (PNeedsArg name)
                 end
          end
        end
      end
  end.

(* parseShortArg: the loop over parseSingleShortArg on the text after "-" *)
Fixpoint short_args (defs : list fdef) (sh : str) (next : option str) : argstep :=
  match sh with
  | [] => ASets [] false
  | c :: rest =>
    match find_short defs c with
    | None => AErr (PUnknownShort c)
    | Some d =>
      let last (v : str) (used : bool) :=
        match set_flag d v with ASets l _ => ASets l used | r => r end in
      let general :=
        match f_kind d with
        | KBool =>
          match set_flag d k_true with
          | ASets l _ =>
            match short_args defs rest next with
            | ASets l' u => ASets (l ++ l') u
            | r => r
            end
          | r => r
          end
        | _ =>
          match rest with
          | _ :: _ => last rest false                                    (* -farg *)
          | [] => match next with
                  | Some v => last v true                                (* -f arg *)
                  | None => AErr (PNeedsArg [c])
                  end
          end
        end in
      match rest with
      | e :: ((_ :: _) as v) => if e =? 61 then last v false else general    (* -f=arg *)
      | _ => general
      end
    end
  end.

Definition arg_step (defs : list fdef) (s : str) (next : option str) : argstep :=
  match s with
  | a :: b :: t =>
    if a =? 45 then (if b =? 45 then long_arg defs t next else short_args defs (b :: t) next)
    else APos
  | _ => APos                                            (* "", "-", anything not starting with '-' *)
  end.

Inductive pres := PArgs (sets : list setting) (pos : list str) | PErr (e : perr).

Definition pres_add (l : list setting) (p : list str) (r : pres) : pres :=
  match r with PArgs s q => PArgs (l ++ s) (p ++ q) | r => r end.

(* FlagSet.parseArgs (interspersed): flags are set from left to right, the first error ends the parse *)
Fixpoint parse_args (defs : list fdef) (args : list str) : pres :=
  match args with
  | [] => PArgs [] []
  | s :: rest =>
    match arg_step defs s (hd_error rest) with
    | AErr e => PErr e
    | APos => pres_add [] [s] (parse_args defs rest)
    | ADashDash => PArgs [] rest
    | ASets l false => pres_add l [] (parse_args defs rest)
    | ASets l true =>
      match rest with
      | _ :: rest' => pres_add l [] (parse_args defs rest')
      | [] => PErr (PNeedsArg s)
      end
    end
  end.

(* ---------------------------------------------------------------- the commands' flag sets *)

Inductive command := CmdCheck | CmdBalance | CmdPrint | CmdFormat | CmdInfer | CmdTranscode | CmdWeights | CmdReturns.

Definition n_help : str := [104;101;108;112].
Definition n_from : str := [102;114;111;109].
Definition n_to : str := [116;111].
Definition n_last : str := [108;97;115;116].
Definition n_once : str := [111;110;99;101].
Definition n_days : str := [100;97;121;115].
Definition n_weeks : str := [119;101;101;107;115].
Definition n_months : str := [109;111;110;116;104;115].
Definition n_quarters : str := [113;117;97;114;116;101;114;115].
Definition n_years : str := [121;101;97;114;115].
Definition n_cpuprofile : str := [99;112;117;112;114;111;102;105;108;101].
Definition n_diff : str := [100;105;102;102].
Definition n_csv : str := [99;115;118].
Definition n_close : str := [99;108;111;115;101].
Definition n_sort : str := [115;111;114;116].
Definition n_show : str := [115;104;111;119;45;99;111;109;109;111;100;105;116;105;101;115].
Definition n_val : str := [118;97;108].
Definition n_map : str := [109;97;112].
Definition n_remap : str := [114;101;109;97;112].
Definition n_account : str := [97;99;99;111;117;110;116].
Definition n_commodity : str := [99;111;109;109;111;100;105;116;121].
Definition n_digits : str := [100;105;103;105;116;115].
Definition n_thousands : str := [116;104;111;117;115;97;110;100;115].
Definition n_color : str := [99;111;108;111;114].
Definition n_universe : str := [117;110;105;118;101;114;115;101].
Definition n_write : str := [119;114;105;116;101].
Definition n_nocheck : str := [110;111;45;99;104;101;99;107].
Definition n_inplace : str := [105;110;112;108;97;99;101].
Definition n_training : str := [116;114;97;105;110;105;110;103;45;102;105;108;101].

Definition f_help : fdef := mkF n_help 104 KBool.        (* -h, added by cobra to every command *)

(* flags.Multiperiod.Setup *)
Definition multiperiod_flags : list fdef :=
  [mkF n_from 0 KDate; mkF n_to 0 KDate; mkF n_last 0 KInt64;
   mkF n_once 0 KBool; mkF n_days 0 KBool; mkF n_weeks 0 KBool; mkF n_months 0 KBool;
   mkF n_quarters 0 KBool; mkF n_years 0 KBool].

Definition cmd_flags (c : command) : list fdef :=
  f_help ::
  match c with
  | CmdCheck => [mkF n_write 0 KBool; mkF n_nocheck 0 KBool]
  | CmdBalance =>
    multiperiod_flags ++
    [mkF n_cpuprofile 0 KString; mkF n_diff 100 KBool; mkF n_csv 0 KBool; mkF n_close 0 KBool;
     mkF n_sort 97 KBool; mkF n_show 115 KRegex; mkF n_val 118 KString; mkF n_map 109 KMapping;
     mkF n_remap 114 KRegex; mkF n_account 0 KRegex; mkF n_commodity 0 KRegex; mkF n_digits 0 KInt32;
     mkF n_thousands 107 KBool; mkF n_color 0 KBool]
  | CmdPrint => []
  | CmdFormat => []
  | CmdInfer => [mkF n_account 97 KString; mkF n_inplace 105 KBool; mkF n_training 116 KString]
  | CmdTranscode => [mkF n_val 118 KString]
  | CmdWeights =>
    multiperiod_flags ++
    [mkF n_universe 0 KString; mkF n_val 118 KString; mkF n_account 0 KRegex; mkF n_commodity 0 KRegex;
     mkF n_sort 97 KBool; mkF n_csv 0 KBool; mkF n_map 109 KMapping; mkF n_digits 0 KInt32;
     mkF n_thousands 107 KBool; mkF n_color 0 KBool]
  | CmdReturns =>
    multiperiod_flags ++
    [mkF n_cpuprofile 0 KString; mkF n_val 118 KString; mkF n_account 0 KRegex; mkF n_commodity 0 KRegex]
  end.

(* ---------------------------------------------------------------- reading the settings *)

(* the value a flag has after the parse: the last Set wins (DateFlag, int, bool, the string flags) *)
Fixpoint last_value (name : str) (sets : list setting) : option fvalue :=
  match sets with
  | [] => None
  | (n, v) :: t =>
    match last_value name t with
    | Some w => Some w
    | None => if str_eqb n name then Some v else None
    end
  end.

(* RegexFlag and MappingFlag accumulate *)
Definition all_values (name : str) (sets : list setting) : list fvalue :=
  map snd (filter (fun nv => str_eqb (fst nv) name) sets).

Definition changed (name : str) (sets : list setting) : bool :=
  existsb (fun nv => str_eqb (fst nv) name) sets.

Definition get_bool (name : str) (def : bool) (sets : list setting) : bool :=
  match last_value name sets with Some (VBool b) => b | _ => def end.
Definition get_int (name : str) (sets : list setting) : Z :=
  match last_value name sets with Some (VInt n) => n | _ => 0 end.
Definition get_str (name : str) (def : str) (sets : list setting) : str :=
  match last_value name sets with Some (VStr s) => s | _ => def end.

(* cobra.MarkFlagsMutuallyExclusive("days", "weeks", "months", "quarters", "years"): at most one
   of them may have been set (to whatever value) *)
Definition exclusive_count (sets : list setting) : Z :=
  Z.of_nat (length (filter (fun n => changed n sets) [n_days; n_weeks; n_months; n_quarters; n_years])).

Definition has_multiperiod (c : command) : bool :=
  match c with CmdBalance | CmdWeights | CmdReturns => true | _ => false end.

Inductive cmdline :=
| CLRun (sets : list setting) (pos : list str)   (* the command's Run function is called *)
| CLHelp                                        (* usage on stdout, exit 0 *)
| CLRejected (e : perr).                        (* usage error: exit 1 before Run *)

(* cobra's Command.execute up to Run, on the arguments after the command words *)
Definition parse_cmdline (c : command) (argv : list str) : cmdline :=
  match parse_args (cmd_flags c) argv with
  | PErr e => CLRejected e
  | PArgs sets pos =>
    if get_bool n_help false sets then CLHelp
    else if negb (match c with CmdFormat => true | _ => Z.of_nat (length pos) =? 1 end)
      then CLRejected (PArgCount (Z.of_nat (length pos)))
    else if (match c with CmdInfer => negb (changed n_training sets) | _ => false end)
      then CLRejected (PRequired n_training)
    else if has_multiperiod c && (1 <? exclusive_count sets) then CLRejected PExclusive
    else CLRun sets pos
  end.

(* the textbook reading: every flag use of the command line was accepted *)
Definition flags_ok (c : command) (argv : list str) : bool :=
  match parse_cmdline c argv with CLRun _ _ | CLHelp => true | _ => false end.

End FlagsM.
Export FlagsM.
