(* Model of lib/journal/check/check.go (Checker with default options: Write = false,
   NoCheck = false). *)
From Coq Require Import ZArith List Bool.
From Knut Require Import Model.Str Model.Dec Model.Date Model.Account Model.Ledger Model.Price Model.Journal.
Import ListNotations.
Open Scope bool_scope.
Open Scope Z_scope.

(* amounts keyed by (account, commodity): the key string is name ++ [0] ++ commodity *)
Definition pos_key (a : account) (c : commodity) : str := acc_name a ++ [0] ++ c.
Definition positions := smap (account * commodity * dec).

Definition pos_get (m : positions) (a : account) (c : commodity) : option dec :=
  match sm_get m (pos_key a c) with Some (_, _, q) => Some q | None => None end.

(* Amounts.Add: am[key] = am[key].Add(value), the missing entry being the zero Decimal *)
Definition pos_add (m : positions) (a : account) (c : commodity) (q : dec) : positions :=
  let old := match pos_get m a c with Some x => x | None => dec_nil end in
  sm_put m (pos_key a c) (a, c, add old q).

Fixpoint pos_remove_key (m : positions) (k : str) : positions :=
  match m with
  | [] => []
  | (k', v) :: rest => if str_eqb k k' then rest else (k', v) :: pos_remove_key rest k
  end.

Record check_state := mkCheck { ck_open : list account; ck_qty : positions }.
Definition check_init : check_state := mkCheck [] [].

Definition is_open (s : check_state) (a : account) : bool := existsb (acc_eqb a) (ck_open s).

Definition k_already_open : str := [97;108;114;101;97;100;121;111;112;101;110].   (* alreadyopen *)
Definition k_not_open : str := [110;111;116;111;112;101;110].                       (* notopen *)
Definition k_assertion : str := [97;115;115;101;114;116;105;111;110].               (* assertion *)
Definition k_nonzero : str := [110;111;110;122;101;114;111].                        (* nonzero *)

Definition ck_open_cb (s : check_state) (a : account) : presult check_state :=
  if is_open s a then RErr k_already_open (acc_name a)
  else ROk (mkCheck (a :: ck_open s) (ck_qty s)).

Definition ck_posting_cb (s : check_state) (t : txn) (p : posting) : presult (check_state * posting) :=
  if negb (is_open s (p_acc p)) then RErr k_not_open (acc_name (p_acc p))
  else if is_AL (p_acc p)
       then ROk (mkCheck (ck_open s) (pos_add (ck_qty s) (p_acc p) (p_com p) (p_qty p)), p)
       else ROk (s, p).

(* Checker.balance.  [lenient] selects the repaired lookup (a position that was never booked
   counts as zero); the pinned code rejects every assertion on such a position. *)
Definition ck_balance_cb (lenient : bool) (s : check_state) (a : list balance) (b : balance) : presult check_state :=
  if negb (is_open s (bal_acc b)) then RErr k_not_open (acc_name (bal_acc b))
  else
    match pos_get (ck_qty s) (bal_acc b) (bal_com b) with
    | Some q => if dec_equal q (bal_qty b) then ROk s else RErr k_assertion (acc_name (bal_acc b))
    | None => if lenient && dec_equal dec_nil (bal_qty b) then ROk s else RErr k_assertion (acc_name (bal_acc b))
    end.

(* Checker.close: first every position of the account must be zero (they are deleted), then
   the account must be open *)
Fixpoint close_positions (m : positions) (a : account) : option positions :=
  match m with
  | [] => Some []
  | (k, (a', c, q)) :: rest =>
    if acc_eqb a a' then
      if is_zero q then close_positions rest a else None
    else match close_positions rest a with Some r => Some ((k, (a', c, q)) :: r) | None => None end
  end.

Definition ck_close_cb (s : check_state) (a : account) : presult check_state :=
  match close_positions (ck_qty s) a with
  | None => RErr k_nonzero (acc_name a)
  | Some m =>
    if negb (is_open s a) then RErr k_not_open (acc_name a)
    else ROk (mkCheck (filter (fun x => negb (acc_eqb a x)) (ck_open s)) m)
  end.

Definition check_proc (lenient : bool) : processor check_state :=
  mkProc None None (Some ck_open_cb) None (Some ck_posting_cb) (Some (ck_balance_cb lenient)) (Some ck_close_cb) None.

(* ---- the fully repaired Checker.balance (findings C04-zero-assertion, C04-nonAL-assertion):
   after the open test, an assertion on an account that is not an asset or liability account is
   not compared with anything (quantities are tracked for A/L accounts only); on A/L accounts a
   position that was never booked counts as zero ([ck_balance_cb true]).  [check_proc true] and
   [check_proc false] keep their meaning. *)
Definition ck_balance_fixed (s : check_state) (a : list balance) (b : balance) : presult check_state :=
  if negb (is_open s (bal_acc b)) then RErr k_not_open (acc_name (bal_acc b))
  else if negb (is_AL (bal_acc b)) then ROk s
  else ck_balance_cb true s a b.

Definition check_proc_fixed : processor check_state :=
  mkProc None None (Some ck_open_cb) None (Some ck_posting_cb) (Some ck_balance_fixed) (Some ck_close_cb) None.
