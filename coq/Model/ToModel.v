(* Model of the conversion "syntax tree + text -> model directives" as far as it does not
   depend on the registry: the leaf extraction and parsing done by the Create functions of
   lib/model/{open,close,price,assertion,transaction,posting} and by
   lib/syntax/directives (Range.Extract, Date.Parse, Decimal.Parse).

   The result is the list of "syntax-level directives" [sdirective] that Model/Ledger.v
   [parse_directives] (model.ParseDirective: account validation, posting pairs, accrual
   expansion) takes as its input.  Every check is made in the order of the Go code, so that
   the FIRST error of a directive is the one Go returns:
     open/close   account, date
     price        date, commodity, price, target
     assertion    date, then per balance: account, quantity, commodity
     transaction  date, description, then per booking: credit, debit, amount, commodity;
                  performance targets; accrual: account, start, end, interval
   Commodities cannot fail: the parser delivers a non-empty run of letters/digits, which is
   what commodity.isValidCommodity asks for.  Executable definitions only. *)
From Coq Require Import ZArith List Bool.
From Knut Require Import Model.Bytes Model.Utf8 Model.UnicodeTables Model.Scanner Model.Parser.
From Knut Require Import Model.Str Model.Dec Model.Date Model.Account Model.Ledger.
Import ListNotations.
Open Scope bool_scope.
Open Scope Z_scope.

Module ToModelM.

Definition e_date : Str.str := [100;97;116;101].                       (* "date" *)
Definition e_decimal : Str.str := [100;101;99;105;109;97;108].         (* "decimal" *)
Definition e_interval : Str.str := [105;110;116;101;114;118;97;108].   (* "interval" *)
Definition e_syntax : Str.str := [115;121;110;116;97;120].             (* "syntax" *)
Definition e_unknown : Str.str := [117;110;107;110;111;119;110].       (* "unknown" *)

(* time.Parse("2006-01-02", s): four digits, '-', two digits, '-', two digits (ASCII), nothing
   else; month 1..12, day 1..days in that month (Date.parse_ymd) *)
Definition parse_date_str (s : Str.str) : option Z :=
  match s with
  | [y1; y2; y3; y4; h1; m1; m2; h2; d1; d2] =>
    if Dec.is_digit y1 && Dec.is_digit y2 && Dec.is_digit y3 && Dec.is_digit y4
       && (h1 =? 45) && Dec.is_digit m1 && Dec.is_digit m2
       && (h2 =? 45) && Dec.is_digit d1 && Dec.is_digit d2
    then parse_ymd (1000 * (y1 - 48) + 100 * (y2 - 48) + 10 * (y3 - 48) + (y4 - 48))
                   (10 * (m1 - 48) + (m2 - 48))
                   (10 * (d1 - 48) + (d2 - 48))
    else None
  | _ => None
  end.

(* date.ParseInterval on the words the parser lets through *)
Definition parse_interval_str (s : Str.str) : option interval :=
  if BytesM.str_eqb s SynM.kw_daily then Some Daily
  else if BytesM.str_eqb s SynM.kw_weekly then Some Weekly
  else if BytesM.str_eqb s SynM.kw_monthly then Some Monthly
  else if BytesM.str_eqb s SynM.kw_quarterly then Some Quarterly
  else None.

Section WithText.
Variable t : Str.str.

(* Range.Extract *)
Definition ext (r : range) : Str.str := slice t (r_start r) (r_end r).

(* Date.Parse *)
Definition get_date (r : range) : mresult Z :=
  match parse_date_str (ext r) with Some d => MOk d | None => MErr e_date end.

(* Decimal.Parse, decimal.NewFromString *)
Definition get_dec (r : range) : mresult dec :=
  match of_string (ext r) with Some d => MOk d | None => MErr e_decimal end.

(* account.Registry.Create *)
Definition get_account (a : SynM.account) : mresult Account.account :=
  let x := acc_of_name (ext (SynM.acc_range a)) in
  mbind (check_account x) (fun _ => MOk x).

Definition get_interval (r : range) : mresult interval :=
  match parse_interval_str (ext r) with Some i => MOk i | None => MErr e_interval end.

(* the loop of posting.Create *)
Fixpoint get_bookings (bs : list SynM.booking) : mresult (list Ledger.booking) :=
  match bs with
  | [] => MOk []
  | b :: rest =>
    mbind (get_account (SynM.bk_credit b)) (fun cr =>
    mbind (get_account (SynM.bk_debit b)) (fun db =>
    mbind (get_dec (SynM.bk_quantity b)) (fun q =>
    mbind (get_bookings rest) (fun l =>
    MOk (Ledger.mkBooking cr db q (ext (SynM.bk_commodity b)) :: l)))))
  end.

(* the loop of assertion.Create *)
Fixpoint get_balances (bs : list SynM.balance) : mresult (list Ledger.balance) :=
  match bs with
  | [] => MOk []
  | b :: rest =>
    mbind (get_account (SynM.bl_account b)) (fun a =>
    mbind (get_dec (SynM.bl_quantity b)) (fun q =>
    mbind (get_balances rest) (fun l =>
    MOk (Ledger.mkBalance a q (ext (SynM.bl_commodity b)) :: l))))
  end.

(* the head of transaction.expand *)
Definition get_accrual (a : SynM.accrual) : mresult Ledger.accrual :=
  mbind (get_account (SynM.ac_account a)) (fun acc =>
  mbind (get_date (SynM.ac_start a)) (fun s =>
  mbind (get_date (SynM.ac_end a)) (fun e =>
  mbind (get_interval (SynM.ac_interval a)) (fun iv =>
  MOk (Ledger.mkAccrual iv s e acc))))).

(* transaction.Create up to the expansion *)
Definition get_txn (x : SynM.transaction) : mresult stxn :=
  mbind (get_date (SynM.tx_date x)) (fun d =>
  let desc := ext (SynM.qs_content (SynM.tx_desc x)) in
  mbind (get_bookings (SynM.tx_bookings x)) (fun bs =>
  let perf := SynM.ad_perf (SynM.tx_addons x) in
  let targets :=
    if range_empty (SynM.pf_range perf) then None
    else Some (map ext (SynM.pf_targets perf)) in
  let acr := SynM.ad_accrual (SynM.tx_addons x) in
  mbind (if range_empty (SynM.ac_range acr) then MOk None
         else mbind (get_accrual acr) (fun a => MOk (Some a))) (fun ac =>
  MOk (mkStxn d desc bs targets ac)))).

(* model.ParseDirective, the part before the registry-dependent work *)
Definition get_directive (d : SynM.directive) : mresult sdirective :=
  match SynM.d_body d with
  | SynM.BTrx x => mbind (get_txn x) (fun s => MOk (STxn s))
  | SynM.BOpen o =>
    mbind (get_account (SynM.op_account o)) (fun a =>
    mbind (get_date (SynM.op_date o)) (fun dt => MOk (SOpen dt a)))
  | SynM.BClose c =>
    mbind (get_account (SynM.cl_account c)) (fun a =>
    mbind (get_date (SynM.cl_date c)) (fun dt => MOk (SClose dt a)))
  | SynM.BAssertion a =>
    mbind (get_date (SynM.as_date a)) (fun dt =>
    mbind (get_balances (SynM.as_balances a)) (fun bs => MOk (SAssert dt bs)))
  | SynM.BPrice p =>
    mbind (get_date (SynM.pr_date p)) (fun dt =>
    mbind (get_dec (SynM.pr_price p)) (fun q =>
    MOk (SPrice dt (ext (SynM.pr_commodity p)) q (ext (SynM.pr_target p)))))
  | SynM.BInclude _ => MOk SInclude
  | SynM.BNone => MErr e_unknown
  end.

Fixpoint get_directives (ds : list SynM.directive) : mresult (list sdirective) :=
  match ds with
  | [] => MOk []
  | d :: rest =>
    mbind (get_directive d) (fun s =>
    mbind (get_directives rest) (fun l => MOk (s :: l)))
  end.

End WithText.

Definition to_model (t : Str.str) (f : SynM.file) : mresult (list sdirective) :=
  get_directives t (SynM.f_directives f).

(* journal text -> syntax-level directives: syntax.ParseFile, then the conversion.  A file
   with include directives yields SInclude entries (the included files are not followed). *)
Definition reparse (t : Str.str) : mresult (list sdirective) :=
  match SynM.parse_text UnicodeM.is_letter UnicodeM.is_digit t with
  | SynM.ParseOk f => to_model t f
  | SynM.ParseErr _ => MErr e_syntax
  | SynM.ParseFuel => MPanic e_syntax
  end.

(* per directive, as model.FromStream does it: conversion and ParseDirective one directive
   after the other (used by the correspondence check to locate the first failure) *)
Definition model_directive (t : Str.str) (d : SynM.directive) : mresult (list directive) :=
  mbind (get_directive t d) parse_directive.

End ToModelM.
Export ToModelM.
