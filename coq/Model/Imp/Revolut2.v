(* Model of cmd/importer/revolut2/revolut2.go (command revolut2).
   Reader: csv.NewReader(f), TrimLeadingSpace, Comma ',', FieldsPerRecord = 10 (the harness
   runs it: a record of another width arrives as a reader error). *)
From Coq Require Import ZArith List Bool.
From Knut Require Import Model.Str Model.Dec Model.Date Model.Account Model.Ledger Model.ImpCommonA
     Model.ImpCommonB.
Import ListNotations.
Open Scope bool_scope.
Open Scope Z_scope.

Definition r2_header : list str :=
  [[84;121;112;101];                                        (* Type *)
   [80;114;111;100;117;99;116];                             (* Product *)
   [83;116;97;114;116;101;100;32;68;97;116;101];            (* Started Date *)
   [67;111;109;112;108;101;116;101;100;32;68;97;116;101];   (* Completed Date *)
   [68;101;115;99;114;105;112;116;105;111;110];             (* Description *)
   [65;109;111;117;110;116];                                (* Amount *)
   [70;101;101];                                            (* Fee *)
   [67;117;114;114;101;110;99;121];                         (* Currency *)
   [83;116;97;116;101];                                     (* State *)
   [66;97;108;97;110;99;101]].                              (* Balance *)

(* parseHeader: for i := range r { r[i] != header[i] }: a longer record indexes past the
   header (panic), a shorter one that agrees is accepted *)
Fixpoint r2_header_ok (r hdr : list str) : mresult unit :=
  match r, hdr with
  | [], _ => MOk tt
  | _ :: _, [] => MPanic e_index
  | x :: r', h :: hdr' => if str_eqb x h then r2_header_ok r' hdr' else MErr e_header
  end.

(* the balance map p.balance[DateCommodityKey(d, c)] = bal, kept as an association list in the
   order of first insertion.  Go iterates over the map in an unspecified order (addBalances);
   since the assertions of different days end up in different days of the journal, that order
   shows in the output only between two currencies of one day. *)
Definition r2_key := (Z * commodity)%type.
Definition r2_key_eqb (a b : r2_key) : bool := (fst a =? fst b) && str_eqb (snd a) (snd b).

Fixpoint r2_put (m : list (r2_key * dec)) (k : r2_key) (v : dec) : list (r2_key * dec) :=
  match m with
  | [] => [(k, v)]
  | (k', v') :: rest => if r2_key_eqb k k' then (k', v) :: rest else (k', v') :: r2_put rest k v
  end.

(* parseBooking on one record: None = the row is skipped (no Completed Date) *)
Definition r2_booking (acct feeacct : account) (r : list str) : mresult (option (directive * (r2_key * dec))) :=
  fld_p r 3 (fun completed =>
  if is_empty completed then MOk None
  else
    match prefix10 completed with
    | None => MPanic e_slice
    | Some ds =>
      match parse_iso ds with
      | None => MErr e_date
      | Some d =>
        fld_p r 7 (fun cur =>
        if negb (valid_name cur) then MErr e_commodity
        else
          fld_p r 5 (fun amt =>
          match new_from_string amt with
          | None => MErr e_amount
          | Some q =>
            fld_p r 6 (fun fs =>
            match new_from_string fs with
            | None => MErr e_amount
            | Some fee =>
              fld_p r 4 (fun desc =>
              fld_p r 9 (fun bs =>
              match new_from_string bs with
              | None => MErr e_amount
              | Some bal =>
                let legs := mkLeg tbd_account acct cur q ::
                            (if is_zero fee then [] else [mkLeg acct feeacct cur fee]) in
                MOk (Some (legs_txn d desc legs None, ((d, cur), bal)))
              end))
            end)
          end))
      end
    end).

Fixpoint r2_rows (acct feeacct : account) (items : list citem) (bal : list (r2_key * dec))
  : mresult (list directive * list (r2_key * dec)) :=
  match items with
  | [] => MOk ([], bal)
  | CBad :: _ => MErr e_csv
  | CRec r :: rest =>
    mbind (r2_booking acct feeacct r) (fun o =>
    match o with
    | None => r2_rows acct feeacct rest bal
    | Some (t, (k, v)) =>
      mbind (r2_rows acct feeacct rest (r2_put bal k v)) (fun x => MOk (t :: fst x, snd x))
    end)
  end.

(* addBalances.  As pinned it ranged over the Go map (unspecified order: [r2_assertions_pinned]
   with the association list in any order); since fix a319b05 the keys are sorted by date, then
   commodity name, before the assertions are added. *)
Definition r2_kv_ltb (a b : r2_key * dec) : bool :=
  (fst (fst a) <? fst (fst b)) || ((fst (fst a) =? fst (fst b)) && str_ltb (snd (fst a)) (snd (fst b))).
Definition r2_assertions_pinned (acct : account) (bal : list (r2_key * dec)) : list directive :=
  map (fun kv => assertion (fst (fst kv)) acct (snd (fst kv)) (snd kv)) bal.
Definition r2_assertions (acct : account) (bal : list (r2_key * dec)) : list directive :=
  r2_assertions_pinned acct (sort_by r2_kv_ltb bal).

(* parser.parse *)
Definition import_revolut2 (acct feeacct : account) (items : list citem) : mresult (list directive) :=
  match items with
  | [] => MErr e_eof
  | CBad :: _ => MErr e_csv
  | CRec h :: rest =>
    mbind (r2_header_ok h r2_header) (fun _ =>
    mbind (r2_rows acct feeacct rest []) (fun x => MOk (fst x ++ r2_assertions acct (snd x))))
  end.

(* runner.run (one file): the file is opened, then the flags are resolved *)
Definition run_revolut2 (aflag fflag : str) (items : list citem) : irun :=
  match resolve_flags [aflag; fflag] with
  | Some [a; f] => finish_run_b (import_revolut2 a f items)
  | _ => mkRun [] SErr
  end.
