(* Model of cmd/importer/swisscard/swisscard.go (command ch.swisscard).
   Reader: csv.NewReader, TrimLeadingSpace, FieldsPerRecord = 0, i.e. every record must have
   as many fields as the first one (the harness runs it). *)
From Coq Require Import ZArith List Bool.
From Knut Require Import Model.Str Model.Dec Model.Date Model.Account Model.Ledger Model.ImpCommonA.
Import ListNotations.
Open Scope bool_scope.
Open Scope Z_scope.

(* strings.NewReplacer("CHF", "", "'", "").Replace: one left-to-right pass; at each position the
   pattern that matches there (the two patterns start with different bytes, so at most one does)
   is deleted, otherwise the byte is copied.  Proofs/ImpProofsA.v sc_clean_spec shows that this
   equals deleting every "CHF" and then every "'". *)
Fixpoint sc_clean_fuel (fuel : nat) (s : str) : str :=
  match fuel with
  | O => s
  | S f =>
    match s with
    | [] => []
    | c :: t => if is_prefix s_CHF s then sc_clean_fuel f (skipn 3 s)
                else if c =? 39 then sc_clean_fuel f t
                else c :: sc_clean_fuel f t
    end
  end.
Definition sc_clean (s : str) : str := sc_clean_fuel (length s) s.

(* the trimmed non-empty fields 2, 4, 5, 6, 7, 8 joined by blanks *)
Definition sc_words (r : list str) : option str :=
  match fld r 2, fld r 4, fld r 5, fld r 6, fld r 7, fld r 8 with
  | Some a, Some b, Some c, Some d, Some e, Some f =>
    Some (join_sp (filter (fun w => negb (is_empty w)) (map trim_space [a; b; c; d; e; f])))
  | _, _, _, _, _, _ => None
  end.

(* parser.parseBooking: None = the record is not a booking and is ignored *)
Definition sc_booking (acct : account) (r : list str) : mresult (option directive) :=
  fld_p r 0 (fun f0 =>
  if negb (date_rx f0) then MOk None
  else fld_p r 1 (fun f1 =>
  if negb (date_rx f1) then MOk None
  else if negb (len_is r 11) then MErr e_items
  else match sc_words r with
       | None => MPanic e_index
       | Some desc =>
         match parse_dmy f0 with
         | None => MErr e_date
         | Some d =>
           fld_p r 3 (fun f3 =>
           match new_from_string (sc_clean f3) with
           | None => MErr e_amount
           | Some q => MOk (Some (simple_txn d desc acct tbd_account s_CHF q))
           end)
         end
       end)).

Fixpoint import_swisscard (acct : account) (items : list citem) : mresult (list directive) :=
  match items with
  | [] => MOk []
  | CBad :: _ => MErr e_csv
  | CRec r :: rest =>
    mbind (sc_booking acct r) (fun o =>
    mbind (import_swisscard acct rest) (fun ds =>
    MOk (match o with Some d => d :: ds | None => ds end)))
  end.

Definition run_swisscard (aflag : str) (items : list citem) : irun :=
  match account_flag aflag with
  | AErr => mkRun [] SErr
  | ANil => finish_run true [] (import_swisscard [] items)
  | AAcc a => finish_run false [] (import_swisscard a items)
  end.
