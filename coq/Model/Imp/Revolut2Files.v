(* `knut import revolut2 FILE...` with several statement files (runner.run loops over its arguments: "one CSV file
   per account"): every file is read by a parser of its own -- in particular with an empty balance map -- into one
   journal builder; the journal is printed once at the end.  Model/Imp/Revolut2.v models one file. *)
From Coq Require Import ZArith List Bool.
From Knut Require Import Model.Str Model.Dec Model.Date Model.Account Model.Ledger Model.ImpCommonA
     Model.ImpCommonB Model.Imp.Revolut2.
Import ListNotations.

Fixpoint import_revolut2_files (acct feeacct : account) (files : list (list citem)) : mresult (list directive) :=
  match files with
  | [] => MOk []
  | f :: rest =>
    mbind (import_revolut2 acct feeacct f) (fun ds =>
    mbind (import_revolut2_files acct feeacct rest) (fun ds' => MOk (ds ++ ds')))
  end.

Definition run_revolut2_files (aflag fflag : str) (files : list (list citem)) : irun :=
  match resolve_flags [aflag; fflag] with
  | Some [a; f] => finish_run_b (import_revolut2_files a f files)
  | _ => mkRun [] SErr
  end.
