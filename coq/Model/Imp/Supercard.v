(* Model of cmd/importer/supercard/supercard.go (command ch.supercard).
   Reader: csv.NewReader(charmap.ISO8859_1.NewDecoder().Reader(f)), TrimLeadingSpace,
   Comma ';', FieldsPerRecord = 2 for the first read, 13 for the second, -1 afterwards
   (the harness runs it with these settings). *)
From Coq Require Import ZArith List Bool.
From Knut Require Import Model.Str Model.Dec Model.Date Model.Account Model.Ledger Model.ImpCommonA.
Import ListNotations.
Open Scope bool_scope.
Open Scope Z_scope.

Definition s_sep : str := [115;101;112;61].                                          (* "sep=" *)
Definition s_saldovortrag : str := [83;97;108;100;111;118;111;114;116;114;97;103]. (* "Saldovortrag" *)

(* parser.parseAmount: Gutschrift (field 11) wins over Belastung (field 10, negated) *)
Definition sup_amount (belastung gutschrift : str) : mresult dec :=
  if negb (is_empty gutschrift) then
    match new_from_string gutschrift with Some q => MOk (mul_sign false q) | None => MErr e_amount end
  else if negb (is_empty belastung) then
    match new_from_string belastung with Some q => MOk (mul_sign true q) | None => MErr e_amount end
  else MErr e_amount.

(* parseWords: Buchungstext and Branche joined by a blank, runs of \s collapsed *)
Definition sup_words (text branche : str) : str := collapse_ws false (text ++ [32] ++ branche).

(* parser.readLine: None = the record is skipped *)
Definition sup_line (acct : account) (r : list str) : mresult (option directive) :=
  fld_p r 4 (fun text =>
  if str_eqb text s_saldovortrag then MOk None
  else fld_p r 0 (fun konto =>
  if len_is r 11 || is_empty konto then MOk None
  else if negb (len_is r 13) then MErr e_items
  else
    fld_p r 5 (fun branche => fld_p r 9 (fun cur => fld_p r 3 (fun ds =>
    match parse_dmy ds with
    | None => MErr e_date
    | Some d =>
      fld_p r 10 (fun bel => fld_p r 11 (fun gut =>
      mbind (sup_amount bel gut) (fun q =>
      if valid_name cur then MOk (Some (simple_txn d (sup_words text branche) tbd_account acct cur q))
      else MErr e_commodity)))
    end))))).

Fixpoint sup_lines (acct : account) (items : list citem) : mresult (list directive) :=
  match items with
  | [] => MOk []
  | CBad :: _ => MErr e_csv
  | CRec r :: rest =>
    mbind (sup_line acct r) (fun o =>
    mbind (sup_lines acct rest) (fun ds =>
    MOk (match o with Some d => d :: ds | None => ds end)))
  end.

(* parser.parse: checkFirstLine ("sep=;" read with Comma ';'), skipHeader, then the lines *)
Definition import_supercard (acct : account) (items : list citem) : mresult (list directive) :=
  match items with
  | [] => MErr e_eof
  | CBad :: _ => MErr e_csv
  | CRec first :: rest =>
    fld_p first 0 (fun a => fld_p first 1 (fun b =>
    if negb (str_eqb a s_sep) || negb (is_empty b) then MErr e_line
    else
      match rest with
      | [] => MErr e_eof
      | CBad :: _ => MErr e_csv
      | CRec _ :: rest' => sup_lines acct rest'
      end))
  end.

Definition run_supercard (aflag : str) (items : list citem) : irun :=
  match account_flag aflag with
  | AErr => mkRun [] SErr
  | ANil => finish_run true [] (import_supercard [] items)
  | AAcc a => finish_run false [] (import_supercard a items)
  end.
