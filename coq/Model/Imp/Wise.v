(* Model of cmd/importer/wise/wise.go (command com.wise).
   Reader: csv.NewReader(f), TrimLeadingSpace, Comma ',', FieldsPerRecord = 18 (the harness runs
   it: a record of another width arrives as a reader error, so the model reads records of
   exactly 18 fields and answers any other with the index panic Go would raise). *)
From Coq Require Import ZArith List Bool.
From Knut Require Import Model.Str Model.Dec Model.Date Model.Account Model.Ledger Model.ImpCommonA
     Model.ImpCommonB.
Import ListNotations.
Open Scope bool_scope.
Open Scope Z_scope.

Definition ws_header : list str :=
  [[73;68];                                                                   (* ID *)
   [83;116;97;116;117;115];                                                   (* Status *)
   [68;105;114;101;99;116;105;111;110];                                       (* Direction *)
   [67;114;101;97;116;101;100;32;111;110];                                    (* Created on *)
   [70;105;110;105;115;104;101;100;32;111;110];                               (* Finished on *)
   [83;111;117;114;99;101;32;102;101;101;32;97;109;111;117;110;116];          (* Source fee amount *)
   [83;111;117;114;99;101;32;102;101;101;32;99;117;114;114;101;110;99;121];   (* Source fee currency *)
   [84;97;114;103;101;116;32;102;101;101;32;97;109;111;117;110;116];          (* Target fee amount *)
   [84;97;114;103;101;116;32;102;101;101;32;99;117;114;114;101;110;99;121];   (* Target fee currency *)
   [83;111;117;114;99;101;32;110;97;109;101];                                 (* Source name *)
   [83;111;117;114;99;101;32;97;109;111;117;110;116;32;40;97;102;116;101;114;32;102;101;101;115;41];   (* Source amount (after fees) *)
   [83;111;117;114;99;101;32;99;117;114;114;101;110;99;121];                  (* Source currency *)
   [84;97;114;103;101;116;32;110;97;109;101];                                 (* Target name *)
   [84;97;114;103;101;116;32;97;109;111;117;110;116;32;40;97;102;116;101;114;32;102;101;101;115;41];   (* Target amount (after fees) *)
   [84;97;114;103;101;116;32;99;117;114;114;101;110;99;121];                  (* Target currency *)
   [69;120;99;104;97;110;103;101;32;114;97;116;101];                          (* Exchange rate *)
   [82;101;102;101;114;101;110;99;101];                                       (* Reference *)
   [66;97;116;99;104]].                                                       (* Batch *)

Definition s_cancelled : str := [67;65;78;67;69;76;76;69;68].
Definition s_out : str := [79;85;84].
Definition s_in : str := [73;78].
Definition s_neutral : str := [78;69;85;84;82;65;76].
Definition s_slash : str := [32;47;32].                                  (* " / " *)
Definition s_convert : str := [32;47;32;99;111;110;118;101;114;116;32].  (* " / convert " *)
Definition s_to_ : str := [32;116;111;32].                               (* " to " *)

(* parseHeader: for i, want := range header { r[i] != want } *)
Fixpoint ws_header_ok (r hdr : list str) : mresult unit :=
  match hdr, r with
  | [], _ => MOk tt
  | _ :: _, [] => MPanic e_index
  | h :: hdr', x :: r' => if str_eqb x h then ws_header_ok r' hdr' else MErr e_header
  end.

(* parseFee: the booking of one fee column pair; MustGet panics on an invalid currency *)
Definition ws_fee (acct feeacct : account) (amount currency : str) : mresult (list leg) :=
  if is_empty currency then MOk []
  else match new_from_string amount with
       | None => MErr e_amount
       | Some q => if is_zero q then MOk []
                   else if negb (valid_name currency) then MPanic e_commodity
                   else MOk [mkLeg acct feeacct currency q]
       end.

Inductive ws_dir := WOut | WIn | WNeutral | WBad.
Definition ws_direction (s : str) : ws_dir :=
  if str_eqb s s_out then WOut else if str_eqb s s_in then WIn else if str_eqb s s_neutral then WNeutral else WBad.

(* parseBooking on one record: the transactions it adds to the journal (when a later step fails
   the run ends with an error and nothing is printed, so what was added before does not show).
   [repaired] = false is the code as it stands: an incoming payment in another currency (IN,
   source currency <> target currency) books the conversion source -> target and then receives the
   TARGET amount once more (findings/C13-wise-incoming-conversion.md); [repaired] = true is the
   code with findings/C13-wise-incoming-conversion.patch: the account receives the source amount. *)
Definition ws_booking (repaired : bool) (acct feeacct trading : account) (r : list str) : mresult (list directive) :=
  match r with
  | [id; status; direction; created; _; sfa; sfc; tfa; tfc; _; samt; scur; tname; tamt; tcur; _; _; _] =>
    match prefix10 created with
    | None => MPanic e_slice
    | Some ds =>
      match parse_iso ds with
      | None => MErr e_date
      | Some d =>
        if str_eqb status s_cancelled then MOk []
        else
          mbind (ws_fee acct feeacct sfa sfc) (fun fee1 =>
          mbind (ws_fee acct feeacct tfa tfc) (fun fee2 =>
          match new_from_string samt with
          | None => MErr e_amount
          | Some src =>
            match new_from_string tamt with
            | None => MErr e_amount
            | Some tgt =>
              if negb (valid_name scur) || negb (valid_name tcur) then MPanic e_commodity
              else
                let idtext := dash_to_space id in
                let payment (legs : list leg) := legs_txn d (idtext ++ s_slash ++ tname) legs None in
                if negb (str_eqb scur tcur) then
                  let convert :=
                    legs_txn d (idtext ++ s_convert ++ to_string src ++ [32] ++ scur ++ s_to_ ++ to_string tgt ++ [32] ++ tcur)
                             (fee1 ++ fee2 ++ [mkLeg acct trading scur src; mkLeg trading acct tcur tgt]) None in
                  match ws_direction direction with
                  | WOut => MOk [convert; payment [mkLeg acct tbd_account tcur tgt]]
                  | WIn => MOk [convert; payment [if repaired then mkLeg tbd_account acct scur src
                                                  else mkLeg tbd_account acct tcur tgt]]
                  | WNeutral => MOk [convert]
                  | WBad => MErr e_direction
                  end
                else
                  match ws_direction direction with
                  | WOut => MOk [payment (fee1 ++ fee2 ++ [mkLeg acct tbd_account scur src])]
                  | WIn => MOk [payment (fee1 ++ fee2 ++ [mkLeg tbd_account acct scur src])]
                  | WNeutral => MOk []
                  | WBad => MErr e_direction
                  end
            end
          end))
      end
    end
  | _ => MPanic e_index
  end.

Fixpoint ws_rows (repaired : bool) (acct feeacct trading : account) (items : list citem) : mresult (list directive) :=
  match items with
  | [] => MOk []
  | CBad :: _ => MErr e_csv
  | CRec r :: rest =>
    mbind (ws_booking repaired acct feeacct trading r) (fun ds =>
    mbind (ws_rows repaired acct feeacct trading rest) (fun ds' => MOk (ds ++ ds')))
  end.

(* parser.parse *)
Definition import_wise (repaired : bool) (acct feeacct trading : account) (items : list citem) : mresult (list directive) :=
  match items with
  | [] => MErr e_eof
  | CBad :: _ => MErr e_csv
  | CRec h :: rest => mbind (ws_header_ok h ws_header) (fun _ => ws_rows repaired acct feeacct trading rest)
  end.

(* runner.run (one file): the file is opened, then the three flags are resolved *)
Definition run_wise (repaired : bool) (aflag fflag tflag : str) (items : list citem) : irun :=
  match resolve_flags [aflag; fflag; tflag] with
  | Some [a; f; t] => finish_run_b (import_wise repaired a f t items)
  | _ => mkRun [] SErr
  end.
