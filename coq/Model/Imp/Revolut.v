(* Model of cmd/importer/revolut/revolut.go (command revolut, the older Revolut export).
   Reader: csv.NewReader(f), TrimLeadingSpace, Comma ';', FieldsPerRecord = 0 (every record must
   have as many fields as the first; the harness runs it). *)
From Coq Require Import ZArith List Bool.
From Knut Require Import Model.Str Model.Dec Model.Date Model.Account Model.Ledger Model.ImpCommonA
     Model.ImpCommonB.
Import ListNotations.
Open Scope bool_scope.
Open Scope Z_scope.

Definition s_paid_out : str := [80;97;105;100;32;79;117;116;32;40].   (* "Paid Out (" *)
Definition s_sold : str := [83;111;108;100;32].                        (* "Sold " *)
Definition s_to : str := [32;116;111;32].                              (* " to " *)
Definition s_bought : str := [66;111;117;103;104;116;32].              (* "Bought " *)
Definition s_from : str := [32;102;114;111;109;32].                    (* " from " *)

(* re = `Paid Out \(([A-Za-z]+)\)`, FindStringSubmatch: the leftmost position where "Paid Out ("
   is followed by a (maximal, since ')' is no letter) non-empty run of letters and ')' *)
Definition rv_cur_here (s : str) : option str :=
  if is_prefix s_paid_out s then
    let '(a, rest) := span is_alpha (skipn (length s_paid_out) s) in
    match a, rest with
    | _ :: _, 41 :: _ => Some a
    | _, _ => None
    end
  else None.
Fixpoint rv_cur (s : str) : option str :=
  match rv_cur_here s with
  | Some a => Some a
  | None => match s with [] => None | _ :: t => rv_cur t end
  end.

(* parseHeader *)
Definition rv_header (r : list str) : mresult commodity :=
  if negb (len_is r 9) then MErr e_items
  else fld_p r 2 (fun f => match rv_cur f with Some c => MOk c | None => MErr e_header end).

(* fxSellRegex = `Sold [A-Z]+ to [A-Z]+`, fxBuyRegex = `Bought [A-Z]+ from [A-Z]+` (MatchString) *)
Definition rv_is_sell (s : str) : bool := rx_anywhere (rx_two_caps_here s_sold s_to) s.
Definition rv_is_buy (s : str) : bool := rx_anywhere (rx_two_caps_here s_bought s_from) s.

(* parseDecimal *)
Definition rv_decimal (s : str) : option dec := new_from_string (remove_byte 39 s).

(* parseCombiField: "<currency> <amount>" *)
Definition rv_combi (f : str) : mresult (commodity * dec) :=
  match ufields f with
  | [c; a] => if negb (valid_name c) then MErr e_commodity
              else match rv_decimal a with Some q => MOk (c, q) | None => MErr e_amount end
  | _ => MErr e_items
  end.

(* Reference, Exchange Rate, Category joined by blanks, runs of \s collapsed, trimmed *)
Definition rv_desc (reference rate category : str) : str :=
  trim_space (collapse_ws false (join_sp [reference; rate; category])).

(* the zero time.Time (p.date before the first row): 1 January of year 1 *)
Definition zero_date : Z := of_civil 1 1 1.

(* parseBooking: the directives of one record and the new p.date *)
Definition rv_booking (acct : account) (cur : commodity) (last : Z) (r : list str)
  : mresult (list directive * Z) :=
  if negb (len_is r 9) then MErr e_items
  else
  fld_p r 0 (fun f0 =>
  match parse_d_mon_y f0 with
  | None => MErr e_date
  | Some d =>
    mbind (if d =? last then MOk []
           else fld_p r 6 (fun f6 => match rv_decimal f6 with
                                     | Some b => MOk [assertion d acct cur b]
                                     | None => MErr e_amount
                                     end)) (fun asserts =>
    fld_p r 1 (fun ref => fld_p r 7 (fun rate => fld_p r 8 (fun cat =>
    fld_p r 2 (fun out => fld_p r 3 (fun inn =>
    let desc := rv_desc ref rate cat in
    mbind (if negb (is_empty out) && is_empty inn then
             match rv_decimal out with Some q => MOk (mul_sign true q) | None => MErr e_amount end
           else if is_empty out && negb (is_empty inn) then
             match rv_decimal inn with Some q => MOk (mul_sign false q) | None => MErr e_amount end
           else MErr e_amount) (fun q =>
    let val := valuation_account_for acct in
    if rv_is_sell ref then
      fld_p r 4 (fun f4 =>
      mbind (rv_combi f4) (fun oc =>
      MOk (asserts ++ [legs_txn d desc [mkLeg val acct cur q; mkLeg val acct (fst oc) (snd oc)] None], d)))
    else if rv_is_buy ref then
      fld_p r 5 (fun f5 =>
      mbind (rv_combi f5) (fun oc =>
      MOk (asserts ++ [legs_txn d desc [mkLeg val acct cur q; mkLeg val acct (fst oc) (neg (snd oc))] None], d)))
    else MOk (asserts ++ [legs_txn d desc [mkLeg tbd_account acct cur q] None], d))))))))
  end).

Fixpoint rv_rows (acct : account) (cur : commodity) (last : Z) (items : list citem) : mresult (list directive) :=
  match items with
  | [] => MOk []
  | CBad :: _ => MErr e_csv
  | CRec r :: rest =>
    mbind (rv_booking acct cur last r) (fun x =>
    mbind (rv_rows acct cur (snd x) rest) (fun ds => MOk (fst x ++ ds)))
  end.

(* parser.parse *)
Definition import_revolut (acct : account) (items : list citem) : mresult (list directive) :=
  match items with
  | [] => MErr e_eof
  | CBad :: _ => MErr e_csv
  | CRec h :: rest => mbind (rv_header h) (fun cur => rv_rows acct cur zero_date rest)
  end.

(* runner.run: the file is opened, then the account flag is resolved *)
Definition run_revolut (aflag : str) (items : list citem) : irun :=
  match resolve_flags [aflag] with
  | Some [a] => finish_run_b (import_revolut a items)
  | _ => mkRun [] SErr
  end.
