(* Model of cmd/importer/swisscard2/swisscard2.go (command ch.swisscard2).
   Reader: csv.NewReader, TrimLeadingSpace, FieldsPerRecord = 12 (the harness runs it). *)
From Coq Require Import ZArith List Bool.
From Knut Require Import Model.Str Model.Dec Model.Date Model.Account Model.Ledger Model.ImpCommonA.
Import ListNotations.
Open Scope bool_scope.
Open Scope Z_scope.

Definition sep3 : str := [32;47;32].   (* " / " *)

(* fmt.Sprintf("%s / %s / %s / %s / %s / %s", beschreibung, Händler, händlerKategorie,
   kartennummer, registrierteKategorie, debitKredit) *)
Definition sc2_desc (r : list str) : option str :=
  match fld r 1, fld r 2, fld r 10, fld r 3, fld r 11, fld r 8 with
  | Some a, Some b, Some c, Some d, Some e, Some f =>
    Some (a ++ sep3 ++ b ++ sep3 ++ c ++ sep3 ++ d ++ sep3 ++ e ++ sep3 ++ f)
  | _, _, _, _, _, _ => None
  end.

(* parser.readBooking on one record: date, then MustGet(currency) (panics), then the amount,
   then the description (whose indexing cannot fail in a 12-field record; the model keeps the
   panic for shorter records) *)
Definition sc2_booking (acct : account) (r : list str) : mresult directive :=
  fld_p r 0 (fun ds =>
  match parse_dmy ds with
  | None => MErr e_date
  | Some d =>
    fld_p r 4 (fun cur =>
    if negb (valid_name cur) then MPanic e_commodity
    else
      fld_p r 5 (fun amt =>
      match new_from_string amt with
      | None => MErr e_amount
      | Some q =>
        match sc2_desc r with
        | None => MPanic e_index
        | Some desc => MOk (simple_txn d desc acct tbd_account cur q)
        end
      end))
  end).

Fixpoint sc2_rows (acct : account) (items : list citem) : mresult (list directive) :=
  match items with
  | [] => MOk []
  | CBad :: _ => MErr e_csv
  | CRec r :: rest =>
    mbind (sc2_booking acct r) (fun d =>
    mbind (sc2_rows acct rest) (fun ds => MOk (d :: ds)))
  end.

(* parser.parse: the header record is dropped *)
Definition import_swisscard2 (acct : account) (items : list citem) : mresult (list directive) :=
  match items with
  | [] => MErr e_eof
  | CBad :: _ => MErr e_csv
  | CRec _ :: rest => sc2_rows acct rest
  end.

(* runner.run: the file is opened, then the account flag is resolved *)
Definition run_swisscard2 (aflag : str) (items : list citem) : irun :=
  match account_flag aflag with
  | AErr => mkRun [] SErr
  | ANil => finish_run true [] (import_swisscard2 [] items)
  | AAcc a => finish_run false [] (import_swisscard2 a items)
  end.
