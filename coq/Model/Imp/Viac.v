(* Model of cmd/importer/viac/viac.go (command ch.viac).
   Input: the `dailyWealth` array as encoding/json decoded it into []dailyValue
   (Date string, Value json.Number rendered by String()), or a decoding error. *)
From Coq Require Import ZArith List Bool.
From Knut Require Import Model.Str Model.Dec Model.Date Model.Account Model.Ledger Model.ImpCommonA.
Import ListNotations.
Open Scope bool_scope.
Open Scope Z_scope.

Inductive vinput := VErr | VValues (l : list (str * str)).

(* the body of the loop over resp.DailyValues; [from] is the --from date (day 0 = zero time
   when the flag is absent: nothing is before it) *)
Fixpoint viac_values (com : commodity) (from : Z) (l : list (str * str)) : mresult (list directive) :=
  match l with
  | [] => MOk []
  | (ds, vs) :: rest =>
    match parse_iso ds with
    | None => MErr e_date
    | Some d =>
      if d <? from then viac_values com from rest
      else
        match new_from_string vs with
        | None => MErr e_amount
        | Some a =>
          if is_zero a then viac_values com from rest
          else mbind (viac_values com from rest) (fun ps => MOk (DPrice d com (round a 2) s_CHF :: ps))
        end
    end
  end.

Definition import_viac (com : commodity) (from : Z) (inp : vinput) : mresult (list directive) :=
  match inp with
  | VErr => MErr e_line
  | VValues l => viac_values com from l
  end.

Definition has_price (ds : list directive) : bool :=
  existsb (fun d => match d with DPrice _ _ _ _ => true | _ => false end) ds.

(* runner.run: flags.CommodityFlag.Value gives nil for "" (the printer dereferences it for the
   first price), an error for an invalid name; the --from flag is parsed by pflag before run *)
Definition run_viac (cflag : str) (from : option str) (inp : vinput) : irun :=
  match (match from with None => Some 0 | Some f => parse_iso f end) with
  | None => mkRun [] SErr
  | Some fr =>
    if is_empty cflag then
      match import_viac [] fr inp with
      | MOk ds => if has_price ds then mkRun [] SPanic else mkRun (print_directives ds) SOk
      | _ => mkRun [] SErr
      end
    else if negb (valid_name cflag) then mkRun [] SErr
    else finish_run false [] (import_viac cflag fr inp)
  end.
