(* Model of cmd/importer/cumulus/cumulus.go (command ch.cumulus).
   Reader: csv.NewReader, FieldsPerRecord = -1, LazyQuotes (the harness runs it). *)
From Coq Require Import ZArith List Bool.
From Knut Require Import Model.Str Model.Dec Model.Date Model.Account Model.Ledger Model.ImpCommonA.
Import ListNotations.
Open Scope bool_scope.
Open Scope Z_scope.

Definition s_rundung : str :=   (* "Rundungskorrektur" *)
  [82;117;110;100;117;110;103;115;107;111;114;114;101;107;116;117;114].

(* parseDecimal *)
Definition cum_decimal (s : str) : option dec := new_from_string (remove_byte 39 s).

(* parseAmount(creditField, debitField): exactly one field is filled; the first is negated *)
Definition cum_amount (credit_field debit_field : str) : mresult dec :=
  if negb (is_empty credit_field) && is_empty debit_field then
    match cum_decimal credit_field with Some a => MOk (mul_sign true a) | None => MErr e_amount end
  else if is_empty credit_field && negb (is_empty debit_field) then
    match cum_decimal debit_field with Some a => MOk (mul_sign false a) | None => MErr e_amount end
  else MErr e_amount.

(* a transaction.Builder under construction: date, description, quantity *)
Definition cbuilder := (Z * str * dec)%type.

(* what one record does to the list of builders (kept in reverse: head = last appended) *)
Inductive cstep := CSkipped | CAppend (b : cbuilder) | CComment (s : str).

(* parseRounding *)
Definition cum_rounding (r : list str) : mresult (option cbuilder) :=
  fld_p r 0 (fun f0 =>
  if negb (date_rx f0) then MOk None
  else fld_p r 1 (fun f1 =>
  if negb (str_eqb f1 s_rundung) then MOk None
  else if negb (len_is r 4) then MErr e_items
  else match parse_dmy f0 with
       | None => MErr e_date
       | Some d =>
         fld_p r 3 (fun f3 => fld_p r 2 (fun f2 =>
         mbind (cum_amount f3 f2) (fun a => MOk (Some (d, f1, a)))))
       end)).

(* parseFXComment: five fields, only the third is filled *)
Definition cum_fxcomment (r : list str) : option str :=
  match r with
  | [f0; f1; f2; f3; f4] =>
    if is_empty f0 && is_empty f1 && negb (is_empty f2) && is_empty f3 && is_empty f4
    then Some f2 else None
  | _ => None
  end.

(* parseBooking *)
Definition cum_booking (r : list str) : mresult (option cbuilder) :=
  fld_p r 0 (fun f0 =>
  if negb (date_rx f0) then MOk None
  else fld_p r 1 (fun f1 =>
  if negb (date_rx f1) then MOk None
  else if negb (len_is r 5) then MErr e_items
  else match parse_dmy f0 with
       | None => MErr e_date
       | Some d =>
         fld_p r 2 (fun f2 => fld_p r 4 (fun f4 => fld_p r 3 (fun f3 =>
         mbind (cum_amount f4 f3) (fun a => MOk (Some (d, f2, a))))))
       end)).

(* parser.readLine: rounding, then FX comment, then booking, else the record is ignored *)
Definition cum_line (acc : list cbuilder) (r : list str) : mresult (list cbuilder) :=
  mbind (cum_rounding r) (fun ro =>
  match ro with
  | Some b => MOk (b :: acc)
  | None =>
    match cum_fxcomment r with
    | Some c =>
      match acc with
      | [] => MErr e_line
      | (d, desc, q) :: rest => MOk ((d, desc ++ [32] ++ c, q) :: rest)
      end
    | None =>
      mbind (cum_booking r) (fun bo =>
      match bo with
      | Some b => MOk (b :: acc)
      | None => MOk acc
      end)
    end
  end).

Fixpoint cum_loop (acc : list cbuilder) (items : list citem) : mresult (list cbuilder) :=
  match items with
  | [] => MOk acc
  | CBad :: _ => MErr e_csv
  | CRec r :: rest => mbind (cum_line acc r) (fun acc' => cum_loop acc' rest)
  end.

(* Credit: TBD, Debit: the account, CHF *)
Definition cum_txn (acct : account) (b : cbuilder) : directive :=
  let '(d, desc, q) := b in simple_txn d desc tbd_account acct s_CHF q.

Definition import_cumulus (acct : account) (items : list citem) : mresult (list directive) :=
  mbind (cum_loop [] items) (fun acc => MOk (map (cum_txn acct) (rev acc))).

(* runner.run: the account flag is resolved before the file is opened *)
Definition run_cumulus (aflag : str) (items : list citem) : irun :=
  match account_flag aflag with
  | AErr => mkRun [] SErr
  | ANil => finish_run true [] (import_cumulus [] items)
  | AAcc a => finish_run false [] (import_cumulus a items)
  end.
