(* Model of cmd/importer/interactivebrokers/interactivebrokers.go (command us.interactivebrokers).
   Reader: csv.NewReader(f), FieldsPerRecord = -1, LazyQuotes (the harness runs it).  Records have
   any number of fields >= 1; the section parsers index them without a length check. *)
From Coq Require Import ZArith List Bool.
From Knut Require Import Model.Str Model.Dec Model.Date Model.Account Model.Ledger Model.ImpCommonA
     Model.ImpCommonB.
Import ListNotations.
Open Scope bool_scope.
Open Scope Z_scope.

Definition s_account_information : str := [65;99;99;111;117;110;116;32;73;110;102;111;114;109;97;116;105;111;110].
Definition s_data : str := [68;97;116;97].
Definition s_base_currency : str := [66;97;115;101;32;67;117;114;114;101;110;99;121].
Definition s_statement : str := [83;116;97;116;101;109;101;110;116].
Definition s_period : str := [80;101;114;105;111;100].
Definition s_trades : str := [84;114;97;100;101;115].
Definition s_order : str := [79;114;100;101;114].
Definition s_forex : str := [70;111;114;101;120].
Definition s_stocks : str := [83;116;111;99;107;115].
Definition s_deposits : str := [68;101;112;111;115;105;116;115;32;38;32;87;105;116;104;100;114;97;119;97;108;115].
Definition s_total : str := [84;111;116;97;108].
Definition s_dividends : str := [68;105;118;105;100;101;110;100;115].
Definition s_withholding : str := [87;105;116;104;104;111;108;100;105;110;103;32;84;97;120].
Definition s_interest : str := [73;110;116;101;114;101;115;116].
Definition s_open_positions : str := [79;112;101;110;32;80;111;115;105;116;105;111;110;115].
Definition s_summary : str := [83;117;109;109;97;114;121].
Definition s_forex_balances : str := [70;111;114;101;120;32;66;97;108;97;110;99;101;115].
Definition s_dash : str := [32;45;32].                          (* " - " *)
Definition s_buy : str := [66;117;121;32].                      (* "Buy " *)
Definition s_sell : str := [83;101;108;108;32].                 (* "Sell " *)
Definition s_deposit : str := [68;101;112;111;115;105;116;32].  (* "Deposit " *)
Definition s_withdraw : str := [87;105;116;104;100;114;97;119;32].
Definition s_at_ : str := [32;64;32].                           (* " @ " *)

(* a && chain over fields: false at the first test that fails, panic when a field that has to be
   looked at does not exist *)
Fixpoint conds (r : list str) (cs : list (nat * (str -> bool))) : mresult bool :=
  match cs with
  | [] => MOk true
  | (i, f) :: rest =>
    match fld r i with
    | None => MPanic e_index
    | Some s => if f s then conds r rest else MOk false
    end
  end.

Definition eqs (a : str) : str -> bool := fun s => str_eqb s a.

(* parseDecimal / parseRoundedDecimal *)
Definition ib_decimal (s : str) : option dec := new_from_string (remove_byte 44 s).
Definition ib_rounded (s : str) : option dec :=
  match ib_decimal s with Some d => Some (round d 2) | None => None end.

(* parseDate / parseDateFromDateTime *)
Definition ib_date (s : str) : mresult Z :=
  match parse_iso s with Some d => MOk d | None => MErr e_date end.
Definition ib_date10 (s : str) : mresult Z :=
  match prefix10 s with None => MPanic e_slice | Some p => ib_date p end.

Definition ib_com (s : str) : mresult commodity := if valid_name s then MOk s else MErr e_commodity.
Definition ib_dec (o : option dec) : mresult dec := match o with Some d => MOk d | None => MErr e_amount end.

(* the part of s before the first occurrence of sep, and what follows it *)
Fixpoint cut_sep (sep : str) (s : str) : option (str * str) :=
  if is_prefix sep s then Some ([], skipn (length sep) s)
  else match s with
       | [] => None
       | c :: t => match cut_sep sep t with Some (a, b) => Some (c :: a, b) | None => None end
       end.

(* dividendSymbolRegex.FindString: the first maximal run of letters and digits *)
Definition ib_symbol (s : str) : mresult commodity :=
  match fst (span is_alnum (drop_while (fun c => negb (is_alnum c)) s)) with
  | [] => MErr e_symbol
  | sym => MOk sym
  end.

Record ib_state := mkIb { ib_base : option commodity; ib_date_to : Z }.

Definition ib_trade_desc (qty : dec) (stock : commodity) (price : dec) (cur : commodity) : str :=
  (if is_pos qty then s_buy else s_sell) ++ to_string qty ++ [32] ++ stock ++ s_at_ ++ to_string price ++ [32] ++ cur.

(* readLine: the state after the record and the directives it adds *)
Definition ib_line (acct dividend interest tax fee trading : account) (st : ib_state) (r : list str)
  : mresult (ib_state * list directive) :=
  let none := MOk (st, []) in
  match r with
  | [] => none
  | s0 :: _ =>
    if str_eqb s0 s_account_information then
      mbind (conds r [(1%nat, eqs s_data); (2%nat, eqs s_base_currency)]) (fun ok =>
      if ok then fld_p r 3 (fun v => mbind (ib_com v) (fun c => MOk (mkIb (Some c) (ib_date_to st), []))) else none)
    else if str_eqb s0 s_statement then
      mbind (conds r [(1%nat, eqs s_data); (2%nat, eqs s_period)]) (fun ok =>
      if ok then
        fld_p r 3 (fun v =>
        let '(d0, rest) := match cut_sep s_dash v with Some (a, b) => (a, Some b) | None => (v, None) end in
        match parse_month_d_y d0 with
        | None => MErr e_date
        | Some _ =>
          match rest with
          | None => MPanic e_index
          | Some b =>
            let d1 := match cut_sep s_dash b with Some (a, _) => a | None => b end in
            match parse_month_d_y d1 with
            | None => MErr e_date
            | Some dt => MOk (mkIb (ib_base st) dt, [])
            end
          end
        end)
      else none)
    else if str_eqb s0 s_trades then
      mbind (conds r [(1%nat, eqs s_data); (2%nat, eqs s_order); (3%nat, eqs s_forex)]) (fun isfx =>
      if isfx then
        match ib_base st with
        | None => MErr e_base
        | Some base =>
          fld_p r 4 (fun f4 => mbind (ib_com f4) (fun cur =>
          fld_p r 5 (fun f5 => mbind (ib_com (match cut_sep [46] f5 with Some (a, _) => a | None => f5 end)) (fun stock =>
          fld_p r 6 (fun f6 => mbind (ib_date10 f6) (fun d =>
          fld_p r 7 (fun f7 => mbind (ib_dec (ib_rounded f7)) (fun qty =>
          fld_p r 8 (fun f8 => mbind (ib_dec (ib_decimal f8)) (fun price =>
          fld_p r 10 (fun f10 => mbind (ib_dec (ib_rounded f10)) (fun proceeds =>
          fld_p r 11 (fun f11 => mbind (ib_dec (ib_rounded f11)) (fun feeq =>
          MOk (st, [legs_txn d (ib_trade_desc qty stock price cur)
                      ([mkLeg trading acct stock qty; mkLeg trading acct cur proceeds] ++
                       (if is_zero feeq then [] else [mkLeg fee acct base feeq]))
                      (Some [stock; cur])])))))))))))))))
        end
      else
        mbind (conds r [(1%nat, eqs s_data); (2%nat, eqs s_order); (3%nat, eqs s_stocks)]) (fun isstock =>
        if isstock then
          fld_p r 4 (fun f4 => mbind (ib_com f4) (fun cur =>
          fld_p r 5 (fun f5 => mbind (ib_com f5) (fun stock =>
          fld_p r 6 (fun f6 => mbind (ib_date10 f6) (fun d =>
          fld_p r 7 (fun f7 => mbind (ib_dec (ib_rounded f7)) (fun qty =>
          fld_p r 8 (fun f8 => mbind (ib_dec (ib_decimal f8)) (fun price =>
          fld_p r 10 (fun f10 => mbind (ib_dec (ib_rounded f10)) (fun proceeds =>
          fld_p r 11 (fun f11 => mbind (ib_dec (new_from_string f11)) (fun feeq =>
          MOk (st, [legs_txn d (ib_trade_desc qty stock price cur)
                      [mkLeg trading acct stock qty; mkLeg trading acct cur proceeds; mkLeg fee acct cur feeq]
                      (Some [stock; cur])])))))))))))))))
        else none))
    else if str_eqb s0 s_deposits then
      mbind (conds r [(1%nat, eqs s_data); (2%nat, fun s => negb (str_eqb s s_total)); (3%nat, fun s => negb (is_empty s))]) (fun ok =>
      if ok then
        fld_p r 2 (fun f2 => mbind (ib_com f2) (fun cur =>
        fld_p r 3 (fun f3 => mbind (ib_date f3) (fun d =>
        fld_p r 5 (fun f5 => mbind (ib_dec (ib_rounded f5)) (fun q =>
        MOk (st, [legs_txn d ((if is_pos q then s_deposit else s_withdraw) ++ to_string q ++ [32] ++ cur)
                    [mkLeg tbd_account acct cur q] None])))))))
      else none)
    else if str_eqb s0 s_dividends then
      mbind (conds r [(1%nat, eqs s_data); (2%nat, fun s => negb (is_prefix s_total s))]) (fun ok =>
      if ok && len_is r 6 then
        fld_p r 2 (fun f2 => mbind (ib_com f2) (fun cur =>
        fld_p r 3 (fun f3 => mbind (ib_date f3) (fun d =>
        fld_p r 5 (fun f5 => mbind (ib_dec (ib_decimal f5)) (fun q =>
        fld_p r 4 (fun f4 => mbind (ib_symbol f4) (fun sym =>
        MOk (st, [legs_txn d f4 [mkLeg dividend acct cur q] (Some [sym])])))))))))
      else none)
    else if str_eqb s0 s_interest then
      mbind (conds r [(1%nat, eqs s_data); (2%nat, fun s => negb (is_prefix s_total s))]) (fun ok =>
      if ok && len_is r 6 then
        fld_p r 2 (fun f2 => mbind (ib_com f2) (fun cur =>
        fld_p r 3 (fun f3 => mbind (ib_date f3) (fun d =>
        fld_p r 5 (fun f5 => mbind (ib_dec (ib_decimal f5)) (fun q =>
        fld_p r 4 (fun f4 =>
        MOk (st, [legs_txn d f4 [mkLeg interest acct cur q] (Some [cur])]))))))))
      else none)
    else if str_eqb s0 s_withholding then
      mbind (conds r [(1%nat, eqs s_data); (2%nat, fun s => negb (is_prefix s_total s))]) (fun ok =>
      if ok then
        fld_p r 4 (fun f4 =>
        fld_p r 2 (fun f2 => mbind (ib_com f2) (fun cur =>
        fld_p r 3 (fun f3 => mbind (ib_date f3) (fun d =>
        fld_p r 5 (fun f5 => mbind (ib_dec (ib_decimal f5)) (fun q =>
        mbind (ib_symbol f4) (fun sym =>
        MOk (st, [legs_txn d f4 [mkLeg tax acct cur q] (Some [sym])])))))))))
      else none)
    else if str_eqb s0 s_open_positions then
      mbind (conds r [(1%nat, eqs s_data); (2%nat, eqs s_summary)]) (fun ok =>
      if ok then
        if ib_date_to st =? of_civil 1 1 1 then MErr e_period
        else
          fld_p r 5 (fun f5 => mbind (ib_com f5) (fun sym =>
          fld_p r 6 (fun f6 => mbind (ib_dec (new_from_string f6)) (fun q =>
          MOk (st, [assertion (ib_date_to st) acct sym q])))))
      else none)
    else if str_eqb s0 s_forex_balances then
      mbind (conds r [(1%nat, eqs s_data); (2%nat, eqs s_forex)]) (fun ok =>
      if ok then
        if ib_date_to st =? of_civil 1 1 1 then MErr e_period
        else
          fld_p r 4 (fun f4 => mbind (ib_com f4) (fun sym =>
          fld_p r 5 (fun f5 => mbind (ib_dec (ib_rounded f5)) (fun q =>
          MOk (st, [assertion (ib_date_to st) acct sym q])))))
      else none)
    else none
  end.

Fixpoint ib_rows (acct dividend interest tax fee trading : account) (st : ib_state) (items : list citem)
  : mresult (list directive) :=
  match items with
  | [] => MOk []
  | CBad :: _ => MErr e_csv
  | CRec r :: rest =>
    mbind (ib_line acct dividend interest tax fee trading st r) (fun x =>
    mbind (ib_rows acct dividend interest tax fee trading (fst x) rest) (fun ds => MOk (snd x ++ ds)))
  end.

(* parser.parse *)
Definition import_interactivebrokers (acct dividend interest tax fee trading : account) (items : list citem)
  : mresult (list directive) :=
  ib_rows acct dividend interest tax fee trading (mkIb None (of_civil 1 1 1)) items.

(* runner.run: the file is opened, then the flags are resolved: account, interest, dividend, tax,
   fee, trading *)
Definition run_interactivebrokers (aflag iflag dflag wflag fflag tflag : str) (items : list citem) : irun :=
  match resolve_flags [aflag; iflag; dflag; wflag; fflag; tflag] with
  | Some [a; i; d; w; f; t] => finish_run_b (import_interactivebrokers a d i w f t items)
  | _ => mkRun [] SErr
  end.
