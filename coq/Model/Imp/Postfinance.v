(* Model of cmd/importer/postfinance/postfinance.go (command ch.postfinance).
   Reader: csv.NewReader(utfbom.SkipOnly(f)), LazyQuotes, TrimLeadingSpace, Comma ';',
   FieldsPerRecord = -1 (the harness runs it). *)
From Coq Require Import ZArith List Bool.
From Knut Require Import Model.Str Model.Dec Model.Date Model.Account Model.Ledger Model.ImpCommonA.
Import ListNotations.
Open Scope bool_scope.
Open Scope Z_scope.

Definition s_waehrung : str := [87;195;164;104;114;117;110;103;58].   (* "Währung:" *)

(* readKeyValues: two-field records fill a map (a later key overwrites); the first record of
   another length is consumed and ends the header; EOF here is an error *)
Fixpoint pf_keyvalues (kv : list (str * str)) (items : list citem)
  : mresult (list (str * str) * list citem) :=
  match items with
  | [] => MErr e_eof
  | CBad :: _ => MErr e_csv
  | CRec r :: rest =>
    match r with
    | [k; v] => pf_keyvalues ((k, v) :: kv) rest
    | _ => MOk (kv, rest)
    end
  end.

(* map lookup: the most recent assignment wins (kv is in reverse order of assignment) *)
Fixpoint kv_get (kv : list (str * str)) (k : str) : option str :=
  match kv with
  | [] => None
  | (k', v) :: rest => if str_eqb k k' then Some v else kv_get rest k
  end.

(* strings.Trim(s, cutset) with the cutset of '=' and the double quote *)
Definition pf_currency (kv : list (str * str)) : mresult commodity :=
  match kv_get kv s_waehrung with
  | Some s => let sym := trim_set [61; 34] s in
              if valid_name sym then MOk sym else MErr e_commodity
  | None => MOk s_CHF
  end.

(* parseAmount(gutschrift, lastschrift): the filled field, as written *)
Definition pf_amount (gutschrift lastschrift : str) : mresult dec :=
  if negb (is_empty gutschrift) && is_empty lastschrift then
    match new_from_string (remove_byte 39 gutschrift) with Some a => MOk a | None => MErr e_amount end
  else if is_empty gutschrift && negb (is_empty lastschrift) then
    match new_from_string (remove_byte 39 lastschrift) with Some a => MOk a | None => MErr e_amount end
  else MErr e_amount.

(* Avisierungstext, Kategorie, Label: each trimmed, joined by blanks, trimmed again *)
Definition pf_desc (avis kat label : str) : str :=
  trim_space (join_sp [trim_space avis; trim_space kat; trim_space label]).

(* fmt.Println(len(rec), rec): <n> [f1 f2 ...] and a newline -- F13: a debugging statement that
   writes to standard output.  [dbg] = true is the pinned code, [dbg] = false the code with
   that statement removed (findings/C13-postfinance-debug-println.patch). *)
Definition pf_debug_line (dbg : bool) (r : list str) : str :=
  if dbg then digits (Z.of_nat (length r)) ++ [32; 91] ++ join_sp r ++ [93; 10] else [].

(* readBookingLine until a record with fewer than 7 or more than 8 fields; EOF is an error.
   Result: (the directives and the remaining items, what was written to stdout). *)
Fixpoint pf_bookings (dbg : bool) (acct : account) (cur : commodity) (items : list citem)
  : mresult (list directive * list citem) * str :=
  match items with
  | [] => (MErr e_eof, [])
  | CBad :: _ => (MErr e_csv, [])
  | CRec r :: rest =>
    if (Nat.ltb (length r) 7) || (Nat.ltb 8 (length r)) then (MOk ([], rest), pf_debug_line dbg r)
    else
      match r with
      | f0 :: f1 :: f2 :: f3 :: f4 :: f5 :: _ =>
        match parse_dmy f0 with
        | None => (MErr e_date, [])
        | Some d =>
          match pf_amount f2 f3 with
          | MOk q =>
            let '(res, out) := pf_bookings dbg acct cur rest in
            (mbind res (fun x => MOk (simple_txn d (pf_desc f1 f5 f4) tbd_account acct cur q :: fst x, snd x)), out)
          | MErr m => (MErr m, [])
          | MPanic m => (MPanic m, [])
          end
        end
      | _ => (MPanic e_index, [])
      end
  end.

(* readDisclaimer until EOF: every record has exactly one field *)
Fixpoint pf_disclaimer (items : list citem) : mresult unit :=
  match items with
  | [] => MOk tt
  | CBad :: _ => MErr e_csv
  | CRec [_] :: rest => pf_disclaimer rest
  | CRec _ :: _ => MErr e_items
  end.

(* Parser.parse; the second component is what has been written to stdout by then *)
Definition import_postfinance (dbg : bool) (acct : account) (items : list citem) : mresult (list directive) * str :=
  match pf_keyvalues [] items with
  | MErr m => (MErr m, [])
  | MPanic m => (MPanic m, [])
  | MOk (kv, rest) =>
    match pf_currency kv with
    | MErr m => (MErr m, [])
    | MPanic m => (MPanic m, [])
    | MOk cur =>
      let '(res, out) := pf_bookings dbg acct cur rest in
      (mbind res (fun x => mbind (pf_disclaimer (snd x)) (fun _ => MOk (fst x))), out)
    end
  end.

(* runner.runE: the file is opened, then the account flag is resolved *)
Definition run_postfinance (dbg : bool) (aflag : str) (items : list citem) : irun :=
  match account_flag aflag with
  | AErr => mkRun [] SErr
  | ANil => let '(r, out) := import_postfinance dbg [] items in finish_run true out r
  | AAcc a => let '(r, out) := import_postfinance dbg a items in finish_run false out r
  end.
