(* Model of cmd/importer/swissquote/swissquote.go (command ch.swissquote).
   Reader: csv.NewReader(f), LazyQuotes, Comma ';', FieldsPerRecord = 13 (the harness runs it: a
   record of another width arrives as a reader error, so the model reads records of exactly
   13 fields and answers any other with the index panic Go would raise). *)
From Coq Require Import ZArith List Bool.
From Knut Require Import Model.Str Model.Dec Model.Date Model.Account Model.Ledger Model.ImpCommonA
     Model.ImpCommonB.
Import ListNotations.
Open Scope bool_scope.
Open Scope Z_scope.

Definition s_kauf : str := [75;97;117;102].
Definition s_verkauf : str := [86;101;114;107;97;117;102].
Definition sq_forex_types : list str :=
  [[70;111;114;101;120;45;71;117;116;115;99;104;114;105;102;116];             (* Forex-Gutschrift *)
   [70;111;114;101;120;45;66;101;108;97;115;116;117;110;103];                 (* Forex-Belastung *)
   [70;120;45;71;117;116;115;99;104;114;105;102;116;32;67;111;109;112;46];    (* Fx-Gutschrift Comp. *)
   [70;120;45;66;101;108;97;115;116;117;110;103;32;67;111;109;112;46]].       (* Fx-Belastung Comp. *)
Definition sq_dividend_types : list str :=
  [[67;97;112;105;116;97;108;32;71;97;105;110];                               (* Capital Gain *)
   [75;97;112;105;116;97;108;114;195;188;99;107;122;97;104;108;117;110;103];  (* Kapitalrückzahlung *)
   [68;105;118;105;100;101;110;100;101]].                                     (* Dividende *)
Definition s_depot : str := [68;101;112;111;116;103;101;98;195;188;104;114;101;110].   (* Depotgebühren *)
Definition sq_transfer_types : list str :=
  [[69;105;110;122;97;104;108;117;110;103]; [65;117;115;122;97;104;108;117;110;103];   (* Einzahlung, Auszahlung *)
   [86;101;114;103;195;188;116;117;110;103]; [66;101;108;97;115;116;117;110;103]].     (* Vergütung, Belastung *)
Definition s_zins : str := [90;105;110;115].
Definition s_x : str := [32;120;32].       (* " x " *)
Definition s_at : str := [32;64;32].       (* " @ " *)

Definition has_str (l : list str) (s : str) : bool := existsb (str_eqb s) l.

Record sq_record := mkSq {
  sq_date : Z; sq_order : str; sq_type : str; sq_name : str; sq_isin : str;
  sq_symbol : option commodity;       (* nil when the Symbol column is empty *)
  sq_quantity : dec; sq_price : dec; sq_fee : dec; sq_interest : dec; sq_net : dec; sq_balance : dec;
  sq_currency : commodity }.

(* parseDecimal *)
Definition sq_decimal (s : str) : option dec := new_from_string (remove_byte 39 s).

(* lineToRecord *)
Definition sq_line (l : list str) : mresult sq_record :=
  match l with
  | [datum; order; typ; symbol; name; isin; anzahl; preis; kosten; zinsen; netto; saldo; waehrung] =>
    match prefix10 datum with
    | None => MPanic e_slice
    | Some ds =>
      match parse_dmy_dash ds with
      | None => MErr e_date
      | Some d =>
        if negb (is_empty symbol) && negb (valid_name symbol) then MErr e_commodity
        else
          match sq_decimal anzahl, sq_decimal preis, sq_decimal kosten, sq_decimal zinsen, sq_decimal netto, sq_decimal saldo with
          | Some q, Some p, Some f, Some i, Some n, Some b =>
            if negb (valid_name waehrung) then MErr e_commodity
            else MOk (mkSq d order typ name isin (if is_empty symbol then None else Some symbol) q p f i n b waehrung)
          | _, _, _, _, _, _ => MErr e_amount
          end
      end
    end
  | _ => MPanic e_index
  end.

(* r.symbol.Name(): a nil symbol is dereferenced *)
Definition sq_symbol_p {A} (r : sq_record) (k : commodity -> mresult A) : mresult A :=
  match sq_symbol r with Some s => k s | None => MPanic e_nil end.

(* readLine after lineToRecord: parseTrade, parseForex, parseDividend, parseCustodyFees,
   parseMoneyTransfer, parseInterestIncome, parseCatchall.  [last] is the pending first leg of a
   forex exchange.  Result: the directives added and the new pending leg. *)
Definition sq_step (acct dividend interest tax fee trading : account) (last : option sq_record) (r : sq_record)
  : mresult (list directive * option sq_record) :=
  let cur := sq_currency r in
  if str_eqb (sq_type r) s_kauf || str_eqb (sq_type r) s_verkauf then
    sq_symbol_p r (fun sym =>
    let proceeds := add (sq_net r) (sq_fee r) in
    let qty := if is_pos proceeds then neg (sq_quantity r) else sq_quantity r in
    let desc := sq_order r ++ [32] ++ sq_type r ++ [32] ++ to_string (sq_quantity r) ++ s_x ++ sym ++ [32] ++ sq_name r ++
                [32] ++ sq_isin r ++ s_at ++ to_string (sq_price r) ++ [32] ++ cur in
    MOk ([legs_txn (sq_date r) desc
            [mkLeg trading acct sym qty; mkLeg trading acct cur proceeds; mkLeg fee acct cur (neg (sq_fee r))]
            (Some [sym; cur])], last))
  else if has_str sq_forex_types (sq_type r) then
    match last with
    | None => MOk ([], Some r)
    | Some l =>
      let desc := sq_type l ++ [32] ++ to_string (sq_net l) ++ [32] ++ sq_currency l ++ [32;47;32] ++
                  sq_type r ++ [32] ++ to_string (sq_net r) ++ [32] ++ cur in
      MOk ([legs_txn (sq_date r) desc
              [mkLeg trading acct (sq_currency l) (sq_net l); mkLeg trading acct cur (sq_net r)]
              (Some [sq_currency l; cur])], None)
    end
  else
    match last with
    | Some _ => MErr e_forex
    | None =>
      if has_str sq_dividend_types (sq_type r) then
        sq_symbol_p r (fun sym =>
        MOk ([legs_txn (sq_date r) (sq_type r ++ [32] ++ sym ++ [32] ++ sq_name r ++ [32] ++ sq_isin r)
                (mkLeg dividend acct cur (sq_price r) ::
                 (if is_zero (sq_fee r) then [] else [mkLeg acct tax cur (sq_fee r)]))
                (Some [sym])], None))
      else if str_eqb (sq_type r) s_depot then
        MOk ([legs_txn (sq_date r) (sq_type r) [mkLeg fee acct cur (sq_net r)] (Some [])], None)
      else if has_str sq_transfer_types (sq_type r) then
        MOk ([legs_txn (sq_date r) (sq_type r) [mkLeg tbd_account acct cur (sq_net r)] None], None)
      else if str_eqb (sq_type r) s_zins then
        MOk ([legs_txn (sq_date r) (sq_type r) [mkLeg interest acct cur (sq_net r)] (Some [cur])], None)
      else
        MOk ([legs_txn (sq_date r) (sq_type r) [mkLeg tbd_account acct cur (sq_net r)] None], None)
    end.

(* the loop of parser.parse; a pending forex leg at the end of the file is dropped *)
Fixpoint sq_rows (acct dividend interest tax fee trading : account) (last : option sq_record) (items : list citem)
  : mresult (list directive) :=
  match items with
  | [] => MOk []
  | CBad :: _ => MErr e_csv
  | CRec l :: rest =>
    mbind (sq_line l) (fun r =>
    mbind (sq_step acct dividend interest tax fee trading last r) (fun x =>
    mbind (sq_rows acct dividend interest tax fee trading (snd x) rest) (fun ds => MOk (fst x ++ ds))))
  end.

(* parser.parse: the header record is skipped *)
Definition import_swissquote (acct dividend interest tax fee trading : account) (items : list citem) : mresult (list directive) :=
  match items with
  | [] => MErr e_eof
  | CBad :: _ => MErr e_csv
  | CRec _ :: rest => sq_rows acct dividend interest tax fee trading None rest
  end.

(* runner.run: the file is opened, then the flags are resolved: account, dividend, interest, tax,
   fee, trading *)
Definition run_swissquote (aflag dflag iflag wflag fflag tflag : str) (items : list citem) : irun :=
  match resolve_flags [aflag; dflag; iflag; wflag; fflag; tflag] with
  | Some [a; d; i; w; f; t] => finish_run_b (import_swissquote a d i w f t items)
  | _ => mkRun [] SErr
  end.
