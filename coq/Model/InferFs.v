(* Model of `knut infer -a ACCOUNT -t TRAINING TARGET` with the training journal read the way
   cmd/commands/infer.go reads it: inferRunner.train calls syntax.ParseFileRecursively(TRAINING),
   which follows the `include` directives of every file it parses (Model/Loader.v: path.Join of
   the including file's directory and the quoted path, one goroutine per file, a file that is
   its own ancestor is an error); the parsed files arrive on a channel IN SCHEDULING ORDER and
   every transaction of every file that arrives is passed to bayes.Model.Update.  An error
   anywhere in the include graph (missing / unparseable file, include cycle) makes train return
   the error: exit 1, nothing is printed, the target is not touched.  The TARGET is read with
   syntax.ParseFile: its includes are not followed (an include directive is printed back).

   A file system [tfs] maps cleaned relative paths to file BYTES.  The include resolution is
   not written again: Model/Loader.v [load] is run on the SKELETON of the file system -- every
   file that parses becomes the item list  [tag of its own path; its include targets in file
   order]  ([tag p] = the Loader directive `open` carrying the path [p] as its account: both are
   lists of segments), every file that does not parse becomes FBad.  So [load] returns the tags
   of the files it visits, a file once per include path that reaches it (Proofs/OrderLayout.v
   [visits], C05_layout), or the loader's error, and never runs out of fuel (C14_load_terminates).

   [infer_with_sems] / [infer_scored_on] are Model/Bayes.v [infer_with] / Model/BayesScore.v
   [infer_scored] with the MEANINGS of the training data given (instead of one training text);
   [infer_with_fs] / [infer_cmd_fs] train on the meanings of all visited files.  The *_arrival
   variants take the order in which the files reach the trainer as a function of the visit
   list (Proofs/InferFs.v: for every permutation the result is the same).
   Executable definitions only. *)
From Coq Require Import ZArith List Bool.
From Knut Require Import Model.Str Model.Ledger Model.Loader.
From Knut Require Import Model.Bytes Model.Utf8 Model.Scanner Model.Parser Model.SynPrinter
  Spec.FormatSpec Model.SynRender Model.Bayes Model.BayesScore.
Import ListNotations.
Open Scope bool_scope.
Open Scope Z_scope.

Module InferFsM.

Definition tfs := list (LoaderM.path * BytesM.str).

Fixpoint tlookup (fs : tfs) (p : LoaderM.path) : option BytesM.str :=
  match fs with
  | [] => None
  | (q, c) :: rest => if LoaderM.path_eqb p q then Some c else tlookup rest p
  end.

(* the Loader directive that names a file *)
Definition tag (p : LoaderM.path) : Ledger.sdirective := Ledger.SOpen 0 p.
Definition untag (d : Ledger.sdirective) : LoaderM.path :=
  match d with Ledger.SOpen _ p => p | _ => [] end.

(* the include directives of a parsed file, in file order (the quoted path, as
   inc.IncludePath.Content.Extract() returns it) *)
Definition include_items (ds : list sem_directive) : list LoaderM.item :=
  flat_map (fun d => match d with SemInclude t => [LoaderM.IInc t] | _ => [] end) ds.

Section WithClasses.
Variables letter digit : Z -> bool.

Definition skeleton_file (p : LoaderM.path) (text : BytesM.str) : LoaderM.fcontent :=
  match parse_text letter digit text with
  | ParseOk f => LoaderM.FOk (LoaderM.IDir (tag p) :: include_items (sem text f))
  | _ => LoaderM.FBad
  end.

Definition skeleton (fs : tfs) : LoaderM.fsys :=
  map (fun pt => (fst pt, skeleton_file (fst pt) (snd pt))) fs.

(* the meanings of the directives of one file ([] if there is no such file or it does not parse:
   such a file is never among the visited files of a successful load) *)
Definition file_sems (fs : tfs) (p : LoaderM.path) : list sem_directive :=
  match tlookup fs p with
  | Some text => match parse_text letter digit text with ParseOk f => sem text f | _ => [] end
  | None => []
  end.

Inductive training :=
| TrOk (files : list LoaderM.path)      (* the visited files, one entry per visit *)
| TrErr (e : LoaderM.lerror)
| TrFuel.                               (* excluded: Proofs/InferFs.v training_files_fuel *)

(* syntax.ParseFileRecursively on the training file *)
Definition training_files (fs : tfs) (root : LoaderM.path) : training :=
  let sk := skeleton fs in
  match LoaderM.load (LoaderM.fuel_for sk) sk root with
  | LoaderM.LOk tags => TrOk (map untag tags)
  | LoaderM.LErr e => TrErr e
  | LoaderM.LOutOfFuel => TrFuel
  end.

(* what the trainer sees when the files arrive in the order [files] *)
Definition training_sems (fs : tfs) (files : list LoaderM.path) : list sem_directive :=
  flat_map (file_sems fs) files.

Section Commands.
Variable placeholder : BytesM.str.

(* parseAndInfer + FormatFile on the target, for a trained model (abstract choice) *)
Definition infer_with_sems (v : variant) (choose : nat -> list BytesM.str -> option BytesM.str)
    (tr : list sem_directive) (target : BytesM.str) : infer_result :=
  match parse_text letter digit target with
  | ParseOk ftg =>
    let (sems, _) := infer_sems placeholder v choose (candidates placeholder tr) 0%nat (sem target ftg) in
    match render Utf8M.decode sems (gaps target ftg) with
    | Some out => InferOut out
    | None => InferBad
    end
  | ParseFuel => InferBad
  | ParseErr _ => InferErr
  end.

Definition infer_with_fs_arrival (arrive : list LoaderM.path -> list LoaderM.path) (v : variant)
    (choose : nat -> list BytesM.str -> option BytesM.str)
    (fs : tfs) (troot : LoaderM.path) (target : BytesM.str) : infer_result :=
  match training_files fs troot with
  | TrOk files => infer_with_sems v choose (training_sems fs (arrive files)) target
  | TrErr _ => InferErr
  | TrFuel => InferBad
  end.

Definition infer_with_fs := infer_with_fs_arrival (fun l => l).

(* the same with the choice of Model/BayesScore.v *)
Section Scored.
Variable F : Type.
Variable flog : Z -> Z -> F.
Variable fadd : F -> F -> F.
Variable fgt : F -> F -> bool.
Variable fields : BytesM.str -> list BytesM.str.
Variable lower : BytesM.str -> BytesM.str.

Definition infer_scored_on (tr : list sem_directive) (target : BytesM.str) : infer_result :=
  match parse_text letter digit target with
  | ParseOk ftg =>
    let (sems, _) := infer_scored_sems F flog fadd fgt fields lower placeholder tr (sem target ftg) in
    match render Utf8M.decode sems (gaps target ftg) with
    | Some out => InferOut out
    | None => InferBad
    end
  | ParseFuel => InferBad
  | ParseErr _ => InferErr
  end.

(* `knut infer -a placeholder -t TROOT TARGET` on a file tree, files arriving in the order
   [arrive (visit list)] *)
Definition infer_cmd_fs_arrival (arrive : list LoaderM.path -> list LoaderM.path)
    (fs : tfs) (troot : LoaderM.path) (target : BytesM.str) : infer_result :=
  match training_files fs troot with
  | TrOk files => infer_scored_on (training_sems fs (arrive files)) target
  | TrErr _ => InferErr
  | TrFuel => InferBad
  end.

(* ... in the loader's document order *)
Definition infer_cmd_fs := infer_cmd_fs_arrival (fun l => l).

End Scored.
End Commands.
End WithClasses.

End InferFsM.
Export InferFsM.
