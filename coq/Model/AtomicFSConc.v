(* Model for C18, the concurrent command: `knut format a b c` formats its arguments concurrently
   (cmd/commands/format.go: conc/iter.Map, one goroutine per file, at most GOMAXPROCS at a time),
   every goroutine runs the protocol of Model/AtomicFS.v on its own file.  The system calls of the
   goroutines reach the directory in some interleaved order: a labelled schedule is a list of
   (goroutine number, operation); its projection onto one label is what that goroutine did.
   Executable definitions only; proofs in Proofs/AtomicFSInterleave.v.                        *)
From Coq Require Import List Bool Arith PeanoNat NArith.
From Knut Require Import Model.AtomicFS.
Import ListNotations.
Open Scope bool_scope.

(* one argument of the command: the target, the temporary file its rewrite will use, what the
   target holds, the formatted bytes (None: the file does not parse), whether the mode of the
   temporary file has to be changed, how the write is split into short writes, what fails *)
Record job := mkJob {
  j_tmp : path;
  j_tgt : path;
  j_old : bytes;
  j_fmt : option bytes;
  j_chmod : bool;
  j_splits : list nat;
  j_fault : fault
}.

Definition job_trace (j : job) : list op :=
  format_file (j_tmp j) (j_tgt j) (j_fmt j) (j_chmod j) (j_splits j) (j_fault j).

(* all 2n paths of the jobs *)
Fixpoint job_paths (jobs : list job) : list path :=
  match jobs with
  | [] => []
  | j :: r => j_tmp j :: j_tgt j :: job_paths r
  end.

(* what goroutine i did in the labelled schedule *)
Definition proj (i : nat) (ltr : list (nat * op)) : list op :=
  map snd (filter (fun x => fst x =? i) ltr).

(* the directory before the command: every target holds its old contents, nothing else exists,
   nothing is open *)
Fixpoint init_content (jobs : list job) (q : path) : option bytes :=
  match jobs with
  | [] => None
  | j :: r => if q =? j_tgt j then Some (j_old j) else init_content r q
  end.

Definition fs_init_jobs (jobs : list job) : fs := mkFs (init_content jobs) (fun _ => false).

(* what the target of a job must hold when the command has returned *)
Definition job_final (j : job) : bytes :=
  match j_fmt j, j_fault j with
  | Some new, NoFault => new
  | _, _ => j_old j
  end.
