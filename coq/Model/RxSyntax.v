(* Go's regexp/syntax.Parse (go1.23.5 parse.go) with the flags regexp.Compile passes (syntax.Perl =
   ClassNL | OneLine | PerlX | UnicodeGroups), on every byte string: the parse tree or the error.
   regexp.Compile fails exactly when Parse does (Regexp.Simplify and syntax.Compile cannot fail).

   The parser is followed function by function, including what decides the three limits
   (maxHeight 1000, maxSize 128<<20/40, maxRunes 128<<20/4): the tree it builds (literal merging in
   maybeConcat, single-rune classes turned into literals in push, collapse, the four rounds of factor,
   swapVerticalBar/mergeCharClass/cleanAlt), the counters numRegexp/numRunes/repeats, the identity of
   the Regexp structs (an [id]: the free list hands structs out again, and the height and size caches
   are keyed by pointer, so a struct can meet a stale entry), and the points where checkLimits runs.

   Shape: [lex] reads one token of the pattern (a pure function of the text and the current flags:
   everything in the parse loop that looks at the text), [act] is what the parser does with it (a
   function of the parser state [pst]).  Loops over the text run on fuel = length of the text;
   [factor] recurses on fuel = weight of the alternatives; Proofs/RxSyntaxProofs.v shows the fuel is
   never used up ([rx_parse_fuel_enough]).

   Executable definitions only. *)
From Coq Require Import ZArith List Bool.
From Knut Require Import Model.Str Model.Utf8 Model.RxTables Model.RxClass.
Import ListNotations.
Open Scope bool_scope.
Open Scope Z_scope.

Module RxSyntaxM.

(* ---------------------------------------------------------------- results *)

Inductive rxerr :=
| ErrCharRange | ErrEscape | ErrNamedCapture | ErrPerlOp | ErrRepeatOp | ErrRepeatSize | ErrUTF8
| ErrMissingBracket | ErrMissingParen | ErrMissingRepeatArg | ErrTrailingBackslash | ErrUnexpectedParen
| ErrNestingDepth | ErrLarge
| ErrInternal.     (* a state the Go parser cannot be in (an index out of range there); proved unreachable *)

Inductive res (A : Type) := Ok (a : A) | Err (e : rxerr) | OutOfFuel.
Arguments Ok {A} a.
Arguments Err {A} e.
Arguments OutOfFuel {A}.

(* ---------------------------------------------------------------- flags *)

Definition fFoldCase : Z := 1.
Definition fClassNL : Z := 4.
Definition fDotNL : Z := 8.
Definition fOneLine : Z := 16.
Definition fNonGreedy : Z := 32.
Definition fPerlX : Z := 64.
Definition fUnicodeGroups : Z := 128.
Definition fWasDollar : Z := 256.
Definition flags_perl : Z := 212.     (* ClassNL | OneLine | PerlX | UnicodeGroups *)

(* the flags are sums of distinct powers of two below 2^16 *)
Definition has (f bit : Z) : bool := Z.odd (f / bit).
Definition fset (f bit : Z) : Z := if has f bit then f else f + bit.
Definition fclear (f bit : Z) : Z := if has f bit then f - bit else f.
Definition ftoggle (f bit : Z) : Z := if has f bit then f - bit else f + bit.

(* ---------------------------------------------------------------- the tree *)

Inductive rop :=
| OpNoMatch | OpEmptyMatch | OpLiteral | OpCharClass | OpAnyCharNotNL | OpAnyChar | OpBeginLine | OpEndLine
| OpBeginText | OpEndText | OpWordBoundary | OpNoWordBoundary | OpCapture | OpStar | OpPlus | OpQuest
| OpRepeat | OpConcat | OpAlternate | OpLeftParen | OpVerticalBar.

Definition op_num (o : rop) : Z :=
  match o with
  | OpNoMatch => 1 | OpEmptyMatch => 2 | OpLiteral => 3 | OpCharClass => 4 | OpAnyCharNotNL => 5 | OpAnyChar => 6
  | OpBeginLine => 7 | OpEndLine => 8 | OpBeginText => 9 | OpEndText => 10 | OpWordBoundary => 11
  | OpNoWordBoundary => 12 | OpCapture => 13 | OpStar => 14 | OpPlus => 15 | OpQuest => 16 | OpRepeat => 17
  | OpConcat => 18 | OpAlternate => 19 | OpLeftParen => 128 | OpVerticalBar => 129
  end.
Definition op_eqb (a b : rop) : bool := op_num a =? op_num b.
Definition is_pseudo (o : rop) : bool := 128 <=? op_num o.

(* a Regexp struct.  [n_runes] is re.Rune of a literal, [n_cls] re.Rune of a class (pairs); every other
   operator has re.Rune = nil *)
Inductive node :=
  Node (id : positive) (op : rop) (flags : Z) (subs : list node) (runes : list Z) (cl : cls)
       (mn mx cap : Z) (name : str).

Definition n_id (n : node) := let 'Node i _ _ _ _ _ _ _ _ _ := n in i.
Definition n_op (n : node) := let 'Node _ o _ _ _ _ _ _ _ _ := n in o.
Definition n_flags (n : node) := let 'Node _ _ f _ _ _ _ _ _ _ := n in f.
Definition n_subs (n : node) := let 'Node _ _ _ s _ _ _ _ _ _ := n in s.
Definition n_runes (n : node) := let 'Node _ _ _ _ r _ _ _ _ _ := n in r.
Definition n_cls (n : node) := let 'Node _ _ _ _ _ c _ _ _ _ := n in c.
Definition n_min (n : node) := let 'Node _ _ _ _ _ _ m _ _ _ := n in m.
Definition n_max (n : node) := let 'Node _ _ _ _ _ _ _ m _ _ := n in m.
Definition n_cap (n : node) := let 'Node _ _ _ _ _ _ _ _ c _ := n in c.
Definition n_name (n : node) := let 'Node _ _ _ _ _ _ _ _ _ s := n in s.

Definition set_op (n : node) (o : rop) := let 'Node i _ f s r c a b k m := n in Node i o f s r c a b k m.
Definition set_flags (n : node) (f : Z) := let 'Node i o _ s r c a b k m := n in Node i o f s r c a b k m.
Definition set_subs (n : node) (s : list node) := let 'Node i o f _ r c a b k m := n in Node i o f s r c a b k m.
Definition set_runes (n : node) (r : list Z) := let 'Node i o f s _ c a b k m := n in Node i o f s r c a b k m.
Definition set_cls (n : node) (c : cls) := let 'Node i o f s r _ a b k m := n in Node i o f s r c a b k m.

Definition blank (i : positive) (o : rop) : node := Node i o 0 [] [] [] 0 0 0 [].

Definition zlen {A} (l : list A) : Z := Z.of_nat (length l).

(* len(re.Rune) *)
Definition rune_len (n : node) : Z := zlen (n_runes n) + 2 * zlen (n_cls n).

(* ---------------------------------------------------------------- the parser state *)

Definition max_height : Z := 1000.
Definition max_size : Z := 3355443.       (* 128<<20 / 40 *)
Definition max_runes : Z := 33554432.     (* 128<<20 / 4 *)

Record pst := mkP {
  p_flags : Z;
  p_stack : list node;                 (* top first *)
  p_free : list positive;              (* the free list, first = next to be handed out *)
  p_numcap : Z;
  p_num : positive;                    (* numRegexp + 1: the next fresh struct *)
  p_numrunes : Z;
  p_repeats : Z;
  p_height : option (ptree Z);         (* nil until numRegexp reaches maxHeight *)
  p_size : option (ptree Z) }.

Definition num_regexp (p : pst) : Z := Zpos (p_num p) - 1.

Definition p_init : pst := mkP flags_perl [] [] 0 1 0 0 None None.

Definition with_flags (p : pst) (f : Z) := mkP f (p_stack p) (p_free p) (p_numcap p) (p_num p) (p_numrunes p) (p_repeats p) (p_height p) (p_size p).
Definition with_stack (p : pst) (s : list node) := mkP (p_flags p) s (p_free p) (p_numcap p) (p_num p) (p_numrunes p) (p_repeats p) (p_height p) (p_size p).
Definition with_numcap (p : pst) (c : Z) := mkP (p_flags p) (p_stack p) (p_free p) c (p_num p) (p_numrunes p) (p_repeats p) (p_height p) (p_size p).
Definition with_numrunes (p : pst) (c : Z) := mkP (p_flags p) (p_stack p) (p_free p) (p_numcap p) (p_num p) c (p_repeats p) (p_height p) (p_size p).
Definition with_repeats (p : pst) (c : Z) := mkP (p_flags p) (p_stack p) (p_free p) (p_numcap p) (p_num p) (p_numrunes p) c (p_height p) (p_size p).
Definition with_height (p : pst) (h : option (ptree Z)) := mkP (p_flags p) (p_stack p) (p_free p) (p_numcap p) (p_num p) (p_numrunes p) (p_repeats p) h (p_size p).
Definition with_size (p : pst) (h : option (ptree Z)) := mkP (p_flags p) (p_stack p) (p_free p) (p_numcap p) (p_num p) (p_numrunes p) (p_repeats p) (p_height p) h.

(* newRegexp *)
Definition new_regexp (p : pst) (o : rop) : node * pst :=
  match p_free p with
  | i :: fr => (blank i o, mkP (p_flags p) (p_stack p) fr (p_numcap p) (p_num p) (p_numrunes p) (p_repeats p) (p_height p) (p_size p))
  | [] => (blank (p_num p) o,
           mkP (p_flags p) (p_stack p) [] (p_numcap p) (Pos.succ (p_num p)) (p_numrunes p) (p_repeats p) (p_height p) (p_size p))
  end.

(* reuse: the height entry of the struct is deleted, its size entry stays *)
Definition reuse_id (p : pst) (i : positive) : pst :=
  mkP (p_flags p) (p_stack p) (i :: p_free p) (p_numcap p) (p_num p) (p_numrunes p) (p_repeats p)
      (match p_height p with Some h => Some (pset i None h) | None => None end) (p_size p).
Definition reuse (p : pst) (n : node) : pst := reuse_id p (n_id n).
Definition reuse_ids (p : pst) (l : list positive) : pst := fold_left reuse_id l p.

(* ---------------------------------------------------------------- the limits *)

(* calcSize(re, force): the size and the cache.  Sub-expressions are looked up first. *)
Fixpoint calc_size (force : bool) (n : node) (c : ptree Z) : Z * ptree Z :=
  match (if force then None else pget (n_id n) c) with
  | Some s => (s, c)
  | None =>
    let '(Node i o _ subs runes _ mn mx _ _) := n in
    let sum_subs :=
      (fix go (l : list node) (c : ptree Z) (acc : Z) : Z * ptree Z :=
         match l with
         | [] => (acc, c)
         | s :: t => let '(x, c') := calc_size false s c in go t c' (acc + x)
         end) in
    let sub0 (c : ptree Z) : Z * ptree Z :=
      match subs with
      | s :: _ => calc_size false s c
      | [] => (0, c)
      end in
    let '(size, c') :=
      match o with
      | OpLiteral => (zlen runes, c)
      | OpCapture | OpStar => let '(x, c') := sub0 c in (2 + x, c')
      | OpPlus | OpQuest => let '(x, c') := sub0 c in (1 + x, c')
      | OpConcat => sum_subs subs c 0
      | OpAlternate =>
        let '(x, c') := sum_subs subs c 0 in
        (if 1 <? zlen subs then x + zlen subs - 1 else x, c')
      | OpRepeat =>
        let '(x, c') := sub0 c in
        if mx =? -1 then (if mn =? 0 then 2 + x else 1 + mn * x, c')
        else (mx * x + (mx - mn), c')
      | _ => (0, c)
      end in
    let size := Z.max 1 size in
    (size, pset i (Some size) c')
  end.

(* calcHeight(re, force) *)
Fixpoint calc_height (force : bool) (n : node) (c : ptree Z) : Z * ptree Z :=
  match (if force then None else pget (n_id n) c) with
  | Some h => (h, c)
  | None =>
    let '(Node i _ _ subs _ _ _ _ _ _) := n in
    let '(h, c') :=
      (fix go (l : list node) (c : ptree Z) (h : Z) : Z * ptree Z :=
         match l with
         | [] => (h, c)
         | s :: t => let '(hs, c') := calc_height false s c in go t c' (if h <? 1 + hs then 1 + hs else h)
         end) subs c 1 in
    (h, pset i (Some h) c')
  end.

(* the loop "for _, re := range p.stack { check(re) }" over the stack, bottom first *)
Fixpoint check_all (calc : bool -> node -> ptree Z -> Z * ptree Z) (limit : Z) (l : list node) (c : ptree Z)
  : option (ptree Z) :=
  match l with
  | [] => Some c
  | n :: t => let '(x, c') := calc true n c in if limit <? x then None else check_all calc limit t c'
  end.

(* checkSize *)
Definition check_size (re : node) (p : pst) : res pst :=
  let tracked (c : ptree Z) (p : pst) : res pst :=
    let '(s, c') := calc_size true re c in
    if max_size <? s then Err ErrLarge else Ok (with_size p (Some c')) in
  match p_size p with
  | Some c => tracked c p
  | None =>
    let r0 := if p_repeats p =? 0 then 1 else p_repeats p in
    let r1 :=
      match n_op re with
      | OpRepeat =>
        let n := if n_max re =? -1 then n_min re else n_max re in
        let n := if n <=? 0 then 1 else n in
        if max_size / r0 <? n then max_size else r0 * n
      | _ => r0
      end in
    let p := with_repeats p r1 in
    if num_regexp p <? max_size / r1 then Ok p
    else match check_all calc_size max_size (rev (p_stack p)) PLeaf with
         | None => Err ErrLarge
         | Some c => tracked c p
         end
  end.

(* checkHeight *)
Definition check_height (re : node) (p : pst) : res pst :=
  let tracked (c : ptree Z) (p : pst) : res pst :=
    let '(h, c') := calc_height true re c in
    if max_height <? h then Err ErrNestingDepth else Ok (with_height p (Some c')) in
  if num_regexp p <? max_height then Ok p
  else match p_height p with
       | Some c => tracked c p
       | None =>
         match check_all calc_height max_height (rev (p_stack p)) PLeaf with
         | None => Err ErrNestingDepth
         | Some c => tracked c p
         end
       end.

(* checkLimits *)
Definition check_limits (re : node) (p : pst) : res pst :=
  if max_runes <? p_numrunes p then Err ErrLarge
  else match check_size re p with
       | Ok p' => check_height re p'
       | r => r
       end.

(* ---------------------------------------------------------------- the parse stack *)

Definition is_lit (n : node) : bool := op_eqb (n_op n) OpLiteral.
Definition fold_bit (n : node) : bool := has (n_flags n) fFoldCase.

(* maybeConcat(r, flags): r = None stands for -1.  Returns whether r was pushed. *)
Definition maybe_concat (r : option Z) (flags : Z) (p : pst) : bool * pst :=
  match p_stack p with
  | re1 :: re2 :: rest =>
    if is_lit re1 && is_lit re2 && Bool.eqb (fold_bit re1) (fold_bit re2) then
      let re2' := set_runes re2 (n_runes re2 ++ n_runes re1) in
      match r with
      | Some c => (true, with_stack p (set_flags (set_runes re1 [c]) flags :: re2' :: rest))
      | None => (false, reuse (with_stack p (re2' :: rest)) re1)
      end
    else (false, p)
  | _ => (false, p)
  end.

(* the end of push: the struct goes on the stack and the limits are checked *)
Definition push_raw (re : node) (p : pst) : res pst :=
  check_limits re (with_stack p (re :: p_stack p)).

(* push *)
Definition push (re : node) (p : pst) : res pst :=
  let p := with_numrunes p (p_numrunes p + rune_len re) in
  let as_literal (c : Z) (flags : Z) : res pst :=
    let '(pushed, p') := maybe_concat (Some c) flags p in
    if pushed then Ok p'
    else push_raw (set_flags (set_cls (set_runes (set_op re OpLiteral) [c]) []) flags) p' in
  let other := push_raw re (snd (maybe_concat None 0 p)) in
  match n_op re, n_cls re with
  | OpCharClass, [(a, b)] =>
    if a =? b then as_literal a (fclear (p_flags p) fFoldCase)
    else if (a + 1 =? b) && (simple_fold a =? b) && (simple_fold b =? a) then as_literal a (fset (p_flags p) fFoldCase)
    else other
  | OpCharClass, [(a, a'); (b, b')] =>
    if (a =? a') && (b =? b') && (simple_fold a =? b) && (simple_fold b =? a) then as_literal a (fset (p_flags p) fFoldCase)
    else other
  | _, _ => other
  end.

(* literal *)
Definition literal (r : Z) (p : pst) : res pst :=
  let '(re, p) := new_regexp p OpLiteral in
  let r := if has (p_flags p) fFoldCase then min_fold_rune r else r in
  push (set_runes (set_flags re (p_flags p)) [r]) p.

(* op *)
Definition push_op (o : rop) (p : pst) : res pst :=
  let '(re, p) := new_regexp p o in push (set_flags re (p_flags p)) p.

(* repeatIsValid *)
Fixpoint repeat_is_valid (re : node) (n : Z) : bool :=
  let '(Node _ o _ subs _ _ mn mx _ _) := re in
  let all (n : Z) := (fix go (l : list node) : bool :=
                        match l with [] => true | s :: t => repeat_is_valid s n && go t end) subs in
  match o with
  | OpRepeat =>
    if mx =? 0 then true
    else let m := if mx <? 0 then mn else mx in
         if n <? m then false
         else all (if 0 <? m then n / m else n)
  | _ => all n
  end.

(* repeat, after the text of the operator has been read: [lazy] = a '?' follows *)
Definition repeat (o : rop) (mn mx : Z) (lazy last_repeat : bool) (p : pst) : res pst :=
  let flags := if lazy then ftoggle (p_flags p) fNonGreedy else p_flags p in
  if last_repeat then Err ErrRepeatOp
  else match p_stack p with
       | [] => Err ErrMissingRepeatArg
       | sub :: rest =>
         if is_pseudo (n_op sub) then Err ErrMissingRepeatArg
         else
           let '(re, p) := new_regexp p o in
           let re := let 'Node i o _ _ r c _ _ k m := re in Node i o flags [sub] r c mn mx k m in
           match check_limits re (with_stack p (re :: rest)) with
           | Ok p' =>
             if op_eqb o OpRepeat && ((2 <=? mn) || (2 <=? mx)) && negb (repeat_is_valid re 1000)
             then Err ErrRepeatSize else Ok p'
           | r => r
           end
       end.

(* cleanAlt *)
Definition clean_alt (re : node) : node :=
  match n_op re with
  | OpCharClass =>
    let c := clean_class (n_cls re) in
    match c with
    | [(0, hi)] => if hi =? max_rune then set_cls (set_op re OpAnyChar) [] else set_cls re c
    | [(0, 9); (11, hi)] => if hi =? max_rune then set_cls (set_op re OpAnyCharNotNL) [] else set_cls re c
    | _ => set_cls re c
    end
  | _ => re
  end.

(* isCharClass *)
Definition is_char_class (re : node) : bool :=
  match n_op re with
  | OpLiteral => zlen (n_runes re) =? 1
  | OpCharClass | OpAnyCharNotNL | OpAnyChar => true
  | _ => false
  end.

(* matchRune(re, '\n') *)
Definition match_rune (re : node) (r : Z) : bool :=
  match n_op re with
  | OpLiteral => match n_runes re with [c] => c =? r | _ => false end
  | OpCharClass => existsb (fun lh => (fst lh <=? r) && (r <=? snd lh)) (n_cls re)
  | OpAnyCharNotNL => negb (r =? 10)
  | OpAnyChar => true
  | _ => false
  end.

Definition hd_rune (re : node) : Z := match n_runes re with c :: _ => c | [] => 0 end.

(* mergeCharClass: dst = dst|src *)
Definition merge_char_class (dst src : node) : node :=
  match n_op dst with
  | OpAnyCharNotNL => if match_rune src 10 then set_op dst OpAnyChar else dst
  | OpCharClass =>
    if is_lit src then set_cls dst (cb_done (append_literal (cb_of (n_cls dst)) (hd_rune src) (fold_bit src)))
    else set_cls dst (cb_done (append_class (cb_of (n_cls dst)) (n_cls src)))
  | OpLiteral =>
    if (hd_rune src =? hd_rune dst) && (n_flags src =? n_flags dst) then dst
    else set_runes (set_cls (set_op dst OpCharClass)
                            (cb_done (append_literal (append_literal [] (hd_rune dst) (fold_bit dst)) (hd_rune src) (fold_bit src)))) []
  | _ => dst
  end.

(* swapVerticalBar *)
Definition swap_vertical_bar (p : pst) : bool * pst :=
  match p_stack p with
  | re1 :: re2 :: rest =>
    if op_eqb (n_op re2) OpVerticalBar then
      match rest with
      | re3 :: rest' =>
        if is_char_class re1 && is_char_class re3 then
          let '(r1, r3) := if op_num (n_op re3) <? op_num (n_op re1) then (re3, re1) else (re1, re3) in
          (true, reuse (with_stack p (re2 :: merge_char_class r3 r1 :: rest')) r1)
        else (true, with_stack p (re2 :: re1 :: clean_alt re3 :: rest'))
      | [] => (true, with_stack p (re2 :: re1 :: rest))
      end
    else (false, p)
  | _ => (false, p)
  end.

Definition pop (p : pst) : pst := with_stack p (tl (p_stack p)).

(* the operands above the topmost pseudo-operator, in the order of the text, and the rest of the stack *)
Fixpoint split_pseudo (st : list node) (acc : list node) : list node * list node :=
  match st with
  | n :: t => if is_pseudo (n_op n) then (acc, st) else split_pseudo t (n :: acc)
  | [] => (acc, [])
  end.

(* ---------------------------------------------------------------- collapse and factor *)

(* leadingString: the runes and Flags&FoldCase *)
Definition leading_string (re : node) : list Z * bool :=
  let re := match n_op re, n_subs re with OpConcat, s :: _ => s | _, _ => re end in
  if is_lit re then (n_runes re, fold_bit re) else ([], false).

(* removeLeadingString; the second component: the structs given to reuse, in that order *)
Fixpoint remove_leading_string (re : node) (n : nat) : node * list positive :=
  let '(Node i o f subs runes c a b k m) := re in
  match o, subs with
  | OpConcat, s0 :: rest =>
    let '(s0', freed) := remove_leading_string s0 n in
    if op_eqb (n_op s0') OpEmptyMatch then
      match rest with
      | [] => (Node i OpEmptyMatch f [] runes c a b k m, freed ++ [n_id s0'])
      | [x] => (x, freed ++ [n_id s0'; i])
      | _ => (Node i o f rest runes c a b k m, freed ++ [n_id s0'])
      end
    else (Node i o f (s0' :: rest) runes c a b k m, freed)
  | OpLiteral, _ =>
    let r := skipn n runes in
    (Node i (match r with [] => OpEmptyMatch | _ => OpLiteral end) f subs r c a b k m, [])
  | _, _ => (re, [])
  end.

(* leadingRegexp *)
Definition leading_regexp (re : node) : option node :=
  match n_op re with
  | OpEmptyMatch => None
  | OpConcat =>
    match n_subs re with
    | s :: _ => if op_eqb (n_op s) OpEmptyMatch then None else Some s
    | [] => Some re
    end
  | _ => Some re
  end.

(* removeLeadingRegexp *)
Definition remove_leading_regexp (re : node) (do_reuse : bool) (p : pst) : node * pst :=
  match n_op re, n_subs re with
  | OpConcat, s0 :: rest =>
    let p := if do_reuse then reuse p s0 else p in
    match rest with
    | [] => (set_subs (set_op re OpEmptyMatch) [], p)
    | [x] => (x, reuse p re)
    | _ => (set_subs re rest, p)
    end
  | _, _ =>
    let p := if do_reuse then reuse p re else p in
    new_regexp p OpEmptyMatch
  end.

(* Regexp.Equal *)
Fixpoint list_eqb {A} (eq : A -> A -> bool) (a b : list A) : bool :=
  match a, b with
  | [], [] => true
  | x :: a', y :: b' => eq x y && list_eqb eq a' b'
  | _, _ => false
  end.

Fixpoint node_equal (x y : node) : bool :=
  let '(Node _ ox fx sx rx cx ax bx kx mx) := x in
  op_eqb ox (n_op y) &&
  let sub0 := match sx, n_subs y with
              | s :: _, t :: _ => node_equal s t
              | _, _ => true
              end in
  match ox with
  | OpEndText => Bool.eqb (has fx fWasDollar) (has (n_flags y) fWasDollar)
  | OpLiteral => list_eqb Z.eqb rx (n_runes y)
  | OpCharClass => list_eqb (fun a b => (fst a =? fst b) && (snd a =? snd b)) cx (n_cls y)
  | OpAlternate | OpConcat =>
    (fix go (l : list node) (r : list node) : bool :=
       match l, r with
       | [], [] => true
       | a :: l', b :: r' => node_equal a b && go l' r'
       | _, _ => false
       end) sx (n_subs y)
  | OpStar | OpPlus | OpQuest => Bool.eqb (has fx fNonGreedy) (has (n_flags y) fNonGreedy) && sub0
  | OpRepeat =>
    Bool.eqb (has fx fNonGreedy) (has (n_flags y) fNonGreedy) && (ax =? n_min y) && (bx =? n_max y) && sub0
  | OpCapture => (kx =? n_cap y) && str_eqb mx (n_name y) && sub0
  | _ => true
  end.

(* the weight that decreases along factor's recursion: the runes of literals and the operators other than
   concatenation, alternation and the empty match *)
Fixpoint weight (re : node) : nat :=
  let '(Node _ o _ subs runes c _ _ _ _) := re in
  let below := (fix go (l : list node) : nat := match l with [] => O | s :: t => (weight s + go t)%nat end) subs in
  match o with
  | OpLiteral => length runes
  | OpEmptyMatch => O
  | OpConcat | OpAlternate => below
  | OpCapture | OpStar | OpPlus | OpQuest | OpRepeat => S below
  | _ => 1%nat
  end.
Definition weights (l : list node) : nat := fold_right (fun n a => (weight n + a)%nat) O l.

(* acc + weight re, without an addition per level (the fuel of factor is computed this way) *)
Fixpoint weight_add (re : node) (acc : nat) : nat :=
  let '(Node _ o _ subs runes c _ _ _ _) := re in
  let below := (fix go (l : list node) (acc : nat) : nat :=
                  match l with [] => acc | s :: t => go t (weight_add s acc) end) subs acc in
  match o with
  | OpLiteral => (length runes + acc)%nat
  | OpEmptyMatch => acc
  | OpConcat | OpAlternate => below
  | OpCapture | OpStar | OpPlus | OpQuest | OpRepeat => S below
  | _ => S acc
  end.
Definition weights_add (l : list node) : nat := fold_left (fun a n => weight_add n a) l O.

Fixpoint common_prefix (a b : list Z) : list Z :=
  match a, b with
  | x :: a', y :: b' => if x =? y then x :: common_prefix a' b' else []
  | _, _ => []
  end.

(* checkLimits on each element *)
Fixpoint check_each (l : list node) (p : pst) : res pst :=
  match l with
  | [] => Ok p
  | n :: t => match check_limits n p with Ok p' => check_each t p' | r => r end
  end.

(* round 3: the index of the most complex class of a run *)
Fixpoint max_index (l : list node) (j : nat) (best : node) (bi : nat) : nat :=
  match l with
  | [] => bi
  | x :: t =>
    if (op_num (n_op best) <? op_num (n_op x)) || ((op_num (n_op best) =? op_num (n_op x)) && (rune_len best <? rune_len x))
    then max_index t (S j) x j else max_index t (S j) best bi
  end.

(* sub[start], sub[max] = sub[max], sub[start] *)
Definition swap_first (l : list node) (k : nat) : list node :=
  match l, k with
  | _, O => l
  | a :: t, S k' => match nth_error t k' with
                    | Some b => b :: firstn k' t ++ a :: skipn (S k') t
                    | None => l
                    end
  | [], _ => l
  end.

Definition merge_run (run : list node) (p : pst) : node * pst :=
  match run with
  | [] => (blank 1 OpNoMatch, p)
  | first :: _ =>
    match swap_first run (max_index (tl run) 1 first 0) with
    | a :: t =>
      let '(a', p') := fold_left (fun st x => (merge_char_class (fst st) x, reuse (snd st) x)) t (a, p) in
      (clean_alt a', p')
    | [] => (first, p)
    end
  end.

(* round 3 *)
Fixpoint factor3 (l run out : list node) (p : pst) : list node * pst :=
  let flush (p : pst) : list node * pst :=
    match run with
    | [] => (out, p)
    | [x] => (x :: out, p)
    | _ => let '(m, p') := merge_run (rev run) p in (m :: out, p')
    end in
  match l with
  | [] => let '(out', p') := flush p in (rev out', p')
  | x :: t =>
    if is_char_class x then factor3 t (x :: run) out p
    else let '(out', p') := flush p in factor3 t [] (x :: out') p'
  end.

(* round 4 *)
Fixpoint factor4 (l : list node) : list node :=
  match l with
  | x :: ((y :: _) as t) =>
    if op_eqb (n_op x) OpEmptyMatch && op_eqb (n_op y) OpEmptyMatch then factor4 t else x :: factor4 t
  | _ => l
  end.

Definition round2_ok (first : node) : bool :=
  is_char_class first ||
  (op_eqb (n_op first) OpRepeat && (n_min first =? n_max first) &&
   match n_subs first with s :: _ => is_char_class s | [] => false end).

(* collapse (fuel, subs, op) and factor (fuel, sub).  The two call each other; [collapse_f] is collapse with
   the factor of the next level given. *)
Definition collapse_f (factor : list node -> pst -> res (list node * pst)) (subs : list node) (o : rop) (p : pst)
  : res (node * pst) :=
  match subs with
  | [x] => Ok (x, p)
  | _ =>
    let '(re, p) := new_regexp p o in
    let '(l, p) :=
      fold_left (fun st s =>
                   if op_eqb (n_op s) o then (fst st ++ n_subs s, reuse (snd st) s) else (fst st ++ [s], snd st))
                subs ([], p) in
    match o with
    | OpAlternate =>
      match factor l p with
      | Ok ([x], p') => Ok (x, reuse p' re)
      | Ok (l', p') => Ok (set_subs re l', p')
      | Err e => Err e
      | OutOfFuel => OutOfFuel
      end
    | _ => Ok (set_subs re l, p)
    end
  end.

Section Factor.
Variable factor : list node -> pst -> res (list node * pst).   (* the next level *)

(* the end of a run of round 1: run in the order of the text, str the common prefix *)
Definition flush1 (run : list node) (str : list Z) (strfold : bool) (out : list node) (p : pst) : res (list node * pst) :=
  match run with
  | [] => Ok (out, p)
  | [x] => Ok (x :: out, p)
  | _ =>
    let '(prefix, p) := new_regexp p OpLiteral in
    let prefix := set_runes (set_flags prefix (if strfold then fFoldCase else 0)) str in
    let step (st : res (list node * pst)) (x : node) : res (list node * pst) :=
      match st with
      | Ok (acc, p) =>
        let '(x', freed) := remove_leading_string x (length str) in
        match check_limits x' (reuse_ids p freed) with
        | Ok p' => Ok (acc ++ [x'], p')
        | Err e => Err e
        | OutOfFuel => OutOfFuel
        end
      | r => r
      end in
    match fold_left step run (Ok ([], p)) with
    | Ok (run', p) =>
      match collapse_f factor run' OpAlternate p with
      | Ok (suffix, p) =>
        let '(re, p) := new_regexp p OpConcat in
        Ok (set_subs re [prefix; suffix] :: out, p)
      | Err e => Err e
      | OutOfFuel => OutOfFuel
      end
    | r => r
    end
  end.

(* round 1: run and out newest first *)
Fixpoint factor1 (l run : list node) (str : list Z) (strfold : bool) (out : list node) (p : pst) : res (list node * pst) :=
  match l with
  | [] =>
    match flush1 (rev run) str strfold out p with
    | Ok (out', p') => Ok (rev out', p')
    | r => r
    end
  | x :: t =>
    let '(istr, ifold) := leading_string x in
    let same := if Bool.eqb ifold strfold then common_prefix str istr else [] in
    match same with
    | _ :: _ => factor1 t (x :: run) same strfold out p
    | [] =>
      match flush1 (rev run) str strfold out p with
      | Ok (out', p') => factor1 t [x] istr ifold out' p'
      | r => r
      end
    end
  end.

Definition flush2 (run : list node) (out : list node) (p : pst) : res (list node * pst) :=
  match run with
  | [] => Ok (out, p)
  | [x] => Ok (x :: out, p)
  | x0 :: _ =>
    match leading_regexp x0 with
    | None => Err ErrInternal
    | Some prefix =>
      let step (st : res (list node * pst * bool)) (x : node) : res (list node * pst * bool) :=
        match st with
        | Ok (acc, p, do_reuse) =>
          let '(x', p) := remove_leading_regexp x do_reuse p in
          match check_limits x' p with
          | Ok p' => Ok (acc ++ [x'], p', true)
          | Err e => Err e
          | OutOfFuel => OutOfFuel
          end
        | r => r
        end in
      match fold_left step run (Ok ([], p, false)) with
      | Ok (run', p, _) =>
        match collapse_f factor run' OpAlternate p with
        | Ok (suffix, p) =>
          let '(re, p) := new_regexp p OpConcat in
          Ok (set_subs re [prefix; suffix] :: out, p)
        | Err e => Err e
        | OutOfFuel => OutOfFuel
        end
      | Err e => Err e
      | OutOfFuel => OutOfFuel
      end
    end
  end.

(* round 2 *)
Fixpoint factor2 (l run : list node) (first : option node) (out : list node) (p : pst) : res (list node * pst) :=
  match l with
  | [] =>
    match flush2 (rev run) out p with
    | Ok (out', p') => Ok (rev out', p')
    | r => r
    end
  | x :: t =>
    let ifirst := leading_regexp x in
    let cont := match first, ifirst with
                | Some f, Some g => node_equal f g && round2_ok f
                | _, _ => false
                end in
    if cont then factor2 t (x :: run) first out p
    else match flush2 (rev run) out p with
         | Ok (out', p') => factor2 t [x] ifirst out' p'
         | r => r
         end
  end.

Definition factor_body (sub : list node) (p : pst) : res (list node * pst) :=
  match sub with
  | [] | [_] => Ok (sub, p)
  | _ =>
    match factor1 sub [] [] false [] p with
    | Ok (sub1, p1) =>
      match factor2 sub1 [] None [] p1 with
      | Ok (sub2, p2) =>
        let '(sub3, p3) := factor3 sub2 [] [] p2 in
        Ok (factor4 sub3, p3)
      | r => r
      end
    | r => r
    end
  end.
End Factor.

Fixpoint factor (fuel : nat) (sub : list node) (p : pst) : res (list node * pst) :=
  match fuel with
  | O => OutOfFuel
  | S f => factor_body (factor f) sub p
  end.

(* the fuel is computed when collapse reaches factor (an alternation of at least two) *)
Definition collapse (subs : list node) (o : rop) (p : pst) : res (node * pst) :=
  collapse_f (fun l p' => factor (S (weights_add subs)) l p') subs o p.

(* concat *)
Definition concat (p : pst) : res pst :=
  let p := snd (maybe_concat None 0 p) in
  let '(subs, rest) := split_pseudo (p_stack p) [] in
  let p := with_stack p rest in
  match subs with
  | [] => let '(re, p) := new_regexp p OpEmptyMatch in push re p
  | _ => match collapse subs OpConcat p with
         | Ok (re, p) => push re p
         | Err e => Err e
         | OutOfFuel => OutOfFuel
         end
  end.

(* alternate *)
Definition alternate (p : pst) : res pst :=
  let '(subs, rest) := split_pseudo (p_stack p) [] in
  let p := with_stack p rest in
  match rev subs with
  | [] => let '(re, p) := new_regexp p OpNoMatch in push re p
  | last :: before =>
    match collapse (rev (clean_alt last :: before)) OpAlternate p with
    | Ok (re, p) => push re p
    | Err e => Err e
    | OutOfFuel => OutOfFuel
    end
  end.

(* ---------------------------------------------------------------- reading the text *)

(* nextRune.  On the empty string DecodeRuneInString gives (RuneError, 0), which is not an error. *)
Definition next_rune (s : str) : res (Z * str) :=
  let '(c, w) := decode s in
  if (c =? rune_error) && (w =? 1) then Err ErrUTF8 else Ok (c, skipn (Z.to_nat w) s).

(* checkUTF8: [skip] bytes of the current rune are still to be passed *)
Fixpoint check_utf8 (skip : nat) (s : str) : bool :=
  match s with
  | [] => true
  | _ :: t =>
    match skip with
    | S k => check_utf8 k t
    | O => let '(c, w) := decode s in
           if (c =? rune_error) && (w =? 1) then false else check_utf8 (Z.to_nat w - 1) t
    end
  end.

(* the runes of a valid prefix of s, and whether an invalid byte ended it *)
Fixpoint runes_of (skip : nat) (s : str) : list Z * bool :=
  match s with
  | [] => ([], false)
  | _ :: t =>
    match skip with
    | S k => runes_of k t
    | O => let '(c, w) := decode s in
           if (c =? rune_error) && (w =? 1) then ([], true)
           else let '(l, bad) := runes_of (Z.to_nat w - 1) t in (c :: l, bad)
    end
  end.

(* strings.IndexByte *)
Fixpoint index_byte (c : Z) (s : str) : option nat :=
  match s with
  | [] => None
  | x :: t => if x =? c then Some O else match index_byte c t with Some i => Some (S i) | None => None end
  end.

(* strings.Index(s, [a; b]) *)
Fixpoint index_pair (a b : Z) (s : str) : option nat :=
  match s with
  | x :: ((y :: _) as t) =>
    if (x =? a) && (y =? b) then Some O else match index_pair a b t with Some i => Some (S i) | None => None end
  | _ => None
  end.

Definition is_dec_digit (c : Z) : bool := (48 <=? c) && (c <=? 57).
Definition is_octal (c : Z) : bool := (48 <=? c) && (c <=? 55).
Definition isalnum (c : Z) : bool := is_dec_digit c || ((65 <=? c) && (c <=? 90)) || ((97 <=? c) && (c <=? 122)).
Definition unhex (c : Z) : Z :=
  if is_dec_digit c then c - 48
  else if (97 <=? c) && (c <=? 102) then c - 87
  else if (65 <=? c) && (c <=? 70) then c - 55
  else -1.

Fixpoint span_digits (s : str) : str * str :=
  match s with
  | c :: t => if is_dec_digit c then let '(d, r) := span_digits t in (c :: d, r) else ([], s)
  | [] => ([], [])
  end.

(* the value loop of parseInt: -1 once the number reaches 10^8 with digits left *)
Definition int_value (ds : str) : Z :=
  fold_left (fun n c => if n =? -1 then -1 else if 100000000 <=? n then -1 else n * 10 + (c - 48)) ds 0.

(* parseInt *)
Definition parse_int (s : str) : option (Z * str) :=
  match s with
  | c :: t =>
    if negb (is_dec_digit c) then None
    else if (c =? 48) && match t with d :: _ => is_dec_digit d | [] => false end then None
    else let '(ds, rest) := span_digits s in Some (int_value ds, rest)
  | [] => None
  end.

(* parseRepeat on the text after '{' *)
Definition parse_repeat (s : str) : option (Z * Z * str) :=
  match parse_int s with
  | None => None
  | Some (mn, s1) =>
    match s1 with
    | [] => None
    | c :: s2 =>
      if c =? 44 then
        match s2 with
        | [] => None
        | d :: s3 =>
          if d =? 125 then Some (mn, -1, s3)
          else match parse_int s2 with
               | None => None
               | Some (mx, s4) =>
                 match s4 with
                 | e :: s5 => if e =? 125 then Some (if mx <? 0 then -1 else mn, mx, s5) else None
                 | [] => None
                 end
               end
        end
      else if c =? 125 then Some (mn, mn, s2)
      else None
    end
  end.

(* the loop of \x{...}: Some (rune, rest), or None for "break Switch" (invalid escape) *)
Fixpoint hex_loop (t : str) (r nhex : Z) : res (option (Z * str)) :=
  match t with
  | [] => Ok None
  | b :: t' =>
    if 128 <=? b then match next_rune t with Err e => Err e | _ => Ok None end
    else if b =? 125 then (if nhex =? 0 then Ok None else Ok (Some (r, t')))
    else let v := unhex b in
         if v <? 0 then Ok None
         else if max_rune <? r * 16 + v then Ok None
         else hex_loop t' (r * 16 + v) (nhex + 1)
  end.

(* parseEscape: s begins with a backslash *)
Definition parse_escape (s : str) : res (Z * str) :=
  match tl s with
  | [] => Err ErrTrailingBackslash
  | t0 =>
    match next_rune t0 with
    | Err e => Err e
    | OutOfFuel => OutOfFuel
    | Ok (c, t) =>
      let octal (r : Z) (t : str) : res (Z * str) :=
        match t with
        | d1 :: t1 =>
          if is_octal d1 then
            match t1 with
            | d2 :: t2 => if is_octal d2 then Ok ((r * 8 + (d1 - 48)) * 8 + (d2 - 48), t2) else Ok (r * 8 + (d1 - 48), t1)
            | [] => Ok (r * 8 + (d1 - 48), t1)
            end
          else Ok (r, t)
        | [] => Ok (r, t)
        end in
      if (49 <=? c) && (c <=? 55) then
        match t with
        | d :: _ => if is_octal d then octal (c - 48) t else Err ErrEscape
        | [] => Err ErrEscape
        end
      else if c =? 48 then octal 0 t
      else if c =? 120 then
        match t with
        | [] => Err ErrEscape
        | _ =>
          match next_rune t with
          | Err e => Err e
          | OutOfFuel => OutOfFuel
          | Ok (c1, t1) =>
            if c1 =? 123 then
              match hex_loop t1 0 0 with
              | Ok (Some rt) => Ok rt
              | Ok None => Err ErrEscape
              | Err e => Err e
              | OutOfFuel => OutOfFuel
              end
            else
              match next_rune t1 with
              | Err e => Err e
              | OutOfFuel => OutOfFuel
              | Ok (c2, t2) =>
                if (unhex c1 <? 0) || (unhex c2 <? 0) then Err ErrEscape else Ok (unhex c1 * 16 + unhex c2, t2)
              end
          end
        end
      else if c =? 97 then Ok (7, t)
      else if c =? 102 then Ok (12, t)
      else if c =? 110 then Ok (10, t)
      else if c =? 114 then Ok (13, t)
      else if c =? 116 then Ok (9, t)
      else if c =? 118 then Ok (11, t)
      else if (c <? 128) && negb (isalnum c) then Ok (c, t)
      else Err ErrEscape
    end
  end.

(* parseUnicodeClass: s begins with \p or \P *)
Definition lex_unicode_class (fold : bool) (r : cbuild) (s : str) : res (cbuild * str) :=
  let negated := match s with _ :: c :: _ => c =? 80 | _ => false end in
  let t := skipn 2 s in
  match next_rune t with
  | Err e => Err e
  | OutOfFuel => OutOfFuel
  | Ok (c, t1) =>
    let found : res (str * str) :=
      if c =? 123 then
        match index_byte 125 s with
        | None => if check_utf8 O s then Err ErrCharRange else Err ErrUTF8
        | Some e =>
          let name := firstn (e - 3) (skipn 3 s) in
          if check_utf8 O name then Ok (name, skipn (S e) s) else Err ErrUTF8
        end
      else Ok (firstn (Z.to_nat (snd (decode t))) t, t1) in   (* the bytes of the rune: s[2 : len(s)-len(t1)] *)
    match found with
    | Err e => Err e
    | OutOfFuel => OutOfFuel
    | Ok (name, rest) =>
      let '(negated, name) := match name with 94 :: n => (negb negated, n) | _ => (negated, name) end in
      match unicode_table name with
      | None => Err ErrCharRange
      | Some (tab, ftab) => Ok (append_unicode fold r negated tab ftab, rest)
      end
    end
  end.

(* parseClassChar *)
Definition class_char (s : str) : res (Z * str) :=
  match s with
  | [] => Err ErrMissingBracket
  | c :: _ => if c =? 92 then parse_escape s else next_rune s
  end.

(* the loop of parseClass *)
Fixpoint class_loop (fuel : nat) (fold : bool) (t : str) (first : bool) (class : cbuild) : res (cbuild * str) :=
  match fuel with
  | O => OutOfFuel
  | S fuel' =>
    let range : res (cbuild * str) :=
      match class_char t with
      | Err e => Err e
      | OutOfFuel => OutOfFuel
      | Ok (lo, t1) =>
        let single := class_loop fuel' fold t1 false (if fold then append_folded_range class lo lo else append_range class lo lo) in
        match t1 with
        | d :: ((c :: _) as t2) =>
          if negb (d =? 45) || (c =? 93) then single
          else match class_char t2 with
               | Err e => Err e
               | OutOfFuel => OutOfFuel
               | Ok (hi, t3) =>
                 if hi <? lo then Err ErrCharRange
                 else class_loop fuel' fold t3 false (if fold then append_folded_range class lo hi else append_range class lo hi)
               end
        | _ => single
        end
      end in
    let escapes : res (cbuild * str) :=
      match t with
      | b :: c :: t2 =>
        if negb (b =? 92) then range
        else if (c =? 112) || (c =? 80) then
          match lex_unicode_class fold class t with
          | Ok (class', rest) => class_loop fuel' fold rest false class'
          | r => r
          end
        else match perl_group c with
             | Some g => class_loop fuel' fold t2 false (append_group fold class g)
             | None => range
             end
      | _ => range
      end in
    let named : res (cbuild * str) :=
      match t with
      | b :: c :: ((_ :: _) as t2) =>
        if (b =? 91) && (c =? 58) then
          match index_pair 58 93 t2 with
          | Some i =>
            match posix_group (firstn i t2) with
            | Some g => class_loop fuel' fold (skipn (i + 2) t2) false (append_group fold class g)
            | None => Err ErrCharRange
            end
          | None => escapes
          end
        else escapes
      | _ => escapes
      end in
    match t with
    | b :: rest => if (b =? 93) && negb first then Ok (class, rest) else if b =? 93 then range else named
    | [] => range
    end
  end.

(* parseClass up to the push: s begins with '['; the fuel is more than the length of s *)
Definition lex_class (fuel : nat) (fold : bool) (s : str) : res (cls * str) :=
  let t := tl s in
  let '(negated, t) := match t with c :: t' => if c =? 94 then (true, t') else (false, t) | [] => (false, t) end in
  match class_loop fuel fold t true [] with
  | Ok (class, rest) =>
    let c := clean_class (cb_done class) in
    Ok ((if negated then negate_class c else c), rest)
  | Err e => Err e
  | OutOfFuel => OutOfFuel
  end.

(* isValidCaptureName (the name is valid UTF-8) *)
Definition valid_capture_name (name : str) : bool :=
  match name with
  | [] => false
  | _ => forallb (fun c => (c =? 95) || isalnum c) name
  end.

Inductive token :=
| TLit (c : Z)                               (* a rune *)
| TEscLit (c : Z)                            (* a single-character escape *)
| TLParen
| TNamed (name : str)
| TFlags (f : Z) (group : bool)              (* (?flags) or (?flags: with the new flags *)
| TBar | TRParen | TCaret | TDollar | TDot
| TClass (c : cls)                           (* [...] and \d \pL ...: re.Rune at the push *)
| TRepeat (o : rop) (mn mx : Z) (lazy : bool)
| TOp (o : rop)                              (* \A \b \B \z *)
| TQuote (runes : list Z) (bad : bool).      (* \Q...\E: the runes up to an invalid byte *)

(* the flags loop of parsePerlFlags.  While [neg] the Go code works on the complement of the flags. *)
Fixpoint flags_loop (t : str) (flags : Z) (neg saw : bool) : res (token * str) :=
  match t with
  | [] => Err ErrPerlOp
  | b :: t' =>
    let on (bit : Z) := if neg then fclear flags bit else fset flags bit in
    if 128 <=? b then match next_rune t with Err e => Err e | _ => Err ErrPerlOp end
    else if b =? 105 then flags_loop t' (on fFoldCase) neg true
    else if b =? 109 then flags_loop t' (if neg then fset flags fOneLine else fclear flags fOneLine) neg true
    else if b =? 115 then flags_loop t' (on fDotNL) neg true
    else if b =? 85 then flags_loop t' (on fNonGreedy) neg true
    else if b =? 45 then (if neg then Err ErrPerlOp else flags_loop t' flags true false)
    else if (b =? 58) || (b =? 41) then
      if neg && negb saw then Err ErrPerlOp else Ok (TFlags flags (b =? 58), t')
    else Err ErrPerlOp
  end.

(* parsePerlFlags: s begins with "(?" *)
Definition lex_perl_flags (flags : Z) (s : str) : res (token * str) :=
  let named (start : nat) : res (token * str) :=
    match index_byte 62 s with
    | None => if check_utf8 O s then Err ErrNamedCapture else Err ErrUTF8
    | Some e =>
      let name := firstn (e - start) (skipn start s) in
      if negb (check_utf8 O name) then Err ErrUTF8
      else if valid_capture_name name then Ok (TNamed name, skipn (S e) s)
      else Err ErrNamedCapture
    end in
  let plain := flags_loop (skipn 2 s) flags false false in
  match s with
  | _ :: _ :: c2 :: c3 :: rest =>
    if (c2 =? 80) && (c3 =? 60) then match rest with _ :: _ => named 4%nat | [] => plain end
    else if c2 =? 60 then named 3%nat
    else plain
  | _ => plain
  end.

(* the text of one turn of the parse loop: t = b :: t'; the fuel (for the loop of a bracket expression) is more
   than the length of t' *)
Definition lex (fuel : nat) (flags : Z) (b : Z) (t' : str) : res (token * str) :=
  let t := b :: t' in
  let fold := has flags fFoldCase in
  let lazy_of (after : str) : bool * str :=
    match after with c :: a => if c =? 63 then (true, a) else (false, after) | [] => (false, after) end in
    if b =? 40 then
      match t' with
      | c :: _ => if c =? 63 then lex_perl_flags flags t else Ok (TLParen, t')
      | [] => Ok (TLParen, t')
      end
    else if b =? 124 then Ok (TBar, t')
    else if b =? 41 then Ok (TRParen, t')
    else if b =? 94 then Ok (TCaret, t')
    else if b =? 36 then Ok (TDollar, t')
    else if b =? 46 then Ok (TDot, t')
    else if b =? 91 then
      match lex_class fuel fold t with
      | Ok (c, rest) => Ok (TClass c, rest)
      | Err e => Err e
      | OutOfFuel => OutOfFuel
      end
    else if (b =? 42) || (b =? 43) || (b =? 63) then
      let '(lazy, rest) := lazy_of t' in
      Ok (TRepeat (if b =? 42 then OpStar else if b =? 43 then OpPlus else OpQuest) 0 0 lazy, rest)
    else if b =? 123 then
      match parse_repeat t' with
      | None => Ok (TLit 123, t')
      | Some (mn, mx, after) =>
        if (mn <? 0) || (1000 <? mn) || (1000 <? mx) || ((0 <=? mx) && (mx <? mn)) then Err ErrRepeatSize
        else let '(lazy, rest) := lazy_of after in Ok (TRepeat OpRepeat mn mx lazy, rest)
      end
    else if b =? 92 then
      let plain : res (token * str) :=
        match parse_escape t with
        | Ok (c, rest) => Ok (TEscLit c, rest)
        | Err e => Err e
        | OutOfFuel => OutOfFuel
        end in
      match t' with
      | c :: t'' =>
        if c =? 65 then Ok (TOp OpBeginText, t'')
        else if c =? 98 then Ok (TOp OpWordBoundary, t'')
        else if c =? 66 then Ok (TOp OpNoWordBoundary, t'')
        else if c =? 67 then Err ErrEscape
        else if c =? 81 then
          let '(lit, rest) := match index_pair 92 69 t'' with
                              | Some i => (firstn i t'', skipn (i + 2) t'')
                              | None => (t'', [])
                              end in
          let '(runes, bad) := runes_of O lit in Ok (TQuote runes bad, rest)
        else if c =? 122 then Ok (TOp OpEndText, t'')
        else if (c =? 112) || (c =? 80) then
          match lex_unicode_class fold [] t with
          | Ok (r, rest) => Ok (TClass (cb_done r), rest)
          | Err e => Err e
          | OutOfFuel => OutOfFuel
          end
        else match perl_group c with
             | Some g => Ok (TClass (cb_done (append_group fold [] g)), t'')
             | None => plain
             end
      | [] => plain
      end
    else match next_rune t with
         | Ok (c, rest) => Ok (TLit c, rest)
         | Err e => Err e
         | OutOfFuel => OutOfFuel
         end.

(* ---------------------------------------------------------------- what the parser does with a token *)

Definition bind (r : res pst) (f : pst -> res pst) : res pst :=
  match r with Ok p => f p | e => e end.

(* parseVerticalBar *)
Definition parse_vertical_bar (p : pst) : res pst :=
  bind (concat p) (fun p =>
    let '(swapped, p) := swap_vertical_bar p in
    if swapped then Ok p else push_op OpVerticalBar p).

(* concat, swapVerticalBar with the pop, alternate: the end of a group and of the expression *)
Definition close_group (p : pst) : res pst :=
  bind (concat p) (fun p =>
    let '(swapped, p) := swap_vertical_bar p in
    alternate (if swapped then pop p else p)).

(* parseRightParen *)
Definition parse_right_paren (p : pst) : res pst :=
  bind (close_group p) (fun p =>
    match p_stack p with
    | re1 :: re2 :: rest =>
      if negb (op_eqb (n_op re2) OpLeftParen) then Err ErrUnexpectedParen
      else
        let p := with_flags (with_stack p rest) (n_flags re2) in
        if n_cap re2 =? 0 then push re1 p
        else push (set_subs (set_op re2 OpCapture) [re1]) p
    | _ => Err ErrUnexpectedParen
    end).

Definition left_paren (name : str) (p : pst) : res pst :=
  let p := with_numcap p (p_numcap p + 1) in
  let '(re, p) := new_regexp p OpLeftParen in
  push (let 'Node i o _ s r c a b _ _ := re in Node i o (p_flags p) s r c a b (p_numcap p) name) p.

Definition push_class (c : cls) (p : pst) : res pst :=
  let '(re, p) := new_regexp p OpCharClass in push (set_cls (set_flags re (p_flags p)) c) p.

Definition act (tok : token) (last_repeat : bool) (p : pst) : res pst :=
  match tok with
  | TLit c => literal c p
  | TEscLit c => let '(re, p) := new_regexp p OpCharClass in literal c (reuse p re)
  | TLParen => left_paren [] p
  | TNamed name => left_paren name p
  | TFlags f group =>
    bind (if group then push_op OpLeftParen p else Ok p) (fun p => Ok (with_flags p f))
  | TBar => parse_vertical_bar p
  | TRParen => parse_right_paren p
  | TCaret => push_op (if has (p_flags p) fOneLine then OpBeginText else OpBeginLine) p
  | TDollar =>
    if has (p_flags p) fOneLine then
      let '(re, p) := new_regexp p OpEndText in push (set_flags re (fset (p_flags p) fWasDollar)) p
    else push_op OpEndLine p
  | TDot => push_op (if has (p_flags p) fDotNL then OpAnyChar else OpAnyCharNotNL) p
  | TClass c => push_class c p
  | TRepeat o mn mx lazy => repeat o mn mx lazy last_repeat p
  | TOp o => push_op o p
  | TQuote runes bad =>
    bind (fold_left (fun r c => bind r (literal c)) runes (Ok p)) (fun p => if bad then Err ErrUTF8 else Ok p)
  end.

Definition is_repeat (tok : token) : bool := match tok with TRepeat _ _ _ _ => true | _ => false end.

(* the parse loop *)
Fixpoint parse_loop (fuel : nat) (t : str) (last_repeat : bool) (p : pst) : res pst :=
  match fuel with
  | O => OutOfFuel
  | S fuel' =>
    match t with
    | [] => Ok p
    | b :: t' =>
      match lex fuel' (p_flags p) b t' with
      | Err e => Err e
      | OutOfFuel => OutOfFuel
      | Ok (tok, rest) =>
        match act tok last_repeat p with
        | Ok p' => parse_loop fuel' rest (is_repeat tok) p'
        | r => r
        end
      end
    end
  end.

(* syntax.Parse(s, syntax.Perl) *)
Definition rx_parse (s : str) : res node :=
  match bind (parse_loop (S (length s)) s false p_init) close_group with
  | Ok p => match p_stack p with [re] => Ok re | _ => Err ErrMissingParen end
  | Err e => Err e
  | OutOfFuel => OutOfFuel
  end.

(* regexp.Compile(s) succeeds *)
Definition rx_valid (s : str) : bool := match rx_parse s with Ok _ => true | _ => false end.

End RxSyntaxM.
Export RxSyntaxM.
