(* Model of journal.Builder with source positions (lib/journal/journal.go since /repo 69e47a8).

   Included files are parsed concurrently (syntax.ParseFileRecursively, model.FromStream); each
   file reaches journal.Builder.Add as one batch, the batches arrive in an order that depends
   on goroutine scheduling.  Every model directive carries [Src], the syntax directive it was
   made from, and with it the range (file path, start offset) in the source text.  All model
   directives made from one syntax directive (the parts of an accrual) share that range and
   are added one after the other.

   Builder.Build sorts each of the five lists of every day with sort.SliceStable and the
   comparator [sourceBefore]: path first (Go string comparison = bytewise), then start offset.
   (Directives loaded from files always have a source; the `Src == nil` branch of
   sourceBefore concerns directives made by importers, which are never mixed with loaded ones
   before a Build.)

   This file: directives tagged with their source key, the builder on tagged directives
   (same shape as Model/Journal.v [builder_add]), Build with the sort ([build_sorted]) and
   without it ([build_pinned], the code before 69e47a8), and the commands of Model/Cli.v,
   CliTranscode.v and CliPortfolio.v as functions of the built journal.

   sort.SliceStable is modelled by [Str.sort_by] (insertion of the elements, first to last,
   each behind the elements that are not greater): for a comparator that is a strict weak
   order the result is the only list that is ordered and keeps equivalent elements in their
   original relative order (Proofs/StableSort.v [sort_by_unique]), which is the documented
   contract of sort.SliceStable. *)
From Coq Require Import ZArith QArith List Bool.
From Knut Require Import Model.Str Model.Dec Model.Date Model.Account Model.Ledger Model.Price
     Model.Journal Model.Check Model.Pipeline Model.Table Model.Report Model.JPrinter Model.Cli
     Model.Beancount Model.CliTranscode Model.Perf Model.Weights Model.CliPortfolio.
Import ListNotations.
Open Scope bool_scope.
Open Scope Z_scope.

(* syntax.Range as far as sourceBefore reads it *)
Record src := mkSrc { s_path : str; s_start : Z }.

(* sourceBefore(true, true, ...) *)
Definition src_ltb (a b : src) : bool :=
  if str_eqb (s_path a) (s_path b) then s_start a <? s_start b
  else str_ltb (s_path a) (s_path b).

(* the comparator handed to sort.SliceStable: the sources of the two elements *)
Definition by_src {A} (x y : src * A) : bool := src_ltb (fst x) (fst y).

(* journal.Day before Build: every element with its source *)
Record tday := mkTDay {
  td_date : Z;
  td_prices : list (src * (commodity * dec * commodity));
  td_opens : list (src * account);
  td_txns : list (src * txn);
  td_asserts : list (src * list balance);
  td_closes : list (src * account) }.

Definition tempty_day (d : Z) : tday := mkTDay d [] [] [] [] [].

Record tbuilder := mkTBuilder { tb_days : list tday; tb_min : Z; tb_max : Z }.

Definition new_tbuilder : tbuilder := mkTBuilder [] max_date 0.

(* Builder.Day *)
Fixpoint tupd_day (days : list tday) (d : Z) (f : tday -> tday) : list tday :=
  match days with
  | [] => [f (tempty_day d)]
  | x :: rest =>
    if d =? td_date x then f x :: rest
    else if d <? td_date x then f (tempty_day d) :: days
    else x :: tupd_day rest d f
  end.

(* what Builder.Add appends to the day of the directive *)
Definition tadd_to_day (s : src) (d : directive) (x : tday) : tday :=
  match d with
  | DPrice _ c p t => mkTDay (td_date x) (td_prices x ++ [(s, (c, p, t))]) (td_opens x) (td_txns x) (td_asserts x) (td_closes x)
  | DOpen _ a => mkTDay (td_date x) (td_prices x) (td_opens x ++ [(s, a)]) (td_txns x) (td_asserts x) (td_closes x)
  | DTxn t => mkTDay (td_date x) (td_prices x) (td_opens x) (td_txns x ++ [(s, t)]) (td_asserts x) (td_closes x)
  | DAssert _ bs => mkTDay (td_date x) (td_prices x) (td_opens x) (td_txns x) (td_asserts x ++ [(s, bs)]) (td_closes x)
  | DClose _ a => mkTDay (td_date x) (td_prices x) (td_opens x) (td_txns x) (td_asserts x) (td_closes x ++ [(s, a)])
  end.

(* Builder.Add (compare Model/Journal.v builder_add) *)
Definition tbuilder_add (b : tbuilder) (x : src * directive) : tbuilder :=
  let '(s, d) := x in
  match d with
  | DPrice dt _ _ _ =>
    mkTBuilder (tupd_day (tb_days b) dt (tadd_to_day s d)) (tb_min b) (if tb_max b <? dt then dt else tb_max b)
  | DOpen dt _ => mkTBuilder (tupd_day (tb_days b) dt (tadd_to_day s d)) (tb_min b) (tb_max b)
  | DTxn t =>
    mkTBuilder (tupd_day (tb_days b) (t_date t) (tadd_to_day s d))
               (if t_date t <? tb_min b then t_date t else tb_min b)
               (if tb_max b <? t_date t then t_date t else tb_max b)
  | DAssert dt _ => mkTBuilder (tupd_day (tb_days b) dt (tadd_to_day s d)) (tb_min b) (tb_max b)
  | DClose dt _ => mkTBuilder (tupd_day (tb_days b) dt (tadd_to_day s d)) (tb_min b) (tb_max b)
  end.

(* the directives in the order in which they reach the builder *)
Definition tbuilder_of (l : list (src * directive)) : tbuilder := fold_left tbuilder_add l new_tbuilder.

(* Builder.Days(dates) *)
Definition tbuilder_touch (b : tbuilder) (dates : list Z) : tbuilder :=
  mkTBuilder (fold_left (fun ds d => tupd_day ds d (fun x => x)) dates (tb_days b)) (tb_min b) (tb_max b).

(* sort.SliceStable(list, sourceBefore); afterwards only the directives are read *)
Definition sort_src {A} (l : list (src * A)) : list A := map snd (sort_by by_src l).

(* Day.sortBySource *)
Definition sort_day (x : tday) : day :=
  mkDay (td_date x) (sort_src (td_prices x)) (sort_src (td_opens x)) (sort_src (td_txns x))
        (sort_src (td_asserts x)) (sort_src (td_closes x)) None.

(* the day as Build returned it before 69e47a8: arrival order *)
Definition erase_day (x : tday) : day :=
  mkDay (td_date x) (map snd (td_prices x)) (map snd (td_opens x)) (map snd (td_txns x))
        (map snd (td_asserts x)) (map snd (td_closes x)) None.

(* Builder.Build (days in date order, each sorted by source) together with Builder.Period *)
Definition tbuild (b : tbuilder) : builder := mkBuilder (map sort_day (tb_days b)) (tb_min b) (tb_max b).
Definition tbuild_pinned (b : tbuilder) : builder := mkBuilder (map erase_day (tb_days b)) (tb_min b) (tb_max b).

Definition build_sorted (l : list (src * directive)) : list day := map sort_day (tb_days (tbuilder_of l)).
Definition build_sorted_b (l : list (src * directive)) : builder := tbuild (tbuilder_of l).
Definition build_pinned (l : list (src * directive)) : list day := map erase_day (tb_days (tbuilder_of l)).
Definition build_pinned_b (l : list (src * directive)) : builder := tbuild_pinned (tbuilder_of l).

(* what a file contributes: its directives, each with the file's path and its offset *)
Definition file_directives (path : str) (l : list (Z * directive)) : list (src * directive) :=
  map (fun od => (mkSrc path (fst od), snd od)) l.

(* model.FromStream + ParseDirective on syntax directives with their source: every model
   directive made from a syntax directive carries that directive's source *)
Fixpoint tparse (l : list (src * sdirective)) : mresult (list (src * directive)) :=
  match l with
  | [] => MOk []
  | (s, d) :: rest =>
    mbind (parse_directive d) (fun ds =>
    mbind (tparse rest) (fun ds' => MOk (map (fun x => (s, x)) ds ++ ds')))
  end.

(* ---------------------------------------------------------------- the commands, from the journal on

   The bodies of Model/Cli.v, CliTranscode.v and CliPortfolio.v after `load`: the same
   definitions with the builder as argument (Proofs/DeterminismProofs.v *_factor: each command
   of those files is its flag validation, `load`, and the function below). *)

Definition balance_report_of (cfg : balance_cfg) (b : builder) : cresult (report * partition) :=
  cbind (cfg_partition cfg b) (fun part =>
  let b := if bc_close cfg then builder_touch b (start_dates part) else b in
  let days := b_days b in
  cbind (run_stage (check_proc_current (bc_lenient cfg)) check_init days) (fun r1 =>
  cbind (match bc_valuation cfg with
         | Some v =>
           cbind (run_stage (compute_prices_proc v) (mkCp [] None) (snd r1)) (fun r2 =>
           cbind (run_stage (valuate_proc v) (mkVal None None []) (snd r2)) (fun r3 => COk (snd r3)))
         | None => COk (snd r1)
         end) (fun days =>
  cbind (run_stage (filter_proc (span part)) tt days) (fun r4 =>
  cbind (if bc_close cfg
         then cbind (run_stage (close_proc (start_dates part)) (mkClose [] []) (snd r4)) (fun r5 => COk (snd r5))
         else COk (snd r4)) (fun days =>
  cbind (run_stage (query_proc (balance_query cfg part) report_insert) new_report days) (fun r6 =>
  COk (fst r6, part))))))).

Definition balance_table_of (cfg : balance_cfg) (b : builder) : cresult table :=
  cbind (balance_report_of cfg b) (fun rp =>
  COk (render_report (mkRenderCfg (bc_valuation cfg) (bc_details cfg) (bc_alpha cfg) (bc_diff cfg))
                     (fst rp) (end_dates (snd rp)))).

Definition balance_csv_of (cfg : balance_cfg) (b : builder) : cresult str :=
  cbind (balance_table_of cfg b) (fun t => COk (render_csv t)).

Definition balance_text_of (cfg : balance_cfg) (tc : text_cfg) (b : builder) : cresult str :=
  cbind (balance_table_of cfg b) (fun t => COk (render_text tc t)).

Definition check_of (repaired : bool) (b : builder) : cresult unit :=
  cbind (run_stage (check_proc_current repaired) check_init (b_days b)) (fun _ => COk tt).

Definition print_of (lenient : bool) (b : builder) : cresult str :=
  cbind (run_stage (check_proc_current lenient) check_init (b_days b)) (fun _ =>
  COk (print_journal (b_days b))).

Definition transcode_of (lenient : bool) (c : commodity) (b : builder) : cresult str :=
  cbind (transcode_stages lenient c (b_days b)) (fun days => COk (transcode days c)).

Definition weights_entries_of (cfg : pf_cfg) (u : universe) (b : builder) : cresult (list entry) :=
  cbind (pf_partition cfg b) (fun part =>
  let b := builder_touch b (end_dates part) in
  cbind (valued_days cfg (b_days b)) (fun days =>
  cbind (day_values cfg days) (fun vs =>
  match query_entries u (pc_mapping cfg) (end_dates part) (fst vs) with
  | WOk es => COk es
  | WPanic => CPanic k_bounds
  end))).

Definition weights_csv_of (cfg : pf_cfg) (u : universe) (b : builder) : cresult str :=
  cbind (weights_entries_of cfg u b) (fun es => COk (weights_csv (render_weights (pc_alpha cfg) es))).

Definition returns_of (fx : fixes) (cfg : pf_cfg) (b : builder) : cresult str :=
  cbind (pf_partition cfg b) (fun part =>
  let days0 := if fx_wiring fx then b_days (builder_touch b (end_dates part)) else b_days b in
  cbind (valued_days cfg days0) (fun days =>
  cbind (day_values cfg days) (fun vs =>
  cbind (day_flows fx cfg (snd vs)) (fun fs =>
  COk (returns_text (perf_loop part (end_dates part) (Some 1%Q) (join_perf (fst vs) fs))))))).

(* a command run on the directives in arrival order [l]: Build, then the command *)
Definition run_sorted {R} (cmd : builder -> R) (l : list (src * directive)) : R := cmd (build_sorted_b l).
Definition run_pinned {R} (cmd : builder -> R) (l : list (src * directive)) : R := cmd (build_pinned_b l).

(* `knut print` on syntax directives in arrival order [l] (the entry point of the
   correspondence check C06.order) *)
Definition print_tagged (lenient : bool) (l : list (src * sdirective)) : cresult str :=
  cbind (of_mresult (tparse l)) (run_sorted (print_of lenient)).
