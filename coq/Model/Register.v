(* Model of `knut register`: cmd/commands/register.go (registerRunner.execute) and
   lib/reports/register/register.go (Report, Insert, Renderer.Render, renderNode), on top of the
   pipeline stages of Model/Pipeline.v, the command wiring of the current code (Model/CliSafe.v:
   load_safe, cfg_partition_safe, mapping_flag_ok) and the text renderer of Model/Table.v.

   Go                                         here
   registerRunner (flags)                     register_cfg
   amounts.Key {Date, Account, Other,         rkey; Valuation is left out: Query.Into puts the same
     Commodity, Valuation, Description}         pointer (query.Valuation) into every key of a run
   Report.nodes map[time.Time]*Node,          one association list sorted by the encoded key
     Node.Amounts map[Key]decimal               (rk_enc, date first), so that two reports with the same
                                                bindings are equal; the node of a date = the entries
                                                with that date (reg_node)
   Report.Insert                              reg_add
   Amounts.Index(cmp): `for k := range am`    reg_index_with cmp: a stable insertion sort of the entries
     then sort.Slice with cmp                   taken in SOME enumeration order; the command uses the order
                                                of the association list.  rkey_cmp is the comparison of the
                                                repaired code (total on the keys of a node, so the
                                                enumeration does not matter); rkey_cmp_pinned is the one of
                                                a319b05, which looks at Other (and Commodity) only: keys that
                                                differ in Account or Description tie and Go leaves them in
                                                map-iteration order (finding C06-register-row-order;
                                                Properties/C06reg.v C06_register_map_order[_pinned_refuted])
   Shorten returns nil for a level-0 rule;    rk_other = None; Renderer.Render then dereferences nil
     the key is inserted with Other = nil       (account.Compare / Account.Name): reg_render = TPanic
                                                (finding C06-register-hidden-dest-panic)
   --color                                    always false;  --cpuprofile: not modelled
   -s (SortAlphabetically)                    carried in the configuration, unused by Render (as in Go) *)
From Coq Require Import ZArith List Bool.
From Knut Require Import Model.Str Model.Dec Model.Date Model.Account Model.Ledger Model.Price
     Model.Journal Model.Check Model.Pipeline Model.Table Model.Report Model.Cli Model.Loader Model.CliSafe.
Import ListNotations.
Open Scope bool_scope.
Open Scope Z_scope.

Record register_cfg := mkRegisterCfg {
  rg_from : Z;                       (* --from, 0 (zero time) when absent *)
  rg_to : Z;                         (* --to *)
  rg_interval : interval;            (* --days/--weeks/--months/--quarters/--years *)
  rg_last : Z;                       (* --last *)
  rg_valuation : option commodity;   (* -v *)
  rg_show_commodities : bool;        (* -c *)
  rg_show_descriptions : bool;       (* -d *)
  rg_show_source : bool;             (* -a *)
  rg_alpha : bool;                   (* -s; not used by the renderer *)
  rg_mapping : list rule;            (* -m *)
  rg_remap : list rx;                (* -r *)
  rg_sources : list rx;              (* --source *)
  rg_dests : list rx;                (* --dest *)
  rg_commodities : list rx;          (* --commodity *)
  rg_lenient : bool }.               (* which Checker.balance is in force, see Model/Check.v *)

(* r.showCommodities = r.showCommodities || valuation == nil *)
Definition rg_comms (cfg : register_cfg) : bool :=
  rg_show_commodities cfg || match rg_valuation cfg with None => true | Some _ => false end.

(* ---------------------------------------------------------------- keys *)

Record rkey := mkRKey {
  rk_date : Z;                       (* Align(date); the zero time is day 0 *)
  rk_account : option account;       (* nil unless -a *)
  rk_other : option account;         (* nil when Shorten hides the account *)
  rk_com : option commodity;         (* nil unless commodities are shown *)
  rk_desc : str }.                   (* "" unless -d *)

(* an injective encoding of keys as strings (lists of Z): every component but the last is
   self-delimiting (length first), the date comes first so that the list is ordered by date *)
Definition enc_str (s : str) : str := Z.of_nat (length s) :: s.
Definition enc_acc (a : account) : str := Z.of_nat (length a) :: concat (map enc_str a).
Definition enc_oacc (o : option account) : str := match o with None => [0] | Some a => 1 :: enc_acc a end.
Definition enc_ostr (o : option str) : str := match o with None => [0] | Some s => 1 :: enc_str s end.
Definition rk_enc (k : rkey) : str :=
  rk_date k :: enc_oacc (rk_account k) ++ enc_oacc (rk_other k) ++ enc_ostr (rk_com k) ++ rk_desc k.

(* ---------------------------------------------------------------- Report *)

Definition reg_report := smap (rkey * dec).

Definition new_reg_report : reg_report := [].

Definition reg_get (r : reg_report) (k : rkey) : dec :=
  match sm_get r (rk_enc k) with Some (_, q) => q | None => dec_nil end.

(* Report.Insert: nodes[k.Date].Amounts.Add(k, v) *)
Definition reg_add (r : reg_report) (k : rkey) (v : dec) : reg_report :=
  sm_put r (rk_enc k) (k, add (reg_get r k) v).

(* ---------------------------------------------------------------- Query.Into(report) *)

Record reg_query := mkRegQuery {
  rq_valued : bool;
  rq_where : posting -> bool;                    (* on the posting as booked *)
  rq_account : account -> option account;        (* am: Remap if -a, else the nil mapper *)
  rq_other : account -> shorten_result;          (* Remap, then Shorten *)
  rq_com : commodity -> option commodity;
  rq_desc : str -> str;
  rq_date : Z -> Z }.

Definition reg_query_posting (q : reg_query) (r : reg_report) (t : txn) (p : posting)
  : Journal.presult (reg_report * posting) :=
  let amount := if rq_valued q then p_val p else p_qty p in
  if rq_where q p then
    match rq_other q (p_other p) with
    | ShPanic => RPanic k_shorten
    | o =>
      let other := match o with ShAcc a => Some a | _ => None end in
      ROk (reg_add r (mkRKey (rq_date q (t_date t)) (rq_account q (p_acc p)) other
                             (rq_com q (p_com p)) (rq_desc q (t_desc t))) amount, p)
    end
  else ROk (r, p).

Definition reg_query_proc (q : reg_query) : processor reg_report :=
  mkProc None None None None (Some (reg_query_posting q)) None None None.

(* predicate.ByName over a regex list: no regex = everything *)
Definition rxs_or_all (rs : list rx) (s : str) : bool :=
  match rs with [] => true | _ => rxs_match rs s end.

Definition align_z (part : partition) (d : Z) : Z :=
  match Date.align part d with Some x => x | None => 0 end.

Definition register_query (cfg : register_cfg) (part : partition) : reg_query :=
  mkRegQuery (match rg_valuation cfg with Some _ => true | None => false end)
             (fun p => rxs_or_all (rg_sources cfg) (acc_name (p_acc p))
                       && rxs_or_all (rg_dests cfg) (acc_name (p_other p))
                       && rxs_or_all (rg_commodities cfg) (p_com p))
             (fun a => if rg_show_source cfg then Some (remap (rg_remap cfg) a) else None)
             (fun a => shorten (rg_mapping cfg) (remap (rg_remap cfg) a))
             (fun c => if rg_comms cfg then Some c else None)
             (fun s => if rg_show_descriptions cfg then s else [])
             (align_z part).

(* ---------------------------------------------------------------- Renderer *)

Record reg_render_cfg := mkRegRenderCfg {
  rr_commodities : bool; rr_source : bool; rr_descriptions : bool }.

Definition s_Date : str := [68;97;116;101].
Definition s_Source : str := [83;111;117;114;99;101].
Definition s_Dest : str := [68;101;115;116].
Definition s_Amount : str := [65;109;111;117;110;116].
Definition s_Desc : str := [68;101;115;99].

Definition oacc_name (o : option account) : str := match o with Some a => acc_name a | None => [] end.
Definition ostr (o : option str) : str := match o with Some s => s | None => [] end.

(* compareAccount / compareAccountAndCommodities on keys whose Other is not nil *)
Definition oacc_cmp (a b : option account) : comparison :=
  match a, b with
  | Some x, Some y => acc_cmp x y
  | None, None => Eq
  | None, _ => Lt
  | _, None => Gt
  end.

(* Renderer.compare of the repaired code (fix of finding C06-register-row-order): Other, then
   Commodity if commodities are shown, then Account if the source is shown, then Description --
   a total order on the keys of one node *)
Definition rkey_cmp (rc : reg_render_cfg) (k1 k2 : rkey) : comparison :=
  cmp_then (oacc_cmp (rk_other k1) (rk_other k2))
  (cmp_then (if rr_commodities rc then str_cmp (ostr (rk_com k1)) (ostr (rk_com k2)) else Eq)
  (cmp_then (if rr_source rc then oacc_cmp (rk_account k1) (rk_account k2) else Eq)
            (str_cmp (rk_desc k1) (rk_desc k2)))).

(* the pinned comparison (a319b05): compareAccountAndCommodities / compareAccount look at Other
   (and Commodity) only *)
Definition rkey_cmp_pinned (rc : reg_render_cfg) (k1 k2 : rkey) : comparison :=
  cmp_then (oacc_cmp (rk_other k1) (rk_other k2))
           (if rr_commodities rc then str_cmp (ostr (rk_com k1)) (ostr (rk_com k2)) else Eq).

Definition rentry_ltb (cmp : rkey -> rkey -> comparison) (a b : rkey * dec) : bool :=
  match cmp (fst a) (fst b) with Lt => true | _ => false end.

(* Amounts.Index(cmp) for a map enumerated as [entries]: sort.Slice is modelled as a stable
   insertion sort (it is one for up to 12 elements); with a comparison that is total on the
   keys the result does not depend on the enumeration (Proofs/RegisterOrder.v) *)
Definition reg_index_with (cmp : rkey -> rkey -> comparison) (entries : list (rkey * dec)) : list (rkey * dec) :=
  sort_by (rentry_ltb cmp) entries.

(* desc[:100] on bytes *)
Definition cut100 (s : str) : str := firstn 100 s.

Definition reg_row (rc : reg_render_cfg) (first : bool) (kv : rkey * dec) : list cell :=
  let k := fst kv in
  [if first then CText (format_date (rk_date k)) ALeft 0 else CEmpty] ++
  (if rr_source rc then [CText (oacc_name (rk_account k)) ALeft 0] else []) ++
  [CText (oacc_name (rk_other k)) ALeft 0; CNum (neg (snd kv))] ++
  (if rr_commodities rc then [CText (ostr (rk_com k)) ALeft 0] else []) ++
  (if rr_descriptions rc then [CText (cut100 (rk_desc k)) ALeft 0] else []).

Definition reg_rows (rc : reg_render_cfg) (idx : list (rkey * dec)) : list (list cell) :=
  match idx with
  | [] => []
  | kv :: rest => reg_row rc true kv :: map (reg_row rc false) rest
  end.

(* renderNode for a node whose map is enumerated as [entries] *)
Definition reg_render_node_with (cmp : rkey -> rkey -> comparison) (rc : reg_render_cfg) (t : table)
           (entries : list (rkey * dec)) : table :=
  add_separator_row (fold_left add_row (reg_rows rc (reg_index_with cmp entries)) t).
Definition reg_render_node (rc : reg_render_cfg) := reg_render_node_with (rkey_cmp rc) rc.
Definition reg_render_node_pinned (rc : reg_render_cfg) := reg_render_node_with (rkey_cmp_pinned rc) rc.

(* dict.SortedKeys(r.nodes, compare.Time) *)
Fixpoint insert_date (d : Z) (l : list Z) : list Z :=
  match l with
  | [] => [d]
  | x :: rest => if d =? x then l else if d <? x then d :: l else x :: insert_date d rest
  end.
Definition reg_dates (r : reg_report) : list Z :=
  fold_left (fun l kv => insert_date (rk_date (fst (snd kv))) l) r [].

Definition reg_node (r : reg_report) (d : Z) : list (rkey * dec) :=
  filter (fun kv => rk_date (fst kv) =? d) (map snd r).

Definition reg_header (rc : reg_render_cfg) : list cell :=
  [CText s_Date ACenter 0] ++
  (if rr_source rc then [CText s_Source ACenter 0] else []) ++
  [CText s_Dest ACenter 0; CText s_Amount ACenter 0] ++
  (if rr_commodities rc then [CText s_Comm ACenter 0] else []) ++
  (if rr_descriptions rc then [CText s_Desc ACenter 0] else []).

Definition reg_groups (rc : reg_render_cfg) : list Z :=
  [1; 1; 1] ++ (if rr_commodities rc then [1] else []) ++ (if rr_source rc then [1] else []) ++
  (if rr_descriptions rc then [1] else []).

(* a key whose Other is nil: account.Compare(k1.Other, k2.Other) or k.Other.Name() dereference
   a nil pointer as soon as the node is rendered *)
Definition reg_hidden (r : reg_report) : bool :=
  existsb (fun kv => match rk_other (fst (snd kv)) with None => true | Some _ => false end) r.

(* Renderer.Render *)
Definition reg_render_table (rc : reg_render_cfg) (r : reg_report) : table :=
  let t := table_new (reg_groups rc) in
  let t := add_separator_row t in
  let t := add_row t (reg_header rc) in
  let t := add_separator_row t in
  fold_left (fun t d => reg_render_node rc t (reg_node r d)) (reg_dates r) t.

Definition reg_render (rc : reg_render_cfg) (r : reg_report) : rresult table :=
  if reg_hidden r then TPanic else TOk (reg_render_table rc r).

(* ---------------------------------------------------------------- the command *)

Definition k_nil_account : str := [110;105;108;45;97;99;99;111;117;110;116].   (* nil-account *)

Definition rg_partition (cfg : register_cfg) (b : builder) : cresult partition :=
  cfg_partition_safe (mkBalanceCfg (rg_from cfg) (rg_to cfg) (rg_interval cfg) (rg_last cfg) false false
                                   None false [] [] [] [] [] true) b.

(* the flags that are validated before the journal is read: cobra parses -m (MappingFlag.Set of the
   current code rejects negative numbers), execute starts with valuation.Value(reg) *)
Definition register_flags (cfg : register_cfg) : cresult unit :=
  if negb (mapping_flag_ok (rg_mapping cfg)) then CErr k_flag [] else
  match rg_valuation cfg with
  | Some v => if valid_commodity v then COk tt else CErr k_valuation v
  | None => COk tt
  end.

(* registerRunner.execute after journal.FromPath, up to the days that reach Query.Into: Partition,
   then Sort, ComputePrices, Check, Valuate, Filter *)
Definition register_days_of (cfg : register_cfg) (b : builder) : cresult (list day * partition) :=
  cbind (rg_partition cfg b) (fun part =>
  cbind (run_stage sort_proc tt (b_days b)) (fun r0 =>
  cbind (match rg_valuation cfg with
         | Some v => cbind (run_stage (compute_prices_proc v) (mkCp [] None) (snd r0)) (fun r1 => COk (snd r1))
         | None => COk (snd r0)
         end) (fun days =>
  cbind (run_stage (check_proc_current (rg_lenient cfg)) check_init days) (fun r2 =>
  cbind (match rg_valuation cfg with
         | Some v => cbind (run_stage (valuate_proc v) (mkVal None None []) (snd r2)) (fun r3 => COk (snd r3))
         | None => COk (snd r2)
         end) (fun days =>
  cbind (run_stage (filter_proc (span part)) tt days) (fun r4 =>
  COk (snd r4, part))))))).

Definition register_report_of (cfg : register_cfg) (b : builder) : cresult reg_report :=
  cbind (register_days_of cfg b) (fun dp =>
  cbind (run_stage (reg_query_proc (register_query cfg (snd dp))) new_reg_report (fst dp)) (fun r5 =>
  COk (fst r5))).

Definition rg_render_cfg (cfg : register_cfg) : reg_render_cfg :=
  mkRegRenderCfg (rg_comms cfg) (rg_show_source cfg) (rg_show_descriptions cfg).

Definition register_table_of (cfg : register_cfg) (b : builder) : cresult table :=
  cbind (register_report_of cfg b) (fun r =>
  match reg_render (rg_render_cfg cfg) r with
  | TOk t => COk t
  | TPanic => CPanic k_nil_account
  end).

Definition register_text_of (cfg : register_cfg) (tc : text_cfg) (b : builder) : cresult str :=
  cbind (register_table_of cfg b) (fun t => COk (render_text tc t)).

(* the command on the directives of all loaded files (journal.FromPath adds them to one builder) *)
Definition register_with {R} (cfg : register_cfg) (k : builder -> cresult R) (ds : list sdirective) : cresult R :=
  cbind (register_flags cfg) (fun _ => cbind (load_safe ds) k).

Definition register_days (cfg : register_cfg) := register_with cfg (register_days_of cfg).
Definition register_report (cfg : register_cfg) := register_with cfg (register_report_of cfg).
Definition register_table (cfg : register_cfg) := register_with cfg (register_table_of cfg).

(* stdout of `knut register --color=false` *)
Definition register_text (cfg : register_cfg) (tc : text_cfg) := register_with cfg (register_text_of cfg tc).
