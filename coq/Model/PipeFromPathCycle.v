(* journal.FromPath on an arbitrary include GRAPH: the labelled transition system of
   Model/PipeFromPath.v with the parser tasks of syntax.parseRec as they are since fix 3215d33
   (findings/C14-include-cycle.patch): every task carries the chain of its ancestors.
   Executable definitions only; proofs in Proofs/PipeFromPathCycleProofs.v; statements in
   Properties/C19.v (C19_frompath_cycle_*, C19_frompath_diamond_loads_twice).

     func parseRec(ctx, wg, resCh, file, ancestors) (File, error) {
         key := filepath.Clean(file); chain := ancestors ++ [key]
         for a in ancestors { if a == key { return error("include cycle: chain") } }     -- KStart
         text := os.ReadFile(file); p := parser.New(text)
         p.Callback = func(d) { if d is an include of g {
                                   wg.Go(func() { res, err := parseRec(ctx, wg, resCh, g, chain)   -- KSpawn
                                                  if err != nil { return err }
                                                  return cpr.Push(ctx, resCh, res) }) } }
         return p.ParseFile()                                                                  -- KParsed
     }

   Stage 1.  A task is spawned by wg.Go for every include directive, as soon as the directive is
   parsed, with the chain of the including task ([k_anc] of the new task = [k_anc ++ [k_file]] of
   its parent).  The first thing a task does is the cycle check: if its file is among its ancestors
   it returns the error "include cycle", which the errgroup records (the first one wins) and which
   cancels the errgroup's context; otherwise it reads and parses its file.  There is no set of
   loaded files: a file included from two places (a diamond) gets two tasks, is parsed twice and is
   pushed twice.  The rest of stage 1 and stages 2 and 3 are as in Model/PipeFromPath.v with
   [drain = true] (the code as it is): model.FromStream's dispatcher with its inner pool of
   conversion tasks, and the builder.  The types of those stages are shared with that file.

   [once = true] is the seeded change seeded/C06c-load-once-set: after the cycle check a task claims
   its file in a global set (sync.Map.LoadOrStore) and returns nil without parsing or pushing
   anything when the file is already claimed.  [once = false] is the code as it is.

   Files are numbers; [inc f]: the include directives of f in file order (for a file with a syntax
   error: those parsed before the error; for a missing file: none); [bad f]: reading or parsing f
   fails; [cbad f]: the conversion of f fails; [abad f]: Builder.Add fails on a directive of f
   (constantly false in knut as it is, see Model/PipeFromPath.v).                                *)
From Coq Require Import List Bool Arith PeanoNat.
From Knut Require Import Model.PipeLoader Model.PipeFromPath Spec.IncludeGraph.
Import ListNotations.
Open Scope bool_scope.

Inductive kst := KNew | KParsing (rest : list nat) | KRdy | KPushed | KFail | KCancel | KSkip.
Record ktask := mkK { k_file : nat; k_anc : list nat; k_st : kst }.

(* errors of the parser stage: a file that does not read/parse, an include cycle (the whole chain) *)
Inductive kperr := EParse (f : nat) | ECycle (chain : list nat).
Inductive kwerr := KWParse (f : nat) | KWCycle (chain : list nat) | KWConv (f : nat) | KWAdd (f : nat).

Record kstate := mkKS {
  k_ptasks : list ktask;   (* stage 1: parser tasks *)
  k_claimed : list nat;    (* the set of claimed files (only with [once]) *)
  k_pcancel : bool;        (* the errgroup's context is cancelled *)
  k_perrs : list kperr;    (* errors of parser tasks in the order returned; the errgroup keeps the first *)
  k_synclosed : bool;      (* worker1 has returned: syntaxCh is closed *)
  k_disp : dstat;          (* stage 2: the dispatcher *)
  k_ctasks : list ctask;   (* conversion tasks of the inner pool *)
  k_ccancel : bool;        (* the inner pool's context is cancelled *)
  k_cerrs : list nat;      (* conversion errors in addErr order; WithFirstError keeps the first *)
  k_bld : bstat;           (* stage 3: the builder *)
  k_added : list nat;      (* files whose directives have been added to the builder, in order *)
  k_werrs : list kwerr     (* errors of the outer pool in the order the workers returned *)
}.

Inductive klabel :=
  | KStart (t : nat) | KSpawn (t : nat) | KParsed (t : nat) | KPush (t : nat) | KObserve (t : nat) | KClose
  | KDEnd | KDRet
  | KCConv (c : nat) | KCPush (c : nat) | KCObserve (c : nat)
  | KBEnd.

Definition ktask_terminal (t : ktask) : bool :=
  match k_st t with KPushed | KFail | KCancel | KSkip => true | _ => false end.

Definition werr_of_perr (e : kperr) : kwerr :=
  match e with EParse f => KWParse f | ECycle c => KWCycle c end.
Definition first_perr (l : list kperr) : list kwerr :=
  match l with e :: _ => [werr_of_perr e] | [] => [] end.
Definition first_cerr (l : list nat) : list kwerr :=
  match l with f :: _ => [KWConv f] | [] => [] end.

(* field updates *)
Definition kset_ptasks (st : kstate) (v : list ktask) : kstate :=
  mkKS v (k_claimed st) (k_pcancel st) (k_perrs st) (k_synclosed st) (k_disp st) (k_ctasks st) (k_ccancel st)
       (k_cerrs st) (k_bld st) (k_added st) (k_werrs st).
Definition kset_claimed (st : kstate) (v : list nat) : kstate :=
  mkKS (k_ptasks st) v (k_pcancel st) (k_perrs st) (k_synclosed st) (k_disp st) (k_ctasks st) (k_ccancel st)
       (k_cerrs st) (k_bld st) (k_added st) (k_werrs st).
(* a parser task returns an error: the errgroup records it and cancels its context *)
Definition kset_pfail (st : kstate) (e : kperr) : kstate :=
  mkKS (k_ptasks st) (k_claimed st) true (k_perrs st ++ [e]) (k_synclosed st) (k_disp st) (k_ctasks st) (k_ccancel st)
       (k_cerrs st) (k_bld st) (k_added st) (k_werrs st).
Definition kset_ctasks (st : kstate) (v : list ctask) : kstate :=
  mkKS (k_ptasks st) (k_claimed st) (k_pcancel st) (k_perrs st) (k_synclosed st) (k_disp st) v (k_ccancel st)
       (k_cerrs st) (k_bld st) (k_added st) (k_werrs st).
Definition kset_cfail (st : kstate) (f : nat) : kstate :=
  mkKS (k_ptasks st) (k_claimed st) (k_pcancel st) (k_perrs st) (k_synclosed st) (k_disp st) (k_ctasks st) true
       (k_cerrs st ++ [f]) (k_bld st) (k_added st) (k_werrs st).
Definition kset_disp (st : kstate) (v : dstat) : kstate :=
  mkKS (k_ptasks st) (k_claimed st) (k_pcancel st) (k_perrs st) (k_synclosed st) v (k_ctasks st) (k_ccancel st)
       (k_cerrs st) (k_bld st) (k_added st) (k_werrs st).
Definition kset_bld (st : kstate) (v : bstat) : kstate :=
  mkKS (k_ptasks st) (k_claimed st) (k_pcancel st) (k_perrs st) (k_synclosed st) (k_disp st) (k_ctasks st) (k_ccancel st)
       (k_cerrs st) v (k_added st) (k_werrs st).
Definition kset_added (st : kstate) (v : list nat) : kstate :=
  mkKS (k_ptasks st) (k_claimed st) (k_pcancel st) (k_perrs st) (k_synclosed st) (k_disp st) (k_ctasks st) (k_ccancel st)
       (k_cerrs st) (k_bld st) v (k_werrs st).
Definition kadd_werrs (st : kstate) (v : list kwerr) : kstate :=
  mkKS (k_ptasks st) (k_claimed st) (k_pcancel st) (k_perrs st) (k_synclosed st) (k_disp st) (k_ctasks st) (k_ccancel st)
       (k_cerrs st) (k_bld st) (k_added st) (k_werrs st ++ v).
Definition kset_synclosed (st : kstate) : kstate :=
  mkKS (k_ptasks st) (k_claimed st) (k_pcancel st) (k_perrs st) true (k_disp st) (k_ctasks st) (k_ccancel st)
       (k_cerrs st) (k_bld st) (k_added st) (k_werrs st).

Section FromPathCycle.
  Variable inc : nat -> list nat.
  Variables bad cbad abad : nat -> bool.
  Variable once : bool.

  Definition kinit (root : nat) : kstate :=
    mkKS [mkK root [] KNew] [] false [] false DRecv [] false [] BRecv [] [].

  Definition kstep (l : klabel) (st : kstate) : option kstate :=
    match l with
    | KStart t =>     (* the task begins: cycle check (then, with [once], the claim), then it reads its file *)
        match nth_error (k_ptasks st) t with
        | Some (mkK f anc KNew) =>
            if memn f anc
            then Some (kset_pfail (kset_ptasks st (set_nth (k_ptasks st) t (mkK f anc KFail))) (ECycle (anc ++ [f])))
            else if once && memn f (k_claimed st)
            then Some (kset_ptasks st (set_nth (k_ptasks st) t (mkK f anc KSkip)))
            else Some (kset_claimed (kset_ptasks st (set_nth (k_ptasks st) t (mkK f anc (KParsing (inc f)))))
                                    (if once then f :: k_claimed st else k_claimed st))
        | _ => None
        end
    | KSpawn t =>     (* an include directive is parsed: wg.Go with the chain of this task *)
        match nth_error (k_ptasks st) t with
        | Some (mkK f anc (KParsing (g :: rest))) =>
            Some (kset_ptasks st (set_nth (k_ptasks st) t (mkK f anc (KParsing rest)) ++ [mkK g (anc ++ [f]) KNew]))
        | _ => None
        end
    | KParsed t =>
        match nth_error (k_ptasks st) t with
        | Some (mkK f anc (KParsing [])) =>
            if bad f
            then Some (kset_pfail (kset_ptasks st (set_nth (k_ptasks st) t (mkK f anc KFail))) (EParse f))
            else Some (kset_ptasks st (set_nth (k_ptasks st) t (mkK f anc KRdy)))
        | _ => None
        end
    | KPush t =>      (* rendezvous on syntaxCh; the callback hands the file to the inner pool *)
        match nth_error (k_ptasks st) t with
        | Some (mkK f anc KRdy) =>
            if dstat_eqb (k_disp st) DRecv
            then Some (kset_ctasks (kset_ptasks st (set_nth (k_ptasks st) t (mkK f anc KPushed)))
                                   (k_ctasks st ++ [mkC f CNew]))
            else None
        | _ => None
        end
    | KObserve t =>   (* cpr.Push takes the ctx.Done() case *)
        match nth_error (k_ptasks st) t with
        | Some (mkK f anc KRdy) =>
            if k_pcancel st then Some (kset_ptasks st (set_nth (k_ptasks st) t (mkK f anc KCancel))) else None
        | _ => None
        end
    | KClose =>       (* errgroup.Wait returns; worker1 returns its first error; syntaxCh is closed *)
        if negb (k_synclosed st) && forallb ktask_terminal (k_ptasks st)
        then Some (kadd_werrs (kset_synclosed st) (first_perr (k_perrs st)))
        else None
    | KDEnd =>        (* the dispatcher sees syntaxCh closed *)
        if dstat_eqb (k_disp st) DRecv && k_synclosed st then Some (kset_disp st DWait) else None
    | KDRet =>        (* wg.Wait returns; worker2 returns the first conversion error; modelCh is closed *)
        if dstat_eqb (k_disp st) DWait && forallb ctask_terminal (k_ctasks st)
        then Some (kadd_werrs (kset_disp st DDone) (first_cerr (k_cerrs st)))
        else None
    | KCConv c =>
        match nth_error (k_ctasks st) c with
        | Some (mkC f CNew) =>
            if cbad f
            then Some (kset_cfail (kset_ctasks st (set_nth (k_ctasks st) c (mkC f CFail))) f)
            else Some (kset_ctasks st (set_nth (k_ctasks st) c (mkC f CRdy)))
        | _ => None
        end
    | KCPush c =>     (* rendezvous on modelCh; the builder adds the directives of the file *)
        match nth_error (k_ctasks st) c with
        | Some (mkC f CRdy) =>
            if bstat_eqb (k_bld st) BRecv
            then
              if abad f
              then Some (kadd_werrs (kset_bld (kset_ctasks st (set_nth (k_ctasks st) c (mkC f CPushed))) BFail) [KWAdd f])
              else Some (kset_added (kset_ctasks st (set_nth (k_ctasks st) c (mkC f CPushed))) (k_added st ++ [f]))
            else None
        | _ => None
        end
    | KCObserve c =>
        match nth_error (k_ctasks st) c with
        | Some (mkC f CRdy) =>
            if k_ccancel st then Some (kset_ctasks st (set_nth (k_ctasks st) c (mkC f CCancel))) else None
        | _ => None
        end
    | KBEnd =>        (* the builder sees modelCh closed and delivers the journal *)
        if bstat_eqb (k_bld st) BRecv && dstat_eqb (k_disp st) DDone
        then Some (kset_bld st BDone)
        else None
    end.

  Definition kstep_or_stay (st : kstate) (l : klabel) : kstate :=
    match kstep l st with Some st' => st' | None => st end.
  Definition krun (sched : list klabel) (st : kstate) : kstate := fold_left kstep_or_stay sched st.

  Fixpoint keffective (sched : list klabel) (st : kstate) : nat :=
    match sched with
    | [] => 0
    | l :: rest =>
        match kstep l st with
        | Some st' => S (keffective rest st')
        | None => keffective rest st
        end
    end.

  (* the three workers have returned: p.Wait() returns *)
  Definition kfinished (st : kstate) : bool :=
    k_synclosed st && dstat_eqb (k_disp st) DDone && negb (bstat_eqb (k_bld st) BRecv).

  Definition kenabled (st : kstate) (l : klabel) : bool :=
    match kstep l st with Some _ => true | None => false end.

  (* the labels that can be enabled at all in st *)
  Definition klabels (st : kstate) : list klabel :=
    flat_map (fun t => [KStart t; KSpawn t; KParsed t; KPush t; KObserve t]) (seq 0 (length (k_ptasks st))) ++
    [KClose; KDEnd; KDRet; KBEnd] ++
    flat_map (fun c => [KCConv c; KCPush c; KCObserve c]) (seq 0 (length (k_ctasks st))).

  (* two canonical schedulers: the first enabled label (oldest task first) and the last one (newest
     task first) *)
  Definition kpick (st : kstate) : option klabel := find (kenabled st) (klabels st).
  Definition kpick_last (st : kstate) : option klabel := find (kenabled st) (rev (klabels st)).

  Fixpoint kdrain (fuel : nat) (st : kstate) : kstate :=
    match fuel with
    | 0 => st
    | S k => match kpick st with
             | Some l => kdrain k (kstep_or_stay st l)
             | None => st
             end
    end.

  Fixpoint kdrain_last (fuel : nat) (st : kstate) : kstate :=
    match fuel with
    | 0 => st
    | S k => match kpick_last st with
             | Some l => kdrain_last k (kstep_or_stay st l)
             | None => st
             end
    end.

  (* what FromPath returns: the first error of the outer pool, else the builder *)
  Inductive koutcome := KOk (files : list nat) | KErr (e : kwerr) | KRunning.
  Definition koutcome_of (st : kstate) : koutcome :=
    if kfinished st
    then match k_werrs st with e :: _ => KErr e | [] => KOk (k_added st) end
    else KRunning.

  (* an error of the outer pool names a stage function that did fail; an include cycle names a chain
     whose last file is among the files before it *)
  Definition kgenuine (e : kwerr) : bool :=
    match e with
    | KWParse f => bad f
    | KWCycle c => match rev c with f :: r => memn f r | [] => false end
    | KWConv f => cbad f
    | KWAdd f => abad f
    end.

  Definition parser_stage (e : kwerr) : bool :=
    match e with KWParse _ | KWCycle _ => true | _ => false end.
End FromPathCycle.
