(* Go's encoding/csv.Reader (go1.23 src/encoding/csv/reader.go: readLine, readRecord, ReadAll) on a byte string.

   Shape.  Go reads the input line by line (readLine) and readRecord walks through the current line, fetching
   the next one when a quoted field runs over the end of a line.  readLine changes the bytes it hands out in
   exactly two ways: a line ending in "\r\n" is handed out ending in "\n", and a final line without "\n" loses
   one trailing "\r".  Both are local to the text and independent of the reader's state, so the model applies
   them once to the whole input (csv_normalize: a "\r" directly before a "\n" or at the very end of the input
   is dropped; single pass, so "\r\r\n" gives "\r\n" as in Go) and then works on the normalised text, in which
   "the current line" is the text up to and including the next "\n":
     readLine / skipping of empty and comment lines   skip_lines
     TrimLeadingSpace (bytes.IndexFunc(line, !unicode.IsSpace), which never looks beyond the line)   trim_line
     non-quoted field: bytes.IndexRune(line, Comma), else up to the end of the line   scan_unquoted
     quoted field: the loop over bytes.IndexByte(line, the quote) that appends whole lines and reads on   scan_quoted
     the parseField loop   parse_fields        the FieldsPerRecord check   count_bad / next_fpr
     ReadAll resp. a loop of Read that stops at the first error   read_all / csv_read_all
   Restrictions (stated, and respected by the generator of the tie C13.csv): Comma and Comment are ASCII
   (every importer: ',' or ';', no Comment); the input comes from memory, so the underlying reader has no error
   other than io.EOF; positions (line, column) of a ParseError are not modelled, its Err is (csv_err); after an
   error nothing more is read (ReadAll and every importer stop there), the records read before it are kept.
   Executable definitions only.                                                                              *)
From Coq Require Import ZArith List Bool.
From Knut Require Import Model.Bytes.
Import ListNotations.
Open Scope bool_scope.
Open Scope Z_scope.


Record csv_cfg := {
  cc_comma : Z;       (* Reader.Comma *)
  cc_comment : Z;     (* Reader.Comment, 0 = none *)
  cc_fpr : Z;         (* Reader.FieldsPerRecord: > 0 required count, 0 set by the first record, < 0 no check *)
  cc_lazy : bool;     (* Reader.LazyQuotes *)
  cc_trim : bool      (* Reader.TrimLeadingSpace *)
}.

Inductive csv_err := ErrBareQuote | ErrQuote | ErrFieldCount | ErrInvalidDelim.

Inductive csv_result :=
| CsvRecords (rs : list (list str))                      (* io.EOF reached, all records *)
| CsvError (before : list (list str)) (e : csv_err)      (* the records read before the first error, and its kind *)
| CsvOutOfFuel.                                          (* excluded by C13_csv_total *)

Definition b_quote : Z := 34.
Definition b_nl : Z := 10.
Definition b_cr : Z := 13.

(* validDelim for an ASCII rune *)
Definition valid_delim (c : Z) : bool :=
  (0 <? c) && (c <? 128) && negb (c =? b_quote) && negb (c =? b_cr) && negb (c =? b_nl).

(* readRecord, first statement: Comma == Comment || !validDelim(Comma) || (Comment != 0 && !validDelim(Comment)) *)
Definition delims_ok (cfg : csv_cfg) : bool :=
  negb (cc_comma cfg =? cc_comment cfg) && valid_delim (cc_comma cfg)
  && ((cc_comment cfg =? 0) || valid_delim (cc_comment cfg)).

(* what readLine does to the bytes: "\r\n" -> "\n" at the end of a line, one "\r" dropped at the end of input *)
Fixpoint csv_normalize (s : str) : str :=
  match s with
  | [] => []
  | c :: t =>
    if c =? b_cr then
      match t with
      | [] => []
      | d :: _ => if d =? b_nl then csv_normalize t else c :: csv_normalize t
      end
    else c :: csv_normalize t
  end.

(* the loop at the head of readRecord: lines that begin with Comment and empty lines are skipped; returns the text
   from the first byte of the next record's line on ([] = io.EOF).  in_comment: inside a comment line *)
Fixpoint skip_lines (cfg : csv_cfg) (in_comment : bool) (s : str) : str :=
  match s with
  | [] => []
  | c :: t =>
    if in_comment then skip_lines cfg (negb (c =? b_nl)) t
    else if c =? b_nl then skip_lines cfg false t
    else if negb (cc_comment cfg =? 0) && (c =? cc_comment cfg) then skip_lines cfg true t
    else s
  end.

(* unicode.IsSpace on the UTF-8 encodings: \t \v \f \r ' ' (the newline is treated by trim_line), U+0085, U+00A0,
   U+1680, U+2000..U+200A, U+2028, U+2029, U+202F, U+205F, U+3000; an invalid byte decodes to RuneError, no space *)
Definition ws1 (c : Z) : bool := (c =? 9) || (c =? 11) || (c =? 12) || (c =? 13) || (c =? 32).
Definition ws2 (a b : Z) : bool := (a =? 194) && ((b =? 133) || (b =? 160)).
Definition ws3 (a b c : Z) : bool :=
  ((a =? 225) && (b =? 154) && (c =? 128))
  || ((a =? 226) && (b =? 128) && (((128 <=? c) && (c <=? 138)) || (c =? 168) || (c =? 169) || (c =? 175)))
  || ((a =? 226) && (b =? 129) && (c =? 159))
  || ((a =? 227) && (b =? 128) && (c =? 128)).

(* TrimLeadingSpace at the start of a field: (rest, true) when the whole remainder of the line (its "\n" included) was
   white space - Go then has line = "" and reads an empty last field -, (rest, false) when rest starts with a
   byte that is not white space *)
Fixpoint trim_line (s : str) : str * bool :=
  match s with
  | [] => ([], true)
  | a :: t =>
    if a =? b_nl then (t, true)
    else if ws1 a then trim_line t
    else match t with
         | b :: t2 =>
           if ws2 a b then trim_line t2
           else match t2 with
                | c :: t3 => if ws3 a b c then trim_line t3 else (s, false)
                | [] => (s, false)
                end
         | [] => (s, false)
         end
  end.

Inductive term := TComma | TEol.

(* non-quoted field: up to Comma (i >= 0) or to the end of the line; (field, what ended it, text after that) *)
Fixpoint scan_unquoted (comma : Z) (s : str) : str * term * str :=
  match s with
  | [] => ([], TEol, [])
  | c :: t =>
    if c =? b_nl then ([], TEol, t)
    else if c =? comma then ([], TComma, t)
    else let '(f, tm, r) := scan_unquoted comma t in (c :: f, tm, r)
  end.

Definition has_quote (f : str) : bool := existsb (fun c => c =? b_quote) f.

Inductive qres := QDone (f : str) (tm : term) (rest : str) | QErr (e : csv_err).

Definition qcons (c : Z) (r : qres) : qres :=
  match r with QDone f tm rest => QDone (c :: f) tm rest | QErr e => QErr e end.

(* quoted field, s = the text after the opening quote.  A quote followed by a quote is one quote; followed by Comma
   it ends the field; followed by the end of the line (or of the input) it ends the record; followed by anything else
   it is kept under LazyQuotes and ErrQuote otherwise.  The end of a line is part of the field (Go appends the line
   and calls readLine); the end of the input ends field and record under LazyQuotes and is ErrQuote otherwise. *)
Fixpoint scan_quoted (lazy : bool) (comma : Z) (s : str) : qres :=
  match s with
  | [] => if lazy then QDone [] TEol [] else QErr ErrQuote
  | c :: t =>
    if c =? b_quote then
      match t with
      | [] => QDone [] TEol []
      | d :: t' =>
        if d =? b_quote then qcons b_quote (scan_quoted lazy comma t')
        else if d =? comma then QDone [] TComma t'
        else if d =? b_nl then QDone [] TEol t'
        else if lazy then qcons b_quote (scan_quoted lazy comma t)
        else QErr ErrQuote
      end
    else qcons c (scan_quoted lazy comma t)
  end.

Inductive rec_out := RecOk (fields : list str) (rest : str) | RecErr (e : csv_err) | RecFuel.

Definition rcons (f : str) (r : rec_out) : rec_out :=
  match r with RecOk fs rest => RecOk (f :: fs) rest | other => other end.

(* the parseField loop; one unit of fuel per field *)
Fixpoint parse_fields (cfg : csv_cfg) (fuel : nat) (s : str) : rec_out :=
  match fuel with
  | O => RecFuel
  | S fuel' =>
    let '(s1, ended) := if cc_trim cfg then trim_line s else (s, false) in
    if ended then RecOk [[]] s1
    else
      match s1 with
      | c :: t =>
        if c =? b_quote then
          match scan_quoted (cc_lazy cfg) (cc_comma cfg) t with
          | QErr e => RecErr e
          | QDone f TComma r => rcons f (parse_fields cfg fuel' r)
          | QDone f TEol r => RecOk [f] r
          end
        else
          let '(f, tm, r) := scan_unquoted (cc_comma cfg) s1 in
          if negb (cc_lazy cfg) && has_quote f then RecErr ErrBareQuote
          else match tm with
               | TComma => rcons f (parse_fields cfg fuel' r)
               | TEol => RecOk [f] r
               end
      | [] => RecOk [[]] []          (* len(line) == 0: an empty non-quoted field ends the record *)
      end
  end.

(* the check at the end of readRecord *)
Definition count_bad (fpr : Z) (fs : list str) : bool := (0 <? fpr) && negb (Z.of_nat (length fs) =? fpr).
Definition next_fpr (fpr : Z) (fs : list str) : Z := if fpr =? 0 then Z.of_nat (length fs) else fpr.

(* a loop of Read on the normalised text, fpr = the reader's current FieldsPerRecord *)
Fixpoint read_all (cfg : csv_cfg) (fuel : nat) (fpr : Z) (s : str) : csv_result :=
  match fuel with
  | O => CsvOutOfFuel
  | S fuel' =>
    match skip_lines cfg false s with
    | [] => CsvRecords []
    | s' =>
      match parse_fields cfg (S (length s')) s' with
      | RecFuel => CsvOutOfFuel
      | RecErr e => CsvError [] e
      | RecOk fs rest =>
        if count_bad fpr fs then CsvError [] ErrFieldCount
        else match read_all cfg fuel' (next_fpr fpr fs) rest with
             | CsvRecords rs => CsvRecords (fs :: rs)
             | CsvError b e => CsvError (fs :: b) e
             | CsvOutOfFuel => CsvOutOfFuel
             end
      end
    end
  end.

(* csv.NewReader(bytes) with the settings cfg, then Read until io.EOF or an error *)
Definition csv_read_all (cfg : csv_cfg) (input : str) : csv_result :=
  if delims_ok cfg then
    let t := csv_normalize input in read_all cfg (S (length t)) (cc_fpr cfg) t
  else CsvError [] ErrInvalidDelim.

(* the canonical writer: every field quoted, quotes doubled, fields joined by Comma, "\n" after each record *)
Fixpoint csv_escape (f : str) : str :=
  match f with
  | [] => []
  | c :: t => if c =? b_quote then b_quote :: b_quote :: csv_escape t else c :: csv_escape t
  end.

Fixpoint write_fields (comma : Z) (fs : list str) (tail : str) : str :=
  match fs with
  | [] => b_nl :: tail
  | [f] => b_quote :: csv_escape f ++ b_quote :: b_nl :: tail
  | f :: rest => b_quote :: csv_escape f ++ b_quote :: comma :: write_fields comma rest tail
  end.

Fixpoint csv_write (comma : Z) (rs : list (list str)) : str :=
  match rs with
  | [] => []
  | r :: rest => write_fields comma r (csv_write comma rest)
  end.


(* side condition of the round trip: no "\r" directly before a "\n" inside a field (readLine turns that pair into "\n",
   also inside a quoted field; a "\r" anywhere else, also as the last byte of a field, is kept) *)
Fixpoint no_crlf (f : str) : bool :=
  match f with
  | [] => true
  | c :: t => negb ((c =? b_cr) && match t with d :: _ => d =? b_nl | [] => false end) && no_crlf t
  end.
