(* Byte strings (list Z) and the few string operations of Go's strings package knut uses. *)
From Coq Require Import ZArith List Bool.
Import ListNotations.
Open Scope bool_scope.
Open Scope Z_scope.

Definition str := list Z.

(* Go string comparison: lexicographic on bytes *)
Fixpoint str_cmp (a b : str) : comparison :=
  match a, b with
  | [], [] => Eq
  | [], _ :: _ => Lt
  | _ :: _, [] => Gt
  | x :: a', y :: b' =>
    match x ?= y with
    | Eq => str_cmp a' b'
    | c => c
    end
  end.

Definition str_eqb (a b : str) : bool := match str_cmp a b with Eq => true | _ => false end.
Definition str_ltb (a b : str) : bool := match str_cmp a b with Lt => true | _ => false end.

Fixpoint join (sep : str) (l : list str) : str :=
  match l with
  | [] => []
  | [x] => x
  | x :: rest => x ++ sep ++ join sep rest
  end.

Fixpoint is_prefix (p s : str) : bool :=
  match p, s with
  | [], _ => true
  | _ :: _, [] => false
  | x :: p', y :: s' => (x =? y) && is_prefix p' s'
  end.

Fixpoint is_substring (p s : str) : bool :=
  is_prefix p s || match s with [] => false | _ :: s' => is_substring p s' end.

Definition is_suffix (p s : str) : bool := is_prefix (rev p) (rev s).

(* the regular expressions the generated cases use: an optional ^, a literal without
   metacharacters, an optional $.  (Go's regexp is not modelled; theorems that depend on a
   match predicate quantify over arbitrary predicates.) *)
Record rx := mkRx { rx_start : bool; rx_lit : str; rx_end : bool }.

Definition rx_match (r : rx) (s : str) : bool :=
  match rx_start r, rx_end r with
  | true, true => str_eqb (rx_lit r) s
  | true, false => is_prefix (rx_lit r) s
  | false, true => is_suffix (rx_lit r) s
  | false, false => is_substring (rx_lit r) s
  end.

(* regex.Regexes.MatchString: any *)
Definition rxs_match (rs : list rx) (s : str) : bool := existsb (fun r => rx_match r s) rs.

Definition colon : Z := 58.

(* strings.Split(s, ":") *)
Fixpoint split_colon_aux (s : str) (cur : str) : list str :=
  match s with
  | [] => [rev cur]
  | c :: t => if c =? colon then rev cur :: split_colon_aux t [] else split_colon_aux t (c :: cur)
  end.
Definition split_colon (s : str) : list str := split_colon_aux s [].

(* generic insertion sort by a boolean "strictly less" (stable); used wherever the Go code
   sorts with a comparator that is total on the keys at hand *)
Section Sort.
  Context {A : Type} (lt : A -> A -> bool).
  Fixpoint insert_sorted (x : A) (l : list A) : list A :=
    match l with
    | [] => [x]
    | y :: t => if lt x y then x :: l else y :: insert_sorted x t
    end.
  Definition sort_by (l : list A) : list A := fold_right insert_sorted [] (rev l).
End Sort.
