(* Go's unicode/utf8.DecodeRuneInString on a list of bytes (Z, 0..255).
   Returns (rune, width): (RuneError, 0) on the empty string, (RuneError, 1) on an invalid or
   truncated sequence, otherwise the code point and its encoded length.  The literal U+FFFD
   (EF BF BD) decodes to (65533, 3).  Transcribed from utf8.go (first[] / acceptRanges[]):
     00..7F        ASCII
     80..C1, F5..  invalid
     C2..DF        2 bytes, second 80..BF
     E0            3 bytes, second A0..BF        E1..EC, EE..EF second 80..BF     ED second 80..9F
     F0            4 bytes, second 90..BF        F1..F3 second 80..BF             F4 second 80..8F
   s0&mask is written as a subtraction, which is the same on the byte ranges concerned.      *)
From Coq Require Import ZArith List Bool.
From Knut Require Import Model.Bytes.
Import ListNotations.
Open Scope bool_scope.
Open Scope Z_scope.

Module Utf8M.

Definition rune_error : Z := 65533.

Definition in_rng (lo hi b : Z) : bool := (lo <=? b) && (b <=? hi).
Definition cont (b : Z) : bool := in_rng 128 191 b.

(* acceptRanges of the second byte *)
Definition second_lo (s0 : Z) : Z := if s0 =? 224 then 160 else if s0 =? 240 then 144 else 128.
Definition second_hi (s0 : Z) : Z := if s0 =? 237 then 159 else if s0 =? 244 then 143 else 191.

Definition decode (s : str) : Z * Z :=
  match s with
  | [] => (rune_error, 0)
  | s0 :: t =>
    if in_rng 0 127 s0 then (s0, 1)
    else if (s0 <? 194) || (244 <? s0) then (rune_error, 1)
    else if s0 <? 224 then
      match t with
      | s1 :: _ => if in_rng (second_lo s0) (second_hi s0) s1
                   then ((s0 - 192) * 64 + (s1 - 128), 2) else (rune_error, 1)
      | _ => (rune_error, 1)
      end
    else if s0 <? 240 then
      match t with
      | s1 :: s2 :: _ =>
        if in_rng (second_lo s0) (second_hi s0) s1 && cont s2
        then ((s0 - 224) * 4096 + (s1 - 128) * 64 + (s2 - 128), 3) else (rune_error, 1)
      | _ => (rune_error, 1)
      end
    else
      match t with
      | s1 :: s2 :: s3 :: _ =>
        if in_rng (second_lo s0) (second_hi s0) s1 && cont s2 && cont s3
        then ((s0 - 240) * 262144 + (s1 - 128) * 4096 + (s2 - 128) * 64 + (s3 - 128), 4)
        else (rune_error, 1)
      | _ => (rune_error, 1)
      end
  end.

End Utf8M.
Export Utf8M.
