(* Model of lib/syntax/bayes/bayes.go and of `knut infer -a ACCOUNT -t TRAINING TARGET`
   (cmd/commands/infer.go, output to stdout), on the MEANING of the parsed files
   (Spec/FormatSpec.v sem): account strings are replaced and the file is printed by
   syntax.FormatFile, i.e. by [render] (Model/SynRender.v; FormatProofs: format = render).

   [choose k cands] stands for the k-th call of inferAccount (k counts placeholder
   occurrences in file order, credit before debit): it is given the candidate list -- the
   keys of countByAccount, sorted, without the other account of the booking -- and returns the
   winner, or None when the list is empty.  WHICH candidate wins (the score) is not part of
   this file: the theorems about it hold for every valid [choose], the check passes the
   binary's own choices; the choice itself is modelled in Model/BayesScore.v, which
   instantiates this model (Proofs/InferChoice.v infer_scored_is_infer_with).

   Two variants:
   * [Fixed] THE MODEL: bayes.go as it is since /repo e8bd689 ("fix: infer must leave a booking
             alone when there is no candidate, and choose deterministically"): no candidate ->
             the booking keeps its account; the debit side excludes the credit account as it is
             AFTER inference; candidates are visited in sorted order.
   * [Orig]  bayes.go before e8bd689, kept only for the *_refuted theorems of Properties/C15.v
             (finding F10): with no candidate, `best` stayed "" and the placeholder was replaced
             by an EMPTY account; the `other` of the debit side was the credit account as it was
             BEFORE inference (so both sides of `TBD TBD` could get the same account).
   [infer_with] takes ONE training text.  The command reads the training journal with
   ParseFileRecursively: Model/InferFs.v is the command on a file tree (include resolution by
   Model/Loader.v, training on every visited file) and coincides with [infer_with] when the
   training file has no include directive (Properties/C15.v C15_training_without_includes).
   Executable definitions only.                                                              *)
From Coq Require Import ZArith List Bool.
From Knut Require Import Model.Bytes Model.Utf8 Model.Scanner Model.Parser Model.SynPrinter
  Spec.FormatSpec Model.SynRender.
Import ListNotations.
Open Scope bool_scope.
Open Scope Z_scope.

Module BayesM.

Inductive variant := Orig | Fixed.

(* byte-wise lexicographic order (sort.Strings) *)
Fixpoint str_ltb (a b : str) : bool :=
  match a, b with
  | _, [] => false
  | [], _ :: _ => true
  | x :: a', y :: b' => (x <? y) || ((x =? y) && str_ltb a' b')
  end.

Fixpoint insert_sorted (x : str) (l : list str) : list str :=
  match l with
  | [] => [x]
  | y :: l' => if str_eqb x y then l else if str_ltb x y then x :: l else y :: insert_sorted x l'
  end.

Definition sort_dedup (l : list str) : list str := fold_right insert_sorted [] l.

Definition is_nil (s : str) : bool := match s with [] => true | _ => false end.

Section WithPlaceholder.
Variable placeholder : str.           (* the -a flag, default "Expenses:TBD" *)

(* Model.Update: the accounts a training transaction adds to countByAccount *)
Definition update_accounts (bs : list sem_booking) : list str :=
  flat_map (fun b =>
    let c := fst (sb_credit b) in
    let d := fst (sb_debit b) in
    if snd (sb_credit b) || snd (sb_debit b) then []
    else if is_nil c || is_nil d then []
    else if str_eqb c placeholder || str_eqb d placeholder then []
    else [c; d]) bs.

Definition trained_accounts (training : list sem_directive) : list str :=
  flat_map (fun d => match d with SemTrx _ _ bs _ _ => update_accounts bs | _ => [] end) training.

(* the keys of countByAccount *)
Definition candidates (training : list sem_directive) : list str := sort_dedup (trained_accounts training).

(* `if candidate == other { continue }` *)
Definition without (other : str) (l : list str) : list str := filter (fun y => negb (str_eqb y other)) l.

Section Infer.
Variable v : variant.
Variable choose : nat -> list str -> option str.
Variable cands : list str.

(* one side of a booking: (new account, calls of inferAccount so far) *)
Definition infer_side (k : nat) (acc : sem_account) (other : str) : sem_account * nat :=
  if str_eqb (fst acc) placeholder then
    match choose k (without other cands) with
    | Some a => ((a, false), S k)
    | None => match v with
              | Orig => (([], false), S k)      (* best == "" *)
              | Fixed => (acc, S k)
              end
    end
  else (acc, k).

(* Model.Infer, one booking *)
Definition infer_booking (k : nat) (b : sem_booking) : sem_booking * nat :=
  let c := fst (sb_credit b) in
  let d := fst (sb_debit b) in
  let (credit', k1) := infer_side k (sb_credit b) d in
  let other_of_debit := match v with Orig => c | Fixed => fst credit' end in
  let (debit', k2) := infer_side k1 (sb_debit b) other_of_debit in
  (mkSemBooking credit' debit' (sb_quantity b) (sb_commodity b), k2).

Fixpoint infer_bookings (k : nat) (bs : list sem_booking) : list sem_booking * nat :=
  match bs with
  | [] => ([], k)
  | b :: bs' =>
    let (b', k1) := infer_booking k b in
    let (bs'', k2) := infer_bookings k1 bs' in
    (b' :: bs'', k2)
  end.

Fixpoint infer_sems (k : nat) (ds : list sem_directive) : list sem_directive * nat :=
  match ds with
  | [] => ([], k)
  | d :: ds' =>
    let (d', k1) :=
      match d with
      | SemTrx date desc bs p a => let (bs', k1) := infer_bookings k bs in (SemTrx date desc bs' p a, k1)
      | _ => (d, k)
      end in
    let (ds'', k2) := infer_sems k1 ds' in
    (d' :: ds'', k2)
  end.

End Infer.

(* the command: train on the training text, infer on the target text, print to stdout *)
Inductive infer_result :=
| InferOut (stdout : str)
| InferErr                    (* a file does not parse (exit 1, nothing printed) *)
| InferBad.                   (* out of fuel / unknown directive: excluded by C07, C08 *)

Definition infer_with (v : variant) (letter digit : Z -> bool) (choose : nat -> list str -> option str)
    (training target : str) : infer_result :=
  match parse_text letter digit training, parse_text letter digit target with
  | ParseOk ftr, ParseOk ftg =>
    let cands := candidates (sem training ftr) in
    let (sems, _) := infer_sems v choose cands 0%nat (sem target ftg) in
    match render Utf8M.decode sems (gaps target ftg) with
    | Some out => InferOut out
    | None => InferBad
    end
  | ParseFuel, _ | _, ParseFuel => InferBad
  | _, _ => InferErr
  end.

End WithPlaceholder.

End BayesM.
Export BayesM.
