(* Model of lib/journal/beancount/beancount.go: Transcode, writeTrx, writePosting,
   stripNonAlphanum.  The Go function interleaves deciding what to emit with writing it; here the
   two are separated: [transcode_entries] is the sequence of emitted items (open directives,
   transactions, close directives) in emission order, [write_entry] is their text. *)
From Coq Require Import ZArith List Bool.
From Knut Require Import Model.Str Model.Dec Model.Date Model.Account Model.Ledger Model.Price
     Model.Journal Model.Check Model.Pipeline Model.Table Model.Report Model.JPrinter.
Import ListNotations.
Open Scope bool_scope.
Open Scope Z_scope.

Inductive bentry :=
| BOpen (date : Z) (a : account)
| BClose (date : Z) (a : account)
| BTxn (t : txn).

(* "Equity:Valuation:" -- the prefix Transcode tests before it emits an open directive of its
   own.  (Registry.ValuationAccountFor produces "Income:..." accounts, see Model/Account.v
   valuation_account_for; the prefix is stale, DESIGN.md F16.) *)
Definition s_equity_valuation : str :=
  [69;113;117;105;116;121;58;86;97;108;117;97;116;105;111;110;58].

(* the loop `for _, pst := range trx.Postings` that opens valuation accounts; [seen] is
   openValAccounts (a pointer set: identity of interned accounts = equality of names) *)
Fixpoint val_opens_postings (date : Z) (ps : list posting) (seen : list account)
  : list bentry * list account :=
  match ps with
  | [] => ([], seen)
  | p :: rest =>
    if is_prefix s_equity_valuation (acc_name (p_acc p)) && negb (existsb (acc_eqb (p_acc p)) seen)
    then let '(es, seen') := val_opens_postings date rest (p_acc p :: seen) in
         (BOpen date (p_acc p) :: es, seen')
    else val_opens_postings date rest seen
  end.

Fixpoint val_opens_txns (ts : list txn) (seen : list account) : list bentry * list account :=
  match ts with
  | [] => ([], seen)
  | t :: rest =>
    let '(e1, seen1) := val_opens_postings (t_date t) (t_postings t) seen in
    let '(e2, seen2) := val_opens_txns rest seen1 in
    (e1 ++ e2, seen2)
  end.

(* the body of `for _, day := range j.Days`: openings, compare.Sort(day.Transactions), the
   valuation-account openings, the transactions, the closings *)
Definition transcode_day (d : day) (seen : list account) : list bentry * list account :=
  let ts := sort_by txn_ltb (d_txns d) in
  let '(vo, seen') := val_opens_txns ts seen in
  (map (BOpen (d_date d)) (d_opens d) ++ vo ++ map BTxn ts ++ map (BClose (d_date d)) (d_closes d), seen').

Fixpoint transcode_entries (days : list day) (seen : list account) : list bentry :=
  match days with
  | [] => []
  | d :: rest =>
    let '(es, seen') := transcode_day d seen in
    es ++ transcode_entries rest seen'
  end.

(* regexp.MustCompile("[^a-zA-Z]").ReplaceAllString(name, "X"): every rune that is not an
   ASCII letter becomes one X.  Commodity names are valid UTF-8 (letters and digits, checked by
   the commodity registry), so a rune is a non-continuation byte followed by its continuation
   bytes (10xxxxxx): the lead byte yields the X, the continuation bytes yield nothing. *)
Definition is_ascii_letter (b : Z) : bool := ((65 <=? b) && (b <=? 90)) || ((97 <=? b) && (b <=? 122)).
Definition is_continuation (b : Z) : bool := (128 <=? b) && (b <? 192).

Fixpoint strip_non_alphanum (c : str) : str :=
  match c with
  | [] => []
  | b :: rest =>
    if is_ascii_letter b then b :: strip_non_alphanum rest
    else if is_continuation b then strip_non_alphanum rest
    else 88 :: strip_non_alphanum rest
  end.

(* writePosting with c != nil: "  <account> <value> <commodity>\n"; %s of a decimal.Decimal is
   Decimal.String() *)
Definition write_posting (v : commodity) (p : posting) : str :=
  [32;32] ++ acc_name (p_acc p) ++ [32] ++ to_string (p_val p) ++ [32] ++ strip_non_alphanum v ++ [10].

(* writeTrx: the date, space, asterisk, space, the description in double quotes, newline; the
   postings; an empty line *)
Definition write_trx (v : commodity) (t : txn) : str :=
  format_date (t_date t) ++ [32;42;32;34] ++ t_desc t ++ [34;10] ++
  concat (map (write_posting v) (t_postings t)) ++ [10].

Definition write_entry (v : commodity) (e : bentry) : str :=
  match e with
  | BOpen d a => print_open d a ++ [10;10]
  | BClose d a => print_close d a ++ [10;10]
  | BTxn t => write_trx v t
  end.

(* the option line up to and including the quote that opens the currency name *)
Definition s_option : str :=
  [111;112;116;105;111;110;32;34;111;112;101;114;97;116;105;110;103;95;99;117;114;114;101;110;99;121;34;32;34].

(* beancount.Transcode with a non-nil commodity *)
Definition transcode (days : list day) (v : commodity) : str :=
  s_option ++ v ++ [34;10;10] ++ concat (map (write_entry v) (transcode_entries days [])).
