(* The loader: journal.FromPath = ParseFileRecursively -> model.FromStream -> FromModelStream.
   (Second transition system of DESIGN.md Appendix C.1; companion of Model/Pipe.v.)
   Executable definitions only; proofs in Proofs/PipeLoaderProofs.v.

   ParseFileRecursively runs an errgroup (with its own cancellable context) of parser tasks, one
   per file.  A task reads and parses its file; the parser's callback spawns a new task for
   every include directive as soon as it is parsed (wg.Go inside p.Callback); when the file is
   parsed completely the task pushes the whole file into the unbuffered channel syntaxCh
   (cpr.Push: select on ctx.Done()), or, on a syntax/IO error, returns the error, which makes
   the errgroup cancel its context.  When all tasks have returned, wg.Wait returns and the
   worker closes syntaxCh (`defer close(ch)` in cpr.Produce).
   The consumer (model.FromStream's ForEach, with the *outer* pool context, which has no
   cancel-on-error) receives files until syntaxCh is closed; its callback always returns nil, so
   it keeps draining even after a conversion error (the error is recorded by an inner pool and
   returned by its Wait).  Conversion and journal.Builder.Add are folded into the consumer here:
   receiving file f appends f to [got] and, when [cbad f], records a conversion error.
   Termination therefore rests on channel closure, not on cancellation.

   Files are numbers; [inc f] lists the files included by f in file order (for a file with a
   syntax error: the includes parsed before the error); [bad f]: parsing f fails.
   The same file may be included several times: every include directive spawns a task, so a
   file reachable along two include paths is loaded twice (there is no include guard in the code).
   On a cyclic include graph tasks are spawned forever (Properties/C19.v,
   C19_loader_cycle_unbounded).                                                               *)
From Coq Require Import List Bool Arith PeanoNat.
Import ListNotations.
Open Scope bool_scope.

Inductive pst := Parsing (rest : list nat) | PRdy | PPushed | PFail | PCancel.
Record ptask := mkTask { t_file : nat; t_st : pst }.

Record lstate := mkL {
  tasks : list ptask;
  lcancel : bool;      (* the errgroup's context is cancelled *)
  syn_closed : bool;   (* syntaxCh is closed *)
  got : list nat;      (* files received by the consumer, in arrival order *)
  perrs : list nat;    (* parse errors in the order they were returned; errgroup keeps the first *)
  cerrs : list nat;    (* conversion errors *)
  finished : bool      (* the consumer has seen syntaxCh closed *)
}.

Inductive llabel :=
  | LSpawn (t : nat) | LParsed (t : nat) | LPush (t : nat) | LObserve (t : nat) | LClose | LFinish.

Fixpoint set_nth {A : Type} (l : list A) (t : nat) (v : A) : list A :=
  match l, t with
  | [], _ => []
  | _ :: r, 0 => v :: r
  | x :: r, S t' => x :: set_nth r t' v
  end.

Definition task_terminal (t : ptask) : bool :=
  match t_st t with PPushed | PFail | PCancel => true | _ => false end.

Section Loader.
  Variable inc : nat -> list nat.
  Variable bad : nat -> bool.
  Variable cbad : nat -> bool.

  Definition linit (root : nat) : lstate :=
    mkL [mkTask root (Parsing (inc root))] false false [] [] [] false.

  Definition set_task (st : lstate) (t : nat) (v : ptask) (extra : list ptask) : lstate :=
    mkL (set_nth (tasks st) t v ++ extra) (lcancel st) (syn_closed st) (got st) (perrs st) (cerrs st)
        (finished st).

  Definition lstep (l : llabel) (st : lstate) : option lstate :=
    match l with
    | LSpawn t =>
        match nth_error (tasks st) t with
        | Some (mkTask f (Parsing (g :: rest))) =>
            Some (set_task st t (mkTask f (Parsing rest)) [mkTask g (Parsing (inc g))])
        | _ => None
        end
    | LParsed t =>
        match nth_error (tasks st) t with
        | Some (mkTask f (Parsing [])) =>
            if bad f
            then let st1 := set_task st t (mkTask f PFail) [] in
                 Some (mkL (tasks st1) true (syn_closed st1) (got st1) (perrs st1 ++ [f]) (cerrs st1)
                           (finished st1))
            else Some (set_task st t (mkTask f PRdy) [])
        | _ => None
        end
    | LPush t =>
        match nth_error (tasks st) t with
        | Some (mkTask f PRdy) =>
            let st1 := set_task st t (mkTask f PPushed) [] in
            Some (mkL (tasks st1) (lcancel st1) (syn_closed st1) (got st1 ++ [f]) (perrs st1)
                      (if cbad f then cerrs st1 ++ [f] else cerrs st1) (finished st1))
        | _ => None
        end
    | LObserve t =>
        match nth_error (tasks st) t with
        | Some (mkTask f PRdy) =>
            if lcancel st then Some (set_task st t (mkTask f PCancel) []) else None
        | _ => None
        end
    | LClose =>
        if negb (syn_closed st) && forallb task_terminal (tasks st)
        then Some (mkL (tasks st) (lcancel st) true (got st) (perrs st) (cerrs st) (finished st))
        else None
    | LFinish =>
        if syn_closed st && negb (finished st)
        then Some (mkL (tasks st) (lcancel st) (syn_closed st) (got st) (perrs st) (cerrs st) true)
        else None
    end.

  Definition lstep_or_stay (st : lstate) (l : llabel) : lstate :=
    match lstep l st with Some st' => st' | None => st end.
  Definition lrun (sched : list llabel) (st : lstate) : lstate := fold_left lstep_or_stay sched st.

  Fixpoint leffective (sched : list llabel) (st : lstate) : nat :=
    match sched with
    | [] => 0
    | l :: rest =>
        match lstep l st with
        | Some st' => S (leffective rest st')
        | None => leffective rest st
        end
    end.

  (* canonical scheduler: the first task that can move, else close, else finish *)
  Fixpoint first_move (ts : list ptask) (t : nat) : option llabel :=
    match ts with
    | [] => None
    | mkTask _ (Parsing (_ :: _)) :: _ => Some (LSpawn t)
    | mkTask _ (Parsing []) :: _ => Some (LParsed t)
    | mkTask _ PRdy :: _ => Some (LPush t)
    | _ :: r => first_move r (S t)
    end.

  Definition lpick (st : lstate) : option llabel :=
    if finished st then None
    else if syn_closed st then Some LFinish
    else match first_move (tasks st) 0 with
         | Some l => Some l
         | None => Some LClose
         end.

  Fixpoint ldrain (fuel : nat) (st : lstate) : lstate :=
    match fuel with
    | 0 => st
    | S f => match lpick st with
             | Some l => ldrain f (lstep_or_stay st l)
             | None => st
             end
    end.

  (* FromPath's result: an error if a parser task or a conversion failed, else the files loaded *)
  Inductive loutcome := LOk (files : list nat) | LErr | LRunning.
  Definition loutcome_of (st : lstate) : loutcome :=
    if finished st
    then match perrs st, cerrs st with [], [] => LOk (got st) | _, _ => LErr end
    else LRunning.

  (* the files of the include tree below f, one copy per include path, to depth [fuel] *)
  Fixpoint expand (fuel : nat) (f : nat) : list nat :=
    match fuel with
    | 0 => [f]
    | S d => f :: flat_map (expand d) (inc f)
    end.

  (* weight of the subtree below f: an upper bound on the steps it can still cause *)
  Fixpoint wt (fuel : nat) (f : nat) : nat :=
    match fuel with
    | 0 => 2
    | S d => 2 + list_sum (map (fun g => 1 + wt d g) (inc f))
    end.
End Loader.
