(* Shared helpers of the importer models revolut2, revolut, wise, swissquote, interactivebrokers
   (cmd/importer/<name>): transactions with several bookings, balance assertions, several
   account flags, and the parts of Go's time and strings packages those importers call beyond
   Model/ImpCommonA.v.  As in group A the input of an importer model is the sequence of results
   of csv.Reader.Read with that importer's reader configuration.  Executable definitions only. *)
From Coq Require Import ZArith List Bool.
From Knut Require Import Model.Str Model.Dec Model.Date Model.Account Model.Ledger Model.Journal
     Model.Table Model.JPrinter Model.ImpCommonA.
Import ListNotations.
Open Scope bool_scope.
Open Scope Z_scope.

Definition e_slice : str := [115;108;105;99;101].               (* "slice": slice bounds out of range *)
Definition e_header : str := [104;101;97;100;101;114].          (* "header" *)
Definition e_direction : str := [100;105;114].                  (* "dir": invalid direction *)
Definition e_forex : str := [102;111;114;101;120].              (* "forex": expected forex transaction *)
Definition e_period : str := [112;101;114;105;111;100].         (* "period": report end date unknown *)
Definition e_base : str := [98;97;115;101].                     (* "base": base currency not defined *)
Definition e_symbol : str := [115;121;109;98;111;108].          (* "symbol" *)

(* s[:10]; None where Go panics with "slice bounds out of range" *)
Definition prefix10 (s : str) : option str :=
  if Nat.leb 10 (length s) then Some (firstn 10 s) else None.

(* ---------------------------------------------------------------- bookings *)
(* posting.Builder{Credit, Debit, Commodity, Quantity} *)
Record leg := mkLeg { l_credit : account; l_debit : account; l_com : commodity; l_qty : dec }.

(* posting.Builders.Build *)
Definition legs_postings (ls : list leg) : list posting :=
  flat_map (fun l => pair_build (l_credit l) (l_debit l) (l_com l) (l_qty l) dec_nil) ls.

(* transaction.Builder{Date, Description, Postings, Targets}.Build() *)
Definition legs_txn (date : Z) (desc : str) (ls : list leg) (targets : option (list commodity)) : directive :=
  DTxn (mkTxn date (build_desc desc) (legs_postings ls) targets).

(* &model.Assertion{Date, Balances: []model.Balance{{Account, Quantity, Commodity}}} *)
Definition assertion (date : Z) (acct : account) (com : commodity) (q : dec) : directive :=
  DAssert date [mkBalance acct q com].

(* ---------------------------------------------------------------- account flags *)
(* an empty flag value gives a nil account, represented by the empty account []; the harness
   never passes one to a group B importer.  Sort/UpdatePadding dereference a nil account as
   soon as a posting carries it. *)
Definition flag_account (f : aflag) : option account :=
  match f with AErr => None | ANil => Some [] | AAcc a => Some a end.

Definition is_nil_account (a : account) : bool := match a with [] => true | _ => false end.

Definition uses_nil (ds : list directive) : bool :=
  existsb (fun d => match d with
                    | DTxn t => existsb (fun p => is_nil_account (p_acc p) || is_nil_account (p_other p)) (t_postings t)
                    | DAssert _ bs => existsb (fun b => is_nil_account (bal_acc b)) bs
                    | _ => false
                    end) ds.

(* the tail of run(): an error is reported on stderr (exit 1), otherwise the journal is printed *)
Definition finish_run_b (r : mresult (list directive)) : irun :=
  match r with
  | MOk ds => if uses_nil ds then mkRun [] SPanic else mkRun (print_directives ds) SOk
  | MErr _ => mkRun [] SErr
  | MPanic _ => mkRun [] SPanic
  end.

(* account flags are resolved one after the other; the first invalid one ends the run *)
Fixpoint resolve_flags (fs : list str) : option (list account) :=
  match fs with
  | [] => Some []
  | f :: rest =>
    match flag_account (account_flag f) with
    | None => None
    | Some a => match resolve_flags rest with Some l => Some (a :: l) | None => None end
    end
  end.

(* ---------------------------------------------------------------- package strings *)
(* strings.Fields for ASCII white space *)
Fixpoint fields_aux (s : str) (cur : str) : list str :=
  match s with
  | [] => match cur with [] => [] | _ => [rev cur] end
  | c :: t => if ws1 c then (match cur with [] => fields_aux t [] | _ => rev cur :: fields_aux t [] end)
              else fields_aux t (c :: cur)
  end.
Definition str_fields (s : str) : list str := fields_aux s [].

(* strings.NewReplacer("-", " ", "_", " ").Replace *)
Definition dash_to_space (s : str) : str := map (fun c => if (c =? 45) || (c =? 95) then 32 else c) s.

Definition is_upper (c : Z) : bool := (65 <=? c) && (c <=? 90).
Definition is_alpha (c : Z) : bool := is_upper c || ((97 <=? c) && (c <=? 122)).

(* the longest prefix of s whose bytes satisfy f, and the rest *)
Fixpoint span (f : Z -> bool) (s : str) : str * str :=
  match s with
  | [] => ([], [])
  | c :: t => if f c then let '(a, b) := span f t in (c :: a, b) else ([], s)
  end.

(* ---------------------------------------------------------------- time.Parse *)
(* month names as time.Parse reads them: case-insensitive, "Jan" (three letters) resp. "January" *)
Definition lower (c : Z) : Z := if is_upper c then c + 32 else c.
Definition month_names : list str :=
  [[106;97;110;117;97;114;121]; [102;101;98;114;117;97;114;121]; [109;97;114;99;104]; [97;112;114;105;108];
   [109;97;121]; [106;117;110;101]; [106;117;108;121]; [97;117;103;117;115;116];
   [115;101;112;116;101;109;98;101;114]; [111;99;116;111;98;101;114]; [110;111;118;101;109;98;101;114];
   [100;101;99;101;109;98;101;114]].

Fixpoint lookup_month (names : list str) (short : bool) (s : str) (m : Z) : option (Z * str) :=
  match names with
  | [] => None
  | n :: rest =>
    let n' := if short then firstn 3 n else n in
    if (Nat.leb (length n') (length s)) && str_eqb (map lower (firstn (length n') s)) n'
    then Some (m, skipn (length n') s)
    else lookup_month rest short s (m + 1)
  end.

(* layout element "2": one or two digits (a second digit is consumed when present) *)
Definition day_1or2 (s : str) : option (Z * str) :=
  match s with
  | a :: b :: t => if is_digit a then (if is_digit b then Some ((a - 48) * 10 + (b - 48), t) else Some (a - 48, b :: t)) else None
  | [a] => if is_digit a then Some (a - 48, []) else None
  | [] => None
  end.

Definition year4 (s : str) : option (Z * str) :=
  match s with
  | a :: b :: c :: d :: t => match num4 a b c d with Some y => Some (y, t) | None => None end
  | _ => None
  end.

(* a blank in the layout (time.skip): the value may be exhausted, otherwise it must continue
   with a blank, and all blanks are consumed *)
Definition skip_sp (s : str) : option str :=
  match s with
  | [] => Some []
  | 32 :: _ => Some (drop_while (Z.eqb 32) s)
  | _ => None
  end.

(* time.Parse("2 Jan 2006", s) *)
Definition parse_d_mon_y (s : str) : option Z :=
  match day_1or2 s with
  | Some (dd, s0) =>
    match skip_sp s0 with
    | Some s1 =>
      match lookup_month month_names true s1 1 with
      | Some (m, s2) =>
        match skip_sp s2 with
        | Some s3 =>
          match year4 s3 with
          | Some (y, []) => mk_date y m dd
          | _ => None
          end
        | None => None
        end
      | None => None
      end
    | None => None
    end
  | None => None
  end.

(* time.Parse("January 2, 2006", s) *)
Definition parse_month_d_y (s : str) : option Z :=
  match lookup_month month_names false s 1 with
  | Some (m, s0) =>
    match skip_sp s0 with
    | Some s1 =>
      match day_1or2 s1 with
      | Some (dd, 44 :: s2) =>
        match skip_sp s2 with
        | Some s3 =>
          match year4 s3 with
          | Some (y, []) => mk_date y m dd
          | _ => None
          end
        | None => None
        end
      | _ => None
      end
    | None => None
    end
  | None => None
  end.

(* time.Parse("02-01-2006", s) *)
Definition parse_dmy_dash (s : str) : option Z :=
  match s with
  | [d1; d2; 45; m1; m2; 45; y1; y2; y3; y4] =>
    match num2 d1 d2, num2 m1 m2, num4 y1 y2 y3 y4 with
    | Some dd, Some m, Some y => mk_date y m dd
    | _, _, _ => None
    end
  | _ => None
  end.

(* strings.Fields: split around runs of unicode.IsSpace (the ASCII bytes and the multi-byte
   encodings listed in ImpCommonA.ws_multi) *)
Fixpoint ufields_fuel (fuel : nat) (s : str) (cur : str) : list str :=
  let flush (rest : list str) := match cur with [] => rest | _ => rev cur :: rest end in
  match fuel with
  | O => flush []
  | S f =>
    match s with
    | [] => flush []
    | c :: t =>
      if ws1 c then flush (ufields_fuel f t [])
      else match drop_prefix_any ws_multi s with
           | Some s' => flush (ufields_fuel f s' [])
           | None => ufields_fuel f t (c :: cur)
           end
    end
  end.
Definition ufields (s : str) : list str := ufields_fuel (S (length s)) s [].

(* an unanchored regular expression given by its matcher at one position *)
Fixpoint rx_anywhere (here : str -> bool) (s : str) : bool :=
  here s || match s with [] => false | _ :: t => rx_anywhere here t end.

(* `<word>[A-Z]+<sep>[A-Z]+` at the start of s: the first run of capitals is maximal because the
   separator starts with a blank *)
Definition rx_two_caps_here (word sep : str) (s : str) : bool :=
  is_prefix word s &&
  let '(a, rest) := span is_upper (skipn (length word) s) in
  negb (is_empty a) && is_prefix sep rest &&
  match skipn (length sep) rest with c :: _ => is_upper c | [] => false end.
