(* Model of lib/model/account (account.go, registry.go).  An account is its list of segments,
   the first being the type name; interning through the registry is replaced by structural
   equality. *)
From Coq Require Import ZArith List Bool.
From Knut Require Import Model.Str.
Import ListNotations.
Open Scope bool_scope.
Open Scope Z_scope.

Inductive atype := Assets | Liabilities | Equity | Income | Expenses.

(* the order of Go's iota constants, used by account.Compare *)
Definition atype_rank (t : atype) : Z :=
  match t with Assets => 0 | Liabilities => 1 | Equity => 2 | Income => 3 | Expenses => 4 end.

Definition s_Assets : str := [65;115;115;101;116;115].
Definition s_Liabilities : str := [76;105;97;98;105;108;105;116;105;101;115].
Definition s_Equity : str := [69;113;117;105;116;121].
Definition s_Income : str := [73;110;99;111;109;101].
Definition s_Expenses : str := [69;120;112;101;110;115;101;115].

Definition atype_name (t : atype) : str :=
  match t with Assets => s_Assets | Liabilities => s_Liabilities | Equity => s_Equity
          | Income => s_Income | Expenses => s_Expenses end.

Definition parse_atype (s : str) : option atype :=
  if str_eqb s s_Assets then Some Assets
  else if str_eqb s s_Liabilities then Some Liabilities
  else if str_eqb s s_Equity then Some Equity
  else if str_eqb s s_Income then Some Income
  else if str_eqb s s_Expenses then Some Expenses
  else None.

Definition account := list str.

Definition acc_type (a : account) : option atype :=
  match a with [] => None | s :: _ => parse_atype s end.

(* the registry accepts an account iff its first segment is a type name and every further
   segment is non-empty (letters/digits are guaranteed by the parser; the unicode test of
   isValidSegment is not repeated here) *)
Definition valid_account (a : account) : bool :=
  match a with
  | [] => false
  | s :: tail => match parse_atype s with None => false | Some _ => true end
                 && forallb (fun x => match x with [] => false | _ => true end) tail
  end.

Definition acc_name (a : account) : str := join [colon] a.
Definition acc_of_name (s : str) : account := split_colon s.
Definition acc_level (a : account) : Z := Z.of_nat (length a).

Definition is_AL (a : account) : bool :=
  match acc_type a with Some Assets | Some Liabilities => true | _ => false end.
Definition is_IE (a : account) : bool :=
  match acc_type a with Some Income | Some Expenses => true | _ => false end.

Definition acc_rank (a : account) : Z :=
  match acc_type a with Some t => atype_rank t | None => 5 end.

(* account.Compare: by type, then by name *)
Definition acc_ltb (a b : account) : bool :=
  if acc_rank a <? acc_rank b then true
  else if acc_rank b <? acc_rank a then false
  else str_ltb (acc_name a) (acc_name b).

Definition acc_eqb (a b : account) : bool := str_eqb (acc_name a) (acc_name b).

(* Registry.SwapType *)
Definition swap_type (a : account) : account :=
  match a with
  | [] => []
  | s :: tail =>
    match parse_atype s with
    | Some Assets => s_Liabilities :: tail
    | Some Liabilities => s_Assets :: tail
    | Some Income => s_Expenses :: tail
    | Some Expenses => s_Income :: tail
    | _ => a
    end
  end.

(* account.Remap *)
Definition remap (rs : list rx) (a : account) : account :=
  if rxs_match rs (acc_name a) then swap_type a else a.

(* Registry.ValuationAccountFor: Income + the account's segments after the first *)
Definition valuation_account_for (a : account) : account := s_Income :: tl a.

(* mapping rules -m level[:suffix],regex *)
Record rule := mkRule { r_level : Z; r_suffix : Z; r_rx : option rx }.

Definition rule_match (r : rule) (s : str) : option (Z * Z) :=
  match r_rx r with
  | None => Some (r_level r, r_suffix r)
  | Some x => if rx_match x s then Some (r_level r, r_suffix r) else None
  end.

Fixpoint mapping_level (m : list rule) (s : str) : option (Z * Z) :=
  match m with
  | [] => None
  | r :: rest => match rule_match r s with Some x => Some x | None => mapping_level rest s end
  end.

Inductive shorten_result := ShAcc (a : account) | ShHidden | ShPanic.

(* account.Shorten as specified: the first [level] segments followed by the last [suffix]
   segments.  Negative level or suffix make the Go slice expressions panic. *)
Definition shorten (m : list rule) (a : account) : shorten_result :=
  match m with
  | [] => ShAcc a
  | _ =>
    match mapping_level m (acc_name a) with
    | None => ShAcc a
    | Some (level, suffix) =>
      if level =? 0 then ShHidden
      else if acc_level a <=? suffix then ShAcc a
      else if acc_level a - suffix <? level then ShAcc a
      else if (level <? 0) || (suffix <? 0) then ShPanic
      else
        let split_pos := Z.to_nat (acc_level a - suffix) in
        ShAcc (firstn (Z.to_nat level) (firstn split_pos a) ++ skipn split_pos a)
    end
  end.
