(* The reader of ch.supercard (cmd/importer/supercard/supercard.go):
     :79       csv.NewReader(charmap.ISO8859_1.NewDecoder().Reader(f))
     :102-104  TrimLeadingSpace = true, Comma = ';', FieldsPerRecord = 13
     :127      checkFirstLine sets FieldsPerRecord = 2 for the first call of Read (the defer restores 13)
     :139      skipHeader: the second call of Read, with 13
     :111      FieldsPerRecord = -1 for every further call
   charmap.ISO8859_1 (golang.org/x/text/encoding/charmap, tables.go: every byte b decodes to the code point U+00b; the
   Decoder writes it in UTF-8): a byte below 0x80 is copied, a byte b >= 0x80 becomes the two bytes 0xC0 | b>>6,
   0x80 | b&0x3F.  The decoder has no error and no state, so the model applies it to the whole file before the reader
   (the csv reader sees the decoded bytes only: 0x85 and 0xA0 arrive as U+0085 and U+00A0, which unicode.IsSpace -
   Csv.ws2 - accepts, so TrimLeadingSpace drops them at the start of a field).
   FieldsPerRecord is a public field the importer assigns between calls of Read; read_all_set is Csv.read_all with the
   values assigned before the first calls (`sets`; once they are used up the reader keeps its own value, as read_all).
   Executable definitions only. *)
From Coq Require Import ZArith List Bool.
From Knut Require Import Model.Bytes Model.Csv Model.ImpCommonA Model.CsvImp.
Import ListNotations.
Open Scope Z_scope.

Definition latin1_byte (b : Z) : str :=
  if b <? 128 then [b] else [192 + b / 64; 128 + b mod 64].

Fixpoint latin1_decode (s : str) : str :=
  match s with
  | [] => []
  | b :: t => latin1_byte b ++ latin1_decode t
  end.

(* a loop of Read on the normalised text; sets = the values the caller assigns to FieldsPerRecord before the next calls,
   fpr = the reader's current FieldsPerRecord *)
Fixpoint read_all_set (cfg : csv_cfg) (fuel : nat) (sets : list Z) (fpr : Z) (s : str) : csv_result :=
  match fuel with
  | O => CsvOutOfFuel
  | S fuel' =>
    let fpr0 := match sets with x :: _ => x | [] => fpr end in
    match skip_lines cfg false s with
    | [] => CsvRecords []
    | s' =>
      match parse_fields cfg (S (length s')) s' with
      | RecFuel => CsvOutOfFuel
      | RecErr e => CsvError [] e
      | RecOk fs rest =>
        if count_bad fpr0 fs then CsvError [] ErrFieldCount
        else match read_all_set cfg fuel' (tl sets) (next_fpr fpr0 fs) rest with
             | CsvRecords rs => CsvRecords (fs :: rs)
             | CsvError b e => CsvError (fs :: b) e
             | CsvOutOfFuel => CsvOutOfFuel
             end
      end
    end
  end.

Definition csv_read_all_set (cfg : csv_cfg) (sets : list Z) (input : str) : csv_result :=
  if delims_ok cfg then
    let t := csv_normalize input in read_all_set cfg (S (length t)) sets (cc_fpr cfg) t
  else CsvError [] ErrInvalidDelim.

Definition cfg_supercard : csv_cfg := mk_cfg 59 13 false true.
Definition sets_supercard : list Z := [2; 13; -1].

(* the reader items of ch.supercard from the statement's bytes *)
Definition csv_items_supercard (file : str) : list citem :=
  items_of_result (csv_read_all_set cfg_supercard sets_supercard (latin1_decode file)).
