(* Model of the CHOICE in lib/syntax/bayes/bayes.go (repaired code, /repo e8bd689): what
   Model/Bayes.v leaves open as [choose].  Update / update (the counts), tokenize,
   scoreCandidate, inferAccount (the loop over the sorted candidates with `!found || score > max`)
   and Infer, following the shape of the Go code.

   Abstract (Section variables): the floating-point operations
     flog a b   = math.Log(float64(a) / float64(b))
     fadd x y   = x + y           (float64; NOT assumed associative or commutative)
     fgt x y    = x > y           (float64)
   and the two library functions of tokenize, [fields] = strings.Fields and [lower] =
   strings.ToLower.  Nothing is assumed about them.

   The maps of the Go code are functions of the LIST OF UPDATE EVENTS [events]: one event
   (account, tokens) per call of Model.update;
     m.count                                = number of events
     m.countByAccount[a]                    = number of events of account a
     m.countByTokenAndAccount[tok][a], ok   = number of events of account a whose token set
                                              contains tok, ok iff that number is not 0.
   A Go map or set is enumerated in arbitrary order; the code sorts what it enumerates
   (sort.Strings) before it uses the order: candidates = sort_dedup (keys of countByAccount),
   the tokens of a score = sort_dedup (the token set).

   [infer_sems_c] is Model/Bayes.v [infer_sems] (variant Fixed) with the choice made from the
   context (description, booking, other account) instead of by an abstract function of the call
   number; it also returns the results of the calls of inferAccount in call order.
   Proofs/InferChoice.v: it IS infer_sems Fixed for a valid choice function.
   Executable definitions only.                                                             *)
From Coq Require Import ZArith List Bool.
From Knut Require Import Model.Bytes Model.Utf8 Model.Scanner Model.Parser Model.SynPrinter
  Spec.FormatSpec Model.SynRender Model.Bayes.
Import ListNotations.
Open Scope bool_scope.
Open Scope Z_scope.

Module BayesScoreM.

Definition str_mem (x : str) (l : list str) : bool := existsb (str_eqb x) l.

Section Score.
Variable F : Type.                          (* float64 *)
Variable flog : Z -> Z -> F.
Variable fadd : F -> F -> F.
Variable fgt : F -> F -> bool.
Variable fields : str -> list str.
Variable lower : str -> str.
Variable placeholder : str.

(* tokenize(t, b, other): the token set, in some enumeration *)
Definition tokenize (desc : str) (b : sem_booking) (other : str) : list str :=
  map lower (fields desc ++ [sb_commodity b; sb_quantity b; other]).

Definition event := (str * list str)%type.          (* account, token set *)

(* Model.Update on one transaction: the calls of Model.update *)
Definition update_events (desc : str) (bs : list sem_booking) : list event :=
  flat_map (fun b =>
    let c := fst (sb_credit b) in
    let d := fst (sb_debit b) in
    if snd (sb_credit b) || snd (sb_debit b) then []
    else if is_nil c || is_nil d then []
    else if str_eqb c placeholder || str_eqb d placeholder then []
    else [(c, tokenize desc b d); (d, tokenize desc b c)]) bs.

Definition events (training : list sem_directive) : list event :=
  flat_map (fun d => match d with SemTrx _ desc bs _ _ => update_events desc bs | _ => [] end) training.

Section Trained.
Variable evs : list event.

Definition count_total : Z := Z.of_nat (length evs).
Definition count_account (a : str) : Z :=
  Z.of_nat (length (filter (fun e => str_eqb (fst e) a) evs)).
Definition count_token_account (tok a : str) : Z :=
  Z.of_nat (length (filter (fun e => str_eqb (fst e) a && str_mem tok (snd e)) evs)).

(* the keys of countByAccount, sorted *)
Definition candidates_c : list str := sort_dedup (map fst evs).

(* scoreCandidate *)
Definition score (tokens : list str) (candidate : str) : F :=
  let count := count_account candidate in
  fold_left (fun sc tok =>
               let ct := count_token_account tok candidate in
               fadd sc (if 0 <? ct then flog ct count else flog 1 count_total))
            (sort_dedup tokens) (flog count count_total).

(* the loop of inferAccount over the candidates that are not `other`: (best, max), found = Some *)
Fixpoint best_loop (sc : str -> F) (l : list str) (best : option (str * F)) : option (str * F) :=
  match l with
  | [] => best
  | c :: l' =>
    let s := sc c in
    best_loop sc l' (match best with
                     | None => Some (c, s)
                     | Some (_, mx) => if fgt s mx then Some (c, s) else best
                     end)
  end.

(* inferAccount(t, b, other); [l] = the sorted candidates without `other` *)
Definition infer_account (desc : str) (b : sem_booking) (other : str) (l : list str) : option str :=
  option_map fst (best_loop (score (tokenize desc b other)) l None).

End Trained.

(* Model.Infer with the choice made from the context *)
Section Infer.
Variable pick : str -> sem_booking -> str -> list str -> option str.
Variable cands : list str.

Definition infer_side_c (desc : str) (b : sem_booking) (acc : sem_account) (other : str)
    : sem_account * list (option str) :=
  if str_eqb (fst acc) placeholder then
    let r := pick desc b other (without other cands) in
    (match r with Some a => (a, false) | None => acc end, [r])
  else (acc, []).

Definition infer_booking_c (desc : str) (b : sem_booking) : sem_booking * list (option str) :=
  let (credit', t1) := infer_side_c desc b (sb_credit b) (fst (sb_debit b)) in
  let (debit', t2) := infer_side_c desc b (sb_debit b) (fst credit') in
  (mkSemBooking credit' debit' (sb_quantity b) (sb_commodity b), t1 ++ t2).

Fixpoint infer_bookings_c (desc : str) (bs : list sem_booking) : list sem_booking * list (option str) :=
  match bs with
  | [] => ([], [])
  | b :: bs' =>
    let (b', t1) := infer_booking_c desc b in
    let (bs'', t2) := infer_bookings_c desc bs' in
    (b' :: bs'', t1 ++ t2)
  end.

Fixpoint infer_sems_c (ds : list sem_directive) : list sem_directive * list (option str) :=
  match ds with
  | [] => ([], [])
  | d :: ds' =>
    let (d', t1) :=
      match d with
      | SemTrx date desc bs p a => let (bs', t1) := infer_bookings_c desc bs in (SemTrx date desc bs' p a, t1)
      | _ => (d, [])
      end in
    let (ds'', t2) := infer_sems_c ds' in
    (d' :: ds'', t1 ++ t2)
  end.

End Infer.

(* train on the meanings of the training file, infer on the meanings of the target *)
Definition infer_scored_sems (training target : list sem_directive) : list sem_directive * list (option str) :=
  let evs := events training in
  infer_sems_c (infer_account evs) (candidates_c evs) target.

(* the command `knut infer -a placeholder -t TRAINING TARGET` *)
Definition infer_scored (letter digit : Z -> bool) (training target : str) : infer_result :=
  match parse_text letter digit training, parse_text letter digit target with
  | ParseOk ftr, ParseOk ftg =>
    let (sems, _) := infer_scored_sems (sem training ftr) (sem target ftg) in
    match render Utf8M.decode sems (gaps target ftg) with
    | Some out => InferOut out
    | None => InferBad
    end
  | ParseFuel, _ | _, ParseFuel => InferBad
  | _, _ => InferErr
  end.

End Score.

End BayesScoreM.
Export BayesScoreM.
