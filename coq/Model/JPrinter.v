(* Model of lib/journal/printer/printer.go and journal.Print (lib/journal/journal.go). *)
From Coq Require Import ZArith List Bool.
From Knut Require Import Model.Str Model.Dec Model.Date Model.Account Model.Ledger Model.Price
     Model.Journal Model.Check Model.Pipeline Model.Table Model.Report.
Import ListNotations.
Open Scope bool_scope.
Open Scope Z_scope.

Definition s_performance : str := [64;112;101;114;102;111;114;109;97;110;99;101;40].  (* "@performance(" *)
Definition s_open : str := [32;111;112;101;110;32].          (* " open " *)
Definition s_close : str := [32;99;108;111;115;101;32].      (* " close " *)
Definition s_price : str := [32;112;114;105;99;101;32].      (* " price " *)
Definition s_balance : str := [32;98;97;108;97;110;99;101].  (* " balance" *)

(* fmt "%-*s": pad on the right with spaces to n runes *)
Definition pad_right (n : Z) (s : str) : str := s ++ spaces (n - rune_count s).
(* fmt "%10s" *)
Definition pad10 (s : str) : str := pad_left 10 s.

(* Printer.printPosting: other account, account, quantity, commodity *)
Definition print_posting (padding : Z) (p : posting) : str :=
  pad_right padding (acc_name (p_other p)) ++ [32] ++ pad_right padding (acc_name (p_acc p)) ++ [32] ++
  pad10 (to_string (p_qty p)) ++ [32] ++ p_com p.

(* every second posting (index 1, 3, ...) is printed *)
Fixpoint odd_postings (ps : list posting) : list posting :=
  match ps with
  | _ :: p :: rest => p :: odd_postings rest
  | _ => []
  end.

(* Printer.printTransaction *)
Definition print_txn (padding : Z) (t : txn) : str :=
  (match t_targets t with
   | Some ts => s_performance ++ join [44] ts ++ [41; 10]
   | None => []
   end) ++
  format_date (t_date t) ++ [32; 34] ++ t_desc t ++ [34; 10] ++
  concat (map (fun p => print_posting padding p ++ [10]) (odd_postings (t_postings t))).

Definition print_open (d : Z) (a : account) : str := format_date d ++ s_open ++ acc_name a.
Definition print_close (d : Z) (a : account) : str := format_date d ++ s_close ++ acc_name a.
Definition print_price (d : Z) (x : commodity * dec * commodity) : str :=
  let '(c, p, t) := x in format_date d ++ s_price ++ c ++ [32] ++ to_string p ++ [32] ++ t.

Definition print_balance_line (b : balance) : str :=
  acc_name (bal_acc b) ++ [32] ++ to_string (bal_qty b) ++ [32] ++ bal_com b.

(* Printer.printAssertion *)
Definition print_assertion (d : Z) (bs : list balance) : str :=
  format_date d ++ s_balance ++
  match bs with
  | [b] => [32] ++ print_balance_line b
  | _ => concat (map (fun b => [10] ++ print_balance_line b) bs)
  end.

(* Printer.UpdatePadding over all postings of all transactions *)
Definition padding_of (days : list day) : Z :=
  fold_left (fun pad d =>
    fold_left (fun pad t =>
      fold_left (fun pad p => Z.max pad (Z.max (rune_count (acc_name (p_acc p))) (rune_count (acc_name (p_other p)))))
                (t_postings t) pad)
      (d_txns d) pad)
    days 0.

(* the body of journal.Print after sorting: per day prices, opens, transactions, assertions,
   closes; PrintDirectiveLn adds a newline after each directive; a blank line follows each
   non-empty group except the transactions (whose own text ends with a newline) *)
Definition print_day_pinned (padding : Z) (d : day) : str :=
  let ln (s : str) := s ++ [10] in
  concat (map (fun x => ln (print_price (d_date d) x)) (d_prices d)) ++
  (match d_prices d with [] => [] | _ => [10] end) ++
  concat (map (fun a => ln (print_open (d_date d) a)) (d_opens d)) ++
  (match d_opens d with [] => [] | _ => [10] end) ++
  concat (map (fun t => ln (print_txn padding t)) (d_txns d)) ++
  concat (map (fun a => ln (print_assertion (d_date d) a)) (d_asserts d)) ++
  (match d_asserts d with [] => [] | _ => [10] end) ++
  concat (map (fun a => ln (print_close (d_date d) a)) (d_closes d)) ++
  (match d_closes d with [] => [] | _ => [10] end).

(* journal.Print: Sort() then the padding updater run as pipeline stages; then the days are
   printed *)
Definition sort_days (days : list day) : list day :=
  map (fun d => set_txns d (sort_by txn_ltb (d_txns d))) days.

Definition print_journal_pinned (days : list day) : str :=
  let days := sort_days days in
  let padding := padding_of days in
  concat (map (print_day_pinned padding) days).

(* ---------------------------------------------------------------- repaired printing (C09)
   The pinned journal.Print (print_day_pinned above) writes the assertions of a day one after the
   other; a multi-balance assertion ends at a blank line only, so its successor is read as a
   further balance line (finding C09-multi-assertion, DESIGN F2).  The repaired code writes
   a blank line after an assertion whose number of balances is not 1 when another assertion
   of the same day follows (findings/C09-multi-assertion.patch). *)
Fixpoint print_asserts (dt : Z) (l : list (list balance)) : str :=
  match l with
  | [] => []
  | a :: rest =>
    print_assertion dt a ++ [10] ++
    (match rest with
     | [] => []
     | _ => (match a with [_] => [] | _ => [10] end) ++ print_asserts dt rest
     end)
  end.

Definition print_day (padding : Z) (d : day) : str :=
  let ln (s : str) := s ++ [10] in
  concat (map (fun x => ln (print_price (d_date d) x)) (d_prices d)) ++
  (match d_prices d with [] => [] | _ => [10] end) ++
  concat (map (fun a => ln (print_open (d_date d) a)) (d_opens d)) ++
  (match d_opens d with [] => [] | _ => [10] end) ++
  concat (map (fun t => ln (print_txn padding t)) (d_txns d)) ++
  print_asserts (d_date d) (d_asserts d) ++
  (match d_asserts d with [] => [] | _ => [10] end) ++
  concat (map (fun a => ln (print_close (d_date d) a)) (d_closes d)) ++
  (match d_closes d with [] => [] | _ => [10] end).

Definition print_journal (days : list day) : str :=
  let days := sort_days days in
  let padding := padding_of days in
  concat (map (print_day padding) days).
