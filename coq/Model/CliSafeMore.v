(* The repaired variants of transcode, portfolio weights and portfolio returns, and the three
   commands on top of the include loader (the continuation of Model/CliSafe.v for the commands of
   Model/CliTranscode.v and Model/CliPortfolio.v).  Nothing here changes those files: their
   commands keep the pinned [Cli.load] (transaction.expand panics on an empty or zero-dated
   accrual window), the pinned [pf_partition] (NewPartition panics on a zero start) and [map_path]
   with its slice-bounds panic; the definitions below are the code as it is after the fixes

     f4c5740  transaction.expand returns an error           -> [load_safe]          (Model/CliSafe.v)
     c04a731  Multiperiod.Partition returns an error         -> [pf_partition_safe]
     78c5401  MappingFlag.Set rejects negative numbers       -> [mapping_flag_ok], checked first: cobra
                                                                parses the flags before the command runs
     864fd70  transcode without -v is an error               -> already in [transcode_cmd]
     d4786c7, a4f5eb6  returns wiring, flow filter           -> [repaired] of Model/CliPortfolio.v

   Proofs/NoPanicMore.v: these never return CPanic, and equal the commands of CliTranscode /
   CliPortfolio wherever those do not panic. *)
From Coq Require Import ZArith QArith List Bool.
From Knut Require Import Model.Str Model.Dec Model.Date Model.Account Model.Ledger Model.Price
     Model.Journal Model.Check Model.Pipeline Model.Table Model.Report Model.JPrinter Model.Cli Model.Loader
     Model.CliSafe Model.Beancount Model.CliTranscode Model.Perf Model.Weights Model.CliPortfolio.
Import ListNotations.
Open Scope bool_scope.
Open Scope Z_scope.

Module CliSafeMoreM.

(* ---------------------------------------------------------------- transcode *)

Definition transcode_days_safe (lenient : bool) (v : commodity) (ds : list sdirective) : cresult (list day) :=
  cbind (load_safe ds) (fun b => transcode_stages lenient v (b_days b)).

Definition transcode_cmd_safe (lenient : bool) (v : option commodity) (ds : list sdirective) : cresult str :=
  cbind (valuation_flag v) (fun vo =>
  match vo with
  | Some c => cbind (transcode_days_safe lenient c ds) (fun days => COk (transcode days c))
  | None => CErr k_valuation []
  end).

(* ---------------------------------------------------------------- portfolio *)

(* Multiperiod.Partition with the added check (as Model/CliSafe.v cfg_partition_safe) *)
Definition pf_partition_safe (cfg : pf_cfg) (b : builder) : cresult partition :=
  let p := clip (mkPeriod (pc_from cfg) (pc_to cfg)) (builder_period b) in
  if p_start p =? 0 then CErr k_zerotime []
  else match new_partition p (pc_interval cfg) (pc_last cfg) with
       | POk pt => COk pt
       | PPanic => CPanic k_zerotime
       | POutOfFuel => CPanic k_fuel
       end.

Definition weights_entries_safe (cfg : pf_cfg) (ds : list sdirective) : cresult (list entry) :=
  if negb (mapping_flag_ok (pc_mapping cfg)) then CErr k_flag [] else
  cbind (match pc_universe cfg with Some y => universe_load [] y | None => COk [] end) (fun u =>
  cbind (check_valuation cfg) (fun _ =>
  cbind (load_safe ds) (fun b =>
  cbind (pf_partition_safe cfg b) (fun part =>
  let b := builder_touch b (end_dates part) in
  cbind (valued_days cfg (b_days b)) (fun days =>
  cbind (day_values cfg days) (fun vs =>
  match query_entries u (pc_mapping cfg) (end_dates part) (fst vs) with
  | WOk es => COk es
  | WPanic => CPanic k_bounds
  end)))))).

Definition weights_table_safe (cfg : pf_cfg) (ds : list sdirective) : cresult (list Z * list wrow) :=
  cbind (weights_entries_safe cfg ds) (fun es => COk (render_weights (pc_alpha cfg) es)).

Definition weights_csv_cmd_safe (cfg : pf_cfg) (ds : list sdirective) : cresult str :=
  cbind (weights_table_safe cfg ds) (fun t => COk (weights_csv t)).

Definition returns_gen_safe (fx : fixes) (cfg : pf_cfg) (ds : list sdirective) : cresult (list (Z * option Q)) :=
  cbind (check_valuation cfg) (fun _ =>
  cbind (load_safe ds) (fun b =>
  cbind (pf_partition_safe cfg b) (fun part =>
  let days0 := if fx_wiring fx then b_days (builder_touch b (end_dates part)) else b_days b in
  cbind (valued_days cfg days0) (fun days =>
  cbind (day_values cfg days) (fun vs =>
  cbind (day_flows fx cfg (snd vs)) (fun fs =>
  COk (perf_loop part (end_dates part) (Some 1%Q) (join_perf (fst vs) fs)))))))).

Definition returns_cmd_safe (fx : fixes) (cfg : pf_cfg) (ds : list sdirective) : cresult str :=
  cbind (returns_gen_safe fx cfg ds) (fun l => COk (returns_text l)).

(* ---------------------------------------------------------------- on a file tree *)

Definition transcode_fs (lenient : bool) (v : option commodity) (fs : fsys) (root : path) : predicted :=
  predict (run_fs fs root (transcode_cmd_safe lenient v)).
Definition weights_fs (cfg : pf_cfg) (fs : fsys) (root : path) : predicted :=
  predict (run_fs fs root (weights_csv_cmd_safe cfg)).
Definition returns_fs (cfg : pf_cfg) (fs : fsys) (root : path) : predicted :=
  predict (run_fs fs root (returns_cmd_safe repaired cfg)).

(* the commands of CliTranscode / CliPortfolio (pinned load, partition and mapping) on the same
   (repaired) loader *)
Definition transcode_fs_pinned (lenient : bool) (v : option commodity) (fs : fsys) (root : path) : predicted :=
  predict (run_fs fs root (transcode_cmd lenient v)).
Definition weights_fs_pinned (cfg : pf_cfg) (fs : fsys) (root : path) : predicted :=
  predict (run_fs fs root (weights_csv_cmd cfg)).
Definition returns_fs_pinned (cfg : pf_cfg) (fs : fsys) (root : path) : predicted :=
  predict (run_fs fs root (returns_cmd repaired cfg)).

End CliSafeMoreM.
Export CliSafeMoreM.
