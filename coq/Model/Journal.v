(* Model of lib/journal/journal.go: Builder (Add, Build, Period, Days), Day, and the callback
   order of Processor.Process.  Days are kept in a list sorted by date (Build sorts the map
   values by date; dates are unique keys). *)
From Coq Require Import ZArith List Bool.
From Knut Require Import Model.Str Model.Dec Model.Date Model.Account Model.Ledger Model.Price.
Import ListNotations.
Open Scope bool_scope.
Open Scope Z_scope.

Record day := mkDay {
  d_date : Z;
  d_prices : list (commodity * dec * commodity);      (* commodity, price, target *)
  d_opens : list account;
  d_txns : list txn;
  d_asserts : list (list balance);
  d_closes : list account;
  d_normalized : option nprices }.

Definition empty_day (d : Z) : day := mkDay d [] [] [] [] [] None.

Record builder := mkBuilder { b_days : list day; b_min : Z; b_max : Z }.

(* date.Date(9999, 12, 31) and the zero time *)
Definition max_date : Z := of_civil 9999 12 31.
Definition new_builder : builder := mkBuilder [] max_date 0.

(* Builder.Day: get or create, list kept sorted by date *)
Fixpoint upd_day (days : list day) (d : Z) (f : day -> day) : list day :=
  match days with
  | [] => [f (empty_day d)]
  | x :: rest =>
    if d =? d_date x then f x :: rest
    else if d <? d_date x then f (empty_day d) :: days
    else x :: upd_day rest d f
  end.

Definition add_txn_day (t : txn) (x : day) : day :=
  mkDay (d_date x) (d_prices x) (d_opens x) (d_txns x ++ [t]) (d_asserts x) (d_closes x) (d_normalized x).

(* Builder.Add *)
Definition builder_add (b : builder) (d : directive) : builder :=
  match d with
  | DPrice dt c p t =>
    mkBuilder (upd_day (b_days b) dt (fun x => mkDay (d_date x) (d_prices x ++ [(c, p, t)]) (d_opens x) (d_txns x) (d_asserts x) (d_closes x) (d_normalized x)))
              (b_min b) (if b_max b <? dt then dt else b_max b)
  | DOpen dt a =>
    mkBuilder (upd_day (b_days b) dt (fun x => mkDay (d_date x) (d_prices x) (d_opens x ++ [a]) (d_txns x) (d_asserts x) (d_closes x) (d_normalized x)))
              (b_min b) (b_max b)
  | DTxn t =>
    mkBuilder (upd_day (b_days b) (t_date t) (add_txn_day t))
              (if t_date t <? b_min b then t_date t else b_min b)
              (if b_max b <? t_date t then t_date t else b_max b)
  | DAssert dt bs =>
    mkBuilder (upd_day (b_days b) dt (fun x => mkDay (d_date x) (d_prices x) (d_opens x) (d_txns x) (d_asserts x ++ [bs]) (d_closes x) (d_normalized x)))
              (b_min b) (b_max b)
  | DClose dt a =>
    mkBuilder (upd_day (b_days b) dt (fun x => mkDay (d_date x) (d_prices x) (d_opens x) (d_txns x) (d_asserts x) (d_closes x ++ [a]) (d_normalized x)))
              (b_min b) (b_max b)
  end.

Definition builder_of (ds : list directive) : builder := fold_left builder_add ds new_builder.

(* Builder.Period *)
Definition builder_period (b : builder) : period := mkPeriod (b_min b) (b_max b).

(* Builder.Days(dates): creates the days that do not exist yet *)
Definition builder_touch (b : builder) (dates : list Z) : builder :=
  mkBuilder (fold_left (fun ds d => upd_day ds d (fun x => x)) dates (b_days b)) (b_min b) (b_max b).

(* ---------------------------------------------------------------- processors *)

Inductive presult (A : Type) := ROk (a : A) | RErr (kind : str) (detail : str) | RPanic (msg : str).
Arguments ROk {A} a.
Arguments RErr {A} kind detail.
Arguments RPanic {A} msg.

Definition rbind {A B} (x : presult A) (f : A -> presult B) : presult B :=
  match x with ROk a => f a | RErr k d => RErr k d | RPanic m => RPanic m end.

(* A processor with private state S.  Each callback may be absent (None), exactly as the
   nil function fields of journal.Processor. *)
Record processor (S : Type) := mkProc {
  pr_day_start : option (S -> day -> presult (S * day));
  pr_price : option (S -> commodity * dec * commodity -> presult S);
  pr_open : option (S -> account -> presult S);
  pr_txn : option (S -> txn -> presult S);
  pr_posting : option (S -> txn -> posting -> presult (S * posting));
  pr_balance : option (S -> list balance -> balance -> presult S);
  pr_close : option (S -> account -> presult S);
  pr_day_end : option (S -> day -> presult (S * day)) }.
Arguments mkProc {S}.
Arguments pr_day_start {S}. Arguments pr_price {S}. Arguments pr_open {S}. Arguments pr_txn {S}.
Arguments pr_posting {S}. Arguments pr_balance {S}. Arguments pr_close {S}. Arguments pr_day_end {S}.

Section Process.
  Context {S : Type} (p : processor S).

  Fixpoint fold_res {A} (f : S -> A -> presult S) (s : S) (l : list A) : presult S :=
    match l with
    | [] => ROk s
    | x :: rest => rbind (f s x) (fun s' => fold_res f s' rest)
    end.

  (* the Posting callback may rewrite the posting (Valuate sets Value) *)
  Fixpoint fold_postings (f : S -> txn -> posting -> presult (S * posting)) (t : txn) (s : S)
           (ps : list posting) : presult (S * list posting) :=
    match ps with
    | [] => ROk (s, [])
    | x :: rest =>
      rbind (f s t x) (fun sp =>
      rbind (fold_postings f t (fst sp) rest) (fun sr => ROk (fst sr, snd sp :: snd sr)))
    end.

  Fixpoint fold_txns (s : S) (ts : list txn) : presult (S * list txn) :=
    match ts with
    | [] => ROk (s, [])
    | t :: rest =>
      rbind (match pr_txn p with Some f => f s t | None => ROk s end) (fun s1 =>
      rbind (match pr_posting p with
             | Some f => rbind (fold_postings f t s1 (t_postings t)) (fun sp =>
                         ROk (fst sp, mkTxn (t_date t) (t_desc t) (snd sp) (t_targets t)))
             | None => ROk (s1, t)
             end) (fun st =>
      rbind (fold_txns (fst st) rest) (fun sr => ROk (fst sr, snd st :: snd sr))))
    end.

  Fixpoint fold_asserts (s : S) (l : list (list balance)) : presult S :=
    match l with
    | [] => ROk s
    | a :: rest =>
      rbind (match pr_balance p with Some f => fold_res (fun s b => f s a b) s a | None => ROk s end)
            (fun s' => fold_asserts s' rest)
    end.

  (* Processor.Process: DayStart, prices, opens, transactions (+postings), assertions
     (+balances), closes, DayEnd.  (The Transaction and Assertion callbacks without their
     Posting/Balance companions do not occur among knut's processors except Sort's padding
     updater; pr_txn covers that.) *)
  Definition process_day (s : S) (d : day) : presult (S * day) :=
    rbind (match pr_day_start p with Some f => f s d | None => ROk (s, d) end) (fun sd =>
    let s := fst sd in let d := snd sd in
    rbind (match pr_price p with Some f => fold_res f s (d_prices d) | None => ROk s end) (fun s =>
    rbind (match pr_open p with Some f => fold_res f s (d_opens d) | None => ROk s end) (fun s =>
    rbind (fold_txns s (d_txns d)) (fun st =>
    let s := fst st in
    let d := mkDay (d_date d) (d_prices d) (d_opens d) (snd st) (d_asserts d) (d_closes d) (d_normalized d) in
    rbind (fold_asserts s (d_asserts d)) (fun s =>
    rbind (match pr_close p with Some f => fold_res f s (d_closes d) | None => ROk s end) (fun s =>
    match pr_day_end p with Some f => f s d | None => ROk (s, d) end)))))).

  (* one pipeline stage over all days, in date order *)
  Fixpoint process_days (s : S) (ds : list day) : presult (S * list day) :=
    match ds with
    | [] => ROk (s, [])
    | d :: rest =>
      rbind (process_day s d) (fun sd =>
      rbind (process_days (fst sd) rest) (fun sr => ROk (fst sr, snd sd :: snd sr)))
    end.
End Process.
