(* Model of lib/model/price: Prices.Insert, Normalize, NormalizedPrices.Price/Valuate, Multiply.
   Go maps become association lists keyed by commodity name, kept sorted by key, so that two
   maps with the same bindings are equal.  Normalize exists in two variants: [normalize_dfs],
   the depth-first traversal of the pinned code whose result depends on the map iteration
   order (given here as an explicit order on neighbours), and [normalize], the breadth-first,
   name-ordered traversal of the repaired code. *)
From Coq Require Import ZArith List Bool.
From Knut Require Import Model.Str Model.Dec.
Import ListNotations.
Open Scope bool_scope.
Open Scope Z_scope.

Section SMap.
  Context {V : Type}.
  Definition smap := list (str * V).

  Fixpoint sm_get (m : smap) (k : str) : option V :=
    match m with
    | [] => None
    | (k', v) :: rest => if str_eqb k k' then Some v else sm_get rest k
    end.

  (* insert or overwrite, keeping keys strictly ascending *)
  Fixpoint sm_put (m : smap) (k : str) (v : V) : smap :=
    match m with
    | [] => [(k, v)]
    | (k', v') :: rest =>
      match str_cmp k k' with
      | Eq => (k, v) :: rest
      | Lt => (k, v) :: m
      | Gt => (k', v') :: sm_put rest k v
      end
    end.

  Definition sm_has (m : smap) (k : str) : bool := match sm_get m k with Some _ => true | None => false end.
End SMap.
Arguments smap V : clear implicits.

Definition one : dec := of_int 1.

(* price.Multiply *)
Definition multiply (a b : dec) : dec := truncate (mul a b) 8.

(* Prices: target -> (commodity -> price of commodity in target) *)
Definition prices := smap (smap dec).
Definition nprices := smap dec.

Definition add_price (ps : prices) (target com : str) (p : dec) : prices :=
  let inner := match sm_get ps target with Some m => m | None => [] end in
  sm_put ps target (sm_put inner com p).

Inductive presult_ins := InsOk (ps : prices) | InsErrZero | InsPanic.

(* Prices.Insert *)
Definition prices_insert (ps : prices) (com : str) (p : dec) (target : str) : presult_ins :=
  if is_zero p then InsErrZero
  else
    match div one p with
    | DPanic => InsPanic
    | DOk inv => InsOk (add_price (add_price ps target com p) com target (truncate inv 8))
    end.

(* ---- breadth-first normalisation (repaired code): commodities are visited level by level,
   the neighbours of a commodity in name order; the first price found for a commodity stays. *)
Fixpoint visit_neighbours (nb : list (str * dec)) (pc : dec) (res : nprices) (queue : list str)
  : nprices * list str :=
  match nb with
  | [] => (res, queue)
  | (n, p) :: rest =>
    if sm_has res n then visit_neighbours rest pc res queue
    else visit_neighbours rest pc (sm_put res n (multiply p pc)) (queue ++ [n])
  end.

Fixpoint bfs (fuel : nat) (ps : prices) (queue : list str) (res : nprices) : option nprices :=
  match queue with
  | [] => Some res
  | c :: rest =>
    match fuel with
    | O => None
    | S f =>
      let nb := match sm_get ps c with Some m => m | None => [] end in
      let pc := match sm_get res c with Some p => p | None => one end in
      let '(res', queue') := visit_neighbours nb pc res rest in
      bfs f ps queue' res'
    end
  end.

(* every commodity enters the queue at most once: |ps| + 1 pops suffice *)
Definition normalize (ps : prices) (t : str) : option nprices :=
  bfs (S (S (length ps))) ps [t] [(t, one)].

(* ---- depth-first normalisation (pinned code); [order] stands for Go's map iteration order:
   it permutes the neighbour list of a commodity. *)
Fixpoint dfs (fuel : nat) (order : str -> list (str * dec) -> list (str * dec))
         (ps : prices) (c : str) (res : nprices) : nprices :=
  match fuel with
  | O => res
  | S f =>
    let nb := order c (match sm_get ps c with Some m => m | None => [] end) in
    let pc := match sm_get res c with Some p => p | None => one end in
    fold_left (fun r np =>
                 if sm_has r (fst np) then r
                 else dfs f order ps (fst np) (sm_put r (fst np) (multiply (snd np) pc)))
              nb res
  end.

Definition normalize_dfs (order : str -> list (str * dec) -> list (str * dec)) (ps : prices) (t : str) : nprices :=
  dfs (S (length ps)) order ps t [(t, one)].

(* NormalizedPrices.Price *)
Definition np_price (np : nprices) (c : str) : option dec := sm_get np c.

(* NormalizedPrices.Valuate *)
Definition np_valuate (np : nprices) (c : str) (a : dec) : option dec :=
  match sm_get np c with Some p => Some (multiply a p) | None => None end.
