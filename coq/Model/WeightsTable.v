(* Model of the text rendering of `knut portfolio weights`:
     lib/common/table       percentCell, Row.AddPercent, TextRenderer.minLengthCell / renderCell
                            for a percent cell (Color = false)
     lib/reports/weights    Renderer.Render / renderHeader / renderNode
     cmd/.../weights.go     execute with TextRenderer{Round: --digits}
   Model/Table.v is not changed: a cell of a weights table is a cell of Model/Table.v or a
   percent cell ([pcell]), and the renderer below is TextRenderer.Render again, over [pcell]
   (same widths computation: zip_max, group_widths, widen of Model/Table.v).

   What the Go code does with a percent cell of value n (a float64):
     minLengthCell   utf8.RuneCountInString(fmt.Sprintf("%.2f%%", n))      -- n itself, 2 places
     renderCell      switch { case n < 0, n > 0, n == 0: Fprintf(w, "%*.*f%%", l-1, Round, n*100) }
   so (1) the width reserved for the cell is not the width of what is written (n * 100 with
   --digits places), and (2) for a NaN none of the three cases is taken and nothing is written,
   not even padding.  A negative --digits (or one above 1e6) makes fmt write "%!(BADPREC)" and
   fall back to six places.  All three are modelled as they are (Properties/C17w.v: C17_weights_nan_refuted,
   C17_weights_digits6_refuted, C17_weights_negative_digits_refuted).

   Weights: the report values are float64 in Go.  The rows of the table model carry floats
   ([frow]); the command-level model computes the weights as in Model/Weights.v with exact
   rationals, extended by the two infinities and NaN with IEEE's rules for v / 0 and for sums
   ([xw]; Model/Weights.v has one value "not a finite number" for all three, which is enough
   for the CSV comparison of C20 but not here: +Inf is printed, NaN is not), and converts a
   rational to the nearest float64.  Executable definitions only. *)
From Coq Require Import ZArith QArith List Bool.
From Knut Require Import Model.Str Model.Dec Model.Date Model.Account Model.Ledger Model.Price
     Model.Journal Model.Check Model.Pipeline Model.Report Model.Cli Model.Perf Model.Weights
     Model.CliPortfolio Model.Table Model.F64.
Import ListNotations.
Open Scope bool_scope.
Open Scope Z_scope.

(* ---------------------------------------------------------------- cells *)
Inductive pcell :=
| WBase (c : cell)
| WPct (n : f64).          (* Row.AddPercent(n) *)

Record wtable := mkWTable { wt_columns : list Z; wt_rows : list (list pcell) }.
Definition wt_width (t : wtable) : nat := length (wt_columns t).

Definition wis_sep (c : pcell) : bool := match c with WBase b => is_sep b | WPct _ => false end.

(* the text configuration of the base cells: weights.go sets Round only *)
Definition wcfg (round : Z) : text_cfg := mkTextCfg false round.

(* TextRenderer.minLengthCell *)
Definition wmin_length (round : Z) (c : pcell) : Z :=
  match c with
  | WBase b => min_length_cell (wcfg round) b
  | WPct n => rune_count (fmt_f 2 n ++ [37])
  end.

Definition s_badprec : str := [37;33;40;66;65;68;80;82;69;67;41].     (* %!(BADPREC) *)

(* the precision fmt uses for "%*.*f" with the argument Round: a negative one, and one above
   1e6 (fmt/print.go tooLarge), is dropped: doPrintf writes "%!(BADPREC)" and %f's default of
   6 applies *)
Definition pct_badprec (round : Z) : bool := (round <? 0) || (1000000 <? round).
Definition pct_prec (round : Z) : Z := if pct_badprec round then 6 else round.

(* the numeral of n * 100 *)
Definition pct_num (round : Z) (n : f64) : str := fmt_f (pct_prec round) (f64_mul100 n).

(* what Fprintf(w, "%*.*f%%", l-1, Round, n*100) writes: for l - 1 < 0 fmt left-justifies in
   width 1 - l, which pads nothing here (widths are never negative and the numeral is never
   empty), as pad_left with a non-positive count *)
Definition pct_text (round : Z) (n : f64) (l : Z) : str :=
  (if pct_badprec round then s_badprec else []) ++ pad_left (l - 1) (pct_num round n) ++ [37].

(* TextRenderer.renderCell *)
Definition wrender_cell (round : Z) (c : pcell) (l : Z) : str :=
  match c with
  | WBase b => render_cell (wcfg round) b l
  | WPct n =>
    if f64_ltz n then pct_text round n l
    else if f64_gtz n then pct_text round n l
    else if f64_eqz n then pct_text round n l
    else []                                           (* NaN: no case of the switch *)
  end.

(* ---------------------------------------------------------------- TextRenderer.Render *)
Definition w_col_widths (round : Z) (t : wtable) : list Z :=
  fold_left (fun ws row => zip_max ws (map (wmin_length round) row)) (wt_rows t)
            (repeat 0 (wt_width t)).

Definition w_final_widths (round : Z) (t : wtable) : list Z :=
  let ws := w_col_widths round t in
  widen ws 0 (group_widths (wt_columns t) ws []).

Definition wcreate_sep (c1 c2 : pcell) : str :=
  match wis_sep c1, wis_sep c2 with
  | true, true => [45;43;45]
  | true, false => [45;43;32]
  | false, true => [32;43;45]
  | false, false => [32;124;32]
  end.

Fixpoint wrender_cells (round : Z) (cs : list pcell) (ws : list Z) : str :=
  match cs, ws with
  | [c], w :: _ => wrender_cell round c w
  | c :: ((c2 :: _) as rest), w :: ws' => wrender_cell round c w ++ wcreate_sep c c2 ++ wrender_cells round rest ws'
  | _, _ => []
  end.

Definition wrender_row (round : Z) (ws : list Z) (row : list pcell) : str :=
  match row with
  | [] => []
  | c0 :: _ =>
    (if wis_sep c0 then [43;45] else [124;32]) ++
    wrender_cells round row ws ++
    (if wis_sep (last row (WBase CEmpty)) then [45;43;10] else [32;124;10])
  end.

Definition wrender_text (round : Z) (t : wtable) : str :=
  let ws := w_final_widths round t in
  concat (map (wrender_row round ws) (wt_rows t)) ++ [10].

(* a table of Model/Table.v as a weights-kind table *)
Definition wtable_of_table (t : table) : wtable := mkWTable (t_columns t) (map (map WBase) (t_rows t)).

(* ---------------------------------------------------------------- weights.Renderer *)
(* a row below the header: indent, segment, per date no cell value (AddEmpty: no weight for
   the date, or a weight == 0) or the weight (AddPercent) *)
Definition frow := (Z * str * list (option f64))%type.

Definition wsep_row (n : nat) : list pcell := repeat (WBase CSep) n.

(* renderHeader *)
Definition weights_header (dates : list Z) : list pcell :=
  WBase (CText s_Commodity ACenter 0) :: map (fun d => WBase (CText (format_date d) ACenter 0)) dates.

(* one renderNode call without the recursion (the rows arrive flattened, as in Model/Weights.v) *)
Definition weights_row (r : frow) : list pcell :=
  let '(ind, s, cells) := r in
  WBase (CText s ALeft ind) :: map (fun c => match c with Some n => WPct n | None => WBase CEmpty end) cells.

(* Renderer.Render: table.New(1, len(dates)); separator, header, separator, nodes, separator *)
Definition weights_wtable (dates : list Z) (rows : list frow) : wtable :=
  let cols := columns_of [1; Z.of_nat (length dates)] 0 in
  let n := length cols in
  mkWTable cols ([wsep_row n; weights_header dates; wsep_row n] ++ map weights_row rows ++ [wsep_row n]).

Definition weights_text (round : Z) (dates : list Z) (rows : list frow) : str :=
  wrender_text round (weights_wtable dates rows).

(* ---------------------------------------------------------------- extended weights *)
(* v / total and += on float64 where the operands are exact: IEEE 754 for a zero divisor and
   for the infinities; finite values as exact rationals (rounding not modelled) *)
Inductive xw := XFin (q : Q) | XInf (neg : bool) | XNaN.

Definition xdiv (v total : Q) : xw :=
  if q_is_zero total then (if q_is_zero v then XNaN else XInf (Qnum v <? 0))
  else XFin (Qred (Qdiv v total)).

Definition xadd (a b : xw) : xw :=
  match a, b with
  | XNaN, _ | _, XNaN => XNaN
  | XInf s, XInf s' => if Bool.eqb s s' then XInf s else XNaN
  | XInf s, XFin _ | XFin _, XInf s => XInf s
  | XFin x, XFin y => XFin (qadd x y)
  end.

(* weight != 0 *)
Definition x_nonzero (a : xw) : bool := match a with XFin q => negb (q_is_zero q) | _ => true end.

Definition xentry := (list str * Z * xw)%type.

(* Query.Execute, DayEnd: as Weights.day_entries / query_entries *)
Fixpoint xday_entries (u : universe) (m : list rule) (date : Z) (total : Q) (v1 : pcv) : wresult (list xentry) :=
  match v1 with
  | [] => WOk []
  | (c, v) :: rest =>
    match map_path m (locate u c) with
    | None => WPanic
    | Some ss =>
      match xday_entries u m date total rest with
      | WPanic => WPanic
      | WOk l => WOk ((ss, date, xdiv v total) :: l)
      end
    end
  end.

Fixpoint xquery_entries (u : universe) (m : list rule) (ends : list Z) (l : list (Z * (pcv * pcv)))
  : wresult (list xentry) :=
  match l with
  | [] => WOk []
  | (d, (_, v1)) :: rest =>
    if existsb (Z.eqb d) ends then
      match xday_entries u m d (pcv_sum v1) v1 with
      | WPanic => WPanic
      | WOk es =>
        match xquery_entries u m ends rest with
        | WPanic => WPanic
        | WOk es' => WOk (es ++ es')
        end
      end
    else xquery_entries u m ends rest
  end.

(* Value.Weights *)
Definition xwmap := list (Z * xw).

Fixpoint xm_get (m : xwmap) (d : Z) : option xw :=
  match m with
  | [] => None
  | (d', w) :: rest => if d =? d' then Some w else xm_get rest d
  end.

Fixpoint xm_add (m : xwmap) (d : Z) (w : xw) : xwmap :=
  match m with
  | [] => [(d, w)]
  | (d', w') :: rest =>
    if d =? d' then (d', xadd w' w) :: rest
    else if d <? d' then (d, w) :: m
    else (d', w') :: xm_add rest d w
  end.

Definition xm_plus (a b : xwmap) : xwmap := fold_left (fun acc kv => xm_add acc (fst kv) (snd kv)) b a.

(* multimap.Node[Value]; children in alphabetical order of their segments (Renderer with -a) *)
Inductive xnode := XNode (seg : str) (weights : xwmap) (children : list xnode).
Definition xn_seg (n : xnode) := match n with XNode s _ _ => s end.
Definition xn_weights (n : xnode) := match n with XNode _ w _ => w end.
Definition xn_children (n : xnode) := match n with XNode _ _ c => c end.
Definition xn_new (s : str) : xnode := XNode s [] [].

Fixpoint xchildren_upd (h : str) (f : xnode -> xnode) (l : list xnode) : list xnode :=
  match l with
  | [] => [f (xn_new h)]
  | c :: rest =>
    match str_cmp h (xn_seg c) with
    | Eq => f c :: rest
    | Lt => f (xn_new h) :: l
    | Gt => c :: xchildren_upd h f rest
    end
  end.

(* Report.Add *)
Fixpoint xn_add (ss : list str) (date : Z) (w : xw) (n : xnode) : xnode :=
  match ss with
  | [] => XNode (xn_seg n) (xm_add (xn_weights n) date w) (xn_children n)
  | h :: tl => XNode (xn_seg n) (xn_weights n) (xchildren_upd h (xn_add tl date w) (xn_children n))
  end.

Definition xreport_of (es : list xentry) : xnode :=
  fold_left (fun n e => let '(ss, d, w) := e in xn_add ss d w n) es (xn_new []).

Definition xreport_dates (es : list xentry) : list Z :=
  fold_left (fun l e => let '(_, d, _) := e in insert_date d l) es [].

(* PropagateWeights *)
Fixpoint xpropagate (n : xnode) : xnode :=
  match n with
  | XNode s w ch =>
    let ch' := map xpropagate ch in
    XNode s (fold_left (fun acc c => xm_plus acc (xn_weights c)) ch' w) ch'
  end.

(* renderNode: `if weight, ok := n.Value.Weights[date]; ok && weight != 0` *)
Definition xcell (w : xwmap) (d : Z) : option xw :=
  match xm_get w d with
  | Some x => if x_nonzero x then Some x else None
  | None => None
  end.

Definition xrow := (Z * str * list (option xw))%type.

Fixpoint xrender_node (dates : list Z) (indent : Z) (n : xnode) : list xrow :=
  match n with
  | XNode s w ch => (indent, s, map (xcell w) dates) :: flat_map (xrender_node dates (indent + 2)) ch
  end.

(* Renderer.Render with SortAlphabetically (-a); without -a the rows are the same, in the order
   of SortWeighted (Model/Weights.v sort_weighted; sibling order is no matter of this file) *)
Definition xrender_weights (es : list xentry) : list Z * list xrow :=
  let r := xpropagate (xreport_of es) in
  let dates := xreport_dates es in
  (dates, flat_map (xrender_node dates 0) (xn_children r)).

(* the float a weight is printed from: the nearest float64 of the exact value *)
Definition f64_of_xw (x : xw) : f64 :=
  match x with XFin q => f64_of_q q | XInf s => FInf s | XNaN => FNaN end.

Definition frow_of_xrow (r : xrow) : frow :=
  let '(ind, s, cells) := r in (ind, s, map (option_map f64_of_xw) cells).

(* Weights.v's view of an extended table: one value for "not a finite number" *)
Definition forget_xw (x : xw) : option Q := match x with XFin q => Some q | _ => None end.
Definition wrow_of_xrow (r : xrow) : wrow :=
  let '(ind, s, cells) := r in (ind, s, map (option_map forget_xw) cells).

(* ---------------------------------------------------------------- the command *)
(* weightsRunner.execute up to the r.Add calls, as CliPortfolio.weights_entries *)
Definition weights_xentries (cfg : pf_cfg) (ds : list sdirective) : cresult (list xentry) :=
  cbind (match pc_universe cfg with Some y => universe_load [] y | None => COk [] end) (fun u =>
  cbind (check_valuation cfg) (fun _ =>
  cbind (load ds) (fun b =>
  cbind (pf_partition cfg b) (fun part =>
  let b := builder_touch b (end_dates part) in
  cbind (valued_days cfg (b_days b)) (fun days =>
  cbind (day_values cfg days) (fun vs =>
  match xquery_entries u (pc_mapping cfg) (end_dates part) (fst vs) with
  | WOk es => COk es
  | WPanic => CPanic k_bounds
  end)))))).

Definition weights_xtable (cfg : pf_cfg) (ds : list sdirective) : cresult (list Z * list xrow) :=
  cbind (weights_xentries cfg ds) (fun es => COk (xrender_weights es)).

(* `knut portfolio weights -a --color=false --digits <round> ...` *)
Definition weights_text_cmd (cfg : pf_cfg) (round : Z) (ds : list sdirective) : cresult str :=
  cbind (weights_xtable cfg ds) (fun t =>
  COk (weights_text round (fst t) (map frow_of_xrow (snd t)))).
