(* Model of lib/syntax/parser/parser.go (function by function) and of the syntax tree of
   lib/syntax/directives/directives.go (every Range of the Go structs is kept, so the
   formatter model can be built on this tree).  Executable definitions only.

   Conventions of the transcription
   * A Go function body `s := p.Scope(desc); ...; if err != nil { return ..., s.Annotate(err) }`
     becomes [annot sc (do x <- step1; do y <- step2; ...)]: [annot] adds the scope's
     annotation, with the range [scope start, offset at the time of failure), to any error of
     the steps.  Where the Go code does NOT annotate (readWhitespace1, the last step of
     parsePrice) or annotates something else (parseAddons), the model does the same.
   * Go appends to a slice inside `for` loops; the model's loops return the list front to
     back.  On an error Go also returns the partly filled struct; callers of
     syntax.ParseFile ignore it and the model does not build it.
   * Loops run on fuel [e_fuel E] = S (length text); [OutOfFuel] is excluded by C07_fuel.
   * Scope is passed by value to parseTransaction/parseOpen/...; UpdateDesc changes the
     callee's copy only, so parseDirective annotates with "parsing directive" again.
   * The entry point [parse_text] is syntax.ParseFile without the file system:
     parser.New; Advance; ParseFile.                                                         *)
From Coq Require Import ZArith List Bool String Ascii.
From Knut Require Import Model.Bytes Model.Utf8 Model.Scanner.
Import ListNotations.
Open Scope bool_scope.
Open Scope Z_scope.

Module SynM.

(* ------------------------------------------------------------------ syntax tree *)

Record account := mkAccount { acc_range : range; acc_macro : bool }.
Record quoted := mkQuoted { qs_range : range; qs_content : range }.
Record booking := mkBooking {
  bk_range : range; bk_credit : account; bk_debit : account; bk_quantity : range; bk_commodity : range }.
Record performance := mkPerf { pf_range : range; pf_targets : list range }.
Record accrual := mkAccrual {
  ac_range : range; ac_interval : range; ac_start : range; ac_end : range; ac_account : account }.
Record addons := mkAddons { ad_range : range; ad_perf : performance; ad_accrual : accrual }.
Record transaction := mkTrx {
  tx_range : range; tx_date : range; tx_desc : quoted; tx_bookings : list booking; tx_addons : addons }.
Record opening := mkOpen { op_range : range; op_date : range; op_account : account }.
Record closing := mkClose { cl_range : range; cl_date : range; cl_account : account }.
Record balance := mkBalance {
  bl_range : range; bl_account : account; bl_quantity : range; bl_commodity : range }.
Record assertion := mkAssertion { as_range : range; as_date : range; as_balances : list balance }.
Record price := mkPrice {
  pr_range : range; pr_date : range; pr_commodity : range; pr_target : range; pr_price : range }.
Record include := mkInclude { in_range : range; in_path : quoted }.

Inductive dir_body :=
| BTrx (t : transaction)
| BOpen (o : opening)
| BClose (c : closing)
| BAssertion (a : assertion)
| BPrice (p : price)
| BInclude (i : include)
| BNone.                        (* Directive.Directive == nil *)

Record directive := mkDirective { d_range : range; d_body : dir_body }.
Record file := mkFile { f_range : range; f_directives : list directive }.

(* Go zero values *)
Definition zero_range : range := mkRange 0 0.
Definition zero_account : account := mkAccount zero_range false.
Definition zero_perf : performance := mkPerf zero_range [].
Definition zero_accrual : accrual := mkAccrual zero_range zero_range zero_range zero_range zero_account.
Definition zero_addons : addons := mkAddons zero_range zero_perf zero_accrual.

(* ------------------------------------------------------------------ keywords as runes *)

Definition runes_of_string (s : string) : list Z :=
  List.map (fun a => Z.of_N (N_of_ascii a)) (list_ascii_of_string s).

Definition kw_include := Eval vm_compute in runes_of_string "include".
Definition kw_open := Eval vm_compute in runes_of_string "open".
Definition kw_close := Eval vm_compute in runes_of_string "close".
Definition kw_balance := Eval vm_compute in runes_of_string "balance".
Definition kw_price := Eval vm_compute in runes_of_string "price".
Definition kw_performance := Eval vm_compute in runes_of_string "@performance".
Definition kw_accrue := Eval vm_compute in runes_of_string "@accrue".
Definition kw_daily := Eval vm_compute in runes_of_string "daily".
Definition kw_weekly := Eval vm_compute in runes_of_string "weekly".
Definition kw_monthly := Eval vm_compute in runes_of_string "monthly".
Definition kw_quarterly := Eval vm_compute in runes_of_string "quarterly".
Definition kw_star := Eval vm_compute in runes_of_string "*".
Definition kw_slashes := Eval vm_compute in runes_of_string "//".
Definition kw_hash := Eval vm_compute in runes_of_string "#".

(* ------------------------------------------------------------------ plumbing *)

Definition M (A : Type) := state -> res A.

Definition ret {A} (a : A) : M A := fun s => Ok a s.

Definition bind {A B} (m : M A) (f : A -> M B) : M B :=
  fun s => match m s with
           | Ok a s' => f a s'
           | Err e s' => Err e s'
           | OutOfFuel => OutOfFuel
           end.

Notation "'do' x <- m ; f" := (bind m (fun x => f))
  (at level 200, x name, m at level 100, f at level 200, right associativity).
Notation "'do' '_' <- m ; f" := (bind m (fun _ => f))
  (at level 200, m at level 100, f at level 200, right associativity).

(* if err != nil { return ..., sc.Annotate(err) } around all steps of [m] *)
Definition annot {A} (sc : scope) (m : M A) : M A :=
  fun s => match m s with
           | Ok a s' => Ok a s'
           | Err e s' => Err (annotate sc s' e) s'
           | OutOfFuel => OutOfFuel
           end.

Definition ifM {A} (c : state -> bool) (a b : M A) : M A := fun s => if c s then a s else b s.
Definition cur_is (r : Z) (s : state) : bool := cur s =? r.
(* return x built from s.Range() *)
Definition ret_with {A} (sc : scope) (f : range -> A) : M A := fun s => Ok (f (scope_range sc s)) s.
Definition out_of_fuel {A} : M A := fun _ => OutOfFuel.

Fixpoint repeat_m {A} (n : nat) (m : M A) : M unit :=
  match n with
  | O => ret tt
  | S k => do _ <- m; repeat_m k m
  end.

(* ------------------------------------------------------------------ character classes *)

Definition is_whitespace (ch : Z) : bool := (ch =? 32) || (ch =? 9) || (ch =? 13).
Definition is_newline (ch : Z) : bool := ch =? 10.
Definition is_whitespace_or_newline (ch : Z) : bool := is_newline ch || is_whitespace ch.
Definition is_newline_or_eof (ch : Z) : bool := (ch =? 10) || (ch =? eof).

Section WithEnv.
Variable E : env.

Definition is_alphanumeric (r : Z) : bool := e_letter E r || e_digit E r.

Definition loop_fuel : nat := e_fuel E.

(* ------------------------------------------------------------------ lines and blanks *)

Definition read_comment : M range := fun s =>
  let sc := new_scope DComment s in
  annot sc (
    do _ <- read_alternative E [kw_star; kw_slashes; kw_hash];
    do _ <- read_while E (fun r => negb (is_newline_or_eof r));
    ret_with sc (fun r => r)) s.

(* no annotation: the error of ReadWhile is returned as it is *)
Definition read_whitespace1 : M range := fun s =>
  if negb (is_whitespace_or_newline (cur s)) && negb (cur s =? eof)
  then Err [mkErr KChar (off s) (off s)] s
  else read_while E is_whitespace s.

Definition read_rest_of_whitespace_line : M range := fun s =>
  let sc := new_scope DRest s in
  annot sc (
    do _ <- read_while E is_whitespace;
    ifM (cur_is eof)
      (ret_with sc (fun r => r))
      (do _ <- read_character E 10;
       ret_with sc (fun r => r))) s.

(* ------------------------------------------------------------------ leaves *)

Definition parse_commodity : M range := fun s =>
  let sc := new_scope DComm s in
  annot sc (
    do _ <- read_while1 E is_alphanumeric;
    ret_with sc (fun r => r)) s.

Definition parse_decimal : M range := fun s =>
  let sc := new_scope DDec s in
  annot sc (
    do _ <- ifM (cur_is 45) (do _ <- read_character E 45; ret tt) (ret tt);
    do _ <- read_while1 E (e_digit E);
    ifM (fun s1 => negb (cur s1 =? 46))
      (ret_with sc (fun r => r))
      (do _ <- read_character E 46;
       do _ <- read_while1 E (e_digit E);
       ret_with sc (fun r => r))) s.

Fixpoint account_loop (sc : scope) (n : nat) : M account :=
  match n with
  | O => out_of_fuel
  | S n' =>
    ifM (fun s => negb (cur s =? 58))
      (ret_with sc (fun r => mkAccount r false))
      (do _ <- read_character E 58;
       do _ <- read_while1 E is_alphanumeric;
       account_loop sc n')
  end.

Definition parse_account : M account := fun s =>
  let sc := new_scope DAcc s in
  annot sc (
    ifM (cur_is 36)
      (do _ <- read_character E 36;
       do _ <- read_while1 E (e_letter E);
       ret_with sc (fun r => mkAccount r true))
      (do _ <- read_while1 E is_alphanumeric;
       account_loop sc loop_fuel)) s.

Definition parse_date : M range := fun s =>
  let sc := new_scope DDate s in
  annot sc (
    do _ <- repeat_m 4 (read_character_with E (e_digit E));
    do _ <- repeat_m 2 (do _ <- read_character E 45;
                        repeat_m 2 (read_character_with E (e_digit E)));
    ret_with sc (fun r => r)) s.

Definition parse_quoted_string : M quoted := fun s =>
  let sc := new_scope DQs s in
  annot sc (
    do _ <- read_character E 34;
    do c <- read_while E (fun r => negb (r =? 34));
    do _ <- read_character E 34;
    ret_with sc (fun r => mkQuoted r c)) s.

Definition parse_interval : M range := fun s =>
  let sc := new_scope DInterval s in
  annot sc (
    do _ <- read_alternative E [kw_daily; kw_weekly; kw_monthly; kw_quarterly];
    ret_with sc (fun r => r)) s.

(* ------------------------------------------------------------------ bookings, balances *)

Definition parse_booking : M booking := fun s =>
  let sc := new_scope DBook s in
  annot sc (
    do c <- parse_account;
    do _ <- read_while1 E is_whitespace;
    do d <- parse_account;
    do _ <- read_while1 E is_whitespace;
    do q <- parse_decimal;
    do _ <- read_while1 E is_whitespace;
    do m <- parse_commodity;
    ret_with sc (fun r => mkBooking r c d q m)) s.

Definition parse_balance : M balance := fun s =>
  let sc := new_scope DBalSub s in
  annot sc (
    do a <- parse_account;
    do _ <- read_whitespace1;
    do q <- parse_decimal;
    do _ <- read_whitespace1;
    do m <- parse_commodity;
    ret_with sc (fun r => mkBalance r a q m)) s.

(* ------------------------------------------------------------------ addons *)

Fixpoint performance_loop (n : nat) : M (list range) :=
  match n with
  | O => out_of_fuel
  | S n' =>
    ifM (cur_is 44)
      (do _ <- read_character E 44;
       do _ <- read_while E is_whitespace;
       do c <- parse_commodity;
       do _ <- read_while E is_whitespace;
       do cs <- performance_loop n';
       ret (c :: cs))
      (ret [])
  end.

Definition parse_performance : M performance := fun s =>
  let sc := new_scope DPerf s in
  annot sc (
    do _ <- read_character E 40;
    do _ <- read_while E is_whitespace;
    do first <- ifM (fun s1 => negb (cur s1 =? 41))
                  (do c <- parse_commodity;
                   do _ <- read_while E is_whitespace;
                   ret [c])
                  (ret []);
    do more <- performance_loop loop_fuel;
    do _ <- read_character E 41;
    ret_with sc (fun r => mkPerf r (first ++ more))) s.

(* the scope is described as "parsing addons" in the Go code, too *)
Definition parse_accrual : M accrual := fun s =>
  let sc := new_scope DAddons s in
  annot sc (
    do _ <- read_whitespace1;
    do iv <- parse_interval;
    do _ <- read_whitespace1;
    do st <- parse_date;
    do _ <- read_whitespace1;
    do en <- parse_date;
    do _ <- read_whitespace1;
    do a <- parse_account;
    ret_with sc (fun r => mkAccrual r iv st en a)) s.

(* on a failure of readRestOfWhitespaceLine the error is replaced by directives.Error{} *)
Definition replace_err {A} (m : M A) : M A :=
  fun s => match m s with
           | Ok a s' => Ok a s'
           | Err _ s' => Err [mkErr KEmpty 0 0] s'
           | OutOfFuel => OutOfFuel
           end.

Fixpoint addons_loop (sc : scope) (n : nat) (ad : addons) : M addons :=
  match n with
  | O => out_of_fuel
  | S n' =>
    do r <- read_alternative E [kw_performance; kw_accrue];
    do ad' <- (fun s =>
      let x := extract E r in
      if str_eqb x kw_performance then
        if negb (range_empty (pf_range (ad_perf ad)))
        then Err [mkErr KDup (r_start r) (r_end r)] s
        else (do p <- parse_performance;
              ret (mkAddons (ad_range ad) (mkPerf (extend (pf_range p) r) (pf_targets p)) (ad_accrual ad))) s
      else if str_eqb x kw_accrue then
        if negb (range_empty (ac_range (ad_accrual ad)))
        then Err [mkErr KDup (r_start r) (r_end r)] s
        else (do a <- parse_accrual;
              ret (mkAddons (ad_range ad) (ad_perf ad)
                     (mkAccrual (extend (ac_range a) r) (ac_interval a) (ac_start a) (ac_end a) (ac_account a)))) s
      else Ok ad s);
    do _ <- replace_err read_rest_of_whitespace_line;
    ifM (fun s => negb (cur s =? 64))
      (ret_with sc (fun rg => mkAddons rg (ad_perf ad') (ad_accrual ad')))
      (addons_loop sc n' ad')
  end.

Definition parse_addons : M addons := fun s =>
  let sc := new_scope DAddons s in
  annot sc (addons_loop sc loop_fuel zero_addons) s.

(* ------------------------------------------------------------------ directives *)

Definition parse_include : M include := fun s =>
  let sc := new_scope DIncl s in
  annot sc (
    do _ <- read_string E kw_include;
    do _ <- read_whitespace1;
    do q <- parse_quoted_string;
    ret_with sc (fun r => mkInclude r q)) s.

Definition parse_open (sc0 : scope) (date : range) : M opening :=
  let sc := update_desc sc0 DOpen in
  annot sc (
    do a <- parse_account;
    ret_with sc (fun r => mkOpen r date a)).

Definition parse_close (sc0 : scope) (date : range) : M closing :=
  let sc := update_desc sc0 DClose in
  annot sc (
    do a <- parse_account;
    ret_with sc (fun r => mkClose r date a)).

Fixpoint balances_loop (n : nat) : M (list balance) :=
  match n with
  | O => out_of_fuel
  | S n' =>
    do b <- parse_balance;
    do _ <- read_rest_of_whitespace_line;
    ifM (fun s => is_whitespace_or_newline (cur s) || (cur s =? eof))
      (ret [b])
      (do bs <- balances_loop n'; ret (b :: bs))
  end.

Definition parse_assertion (sc0 : scope) (date : range) : M assertion :=
  let sc := update_desc sc0 DBal in
  annot sc (
    ifM (fun s => is_newline (cur s))
      (do _ <- read_rest_of_whitespace_line;
       do bs <- balances_loop loop_fuel;
       ret_with sc (fun r => mkAssertion r date bs))
      (do b <- parse_balance;
       ret_with sc (fun r => mkAssertion r date [b]))).

(* UpdateDesc("parsing `balance` directive") as in the Go code; an error of the target
   commodity is returned without this scope's annotation *)
Definition parse_price (sc0 : scope) (date : range) : M price :=
  let sc := update_desc sc0 DBal in
  do cp <- annot sc (
    do c <- parse_commodity;
    do _ <- read_whitespace1;
    do p <- parse_decimal;
    do _ <- read_whitespace1;
    ret (c, p));
  do t <- parse_commodity;
  ret_with sc (fun r => mkPrice r date (fst cp) t (snd cp)).

Fixpoint bookings_loop (n : nat) : M (list booking) :=
  match n with
  | O => out_of_fuel
  | S n' =>
    do b <- parse_booking;
    do _ <- read_rest_of_whitespace_line;
    ifM (fun s => is_whitespace_or_newline (cur s) || (cur s =? eof))
      (ret [b])
      (do bs <- bookings_loop n'; ret (b :: bs))
  end.

Definition parse_transaction (sc0 : scope) (date : range) (ad : addons) : M transaction :=
  let sc := update_desc sc0 DTrx in
  annot sc (
    do d <- parse_quoted_string;
    do _ <- read_rest_of_whitespace_line;
    do bs <- bookings_loop loop_fuel;
    ret_with sc (fun r => mkTrx r date d bs ad)).

Definition parse_directive : M directive := fun s =>
  let sc := new_scope DDir s in
  annot sc (
    do ad <- ifM (cur_is 64) parse_addons (ret zero_addons);
    ifM (cur_is 105)
      (do i <- parse_include;
       ret_with sc (fun r => mkDirective r (BInclude i)))
      (do date <- parse_date;
       do _ <- read_whitespace1;
       ifM (cur_is 34)
         (do t <- parse_transaction sc date ad;
          ret_with sc (fun r => mkDirective r (BTrx t)))
         (do kw <- read_alternative E [kw_open; kw_close; kw_balance; kw_price];
          do _ <- read_whitespace1;
          let x := extract E kw in
          if str_eqb x kw_open then
            do o <- parse_open sc date; ret_with sc (fun r => mkDirective r (BOpen o))
          else if str_eqb x kw_close then
            do c <- parse_close sc date; ret_with sc (fun r => mkDirective r (BClose c))
          else if str_eqb x kw_balance then
            do a <- parse_assertion sc date; ret_with sc (fun r => mkDirective r (BAssertion a))
          else if str_eqb x kw_price then
            do p <- parse_price sc date; ret_with sc (fun r => mkDirective r (BPrice p))
          else ret_with sc (fun r => mkDirective r BNone)))) s.

(* ------------------------------------------------------------------ file *)

Definition opt_cons {A} (o : option A) (l : list A) : list A :=
  match o with Some a => a :: l | None => l end.

Fixpoint file_loop (n : nat) : M (list directive) :=
  match n with
  | O => out_of_fuel
  | S n' =>
    ifM (cur_is eof) (ret [])
      (do od <- ifM (fun s => (cur s =? 42) || (cur s =? 35) || (cur s =? 47))
                  (do _ <- read_comment; ret None)
                  (ifM (fun s => is_alphanumeric (cur s) || (cur s =? 64))
                     (do d <- parse_directive; ret (Some d))
                     (ret None));
       ifM (cur_is eof) (ret (opt_cons od []))
         (do _ <- read_rest_of_whitespace_line;
          do ds <- file_loop n';
          ret (opt_cons od ds)))
  end.

Definition parse_file : M file := fun s =>
  let sc := new_scope DFile s in
  annot sc (
    do ds <- file_loop loop_fuel;
    ret_with sc (fun r => mkFile r ds)) s.

End WithEnv.

(* ------------------------------------------------------------------ entry point *)

Inductive parse_result :=
| ParseOk (f : file)
| ParseErr (e : list err)
| ParseFuel.

(* syntax.ParseFile: p := parser.New(text, path); p.Advance(); p.ParseFile() *)
Definition parse_env (E : env) : parse_result :=
  match advance E (init_state E) with
  | Err e _ => ParseErr e
  | OutOfFuel => ParseFuel
  | Ok _ s =>
    match parse_file E s with
    | Ok f _ => ParseOk f
    | Err e _ => ParseErr e
    | OutOfFuel => ParseFuel
    end
  end.

(* the parser for given letter / digit classifications, with Go's UTF-8 decoder *)
Definition parse_text (letter digit : Z -> bool) (t : str) : parse_result :=
  parse_env (mk_env Utf8M.decode letter digit t).

End SynM.
Export SynM.
