(* Model of cmd/commands/portfolio/weights.go and returns.go (execute), with rationals where
   the Go code has float64 (Model/Perf.v, Model/Weights.v; float rounding is not modelled).

   Two defects of the pinned tree are selectable ([fixes]): the wiring of returns.go, and the
   missing CommodityFilter test in ComputeFlows (Model/Perf.v cf_posting).
   returns.go is given in two wirings:
     [returns_pinned] as in the pinned tree: `j.Build()` -- the receiver of `.Process(...)` --
       is evaluated before the argument `performance.Perf(j, partition)` registers the period
       end dates in the builder, so the processed days are those that carry a directive;
     [returns_fixed] the repaired wiring: the processors are created first (which registers
       the period ends, as weights.go does explicitly with j.Days(partition.EndDates())),
       then the journal is built. *)
From Coq Require Import ZArith QArith List Bool.
From Knut Require Import Model.Str Model.Dec Model.Date Model.Account Model.Ledger Model.Price
     Model.Journal Model.Check Model.Pipeline Model.Report Model.Cli Model.Perf Model.Weights.
Import ListNotations.
Open Scope bool_scope.
Open Scope Z_scope.

Record pf_cfg := mkPfCfg {
  pc_from : Z;                  (* --from, 0 (zero time) when absent *)
  pc_to : Z;                    (* --to (always passed by the harness; the default is today) *)
  pc_interval : interval;
  pc_last : Z;
  pc_valuation : option commodity;
  pc_accounts : list rx;
  pc_commodities : list rx;
  pc_mapping : list rule;       (* weights only *)
  pc_alpha : bool;              (* weights only: -a *)
  pc_universe : option (list (str * list commodity));   (* weights only: the YAML file, class -> commodities *)
  pc_lenient : bool }.

Definition k_universe : str := [117;110;105;118;101;114;115;101].   (* universe *)
Definition k_bounds : str := [98;111;117;110;100;115].              (* bounds *)

(* LoadUniverse / fromYAML *)
Fixpoint universe_class (u : universe) (class : str) (cs : list commodity) : cresult universe :=
  match cs with
  | [] => COk u
  | c :: rest =>
    if negb (valid_commodity c) then CErr k_universe c
    else if sm_has u c then CErr k_universe c
    else universe_class (universe_add u class c) class rest
  end.

Fixpoint universe_load (u : universe) (y : list (str * list commodity)) : cresult universe :=
  match y with
  | [] => COk u
  | (class, cs) :: rest => cbind (universe_class u class cs) (fun u' => universe_load u' rest)
  end.

Definition pf_calc (cfg : pf_cfg) : calc :=
  mkCalc (pc_valuation cfg)
         (fun a => match pc_accounts cfg with [] => true | rs => rxs_match rs (acc_name a) end)
         (fun c => match pc_commodities cfg with [] => true | rs => rxs_match rs c end)
         (fun _ => false).

(* Multiperiod.Partition(j.Period()) *)
Definition pf_partition (cfg : pf_cfg) (b : builder) : cresult partition :=
  match new_partition (clip (mkPeriod (pc_from cfg) (pc_to cfg)) (builder_period b)) (pc_interval cfg) (pc_last cfg) with
  | POk p => COk p
  | PPanic => CPanic k_zerotime
  | POutOfFuel => CPanic k_fuel
  end.

(* the stages both commands share: ComputePrices, Check, Valuate on the given days; the
   result is the list of valued days (what `balance -v` books into its report) *)
Definition valued_days (cfg : pf_cfg) (days : list day) : cresult (list day) :=
  match pc_valuation cfg with
  | Some v =>
    cbind (run_stage (compute_prices_proc v) (mkCp [] None) days) (fun r1 =>
    cbind (run_stage (check_proc (pc_lenient cfg)) check_init (snd r1)) (fun r2 =>
    cbind (run_stage (valuate_proc v) (mkVal None None []) (snd r2)) (fun r3 => COk (snd r3))))
  | None =>
    cbind (run_stage (check_proc (pc_lenient cfg)) check_init days) (fun r2 => COk (snd r2))
  end.

(* ComputeValues over the valued days: (date, (V0, V1)) per day *)
Definition day_values (cfg : pf_cfg) (days : list day) : cresult (list (Z * (pcv * pcv)) * list day) :=
  cbind (run_stage (compute_values_proc (pf_calc cfg)) cv_init days) (fun r => COk (cv_out (fst r), snd r)).

Record fixes := mkFixes { fx_wiring : bool; fx_flowfilter : bool }.
Definition pinned : fixes := mkFixes false false.
Definition repaired : fixes := mkFixes true true.

Definition day_flows (fx : fixes) (cfg : pf_cfg) (days : list day) : cresult (list (Z * flows_day)) :=
  cbind (run_stage (compute_flows_proc (fx_flowfilter fx) (pf_calc cfg)) cf_init days) (fun r => COk (cf_out (fst r))).

Definition check_valuation (cfg : pf_cfg) : cresult unit :=
  match pc_valuation cfg with
  | Some v => if valid_commodity v then COk tt else CErr k_valuation v
  | None => COk tt
  end.

(* ---------------------------------------------------------------- portfolio weights *)

(* weightsRunner.execute up to the r.Add calls *)
Definition weights_entries (cfg : pf_cfg) (ds : list sdirective) : cresult (list entry) :=
  cbind (match pc_universe cfg with Some y => universe_load [] y | None => COk [] end) (fun u =>
  cbind (check_valuation cfg) (fun _ =>
  cbind (load ds) (fun b =>
  cbind (pf_partition cfg b) (fun part =>
  let b := builder_touch b (end_dates part) in        (* j.Days(partition.EndDates()) *)
  cbind (valued_days cfg (b_days b)) (fun days =>
  cbind (day_values cfg days) (fun vs =>
  match query_entries u (pc_mapping cfg) (end_dates part) (fst vs) with
  | WOk es => COk es
  | WPanic => CPanic k_bounds
  end)))))).

Definition weights_table (cfg : pf_cfg) (ds : list sdirective) : cresult (list Z * list wrow) :=
  cbind (weights_entries cfg ds) (fun es => COk (render_weights (pc_alpha cfg) es)).

Definition weights_csv_cmd (cfg : pf_cfg) (ds : list sdirective) : cresult str :=
  cbind (weights_table cfg ds) (fun t => COk (weights_csv t)).

(* ---------------------------------------------------------------- portfolio returns *)

(* returnsRunner.execute; [fx] selects the wiring (see the head of this file) *)
Definition returns_gen (fx : fixes) (cfg : pf_cfg) (ds : list sdirective) : cresult (list (Z * option Q)) :=
  cbind (check_valuation cfg) (fun _ =>
  cbind (load ds) (fun b =>
  cbind (pf_partition cfg b) (fun part =>
  let days0 := if fx_wiring fx then b_days (builder_touch b (end_dates part)) else b_days b in
  cbind (valued_days cfg days0) (fun days =>
  cbind (day_values cfg days) (fun vs =>
  cbind (day_flows fx cfg (snd vs)) (fun fs =>
  COk (perf_loop part (end_dates part) (Some 1%Q) (join_perf (fst vs) fs)))))))).

Definition returns_pinned := returns_gen pinned.
Definition returns_fixed := returns_gen repaired.

(* fmt.Printf("%v: %0.1f%%\n", d.Date, 100*(running-1)); the model writes the percentage
   with 4 decimals, and NaN where Go's value is not a finite number *)
Definition s_time_suffix : str :=
  [32;48;48;58;48;48;58;48;48;32;43;48;48;48;48;32;85;84;67].   (* " 00:00:00 +0000 UTC" *)

Definition returns_line (x : Z * option Q) : str :=
  format_date (fst x) ++ s_time_suffix ++ [58;32] ++
  (match snd x with Some q => q_fixed (qmul (100 # 1) q) 4 | None => s_NaN end) ++ [37;10].

Definition returns_text (l : list (Z * option Q)) : str := concat (map returns_line l).

Definition returns_cmd (fx : fixes) (cfg : pf_cfg) (ds : list sdirective) : cresult str :=
  cbind (returns_gen fx cfg ds) (fun l => COk (returns_text l)).
