(* Model of the command wiring: cmd/commands/balance.go (execute), check.go, and
   flags.Multiperiod.Partition.  Input: the syntax-level directives of all loaded files. *)
From Coq Require Import ZArith List Bool.
From Knut Require Import Model.Str Model.Dec Model.Date Model.Account Model.Ledger Model.Price
     Model.Journal Model.Check Model.Pipeline Model.Table Model.Report Model.JPrinter.
Import ListNotations.
Open Scope bool_scope.
Open Scope Z_scope.

Record balance_cfg := mkBalanceCfg {
  bc_from : Z;                 (* --from, 0 (zero time) when absent *)
  bc_to : Z;                   (* --to (the harness always passes it; default is today) *)
  bc_interval : interval;
  bc_last : Z;
  bc_diff : bool;
  bc_close : bool;
  bc_valuation : option commodity;
  bc_alpha : bool;
  bc_mapping : list rule;
  bc_remap : list rx;
  bc_accounts : list rx;
  bc_commodities : list rx;
  bc_details : list rx;
  bc_lenient : bool }.         (* which Checker.balance is in force, see Model/Check.v *)

Inductive cresult (A : Type) := COk (a : A) | CErr (kind detail : str) | CPanic (msg : str).
Arguments COk {A} a.
Arguments CErr {A} kind detail.
Arguments CPanic {A} msg.

Definition of_presult {A} (x : presult A) : cresult A :=
  match x with ROk a => COk a | RErr k d => CErr k d | RPanic m => CPanic m end.
Definition cbind {A B} (x : cresult A) (f : A -> cresult B) : cresult B :=
  match x with COk a => f a | CErr k d => CErr k d | CPanic m => CPanic m end.
Definition of_mresult {A} (x : mresult A) : cresult A :=
  match x with MOk a => COk a | MErr m => CErr m [] | MPanic m => CPanic m end.

Definition k_valuation : str := [118;97;108;117;97;116;105;111;110].  (* valuation *)
Definition k_zerotime : str := [122;101;114;111;116;105;109;101].

(* commodity.Registry.Get on the --val argument: non-empty (letters/digits assumed) *)
Definition valid_commodity (c : commodity) : bool := match c with [] => false | _ => true end.

(* journal.FromPath: every file is turned into model directives (errors fail the command),
   all of them are added to one builder *)
Definition load (ds : list sdirective) : cresult builder :=
  cbind (of_mresult (parse_directives ds)) (fun l => COk (builder_of l)).

(* Multiperiod.Partition(j.Period()) *)
Definition cfg_partition (cfg : balance_cfg) (b : builder) : cresult partition :=
  match new_partition (clip (mkPeriod (bc_from cfg) (bc_to cfg)) (builder_period b)) (bc_interval cfg) (bc_last cfg) with
  | POk p => COk p
  | PPanic => CPanic k_zerotime
  | POutOfFuel => CPanic k_fuel
  end.

Definition run_stage {S} (p : processor S) (s : S) (days : list day) : cresult (S * list day) :=
  of_presult (process_days p s days).

(* the checker as the code has it now: [true] = the repaired Checker.balance (/repo fix for F1 and
   F18: a position that was never booked counts as zero; assertions on accounts other than
   assets/liabilities are not compared), [false] = the pinned one *)
Definition check_proc_current (repaired : bool) : processor check_state :=
  if repaired then check_proc_fixed else check_proc false.

Definition balance_query (cfg : balance_cfg) (part : partition) : query :=
  mkQuery (match bc_valuation cfg with Some _ => true | None => false end)
          (fun a c => (match bc_accounts cfg with [] => true | rs => rxs_match rs (acc_name a) end)
                      && (match bc_commodities cfg with [] => true | rs => rxs_match rs c end))
          (fun a => shorten (bc_mapping cfg) (remap (bc_remap cfg) a))
          (Date.align part).

(* balanceRunner.execute up to the report; the processors run in the order
   check, prices, valuate, filter, close, query *)
Definition balance_report (cfg : balance_cfg) (ds : list sdirective) : cresult (report * partition) :=
  cbind (match bc_valuation cfg with
         | Some v => if valid_commodity v then COk tt else CErr k_valuation v
         | None => COk tt end) (fun _ =>
  cbind (load ds) (fun b =>
  cbind (cfg_partition cfg b) (fun part =>
  let b := if bc_close cfg then builder_touch b (start_dates part) else b in
  let days := b_days b in
  cbind (run_stage (check_proc_current (bc_lenient cfg)) check_init days) (fun r1 =>
  cbind (match bc_valuation cfg with
         | Some v =>
           cbind (run_stage (compute_prices_proc v) (mkCp [] None) (snd r1)) (fun r2 =>
           cbind (run_stage (valuate_proc v) (mkVal None None []) (snd r2)) (fun r3 => COk (snd r3)))
         | None => COk (snd r1)
         end) (fun days =>
  cbind (run_stage (filter_proc (span part)) tt days) (fun r4 =>
  cbind (if bc_close cfg
         then cbind (run_stage (close_proc (start_dates part)) (mkClose [] []) (snd r4)) (fun r5 => COk (snd r5))
         else COk (snd r4)) (fun days =>
  cbind (run_stage (query_proc (balance_query cfg part) report_insert) new_report days) (fun r6 =>
  COk (fst r6, part))))))))).

Definition balance_table (cfg : balance_cfg) (ds : list sdirective) : cresult table :=
  cbind (balance_report cfg ds) (fun rp =>
  COk (render_report (mkRenderCfg (bc_valuation cfg) (bc_details cfg) (bc_alpha cfg) (bc_diff cfg))
                     (fst rp) (end_dates (snd rp)))).

Definition balance_csv (cfg : balance_cfg) (ds : list sdirective) : cresult str :=
  cbind (balance_table cfg ds) (fun t => COk (render_csv t)).

Definition balance_text (cfg : balance_cfg) (tc : text_cfg) (ds : list sdirective) : cresult str :=
  cbind (balance_table cfg ds) (fun t => COk (render_text tc t)).

(* knut check FILE *)
Definition check_cmd (lenient : bool) (ds : list sdirective) : cresult unit :=
  cbind (load ds) (fun b =>
  cbind (run_stage (check_proc lenient) check_init (b_days b)) (fun _ => COk tt)).

(* knut check FILE with the checker the code has now *)
Definition check_cmd_current (repaired : bool) (ds : list sdirective) : cresult unit :=
  cbind (load ds) (fun b =>
  cbind (run_stage (check_proc_current repaired) check_init (b_days b)) (fun _ => COk tt)).

(* knut print FILE: check, then journal.Print of a freshly built journal (j.Build() is called
   twice in print.go; the checker does not modify days) *)
Definition print_cmd_pinned (lenient : bool) (ds : list sdirective) : cresult str :=
  cbind (load ds) (fun b =>
  cbind (run_stage (check_proc_current lenient) check_init (b_days b)) (fun _ =>
  COk (print_journal_pinned (b_days b)))).

(* knut check FILE with the fully repaired checker (Model/Check.v, check_proc_fixed) *)
Definition check_cmd_fixed (ds : list sdirective) : cresult unit :=
  cbind (load ds) (fun b =>
  cbind (run_stage check_proc_fixed check_init (b_days b)) (fun _ => COk tt)).

(* knut print with the repaired journal.Print (JPrinter.print_day_fixed, finding
   C09-multi-assertion); print_cmd_pinned above stays what the pinned code does *)
Definition print_cmd (lenient : bool) (ds : list sdirective) : cresult str :=
  cbind (load ds) (fun b =>
  cbind (run_stage (check_proc_current lenient) check_init (b_days b)) (fun _ =>
  COk (print_journal (b_days b)))).
