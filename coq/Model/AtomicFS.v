(* Model for C18: a directory as a map path -> bytes plus open handles, the operations a process
   can apply to it (DESIGN.md Appendix C.2), the executable predicate [safe_trace] that is run on
   the syscall traces of the real binary, and the write-to-temp-then-rename protocol of
   github.com/natefinch/atomic v1.0.1 WriteFile as a generator of all its traces under a failure
   at any operation and any splitting of the write into short writes.
   Executable definitions only; proofs in Proofs/AtomicFSProofs.v.

   natefinch/atomic.WriteFile(filename, r):
     f := ioutil.TempFile(dir, file)          openat(dir/file<random>, O_RDWR|O_CREAT|O_EXCL, 0600)
     defer { if err != nil { os.Remove(f.Name()) } };  defer f.Close()
     io.Copy(f, r)                            write(fd, ..) (os.File.Write retries short writes)
     f.Sync()                                 fsync(fd)
     f.Close()                                close(fd)
     os.Stat(filename); os.Stat(name); os.Chmod(name, mode)  when the modes differ
     os.Rename(name, filename)                renameat(name, filename)
   On an error the function returns at once; the deferred f.Close() runs, then os.Remove(name).
   cmd/commands/format.go formats every argument independently (conc/iter.Map, one goroutine per
   file, errors combined): ParseFile -> FormatFile into a buffer -> atomic.WriteFile; a parse
   error returns before anything is written.                                                 *)
From Coq Require Import List Bool Arith PeanoNat NArith.
Import ListNotations.
Open Scope bool_scope.

Definition bytes := list N.
Definition path := nat.

Fixpoint bytes_eqb (a b : bytes) : bool :=
  match a, b with
  | [], [] => true
  | x :: a', y :: b' => N.eqb x y && bytes_eqb a' b'
  | _, _ => false
  end.

Inductive op :=
  | Create (p : path)              (* openat O_CREAT|O_EXCL: a new empty file and a handle on it *)
  | Write (p : path) (d : bytes)   (* write through the handle on temp file p: d is what was written *)
  | Fsync (p : path)
  | Close (p : path)
  | Chmod (p : path)
  | Rename (p q : path)
  | Unlink (p : path)
  | OpenTrunc (p : path)           (* open an existing file with O_TRUNC: it is empty afterwards *)
  | WriteTgt (d : bytes)           (* write through a handle on the target itself *)
  | Other.                         (* anything without effect on the directory (failed calls, reads) *)

Record fs := mkFs {
  content : path -> option bytes;
  is_open : path -> bool
}.

Definition set_content (f : fs) (p : path) (c : option bytes) : fs :=
  mkFs (fun q => if q =? p then c else content f q) (is_open f).
Definition set_open (f : fs) (p : path) (b : bool) : fs :=
  mkFs (content f) (fun q => if q =? p then b else is_open f q).

Section Target.
  Variable tgt : path.

  (* effect of one operation; operations that the kernel would refuse have no effect *)
  Definition fs_step (f : fs) (o : op) : fs :=
    match o with
    | Create p =>
        match content f p with
        | None => set_open (set_content f p (Some [])) p true
        | Some _ => f                                      (* EEXIST *)
        end
    | Write p d =>
        match content f p, is_open f p with
        | Some c, true => set_content f p (Some (c ++ d))
        | _, _ => f                                        (* EBADF *)
        end
    | Fsync _ | Chmod _ | Other => f
    | Close p => set_open f p false
    | Rename p q =>
        match content f p with
        | Some c =>
            if p =? q then f
            else set_open (set_open (set_content (set_content f q (Some c)) p None) q (is_open f p)) p false
        | None => f                                        (* ENOENT *)
        end
    | Unlink p => set_open (set_content f p None) p false
    | OpenTrunc p =>
        match content f p with
        | Some _ => set_content f p (Some [])
        | None => f
        end
    | WriteTgt d =>
        match content f tgt with
        | Some c => set_content f tgt (Some (c ++ d))
        | None => f
        end
    end.

  Definition fs_run (tr : list op) (f : fs) : fs := fold_left fs_step tr f.

  Variable new : bytes.

  (* may operation o be applied in state f without endangering the target? *)
  Definition op_safe (f : fs) (o : op) : bool :=
    match o with
    | Create p => negb (p =? tgt)
    | Write p _ => negb (p =? tgt)
    | Fsync _ | Close _ | Chmod _ | Other => true
    | Rename p q =>
        if q =? tgt
        then negb (p =? tgt) &&
             match content f p with Some c => bytes_eqb c new | None => false end &&
             negb (is_open f p)                 (* complete new contents, closed after the last write *)
        else negb (p =? tgt)                    (* the target is never renamed away *)
    | Unlink p => negb (p =? tgt)
    | OpenTrunc p => negb (p =? tgt)
    | WriteTgt _ => false
    end.

  Fixpoint safe_from (f : fs) (tr : list op) : bool :=
    match tr with
    | [] => true
    | o :: rest => op_safe f o && safe_from (fs_step f o) rest
    end.
End Target.

(* the directory as far as the rewrite of tgt is concerned: tgt holds old, nothing is open *)
Definition fs_init (tgt : path) (old : bytes) : fs :=
  mkFs (fun q => if q =? tgt then Some old else None) (fun _ => false).

Definition safe_trace (tgt : path) (old new : bytes) (tr : list op) : bool :=
  safe_from tgt new (fs_init tgt old) tr.

(* what the target holds after the trace: 0 = old, 1 = new, 2 = anything else (for the harness) *)
Definition target_class (tgt : path) (old new : bytes) (tr : list op) : nat :=
  match content (fs_run tgt tr (fs_init tgt old)) tgt with
  | Some c => if bytes_eqb c new then 1 else if bytes_eqb c old then 0 else 2
  | None => 2
  end.

Definition renamed_to (tgt : path) (tr : list op) : bool :=
  existsb (fun o => match o with Rename _ q => q =? tgt | _ => false end) tr.

(* ------------------------------------------------------------------------------------------
   the protocol *)
Inductive fault :=
  | NoFault
  | FailCreate             (* TempFile fails (read-only directory, ...) *)
  | FailWrite (k : nat)    (* the write fails after k bytes in total (ENOSPC, EFBIG, EIO) *)
  | FailFsync | FailClose | FailStat | FailChmod | FailRename.

(* the successful part of io.Copy: data written by a sequence of (short) writes of the given sizes,
   the rest in one final write *)
Fixpoint writes (tmp : path) (data : bytes) (splits : list nat) : list op :=
  match splits with
  | [] => match data with [] => [] | _ => [Write tmp data] end
  | s :: r => Write tmp (firstn s data) :: writes tmp (skipn s data) r
  end.

Definition cleanup (tmp : path) : list op := [Close tmp; Unlink tmp].
(* after a successful close the deferred f.Close() fails with "file already closed": Other *)
Definition cleanup_closed (tmp : path) : list op := [Other; Unlink tmp].

Definition atomic_write (tmp tgt : path) (new : bytes) (chmod : bool) (splits : list nat)
                        (f : fault) : list op :=
  let chm := if chmod then [Chmod tmp] else [] in
  match f with
  | FailCreate => [Other]
  | FailWrite k => Create tmp :: writes tmp (firstn k new) splits ++ [Other] ++ cleanup tmp
  | FailFsync => Create tmp :: writes tmp new splits ++ [Other] ++ cleanup tmp
  | FailClose => Create tmp :: writes tmp new splits ++ [Fsync tmp; Close tmp] ++ cleanup_closed tmp
  | FailStat => Create tmp :: writes tmp new splits ++ [Fsync tmp; Close tmp; Other] ++ cleanup_closed tmp
  | FailChmod => Create tmp :: writes tmp new splits ++ [Fsync tmp; Close tmp; Other] ++ cleanup_closed tmp
  | FailRename => Create tmp :: writes tmp new splits ++ [Fsync tmp; Close tmp] ++ chm ++ [Other] ++
                  cleanup_closed tmp
  | NoFault => Create tmp :: writes tmp new splits ++ [Fsync tmp; Close tmp] ++ chm ++ [Rename tmp tgt; Other]
  end.

(* knut format on one file: [formatted] is None when the file does not parse *)
Definition format_file (tmp tgt : path) (formatted : option bytes) (chmod : bool) (splits : list nat)
                       (f : fault) : list op :=
  match formatted with
  | None => []
  | Some new => atomic_write tmp tgt new chmod splits f
  end.

(* paths an operation mentions *)
Definition mentions (o : op) (tgt : path) (q : path) : bool :=
  match o with
  | Create p | Write p _ | Fsync p | Close p | Chmod p | Unlink p | OpenTrunc p => q =? p
  | Rename p r => (q =? p) || (q =? r)
  | WriteTgt _ => q =? tgt
  | Other => false
  end.
