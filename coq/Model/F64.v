(* IEEE 754 binary64 values as far as lib/common/table's percent cell needs them: the value of
   a float64 (sign, integer mantissa, binary exponent; NaN; the infinities), the product
   n * 100 in float64 (round to nearest, ties to even, gradual underflow, overflow to an
   infinity), the comparisons with zero of renderCell's switch, and the text fmt's verb
   %.<p>f prints (strconv.FormatFloat(x, 'f', p, 64): the exact decimal expansion rounded to p
   places, ties to even -- strconv/ftoa.go bigFtoa, decimal.Round/shouldRoundUp; fmt/format.go
   fmtFloat for the sign and for "NaN", "+Inf", "-Inf").
   Executable definitions only.  The tie to the Go code is C17.wtable (byte-exact on floats
   given by their bit patterns, harness/c17w.go). *)
From Coq Require Import ZArith QArith List Bool.
From Knut Require Import Model.Str Model.Dec.
Import ListNotations.
Open Scope bool_scope.
Open Scope Z_scope.

(* FFin neg m e denotes (-1)^neg * m * 2^e with 0 <= m; m = 0 is the zero of that sign.
   A float64 has m < 2^53 and e >= -1074; the functions below do not rely on a canonical
   choice of (m, e) for a value. *)
Inductive f64 :=
| FNaN
| FInf (neg : bool)
| FFin (neg : bool) (m : Z) (e : Z).

(* a / b rounded to the nearest integer, ties to the even one (0 <= a, 0 < b) *)
Definition rhe_div (a b : Z) : Z :=
  let q := a / b in
  let r := a mod b in
  if (b <? 2 * r) || ((2 * r =? b) && Z.odd q) then q + 1 else q.

Definition bitlen (n : Z) : Z := if n <=? 0 then 0 else Z.log2 n + 1.

(* the float64 nearest to (-1)^neg * M * 2^E (0 <= M): 53 significant bits, exponent of the
   last place not below -1074 (subnormals), an infinity when the rounded value reaches 2^1024 *)
Definition f64_round (neg : bool) (M E : Z) : f64 :=
  if M <=? 0 then FFin neg 0 0
  else
    let e' := Z.max (E + bitlen M - 53) (- 1074) in
    let q := if e' <=? E then M * 2 ^ (E - e') else rhe_div M (2 ^ (e' - E)) in
    if 1024 <? bitlen q + e' then FInf neg else FFin neg q e'.

(* n * 100 *)
Definition f64_mul100 (n : f64) : f64 :=
  match n with
  | FNaN => FNaN
  | FInf s => FInf s
  | FFin s m e => f64_round s (m * 100) e
  end.

(* the float64 nearest to a rational (what a correctly rounded division of two exactly
   represented numbers gives); used only to turn the rational weights of Model/Weights.v into
   floats for the comparison with the binary, never in a theorem *)
Definition f64_of_q (q : Q) : f64 :=
  let neg := Qnum q <? 0 in
  let N := Z.abs (Qnum q) in
  let D := Zpos (Qden q) in
  if N =? 0 then FFin false 0 0
  else
    let k0 := Z.log2 N - Z.log2 D in
    (* 2^k <= N/D < 2^(k+1) *)
    let k := if (if 0 <=? k0 then D * 2 ^ k0 <=? N else D <=? N * 2 ^ (- k0)) then k0 else k0 - 1 in
    let e' := Z.max (k - 52) (- 1074) in
    let m := if 0 <=? e' then rhe_div N (D * 2 ^ e') else rhe_div (N * 2 ^ (- e')) D in
    if 1024 <? bitlen m + e' then FInf neg else FFin neg m e'.

(* t.n < 0, t.n > 0, t.n == 0 of renderCell; all three are false of a NaN *)
Definition f64_ltz (n : f64) : bool :=
  match n with FNaN => false | FInf s => s | FFin s m _ => s && (0 <? m) end.
Definition f64_gtz (n : f64) : bool :=
  match n with FNaN => false | FInf s => negb s | FFin s m _ => negb s && (0 <? m) end.
Definition f64_eqz (n : f64) : bool :=
  match n with FFin _ m _ => m <=? 0 | _ => false end.
Definition f64_is_nan (n : f64) : bool := match n with FNaN => true | _ => false end.

Definition fs_nan : str := [78;97;78].
Definition fs_pinf : str := [43;73;110;102].
Definition fs_minf : str := [45;73;110;102].

(* |x| * 10^p rounded to an integer, ties to even (0 <= p) *)
Definition f64_scaled (p m e : Z) : Z :=
  if 0 <=? e then m * 2 ^ e * 10 ^ p else rhe_div (m * 10 ^ p) (2 ^ (- e)).

(* fmt.Sprintf("%.*f", p, x) for 0 <= p: sign (also of a negative zero and of a negative value
   that rounds to zero), integer digits, and for p > 0 the point and exactly p digits *)
Definition fmt_f (p : Z) (x : f64) : str :=
  match x with
  | FNaN => fs_nan
  | FInf false => fs_pinf
  | FInf true => fs_minf
  | FFin neg m e => (if neg then [45] else []) ++ to_string_gen false (mkDec (f64_scaled p m e) (- p))
  end.

(* the exact value, where there is one *)
Definition f64_q (x : f64) : option Q :=
  match x with
  | FFin neg m e =>
    let v := if 0 <=? e then inject_Z (m * 2 ^ e) else Qmake m (Z.to_pos (2 ^ (- e))) in
    Some (if neg then Qopp v else v)
  | _ => None
  end.
