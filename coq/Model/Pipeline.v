(* Model of lib/journal/process.go: ComputePrices, Valuate, Filter, CloseAccounts, Sort and
   Query.Into.  Each is a [processor] with private state, run stage by stage over the days
   (the sequential meaning of cpr.Seq, see Properties/C19.v). *)
From Coq Require Import ZArith List Bool.
From Knut Require Import Model.Str Model.Dec Model.Date Model.Account Model.Ledger Model.Price Model.Journal Model.Check.
Import ListNotations.
Open Scope bool_scope.
Open Scope Z_scope.

Definition k_price_zero : str := [112;114;105;99;101;48].     (* price0 *)
Definition k_no_price : str := [110;111;112;114;105;99;101].  (* noprice *)
Definition k_fuel : str := [102;117;101;108].                 (* fuel *)

(* ---------------------------------------------------------------- ComputePrices *)
Record cp_state := mkCp { cp_prices : prices; cp_previous : option nprices }.

Definition cp_price_cb (s : cp_state) (x : commodity * dec * commodity) : presult cp_state :=
  let '(c, p, t) := x in
  match prices_insert (cp_prices s) c p t with
  | InsOk ps => ROk (mkCp ps (cp_previous s))
  | InsErrZero => RErr k_price_zero c
  | InsPanic => RPanic k_price_zero
  end.

Definition set_normalized (d : day) (n : option nprices) : day :=
  mkDay (d_date d) (d_prices d) (d_opens d) (d_txns d) (d_asserts d) (d_closes d) n.

Definition cp_day_end (v : commodity) (s : cp_state) (d : day) : presult (cp_state * day) :=
  match d_prices d with
  | [] => ROk (s, set_normalized d (cp_previous s))
  | _ =>
    match normalize (cp_prices s) v with
    | None => RPanic k_fuel
    | Some n => ROk (mkCp (cp_prices s) (Some n), set_normalized d (Some n))
    end
  end.

Definition compute_prices_proc (v : commodity) : processor cp_state :=
  mkProc None (Some cp_price_cb) None None None None None (Some (cp_day_end v)).

(* ---------------------------------------------------------------- Valuate *)
Record val_state := mkVal { v_prev : option nprices; v_cur : option nprices; v_qty : positions }.

Definition np_price_opt (n : option nprices) (c : commodity) : option dec :=
  match n with Some m => np_price m c | None => None end.

Definition s_adjust (c : commodity) (a : account) : str :=
  [65;100;106;117;115;116;32;118;97;108;117;101;32;111;102;32] ++ c ++
  [32;105;110;32;97;99;99;111;117;110;116;32] ++ acc_name a.   (* "Adjust value of C in account A" *)

(* the loop of Valuate's DayStart over the position map (here in key order; the sums the
   report takes do not depend on the order, see Properties/C06.v) *)
Fixpoint val_adjustments (v : commodity) (date : Z) (prev cur : option nprices)
         (pos : positions) : presult (list txn) :=
  match pos with
  | [] => ROk []
  | (_, (a, c, q)) :: rest =>
    if str_eqb c v || negb (is_AL a) || is_zero q then val_adjustments v date prev cur rest
    else
      match np_price_opt prev c with
      | None => RErr k_no_price c
      | Some pp =>
        match np_price_opt cur c with
        | None => RErr k_no_price c
        | Some cp =>
          let delta := sub cp pp in
          if is_zero delta then val_adjustments v date prev cur rest
          else
            let gain := multiply delta q in
            let t := mkTxn date (s_adjust c a)
                           (pair_build (valuation_account_for a) a c dec_nil gain) (Some [c]) in
            rbind (val_adjustments v date prev cur rest) (fun ts => ROk (t :: ts))
        end
      end
  end.

Definition set_txns (d : day) (ts : list txn) : day :=
  mkDay (d_date d) (d_prices d) (d_opens d) ts (d_asserts d) (d_closes d) (d_normalized d).

Definition val_day_start (v : commodity) (s : val_state) (d : day) : presult (val_state * day) :=
  let cur := d_normalized d in
  rbind (val_adjustments v (d_date d) (v_prev s) cur (v_qty s)) (fun ts =>
  ROk (mkVal (v_prev s) cur (v_qty s), set_txns d (d_txns d ++ ts))).

Definition val_posting (v : commodity) (s : val_state) (t : txn) (p : posting) : presult (val_state * posting) :=
  if is_zero (p_qty p) then ROk (s, p)
  else
    let s' := if is_AL (p_acc p) then mkVal (v_prev s) (v_cur s) (pos_add (v_qty s) (p_acc p) (p_com p) (p_qty p)) else s in
    if str_eqb v (p_com p) then ROk (s', mkPosting (p_acc p) (p_other p) (p_com p) (p_qty p) (p_qty p))
    else
      match v_cur s with
      | None => RErr k_no_price (p_com p)
      | Some n =>
        match np_valuate n (p_com p) (p_qty p) with
        | None => RErr k_no_price (p_com p)
        | Some x => ROk (s', mkPosting (p_acc p) (p_other p) (p_com p) (p_qty p) x)
        end
      end.

Definition val_day_end (s : val_state) (d : day) : presult (val_state * day) :=
  ROk (mkVal (d_normalized d) (v_cur s) (v_qty s), d).

Definition valuate_proc (v : commodity) : processor val_state :=
  mkProc (Some (val_day_start v)) None None None (Some (val_posting v)) None None (Some val_day_end).

(* ---------------------------------------------------------------- Filter *)
Definition filter_proc (span : period) : processor unit :=
  mkProc None None None None None None None
         (Some (fun s d => ROk (s, if period_contains span (d_date d) then d else set_txns d []))).

(* ---------------------------------------------------------------- CloseAccounts *)
Definition equity_account : account := [s_Equity; s_Equity].

(* quantities and values per (account, commodity) *)
Record close_state := mkClose { c_qty : positions; c_val : positions }.

Definition s_closing (a : account) (c : commodity) : str :=
  [67;108;111;115;105;110;103;32;97;99;99;111;117;110;116;32] ++ acc_name a ++ [32;105;110;32] ++ c.

Fixpoint closing_txns (date : Z) (qs vs : positions) : list txn :=
  match qs with
  | [] => []
  | (_, (a, c, q)) :: rest =>
    let v := match pos_get vs a c with Some x => x | None => dec_nil end in
    if is_zero q && is_zero v then closing_txns date rest vs
    else mkTxn date (s_closing a c) (pair_build a equity_account c q v) None :: closing_txns date rest vs
  end.

Definition close_day_start (closing_days : list Z) (s : close_state) (d : day) : presult (close_state * day) :=
  if existsb (Z.eqb (d_date d)) closing_days
  then ROk (s, set_txns d (d_txns d ++ closing_txns (d_date d) (c_qty s) (c_val s)))
  else ROk (s, d).

Definition close_posting (s : close_state) (t : txn) (p : posting) : presult (close_state * posting) :=
  if is_AL (p_acc p) || acc_eqb (p_acc p) equity_account then ROk (s, p)
  else ROk (mkClose (pos_add (c_qty s) (p_acc p) (p_com p) (p_qty p))
                    (pos_add (c_val s) (p_acc p) (p_com p) (p_val p)), p).

Definition close_proc (closing_days : list Z) : processor close_state :=
  mkProc (Some (close_day_start closing_days)) None None None (Some close_posting) None None None.

(* ---------------------------------------------------------------- Sort *)
Definition cmp_then (c : comparison) (k : comparison) : comparison := match c with Eq => k | _ => c end.

Definition acc_cmp (a b : account) : comparison :=
  if acc_ltb a b then Lt else if acc_ltb b a then Gt else Eq.

Definition dec_cmp (a b : dec) : comparison :=
  match cmp a b with 0 => Eq | Zneg _ => Lt | Zpos _ => Gt end.

(* posting.Compare *)
Definition posting_cmp (p q : posting) : comparison :=
  cmp_then (acc_cmp (p_acc p) (p_acc q))
  (cmp_then (acc_cmp (p_other p) (p_other q))
  (cmp_then (dec_cmp (p_qty p) (p_qty q))
  (cmp_then (dec_cmp (p_val p) (p_val q))
            (str_cmp (p_com p) (p_com q))))).

Fixpoint postings_cmp (l1 l2 : list posting) : comparison :=
  match l1, l2 with
  | p :: r1, q :: r2 => cmp_then (posting_cmp p q) (postings_cmp r1 r2)
  | [], [] => Eq
  | [], _ => Lt
  | _, [] => Gt
  end.

(* transaction.Compare.  Note: Go compares the common prefix of the postings and then the
   lengths; postings_cmp does the same. *)
Definition txn_cmp (t u : txn) : comparison :=
  cmp_then (t_date t ?= t_date u)
  (cmp_then (str_cmp (t_desc t) (t_desc u)) (postings_cmp (t_postings t) (t_postings u))).

Definition txn_ltb (t u : txn) : bool := match txn_cmp t u with Lt => true | _ => false end.

Definition sort_proc : processor unit :=
  mkProc None None None None None None None
         (Some (fun s d => ROk (s, set_txns d (sort_by txn_ltb (d_txns d))))).

(* ---------------------------------------------------------------- Query.Into(report) *)
(* the balance command's query: key = (aligned date, mapped account, commodity); the
   collection is kept abstract here (C) and supplied by Model/Report.v *)
Record query := mkQuery {
  q_valued : bool;
  q_where : account -> commodity -> bool;
  q_account : account -> shorten_result;     (* remap, then shorten *)
  q_date : Z -> option Z }.

Definition k_shorten : str := [115;104;111;114;116;101;110].   (* shorten *)

Definition query_posting {C} (q : query) (insert : C -> option Z -> account -> commodity -> dec -> C)
           (c : C) (t : txn) (p : posting) : presult (C * posting) :=
  let amount := if q_valued q then p_val p else p_qty p in
  if q_where q (p_acc p) (p_com p) then
    match q_account q (p_acc p) with
    | ShPanic => RPanic k_shorten
    | ShHidden => ROk (c, p)
    | ShAcc a => ROk (insert c (q_date q (t_date t)) a (p_com p) amount, p)
    end
  else ROk (c, p).

Definition query_proc {C} (q : query) (insert : C -> option Z -> account -> commodity -> dec -> C) : processor C :=
  mkProc None None None None (Some (query_posting q insert)) None None None.
