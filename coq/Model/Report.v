(* Model of lib/reports/balance (report.go, renderer.go) and of multimap.Node as used there. *)
From Coq Require Import ZArith List Bool.
From Knut Require Import Model.Str Model.Dec Model.Date Model.Account Model.Ledger Model.Price Model.Table.
Import ListNotations.
Open Scope bool_scope.
Open Scope Z_scope.

(* amounts of one report node, keyed by (date, commodity); date None = the zero time;
   commodity None = the nil commodity of a collapsed (valued) row *)
Definition rkey := (option Z * option commodity)%type.
Definition ramounts := list (rkey * dec).

Definition oz_eqb (a b : option Z) : bool :=
  match a, b with Some x, Some y => x =? y | None, None => true | _, _ => false end.
Definition ocom_eqb (a b : option commodity) : bool :=
  match a, b with Some x, Some y => str_eqb x y | None, None => true | _, _ => false end.
Definition rkey_eqb (a b : rkey) : bool := oz_eqb (fst a) (fst b) && ocom_eqb (snd a) (snd b).

Fixpoint ra_get (m : ramounts) (k : rkey) : option dec :=
  match m with
  | [] => None
  | (k', v) :: rest => if rkey_eqb k k' then Some v else ra_get rest k
  end.

Definition ra_get0 (m : ramounts) (k : rkey) : dec := match ra_get m k with Some v => v | None => dec_nil end.

(* Amounts.Add *)
Fixpoint ra_add (m : ramounts) (k : rkey) (v : dec) : ramounts :=
  match m with
  | [] => [(k, add dec_nil v)]
  | (k', v') :: rest => if rkey_eqb k k' then (k', add v' v) :: rest else (k', v') :: ra_add rest k v
  end.

(* Amounts.SumIntoBy(dest, nil, mapper) followed by the deletion of zero entries *)
Definition ra_sum_into (dest src : ramounts) (f : rkey -> rkey) : ramounts :=
  filter (fun kv => negb (is_zero (snd kv)))
         (fold_left (fun d kv => ra_add d (f (fst kv)) (snd kv)) src dest).

(* Amounts.Plus (no deletion of zeros) *)
Definition ra_plus (a b : ramounts) : ramounts := fold_left (fun d kv => ra_add d (fst kv) (snd kv)) b a.

(* sorted distinct commodities of the keys; the nil commodity can only occur alone *)
Fixpoint insert_ocom (c : option commodity) (l : list (option commodity)) : list (option commodity) :=
  match l with
  | [] => [c]
  | x :: rest =>
    match c, x with
    | Some a, Some b => match str_cmp a b with Eq => l | Lt => c :: l | Gt => x :: insert_ocom c rest end
    | None, None => l
    | None, Some _ => c :: l
    | Some _, None => x :: insert_ocom c rest
    end
  end.
Definition ra_commodities (m : ramounts) : list (option commodity) :=
  fold_left (fun l kv => insert_ocom (snd (fst kv)) l) m [].

(* ---------------------------------------------------------------- the tree *)
Inductive node := Node (seg : str) (path : account) (has_value : bool) (amts : ramounts) (children : list node).

Definition n_seg (n : node) := match n with Node s _ _ _ _ => s end.
Definition n_path (n : node) := match n with Node _ p _ _ _ => p end.
Definition n_amts (n : node) := match n with Node _ _ _ a _ => a end.
Definition n_children (n : node) := match n with Node _ _ _ _ c => c end.

(* GetOrCreate(segments) + Amounts.Add at the node reached.  Children are kept in name order
   (Go keeps them in a map; every traversal that matters sorts them first).
   [children_insert rec h ...] finds or creates the child with segment h and continues with
   [rec] (the insertion one level down). *)
Fixpoint children_insert (rec : node -> node) (h : str) (path : account) (l : list node) : list node :=
  match l with
  | [] => [rec (Node h path false [] [])]
  | c :: l' =>
    match str_cmp h (n_seg c) with
    | Eq => rec c :: l'
    | Lt => rec (Node h path false [] []) :: l
    | Gt => c :: children_insert rec h path l'
    end
  end.

Fixpoint node_insert (fuel : nat) (prefix : account) (rest : list str) (k : rkey) (v : dec) (n : node) : node :=
  match n with
  | Node s p hv a ch =>
    match rest with
    | [] => Node s p true (ra_add a k v) ch
    | h :: tail =>
      match fuel with
      | O => n
      | S f => Node s p hv a (children_insert (node_insert f (prefix ++ [h]) tail k v) h (prefix ++ [h]) ch)
      end
    end
  end.

Record report := mkReport { r_al : node; r_eie : node }.
Definition empty_root : node := Node [] [] false [] [].
Definition new_report : report := mkReport empty_root empty_root.

(* Report.Insert *)
Definition report_insert (r : report) (date : option Z) (a : account) (c : commodity) (v : dec) : report :=
  let k := (date, Some c) in
  if is_AL a then mkReport (node_insert (S (length a)) [] a k v (r_al r)) (r_eie r)
  else mkReport (r_al r) (node_insert (S (length a)) [] a k v (r_eie r)).

(* ---------------------------------------------------------------- sorting *)
(* weights of SortWeighted: -|sum of the node's valued amounts| + children's weights.
   In an unvalued report no key has a valuation, so every weight is zero. *)
Fixpoint node_weight (valued : bool) (n : node) : dec :=
  match n with
  | Node _ _ _ a ch =>
    let own := if valued then fold_left (fun s kv => add s (snd kv)) a dec_nil else dec_nil in
    fold_left (fun w c => add w (node_weight valued c)) ch (neg (dabs own))
  end.

Definition top_ltb (a b : node) : bool := acc_rank (n_path a) <? acc_rank (n_path b).

(* comparator of SortAlpha / SortWeighted between siblings; ties between weights are broken
   by segment name (children are already in name order and sort_by is stable) *)
Definition sibling_ltb (alpha valued : bool) (a b : node) : bool :=
  if (acc_level (n_path a) =? 1) && (acc_level (n_path b) =? 1) then top_ltb a b
  else if alpha then str_ltb (n_seg a) (n_seg b)
  else less_than (node_weight valued a) (node_weight valued b).

Fixpoint node_sort (alpha valued : bool) (n : node) : node :=
  match n with
  | Node s p hv a ch => Node s p hv a (sort_by (sibling_ltb alpha valued) (map (node_sort alpha valued) ch))
  end.

(* ---------------------------------------------------------------- rendering *)
Record render_cfg := mkRenderCfg {
  rc_valuation : option commodity;
  rc_details : list rx;           (* --show-commodities *)
  rc_alpha : bool;
  rc_diff : bool }.

Definition draw_comms (cfg : render_cfg) : bool :=
  match rc_valuation cfg with None => true | Some _ => match rc_details cfg with [] => false | _ => true end end.

(* the numeric cells of one row: cumulative over the end dates unless --diff *)
Fixpoint row_numbers (diff neg_ : bool) (vals : ramounts) (c : option commodity) (dates : list Z) (total : dec) : list cell :=
  match dates with
  | [] => []
  | d :: rest =>
    let v := ra_get0 vals (Some d, c) in
    let total' := add total v in
    let shown := if diff then v else total' in
    CNum (if neg_ then neg shown else shown) :: row_numbers diff neg_ vals c rest total'
  end.

Fixpoint render_rows (cfg : render_cfg) (dates : list Z) (indent : Z) (name : str) (neg_ : bool)
         (vals : ramounts) (coms : list (option commodity)) (first : bool) : list (list cell) :=
  match coms with
  | [] => []
  | c :: rest =>
    ((if first then CText name ALeft indent else CEmpty) ::
     (if draw_comms cfg
      then [match c with
            | Some x => CText x ALeft 0
            | None => match rc_valuation cfg with Some v => CText v ALeft 0 | None => CEmpty end
            end]
      else []) ++
     row_numbers (rc_diff cfg) neg_ vals c dates dec_nil)
    :: render_rows cfg dates indent name neg_ vals rest false
  end.

(* Renderer.render *)
Definition render_amounts (cfg : render_cfg) (t : table) (dates : list Z) (indent : Z) (name : str)
           (neg_ : bool) (vals : ramounts) : table :=
  match vals with
  | [] => add_row t (fill_empty t [CText name ALeft indent])
  | _ => fold_left add_row (render_rows cfg dates indent name neg_ vals (ra_commodities vals) true) t
  end.

Definition collapse_key (show : bool) (k : rkey) : rkey := (fst k, if show then snd k else None).

(* Renderer.renderNode *)
Fixpoint render_node (cfg : render_cfg) (dates : list Z) (indent : Z) (neg_ : bool) (t : table) (n : node) : table :=
  match n with
  | Node s p _ a ch =>
    let show := match rc_valuation cfg with None => true | Some _ => rxs_match (rc_details cfg) (acc_name p) end in
    let vals := ra_sum_into [] a (collapse_key show) in
    let t1 := match s with [] => t | _ => render_amounts cfg t dates indent s neg_ vals end in
    fold_left (render_node cfg dates (indent + 2) neg_) ch t1
  end.

Fixpoint node_totals (f : rkey -> rkey) (n : node) (acc : ramounts) : ramounts :=
  match n with
  | Node _ _ _ a ch => ra_sum_into (fold_left (fun x c => node_totals f c x) ch acc) a f
  end.

Definition s_Account : str := [65;99;99;111;117;110;116].
Definition s_Comm : str := [67;111;109;109].
Definition s_TotalAL : str := [84;111;116;97;108;32;40;65;43;76;41].
Definition s_TotalEIE : str := [84;111;116;97;108;32;40;69;43;73;43;69;41].
Definition s_Delta : str := [68;101;108;116;97].

Definition two_digits (n : Z) : str := [48 + n / 10; 48 + n mod 10].
Definition four_digits (n : Z) : str := [48 + n / 1000; 48 + (n / 100) mod 10; 48 + (n / 10) mod 10; 48 + n mod 10].
(* time.Format("2006-01-02") for years 0..9999 *)
Definition format_date (d : Z) : str :=
  let '(y, m, dd) := civil d in four_digits y ++ [45] ++ two_digits m ++ [45] ++ two_digits dd.

(* Renderer.Render *)
Definition render_report (cfg : render_cfg) (r : report) (dates : list Z) : table :=
  let valued := match rc_valuation cfg with Some _ => true | None => false end in
  let al := node_sort (rc_alpha cfg) valued (r_al r) in
  let eie := node_sort (rc_alpha cfg) valued (r_eie r) in
  let n := Z.of_nat (length dates) in
  let t := if draw_comms cfg then table_new [1; 1; n] else table_new [1; n] in
  let t := add_separator_row t in
  let t := add_row t (CText s_Account ACenter 0 ::
                      (if draw_comms cfg then [CText s_Comm ACenter 0] else []) ++
                      map (fun d => CText (format_date d) ACenter 0) dates) in
  let t := add_separator_row t in
  let tk := collapse_key (negb valued) in
  let total_al := node_totals tk al [] in
  let total_eie := node_totals tk eie [] in
  let t := fold_left (fun t n => add_empty_row (render_node cfg dates 0 false t n)) (n_children al) t in
  let t := render_amounts cfg t dates 0 s_TotalAL false total_al in
  let t := add_separator_row t in
  let t := fold_left (fun t n => add_empty_row (render_node cfg dates 0 true t n)) (n_children eie) t in
  let t := render_amounts cfg t dates 0 s_TotalEIE true total_eie in
  let t := add_separator_row t in
  let t := render_amounts cfg t dates 0 s_Delta false (ra_plus total_al total_eie) in
  add_separator_row t.
