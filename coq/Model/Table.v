(* Model of lib/common/table: Table, TextRenderer (Color = false), CSVRenderer. *)
From Coq Require Import ZArith List Bool.
From Knut Require Import Model.Str Model.Dec.
Import ListNotations.
Open Scope bool_scope.
Open Scope Z_scope.

Inductive align := ALeft | ARight | ACenter.

Inductive cell :=
| CSep
| CEmpty
| CText (content : str) (al : align) (indent : Z)
| CNum (n : dec).

Record table := mkTable { t_columns : list Z; t_rows : list (list cell) }.

(* table.New(groups...) *)
Fixpoint columns_of (groups : list Z) (no : Z) : list Z :=
  match groups with
  | [] => []
  | g :: rest => repeat no (Z.to_nat g) ++ columns_of rest (no + 1)
  end.
Definition table_new (groups : list Z) : table := mkTable (columns_of groups 0) [].
Definition t_width (t : table) : nat := length (t_columns t).

Definition add_row (t : table) (r : list cell) : table := mkTable (t_columns t) (t_rows t ++ [r]).
Definition add_separator_row (t : table) : table := add_row t (repeat CSep (t_width t)).
Definition add_empty_row (t : table) : table := add_row t (repeat CEmpty (t_width t)).
(* Row.FillEmpty: up to the table width *)
Definition fill_empty (t : table) (r : list cell) : list cell := r ++ repeat CEmpty (t_width t - length r).

Definition is_sep (c : cell) : bool := match c with CSep => true | _ => false end.

(* utf8.RuneCountInString: bytes that are not continuation bytes (10xxxxxx); exact for valid
   UTF-8, which is all the renderer ever sees for account names accepted by the parser *)
Definition rune_count (s : str) : Z :=
  Z.of_nat (length (filter (fun b => negb ((128 <=? b) && (b <? 192))) s)).

(* addThousandsSep *)
Fixpoint index_of (c : Z) (s : str) (i : Z) : option Z :=
  match s with
  | [] => None
  | x :: t => if x =? c then Some i else index_of c t (i + 1)
  end.

Fixpoint thousands_loop (s : str) (i index : Z) (ok : bool) : str :=
  match s with
  | [] => []
  | ch :: rest =>
    if (index <=? i) && negb (ch =? 45) then s
    else
      let sep := if ((index - i) mod 3 =? 0) && ok then [44] else [] in
      sep ++ ch :: thousands_loop rest (i + 1) index (ok || is_digit ch)
  end.

Definition add_thousands_sep (e : str) : str :=
  let index := match index_of 46 e 0 with Some i => i | None => Z.of_nat (length e) end in
  thousands_loop e 0 index false.

Record text_cfg := mkTextCfg { tc_thousands : bool; tc_round : Z }.

Inductive rresult (A : Type) := TOk (a : A) | TPanic.
Arguments TOk {A} a.
Arguments TPanic {A}.

Definition k1000 : dec := of_int 1000.

(* TextRenderer.numToString *)
Definition num_to_string (cfg : text_cfg) (d : dec) : rresult str :=
  if tc_thousands cfg then
    match div d k1000 with
    | DOk x => TOk (add_thousands_sep (to_string_fixed x (tc_round cfg)))
    | DPanic => TPanic
    end
  else TOk (add_thousands_sep (to_string_fixed d (tc_round cfg))).

Definition num_str (cfg : text_cfg) (d : dec) : str :=
  match num_to_string cfg d with TOk s => s | TPanic => [] end.

(* TextRenderer.minLengthCell *)
Definition min_length_cell (cfg : text_cfg) (c : cell) : Z :=
  match c with
  | CSep | CEmpty => 0
  | CText s al ind => match al with ALeft => ind + rune_count s | _ => rune_count s end
  | CNum n => rune_count (num_str cfg n)
  end.

Fixpoint zip_max (ws : list Z) (ls : list Z) : list Z :=
  match ws, ls with
  | w :: ws', l :: ls' => Z.max w l :: zip_max ws' ls'
  | _, [] => ws
  | [], _ => []
  end.

Definition col_widths (cfg : text_cfg) (t : table) : list Z :=
  fold_left (fun ws row => zip_max ws (map (min_length_cell cfg) row)) (t_rows t)
            (repeat 0 (t_width t)).

(* groups := map[int]int; for i, w := range widths { groups[columns[i]] = max } *)
Fixpoint group_get (g : list (Z * Z)) (k : Z) : Z :=
  match g with [] => 0 | (k', v) :: rest => if k =? k' then v else group_get rest k end.
Fixpoint group_put (g : list (Z * Z)) (k v : Z) : list (Z * Z) :=
  match g with
  | [] => [(k, v)]
  | (k', v') :: rest => if k =? k' then (k, v) :: rest else (k', v') :: group_put rest k v
  end.

Fixpoint group_widths (cols ws : list Z) (g : list (Z * Z)) : list (Z * Z) :=
  match cols, ws with
  | c :: cols', w :: ws' => group_widths cols' ws' (if group_get g c <? w then group_put g c w else g)
  | _, _ => g
  end.

(* the second loop: `if w < groups[i] { widths[i] = groups[i] }` -- indexed by the column
   index i, not by the column's group (as in the Go source) *)
Fixpoint widen (ws : list Z) (i : Z) (g : list (Z * Z)) : list Z :=
  match ws with
  | [] => []
  | w :: rest => (if w <? group_get g i then group_get g i else w) :: widen rest (i + 1) g
  end.

Definition final_widths (cfg : text_cfg) (t : table) : list Z :=
  let ws := col_widths cfg t in
  widen ws 0 (group_widths (t_columns t) ws []).

Definition spaces (n : Z) : str := repeat_z 32 n.

(* fmt "%*s": left-pad with spaces to l runes *)
Definition pad_left (l : Z) (s : str) : str := spaces (l - rune_count s) ++ s.

(* TextRenderer.renderCell with Color = false *)
Definition render_cell (cfg : text_cfg) (c : cell) (l : Z) : str :=
  match c with
  | CEmpty => spaces l
  | CSep => repeat_z 45 l
  | CText s al ind =>
    let before := match al with
                  | ALeft => ind
                  | ARight => l - rune_count s
                  | ACenter => (l - rune_count s) / 2   (* Go: truncating division; l >= count here *)
                  end in
    spaces before ++ s ++ spaces (l - before - rune_count s)
  | CNum n =>
    if is_zero n then pad_left l [] else pad_left l (num_str cfg n)
  end.

Definition create_sep (c1 c2 : cell) : str :=
  match is_sep c1, is_sep c2 with
  | true, true => [45;43;45]
  | true, false => [45;43;32]
  | false, true => [32;43;45]
  | false, false => [32;124;32]
  end.

Fixpoint render_cells (cfg : text_cfg) (cs : list cell) (ws : list Z) : str :=
  match cs, ws with
  | [c], w :: _ => render_cell cfg c w
  | c :: ((c2 :: _) as rest), w :: ws' => render_cell cfg c w ++ create_sep c c2 ++ render_cells cfg rest ws'
  | _, _ => []
  end.

Definition render_row (cfg : text_cfg) (ws : list Z) (row : list cell) : str :=
  match row with
  | [] => []     (* Go would panic on row.cells[0]; tables built by the reports have no empty rows *)
  | c0 :: _ =>
    (if is_sep c0 then [43;45] else [124;32]) ++
    render_cells cfg row ws ++
    (if is_sep (last row CEmpty) then [45;43;10] else [32;124;10])
  end.

(* TextRenderer.Render *)
Definition render_text (cfg : text_cfg) (t : table) : str :=
  let ws := final_widths cfg t in
  concat (map (render_row cfg ws) (t_rows t)) ++ [10].

(* CSVRenderer: rows whose cells are all empty strings are skipped.  encoding/csv quoting is
   not modelled: a field is written verbatim (the fields of a balance report never contain
   a comma, quote, CR or LF, and never start with a space). *)
Definition csv_cell (c : cell) : str :=
  match c with
  | CSep | CEmpty => []
  | CText s _ _ => s
  | CNum n => to_string n
  end.

Definition render_csv_rows (t : table) : list (list str) :=
  filter (fun rec => existsb (fun s => match s with [] => false | _ => true end) rec)
         (map (map csv_cell) (t_rows t)).

Definition render_csv (t : table) : str :=
  concat (map (fun rec => join [44] rec ++ [10]) (render_csv_rows t)).
