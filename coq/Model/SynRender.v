(* Rendering a MEANING (Spec/FormatSpec.v: sem, gaps) to text: the printer of
   Model/SynPrinter.v re-expressed on the strings of a directive instead of on ranges into a
   text.  Proofs/FormatProofs.v shows  format t f = render (sem t f) (gaps t f);  the infer
   command (Model/Bayes.v), which substitutes account strings before printing, is modelled
   on this form.  Executable definitions only.                                             *)
From Coq Require Import ZArith List Bool.
From Knut Require Import Model.Bytes Model.Scanner Model.Parser Model.SynPrinter Spec.FormatSpec.
Import ListNotations.
Open Scope bool_scope.
Open Scope Z_scope.

Module SynRenderM.

(* g0 ++ p1 ++ g1 ++ ... ++ pn ++ gn *)
Fixpoint weave (gs ps : list str) : str :=
  match gs with
  | [] => []
  | g :: gs' => g ++ match ps with [] => [] | p :: ps' => p ++ weave gs' ps' end
  end.

Section Render.
Variable dec : str -> Z * Z.

Definition render_posting (pad : Z) (b : sem_booking) : str :=
  pad_right dec pad (fst (sb_credit b)) ++ s_sp ++ pad_right dec pad (fst (sb_debit b)) ++ s_sp ++
  pad_left dec 10 (sb_quantity b) ++ s_sp ++ sb_commodity b.

Definition render_balance (b : sem_account * str * str) : str :=
  fst (fst (fst b)) ++ s_sp ++ snd (fst b) ++ s_sp ++ snd b.

Definition render_sem (pad : Z) (d : sem_directive) : option str :=
  match d with
  | SemTrx date desc bs perf accr =>
    Some ((match accr with
           | Some a => s_accrue ++ sa_interval a ++ s_sp ++ sa_start a ++ s_sp ++ sa_end a ++ s_sp ++
                       fst (sa_account a) ++ s_nl
           | None => []
           end) ++
          (match perf with
           | Some ts => s_perf_open ++ join s_comma ts ++ s_perf_close ++ s_nl
           | None => []
           end) ++
          date ++ s_sp ++ s_quote ++ desc ++ s_quote ++ s_nl ++
          concat (map (fun b => render_posting pad b ++ s_nl) bs))
  | SemOpen date a => Some (date ++ s_open ++ fst a)
  | SemClose date a => Some (date ++ s_close ++ fst a)
  | SemAssertion date bs =>
    Some (date ++ s_balance ++
          match bs with
          | [b] => s_sp ++ render_balance b
          | _ => s_nl ++ concat (map (fun b => render_balance b ++ s_nl) bs)
          end)
  | SemPrice date c p tg => Some (date ++ s_price ++ c ++ s_sp ++ p ++ s_sp ++ tg)
  | SemInclude p => Some (s_include ++ p ++ s_quote)
  | SemNone => None
  end.

Definition pad_step (p : Z) (b : sem_booking) : Z :=
  let l1 := rune_count dec (fst (sb_credit b)) in
  let p1 := if p <? l1 then l1 else p in
  let l2 := rune_count dec (fst (sb_debit b)) in
  if p1 <? l2 then l2 else p1.

Definition pad_of_sem (p0 : Z) (ds : list sem_directive) : Z :=
  fold_left (fun p d => match d with SemTrx _ _ bs _ _ => fold_left pad_step bs p | _ => p end) ds p0.

Fixpoint render_all (pad : Z) (ds : list sem_directive) : option (list str) :=
  match ds with
  | [] => Some []
  | d :: ds' =>
    match render_sem pad d, render_all pad ds' with
    | Some x, Some xs => Some (x :: xs)
    | _, _ => None
    end
  end.

(* the formatted text as a function of meaning and gaps *)
Definition render (ds : list sem_directive) (gs : list str) : option str :=
  match render_all (pad_of_sem 0 ds) ds with
  | Some ps => Some (weave gs ps)
  | None => None
  end.

End Render.

End SynRenderM.
Export SynRenderM.
