(* Model of lib/syntax/printer/printer.go (function by function; the output is the byte string
   written to the io.Writer), of syntax.FormatFile, and of the `knut format` command of
   cmd/commands/format.go for one file.  Executable definitions only.

   * fmt's width for %s counts runes (utf8.RuneCountInString), as Initialize does.
   * text[pos:d.Start] panics in Go when pos > d.Start or d.Start > len(text); the model
     returns [FPanic] there (excluded for parsed files by FormatProofs.format_no_panic).
   * printDirective returns an error for a nil payload: [FErr].
   * The writer is a bytes.Buffer: writes cannot fail.                                        *)
From Coq Require Import ZArith List Bool String Ascii.
From Knut Require Import Model.Bytes Model.Utf8 Model.Scanner Model.Parser.
Import ListNotations.
Open Scope bool_scope.
Open Scope Z_scope.

Module SynPrintM.

(* ------------------------------------------------------------------ fmt helpers *)

(* utf8.RuneCountInString: every decoding step (valid rune or invalid byte) counts 1 *)
Fixpoint rune_count_fuel (dec : str -> Z * Z) (n : nat) (s : str) : Z :=
  match n with
  | O => 0
  | S n' =>
    match s with
    | [] => 0
    | _ => let (_, w) := dec s in 1 + rune_count_fuel dec n' (skipn (Z.to_nat w) s)
    end
  end.

Definition rune_count (dec : str -> Z * Z) (s : str) : Z := rune_count_fuel dec (List.length s) s.

Definition spaces (n : Z) : str := repeat 32 (Z.to_nat n).

(* %-*s and %*s *)
Definition pad_right (dec : str -> Z * Z) (w : Z) (s : str) : str := s ++ spaces (w - rune_count dec s).
Definition pad_left (dec : str -> Z * Z) (w : Z) (s : str) : str := spaces (w - rune_count dec s) ++ s.

(* strings.Join *)
Fixpoint join (sep : str) (l : list str) : str :=
  match l with
  | [] => []
  | [x] => x
  | x :: l' => x ++ sep ++ join sep l'
  end.

Definition lit (s : string) : str := runes_of_string s.

Definition s_sp : str := [32].
Definition s_nl : str := [10].
Definition s_quote : str := [34].
Definition s_comma : str := [44].
Definition s_accrue := Eval vm_compute in lit "@accrue ".
Definition s_perf_open := Eval vm_compute in lit "@performance(".
Definition s_perf_close := Eval vm_compute in lit ")".
Definition s_open := Eval vm_compute in lit " open ".
Definition s_close := Eval vm_compute in lit " close ".
Definition s_price := Eval vm_compute in lit " price ".
Definition s_include := Eval vm_compute in lit "include """.
Definition s_balance := Eval vm_compute in lit " balance".

Inductive fresult :=
| FOk (out : str)
| FErr                  (* unknown directive *)
| FPanic.               (* slice bounds out of range *)

Section WithEnv.
Variable E : env.

Definition ex (r : range) : str := extract E r.
Definition dec := e_decode E.

(* ------------------------------------------------------------------ print* *)

(* "@accrue %s %s %s %s\n" *)
Definition print_accrual (a : accrual) : str :=
  s_accrue ++ ex (ac_interval a) ++ s_sp ++ ex (ac_start a) ++ s_sp ++ ex (ac_end a) ++ s_sp ++
  ex (acc_range (ac_account a)) ++ s_nl.

(* "%-*s %-*s %10s %s" *)
Definition print_posting (padding : Z) (b : booking) : str :=
  pad_right dec padding (ex (acc_range (bk_credit b))) ++ s_sp ++
  pad_right dec padding (ex (acc_range (bk_debit b))) ++ s_sp ++
  pad_left dec 10 (ex (bk_quantity b)) ++ s_sp ++ ex (bk_commodity b).

Definition print_transaction (padding : Z) (t : transaction) : str :=
  (if negb (range_empty (ac_range (ad_accrual (tx_addons t))))
   then print_accrual (ad_accrual (tx_addons t)) else []) ++
  (if negb (range_empty (pf_range (ad_perf (tx_addons t))))
   then s_perf_open ++ join s_comma (map ex (pf_targets (ad_perf (tx_addons t)))) ++ s_perf_close ++ s_nl
   else []) ++
  ex (tx_date t) ++ s_sp ++ s_quote ++ ex (qs_content (tx_desc t)) ++ s_quote ++ s_nl ++
  List.concat (map (fun b => print_posting padding b ++ s_nl) (tx_bookings t)).

Definition print_open (o : opening) : str := ex (op_date o) ++ s_open ++ ex (acc_range (op_account o)).
Definition print_close (c : closing) : str := ex (cl_date c) ++ s_close ++ ex (acc_range (cl_account c)).

Definition print_price (p : price) : str :=
  ex (pr_date p) ++ s_price ++ ex (pr_commodity p) ++ s_sp ++ ex (pr_price p) ++ s_sp ++ ex (pr_target p).

Definition print_include (i : include) : str := s_include ++ ex (qs_content (in_path i)) ++ s_quote.

Definition print_balance (b : balance) : str :=
  ex (acc_range (bl_account b)) ++ s_sp ++ ex (bl_quantity b) ++ s_sp ++ ex (bl_commodity b).

Definition print_assertion (a : assertion) : str :=
  ex (as_date a) ++ s_balance ++
  match as_balances a with
  | [b] => s_sp ++ print_balance b
  | bs => s_nl ++ List.concat (map (fun b => print_balance b ++ s_nl) bs)
  end.

Definition print_directive (padding : Z) (d : directive) : option str :=
  match d_body d with
  | BTrx t => Some (print_transaction padding t)
  | BOpen o => Some (print_open o)
  | BClose c => Some (print_close c)
  | BAssertion a => Some (print_assertion a)
  | BInclude i => Some (print_include i)
  | BPrice p => Some (print_price p)
  | BNone => None
  end.

(* PrintFile: every directive followed by a newline *)
Fixpoint print_file (padding : Z) (ds : list directive) : option str :=
  match ds with
  | [] => Some []
  | d :: ds' =>
    match print_directive padding d, print_file padding ds' with
    | Some x, Some y => Some (x ++ s_nl ++ y)
    | _, _ => None
    end
  end.

(* Initialize: the widest credit/debit account (in runes) of all transactions *)
Definition booking_width (b : booking) : Z :=
  Z.max (rune_count dec (ex (acc_range (bk_credit b)))) (rune_count dec (ex (acc_range (bk_debit b)))).

Definition initialize (padding : Z) (ds : list directive) : Z :=
  fold_left (fun p d =>
    match d_body d with
    | BTrx t => fold_left (fun p b =>
                  let l1 := rune_count dec (ex (acc_range (bk_credit b))) in
                  let p1 := if p <? l1 then l1 else p in
                  let l2 := rune_count dec (ex (acc_range (bk_debit b))) in
                  if p1 <? l2 then l2 else p1) (tx_bookings t) p
    | _ => p
    end) ds padding.

(* Format: text[pos:d.Start], the directive, ..., text[pos:] *)
Fixpoint format_loop (padding : Z) (pos : Z) (ds : list directive) : fresult :=
  match ds with
  | [] => if (0 <=? pos) && (pos <=? e_len E) then FOk (slice (e_text E) pos (e_len E)) else FPanic
  | d :: ds' =>
    let st := r_start (d_range d) in
    if negb ((0 <=? pos) && (pos <=? st) && (st <=? e_len E)) then FPanic
    else match print_directive padding d with
         | None => FErr
         | Some x =>
           match format_loop padding (r_end (d_range d)) ds' with
           | FOk y => FOk (slice (e_text E) pos st ++ x ++ y)
           | r => r
           end
         end
  end.

Definition format (f : file) : fresult :=
  format_loop (initialize 0 (f_directives f)) 0 (f_directives f).

End WithEnv.

(* ------------------------------------------------------------------ the command, one file *)

Inductive cmd_result :=
| Rewritten (new : str)         (* atomic.WriteFile(target, formatted) *)
| Untouched                     (* parse error (or format error): the file is not written *)
| CmdPanic
| CmdOutOfFuel.

Definition format_text (letter digit : Z -> bool) (t : str) (f : file) : fresult :=
  format (mk_env Utf8M.decode letter digit t) f.

Definition format_cmd (letter digit : Z -> bool) (t : str) : cmd_result :=
  match parse_text letter digit t with
  | ParseOk f =>
    match format_text letter digit t f with
    | FOk out => Rewritten out
    | FErr => Untouched
    | FPanic => CmdPanic
    end
  | ParseErr _ => Untouched
  | ParseFuel => CmdOutOfFuel
  end.

(* the content of the file after the command *)
Definition file_after (t : str) (r : cmd_result) : option str :=
  match r with
  | Rewritten n => Some n
  | Untouched => Some t
  | _ => None
  end.

End SynPrintM.
Export SynPrintM.
