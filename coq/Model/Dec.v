(* Model of the parts of github.com/shopspring/decimal v1.3.1 that knut calls.
   A decimal is coefficient * 10^exponent with an unbounded coefficient (big.Int) and an
   exponent (int32 in Go; Z here: the int32-overflow panics of Mul/QuoRem are not modelled,
   knut's exponents stay within a few dozen).  Strings are lists of bytes (Z).
   Executable definitions only. *)
From Coq Require Import ZArith List Bool.
From Knut Require Import Model.Str.
Import ListNotations.
Open Scope bool_scope.
Open Scope Z_scope.

Record dec := mkDec { coef : Z; ex : Z }.

Definition dec_zero : dec := mkDec 0 1.          (* decimal.Zero = New(0, 1) *)
Definition of_int (n : Z) : dec := mkDec n 0.     (* decimal.NewFromInt *)
Definition dec_new (v e : Z) : dec := mkDec v e.  (* decimal.New *)

Definition pow10 (n : Z) : Z := 10 ^ n.

(* Decimal.rescale: big.Int.Quo truncates toward zero = Z.quot *)
Definition rescale (d : dec) (e : Z) : dec :=
  if ex d =? e then d
  else
    let diff := Z.abs (e - ex d) in
    if ex d <? e then mkDec (Z.quot (coef d) (pow10 diff)) e
    else mkDec (coef d * pow10 diff) e.

(* decimal.RescalePair *)
Definition rescale_pair (d1 d2 : dec) : dec * dec :=
  if ex d1 =? ex d2 then (d1, d2)
  else
    let base := Z.min (ex d1) (ex d2) in
    if negb (base =? ex d1) then (rescale d1 base, d2) else (d1, rescale d2 base).

Definition add (d1 d2 : dec) : dec :=
  let '(a, b) := rescale_pair d1 d2 in mkDec (coef a + coef b) (ex a).
Definition sub (d1 d2 : dec) : dec :=
  let '(a, b) := rescale_pair d1 d2 in mkDec (coef a - coef b) (ex a).
Definition neg (d : dec) : dec := mkDec (- coef d) (ex d).
Definition mul (d1 d2 : dec) : dec := mkDec (coef d1 * coef d2) (ex d1 + ex d2).
Definition dabs (d : dec) : dec := if coef d <? 0 then mkDec (Z.abs (coef d)) (ex d) else d.

Definition sign (d : dec) : Z := Z.sgn (coef d).
Definition is_zero (d : dec) : bool := coef d =? 0.
Definition is_neg (d : dec) : bool := coef d <? 0.
Definition is_pos (d : dec) : bool := 0 <? coef d.

(* Decimal.Cmp: -1, 0, 1 *)
Definition cmp (d1 d2 : dec) : Z :=
  let '(a, b) := rescale_pair d1 d2 in
  match coef a ?= coef b with Lt => -1 | Eq => 0 | Gt => 1 end.
Definition dec_equal (d1 d2 : dec) : bool := cmp d1 d2 =? 0.
Definition less_than (d1 d2 : dec) : bool := cmp d1 d2 =? -1.
Definition greater_than (d1 d2 : dec) : bool := cmp d1 d2 =? 1.

(* Decimal.Truncate *)
Definition truncate (d : dec) (precision : Z) : dec :=
  if (0 <=? precision) && (ex d <? - precision) then rescale d (- precision) else d.

(* Decimal.Round: half away from zero.  Go: rescale to places+1 (truncating), add +-5,
   DivMod by 10 (Euclidean), and for a negative quotient with non-zero remainder add 1. *)
Definition round (d : dec) (places : Z) : dec :=
  if ex d =? - places then d
  else
    let ret := rescale d (- places - 1) in
    let v := if coef ret <? 0 then coef ret - 5 else coef ret + 5 in
    let q := v / 10 in
    let m := v mod 10 in
    let q' := if (q <? 0) && negb (m =? 0) then q + 1 else q in
    mkDec q' (ex ret + 1).

Inductive dresult (A : Type) := DOk (a : A) | DPanic.
Arguments DOk {A} a.
Arguments DPanic {A}.

(* Decimal.QuoRem (big.Int.QuoRem truncates toward zero) *)
Definition quo_rem (d d2 : dec) (precision : Z) : dresult (dec * dec) :=
  if coef d2 =? 0 then DPanic
  else
    let scale := - precision in
    let e := ex d - ex d2 - scale in
    let '(aa, bb, scalerest) :=
      if e <? 0 then (coef d, coef d2 * pow10 (- e), ex d)
      else (coef d * pow10 e, coef d2, scale + ex d2) in
    DOk (mkDec (Z.quot aa bb) scale, mkDec (Z.rem aa bb) scalerest).

(* Decimal.DivRound *)
Definition div_round (d d2 : dec) (precision : Z) : dresult dec :=
  match quo_rem d d2 precision with
  | DPanic => DPanic
  | DOk (q, r) =>
    let r2 := mkDec (Z.abs (coef r) * 2) (ex r + precision) in
    let c := cmp r2 (dabs d2) in
    if c <? 0 then DOk q
    else if Z.sgn (coef d) * Z.sgn (coef d2) <? 0 then DOk (sub q (dec_new 1 (- precision)))
    else DOk (add q (dec_new 1 (- precision)))
  end.

Definition division_precision : Z := 16.
Definition div (d d2 : dec) : dresult dec := div_round d d2 division_precision.

(* ---------------------------------------------------------------- strings *)

(* decimal digits of a non-negative number, most significant first; "0" for 0 *)
Fixpoint digits_fuel (fuel : nat) (n : Z) (acc : str) : str :=
  match fuel with
  | O => acc
  | S f => if n <? 10 then (48 + n) :: acc else digits_fuel f (n / 10) ((48 + n mod 10) :: acc)
  end.
Definition digits (n : Z) : str := digits_fuel (S (Z.to_nat (Z.log2 n))) n [].

Definition repeat_z (c : Z) (n : Z) : str := repeat c (Z.to_nat n).

Fixpoint strip_trailing_zeros_rev (r : str) : str :=
  match r with
  | 48 :: t => strip_trailing_zeros_rev t
  | _ => r
  end.
Definition strip_trailing_zeros (s : str) : str := rev (strip_trailing_zeros_rev (rev s)).

(* Decimal.string(trimTrailingZeros) *)
Definition to_string_gen (trim : bool) (d : dec) : str :=
  if 0 <=? ex d then
    let v := coef (rescale d 0) in
    (if v <? 0 then [45] else []) ++ digits (Z.abs v)
  else
    let s := digits (Z.abs (coef d)) in
    let len := Z.of_nat (length s) in
    let n := - ex d in
    let '(ip, fp) :=
      if n <? len then (firstn (Z.to_nat (len - n)) s, skipn (Z.to_nat (len - n)) s)
      else ([48], repeat_z 48 (n - len) ++ s) in
    let fp := if trim then strip_trailing_zeros fp else fp in
    let number := if match fp with [] => true | _ => false end then ip else ip ++ [46] ++ fp in
    if coef d <? 0 then 45 :: number else number.

Definition to_string (d : dec) : str := to_string_gen true d.          (* Decimal.String *)
Definition to_string_fixed (d : dec) (places : Z) : str :=            (* Decimal.StringFixed *)
  to_string_gen false (round d places).

(* decimal.NewFromString restricted to the inputs knut's parser and importers produce:
   optional sign, digits, optional '.', digits; no exponent notation.  Anything else: None.
   (strconv.ParseInt accepts a leading '+' or '-'; an empty digit string is an error) *)
Definition is_digit (c : Z) : bool := (48 <=? c) && (c <=? 57).

Fixpoint parse_digits (s : str) (acc : Z) : option Z :=
  match s with
  | [] => Some acc
  | c :: t => if is_digit c then parse_digits t (acc * 10 + (c - 48)) else None
  end.

Fixpoint split_dot (s : str) (acc : str) : option (str * option str) :=
  match s with
  | [] => Some (rev acc, None)
  | 46 :: t => if existsb (Z.eqb 46) t then None else Some (rev acc, Some t)
  | c :: t => split_dot t (c :: acc)
  end.

Definition of_string (s : str) : option dec :=
  match split_dot s [] with
  | None => None
  | Some (ip, fpo) =>
    let fp := match fpo with Some f => f | None => [] end in
    let all := ip ++ fp in
    let '(negative, ds) :=
      match all with
      | 45 :: t => (true, t)
      | 43 :: t => (false, t)
      | _ => (false, all)
      end in
    match ds with
    | [] => None
    | _ =>
      match parse_digits ds 0 with
      | None => None
      | Some v => Some (mkDec (if negative then - v else v) (- Z.of_nat (length fp)))
      end
    end
  end.
