(* Model of lib/journal/performance/performance.go: Calculator.ComputeValues, ComputeFlows
   (incl. pickTargets and split), Performance and Perf, and of the Day.Performance record of
   lib/journal/journal.go.

   Where the Go code computes with float64 (Decimal.Float64, sums, quotients, products) this model computes
   with exact rationals (Q, kept reduced).  FLOAT ROUNDING IS NOT MODELLED: the correspondence
   check compares within tolerances, and a division by zero (Go: +-Inf or NaN) is the distinct
   result [None].

   Day.Performance is a field of the Go Day struct that ComputeValues creates and ComputeFlows
   completes.  The model's [day] record has no such field; the per-day records are collected
   in the processors' private state instead, keyed by the day's date (dates are unique among
   the days of a journal), and joined by [join_perf]. *)
From Coq Require Import ZArith QArith List Bool.
From Knut Require Import Model.Str Model.Dec Model.Date Model.Account Model.Ledger Model.Price Model.Journal.
Import ListNotations.
Open Scope bool_scope.
Open Scope Z_scope.

(* ---------------------------------------------------------------- rationals *)

(* the exact value of a decimal (what Decimal.Float64() approximates) *)
Definition dec_q (d : dec) : Q :=
  if 0 <=? ex d then inject_Z (coef d * pow10 (ex d))
  else Qred (Qmake (coef d) (Z.to_pos (pow10 (- ex d)))).

Definition qadd (a b : Q) : Q := Qred (Qplus a b).
Definition qsub (a b : Q) : Q := Qred (Qminus a b).
Definition qmul (a b : Q) : Q := Qred (Qmult a b).
Definition q_is_zero (a : Q) : bool := Qnum a =? 0.
Definition q_is_pos (a : Q) : bool := 0 <? Qnum a.
Definition q_is_neg (a : Q) : bool := Qnum a <? 0.
(* a / b; None where Go yields +-Inf or NaN *)
Definition qdiv (a b : Q) : option Q := if q_is_zero b then None else Some (Qred (Qdiv a b)).
Definition q_eqb (a b : Q) : bool := Qeq_bool a b.

(* pcv: map[*model.Commodity]float64, as an association list sorted by commodity name *)
Definition pcv := smap Q.
Definition pcv_get (m : pcv) (c : commodity) : Q := match sm_get m c with Some q => q | None => 0%Q end.
(* get(&m)[c] += q *)
Definition pcv_add (m : pcv) (c : commodity) (q : Q) : pcv := sm_put m c (qadd (pcv_get m c) q).
(* for _, v := range m { sum += v } *)
Definition pcv_sum (m : pcv) : Q := fold_left (fun acc kv => qadd acc (snd kv)) m 0%Q.

(* ---------------------------------------------------------------- a pure observer *)
(* ComputeValues, ComputeFlows, Perf and weights.Query.Execute never fail and never modify
   the day; they are given as [pure_proc] of the callbacks they define (None = nil field),
   see Proofs/PortfolioProofs.pure_proc_days for the equation with [pure_days]. *)
Section Pure.
  Context {S : Type}.
  Variables (st : option (S -> day -> S)) (tx : option (S -> txn -> S))
            (po : option (S -> txn -> posting -> S)) (en : option (S -> day -> S)).

  Definition pure_proc : processor S :=
    mkProc (match st with Some f => Some (fun s d => ROk (f s d, d)) | None => None end)
           None None
           (match tx with Some f => Some (fun s t => ROk (f s t)) | None => None end)
           (match po with Some f => Some (fun s t p => ROk (f s t p, p)) | None => None end)
           None None
           (match en with Some f => Some (fun s d => ROk (f s d, d)) | None => None end).

  Definition opt_app {A} (f : option (S -> A -> S)) (s : S) (a : A) : S :=
    match f with Some g => g s a | None => s end.

  Definition pure_txn (s : S) (t : txn) : S :=
    let s1 := opt_app tx s t in
    match po with
    | Some f => fold_left (fun s p => f s t p) (t_postings t) s1
    | None => s1
    end.

  Definition pure_day (s : S) (d : day) : S :=
    opt_app en (fold_left pure_txn (d_txns d) (opt_app st s d)) d.

  Definition pure_days (s : S) (ds : list day) : S := fold_left pure_day ds s.
End Pure.

(* ---------------------------------------------------------------- Calculator *)

Record calc := mkCalc {
  ca_valuation : option commodity;
  ca_acc : account -> bool;           (* AccountFilter *)
  ca_com : commodity -> bool;         (* CommodityFilter *)
  ca_is_currency : commodity -> bool  (* Commodity.IsCurrency; no command ever tags one *) }.

(* Calculator.isPortfolioAccount *)
Definition is_portfolio (c : calc) (a : account) : bool := is_AL a && ca_acc c a.

(* ---------------------------------------------------------------- ComputeValues *)

(* the values map (amounts.Amounts keyed by commodity): entries that become zero are deleted *)
Definition vals := smap dec.

Fixpoint vals_remove (m : vals) (k : commodity) : vals :=
  match m with
  | [] => []
  | (k', v) :: rest => if str_eqb k k' then rest else (k', v) :: vals_remove rest k
  end.

Definition vals_add (m : vals) (k : commodity) (v : dec) : vals :=
  let x := add (match sm_get m k with Some y => y | None => dec_nil end) v in
  if is_zero x then vals_remove m k else sm_put m k x.

(* one record per processed day: date, V0, V1 *)
Record cv_state := mkCv {
  cv_prev : pcv; cv_values : vals; cv_v0 : pcv; cv_out : list (Z * (pcv * pcv)) }.

Definition cv_init : cv_state := mkCv [] [] [] [].

Definition cv_day_start (s : cv_state) (d : day) : cv_state :=
  mkCv (cv_prev s) (cv_values s) (cv_prev s) (cv_out s).

Definition cv_posting (c : calc) (s : cv_state) (t : txn) (p : posting) : cv_state :=
  if negb (ca_com c (p_com p)) then s
  else if negb (is_portfolio c (p_acc p)) then s
  else mkCv (cv_prev s) (vals_add (cv_values s) (p_com p) (p_val p)) (cv_v0 s) (cv_out s).

(* prev = nil; for k, v := range values { prev[k.Commodity] += float(v) } *)
Definition vals_pcv (m : vals) : pcv := map (fun kv => (fst kv, dec_q (snd kv))) m.

Definition cv_day_end (s : cv_state) (d : day) : cv_state :=
  let v1 := vals_pcv (cv_values s) in
  mkCv v1 (cv_values s) (cv_v0 s) (cv_out s ++ [(d_date d, (cv_v0 s, v1))]).

Definition compute_values_proc (c : calc) : processor cv_state :=
  pure_proc (Some cv_day_start) None (Some (cv_posting c)) (Some cv_day_end).

(* ---------------------------------------------------------------- ComputeFlows *)

(* pickTargets; nil (None) and the empty slice are returned unchanged *)
Definition pick_targets (c : calc) (tgts : option (list commodity)) : option (list commodity) :=
  match tgts with
  | None => None
  | Some [] => Some []
  | Some l =>
    match filter (fun x => negb (ca_is_currency c x)) l with
    | (_ :: _) as res => Some res
    | [] =>
      match filter (fun x => match ca_valuation c with Some v => negb (str_eqb x v) | None => true end) l with
      | (_ :: _) as res => Some res
      | [] => Some l
      end
    end
  end.

(* split: positive entries are added to [inn], negative ones to [out] *)
Definition split_flows (flows : pcv) (io : pcv * pcv) : pcv * pcv :=
  fold_left (fun acc kv =>
    let '(c, f) := kv in
    if q_is_pos f then (pcv_add (fst acc) c f, snd acc)
    else if q_is_neg f then (fst acc, pcv_add (snd acc) c f)
    else acc) flows io.

Record flows_day := mkFlows {
  fl_in : pcv; fl_out : pcv; fl_iin : pcv; fl_iout : pcv; fl_pin : Q; fl_pout : Q }.

Definition flows_zero : flows_day := mkFlows [] [] [] [] 0%Q 0%Q.

Record cf_state := mkCf { cf_portfolio : Q; cf_cur : flows_day; cf_out : list (Z * flows_day) }.

Definition cf_init : cf_state := mkCf 0%Q flows_zero [].

Definition cf_day_start (s : cf_state) (d : day) : cf_state := mkCf 0%Q flows_zero (cf_out s).

(* the loop over the postings of one transaction: (flows, internalFlows, portfolioFlows).
   [ff] = false is the pinned code, which does not consult the CommodityFilter here although
   ComputeValues does (findings/C20-commodity-filter-flows.md); [ff] = true is the repaired
   loop, which skips postings in commodities outside the filter. *)
Definition cf_posting (ff : bool) (c : calc) (tgts : option (list commodity)) (acc : pcv * pcv * Q) (p : posting)
  : pcv * pcv * Q :=
  let '(flows, intf, pf) := acc in
  if ff && negb (ca_com c (p_com p)) then acc
  else if negb (is_portfolio c (p_acc p)) then acc
  else if is_portfolio c (p_other p) then acc
  else if match tgts with Some [t] => str_eqb t (p_com p) | _ => false end then acc
  else
    let value := dec_q (p_val p) in
    match tgts with
    | None => (pcv_add flows (p_com p) value, intf, pf)
    | Some [] => (flows, pcv_add intf (p_com p) value, qsub pf value)
    | Some l =>
      let n := inject_Z (Z.of_nat (length l)) in
      let share := Qred (Qdiv value n) in      (* l >= 1 here *)
      (flows, fold_left (fun m t => pcv_add m t (Qred (Qopp share))) l (pcv_add intf (p_com p) value), pf)
    end.

Definition cf_txn (ff : bool) (c : calc) (s : cf_state) (t : txn) : cf_state :=
  let tgts := pick_targets c (t_targets t) in
  let '(flows, intf, pf) := fold_left (cf_posting ff c tgts) (t_postings t) ([], [], cf_portfolio s) in
  let cur := cf_cur s in
  let io := split_flows flows (fl_in cur, fl_out cur) in
  let iio := split_flows intf (fl_iin cur, fl_iout cur) in
  mkCf pf (mkFlows (fst io) (snd io) (fst iio) (snd iio) (fl_pin cur) (fl_pout cur)) (cf_out s).

Definition cf_day_end (s : cf_state) (d : day) : cf_state :=
  let cur := cf_cur s in
  let pf := cf_portfolio s in
  let done := mkFlows (fl_in cur) (fl_out cur) (fl_iin cur) (fl_iout cur)
                      (if q_is_pos pf then pf else 0%Q)       (* math.Max(0, portfolioFlows) *)
                      (if q_is_neg pf then pf else 0%Q) in    (* math.Min(0, portfolioFlows) *)
  mkCf pf done (cf_out s ++ [(d_date d, done)]).

Definition compute_flows_proc (ff : bool) (c : calc) : processor cf_state :=
  pure_proc (Some cf_day_start) (Some (cf_txn ff c)) None (Some cf_day_end).

(* ---------------------------------------------------------------- Day.Performance *)

Record perf := mkPerf { pf_date : Z; pf_v0 : pcv; pf_v1 : pcv; pf_flows : flows_day }.

Fixpoint flows_at (l : list (Z * flows_day)) (d : Z) : flows_day :=
  match l with
  | [] => flows_zero
  | (d', f) :: rest => if d =? d' then f else flows_at rest d
  end.

(* the Performance records of the processed days, in day order *)
Definition join_perf (vs : list (Z * (pcv * pcv))) (fs : list (Z * flows_day)) : list perf :=
  map (fun x => mkPerf (fst x) (fst (snd x)) (snd (snd x)) (flows_at fs (fst x))) vs.

(* ---------------------------------------------------------------- Performance, Perf *)

(* performance.Performance: (V1 - Outflow) / (V0 + Inflow), 1 if nothing moved *)
Definition performance (p : perf) : option Q :=
  let v0 := pcv_sum (pf_v0 p) in
  let v1 := pcv_sum (pf_v1 p) in
  let inflow := qadd (fl_pin (pf_flows p)) (pcv_sum (fl_in (pf_flows p))) in
  let outflow := qadd (fl_pout (pf_flows p)) (pcv_sum (fl_out (pf_flows p))) in
  if q_eqb v0 v1 && q_is_zero inflow && q_is_zero outflow then Some 1%Q
  else qdiv (qsub v1 outflow) (qadd v0 inflow).

Definition omul (a b : option Q) : option Q :=
  match a, b with Some x, Some y => Some (qmul x y) | _, _ => None end.

(* performance.Perf: the DayEnd callback over the processed days; one (date, running - 1)
   per processed day that is a period end.  [None] = not a finite number in Go. *)
Fixpoint perf_loop (part : partition) (ends : list Z) (running : option Q) (l : list perf)
  : list (Z * option Q) :=
  match l with
  | [] => []
  | p :: rest =>
    if negb (partition_contains part (pf_date p)) then perf_loop part ends running rest
    else
      let r := omul running (performance p) in
      if existsb (Z.eqb (pf_date p)) ends
      then (pf_date p, match r with Some x => Some (qsub x 1%Q) | None => None end)
           :: perf_loop part ends (Some 1%Q) rest
      else perf_loop part ends r rest
  end.
