(* Model of cmd/commands/transcode.go (transcodeRunner.execute): valuation flag, load, Build,
   the processors Sort, ComputePrices, Check, Valuate (in this order), beancount.Transcode. *)
From Coq Require Import ZArith List Bool.
From Knut Require Import Model.Str Model.Dec Model.Date Model.Account Model.Ledger Model.Price
     Model.Journal Model.Check Model.Pipeline Model.Table Model.Report Model.JPrinter Model.Cli
     Model.Beancount.
Import ListNotations.
Open Scope bool_scope.
Open Scope Z_scope.

Definition k_nil_commodity : str :=    (* nilcommodity *)
  [110;105;108;99;111;109;109;111;100;105;116;121].

(* r.valuation.Value(reg): an empty flag value is "no valuation" (nil, nil); otherwise the
   commodity registry validates the name *)
Definition valuation_flag (v : option commodity) : cresult (option commodity) :=
  match v with
  | None => COk None
  | Some [] => COk None
  | Some c => if valid_commodity c then COk (Some c) else CErr k_valuation c
  end.

(* the four stages with a valuation commodity; [lenient] selects Checker.balance as in
   Model/Check.v *)
Definition transcode_stages (lenient : bool) (v : commodity) (days : list day) : cresult (list day) :=
  cbind (run_stage sort_proc tt days) (fun r0 =>
  cbind (run_stage (compute_prices_proc v) (mkCp [] None) (snd r0)) (fun r1 =>
  cbind (run_stage (check_proc lenient) check_init (snd r1)) (fun r2 =>
  cbind (run_stage (valuate_proc v) (mkVal None None []) (snd r2)) (fun r3 =>
  COk (snd r3))))).

(* the days handed to beancount.Transcode *)
Definition transcode_days (lenient : bool) (v : commodity) (ds : list sdirective) : cresult (list day) :=
  cbind (load ds) (fun b => transcode_stages lenient v (b_days b)).

(* knut transcode [-v V] FILE as pinned.  Without -v the processors ComputePrices and Valuate are
   nil and are skipped; Sort and Check run; then beancount.Transcode evaluates c.Name() on the
   nil commodity: a nil-pointer panic (nothing has been written yet).  (F9) *)
Definition transcode_cmd_pinned (lenient : bool) (v : option commodity) (ds : list sdirective) : cresult str :=
  cbind (valuation_flag v) (fun vo =>
  match vo with
  | Some c => cbind (transcode_days lenient c ds) (fun days => COk (transcode days c))
  | None =>
    cbind (load ds) (fun b =>
    cbind (run_stage sort_proc tt (b_days b)) (fun r0 =>
    cbind (run_stage (check_proc lenient) check_init (snd r0)) (fun _ =>
    CPanic k_nil_commodity)))
  end).

(* knut transcode [-v V] FILE since fix 864fd70: a missing (or empty) -v is an error reported
   before the journal is loaded *)
Definition transcode_cmd (lenient : bool) (v : option commodity) (ds : list sdirective) : cresult str :=
  cbind (valuation_flag v) (fun vo =>
  match vo with
  | Some c => cbind (transcode_days lenient c ds) (fun days => COk (transcode days c))
  | None => CErr k_valuation []
  end).
