(* Model of lib/syntax/scanner/scanner.go, function by function.
   Executable definitions only; proofs live in Proofs/ScannerProofs.v.

   The scanner state is (offset, current, currentLen) over a text.  The model keeps, next to
   the offset, the suffix [rest = text[offset:]] so that decoding the next rune does not index
   into the text (Backtrack recomputes it from the text, as Go re-slices).  Everything that
   Go's scanner reads from its environment is in [env]: the text, its length, the rune decoder
   (utf8.DecodeRuneInString: Model/Utf8.v in the extracted model, a parameter in proofs) and
   the classification of letters and digits used by the parser (UnicodeTables.v / parameter).

   Errors are directives.Error chains: a list, outermost first, of (kind, start, end).
   A function returns [Ok a s'] | [Err chain s'] | [OutOfFuel]; the state is returned on
   errors too because Go's callers build their own error ranges from the scanner offset
   *after* the failing call (Scope.Range reads s.offset when it is called).                  *)
From Coq Require Import ZArith List Bool.
From Knut Require Import Model.Bytes Model.Utf8.
Import ListNotations.
Open Scope bool_scope.
Open Scope Z_scope.

Module ScanM.

Record env := mkEnv {
  e_decode : str -> Z * Z;      (* utf8.DecodeRuneInString *)
  e_letter : Z -> bool;         (* unicode.IsLetter *)
  e_digit  : Z -> bool;         (* unicode.IsDigit *)
  e_text   : str;
  e_len    : Z;                 (* len(text) *)
  e_fuel   : nat                (* loop bound, S (length text) *)
}.

Definition mk_env (dec : str -> Z * Z) (letter digit : Z -> bool) (t : str) : env :=
  mkEnv dec letter digit t (Z.of_nat (length t)) (S (length t)).

(* const EOF = rune(-1) *)
Definition eof : Z := -1.

Record state := mkState { off : Z; cur : Z; clen : Z; rest : str }.

(* scanner.New: offset 0, current 0, currentLen 0 *)
Definition init_state (E : env) : state := mkState 0 0 0 (e_text E).

Record range := mkRange { r_start : Z; r_end : Z }.

(* ---- errors ---- *)

(* Scope descriptions used by the parser ("while " ++ desc) *)
Inductive desc :=
| DNone                (* ""  (scanner scopes) *)
| DComment             (* reading comment *)
| DFile                (* parsing file `path` *)
| DDir                 (* parsing directive *)
| DIncl                (* parsing `include` statement *)
| DOpen                (* parsing `open` directive *)
| DClose               (* parsing `close` directive *)
| DBal                 (* parsing `balance` directive  (also used by parsePrice) *)
| DBalSub              (* parsing balance subdirective *)
| DComm                (* parsing commodity *)
| DDec                 (* parsing decimal *)
| DAcc                 (* parsing account *)
| DBook                (* parsing booking *)
| DDate                (* parsing the date *)
| DQs                  (* parsing quoted string *)
| DTrx                 (* parsing transaction *)
| DAddons              (* parsing addons  (parseAddons and parseAccrual) *)
| DPerf                (* parsing performance *)
| DInterval            (* parsing interval *)
| DRest.               (* reading the rest of the line *)

Inductive ekind :=
| KEof                 (* unexpected end of file            (Advance, width 0) *)
| KUtf8                (* invalid unicode character         (Advance, width 1) *)
| KNext                (* reading next character *)
| KEofWant             (* unexpected end of file, want ... *)
| KChar                (* unexpected character `c`, want ... *)
| KStr                 (* while reading "str"               (ReadString) *)
| KAlt                 (* unexpected input, want one of ... *)
| KReadN               (* while reading i of n characters *)
| KDup                 (* duplicate performance/accrue annotation *)
| KEmpty               (* directives.Error{}: empty message, zero range *)
| KOther               (* a wrapped error that is no directives.Error (io.EOF in ReadN) *)
| KWhile (d : desc).   (* Scope.Annotate: "while " ++ desc *)

Record err := mkErr { er_kind : ekind; er_start : Z; er_end : Z }.

Inductive res (A : Type) :=
| Ok (a : A) (s : state)
| Err (e : list err) (s : state)
| OutOfFuel.
Arguments Ok {A} a s.
Arguments Err {A} e s.
Arguments OutOfFuel {A}.

(* ---- Scope ---- *)

Record scope := mkScope { sc_desc : desc; sc_start : Z }.

Definition new_scope (d : desc) (s : state) : scope := mkScope d (off s).
Definition update_desc (sc : scope) (d : desc) : scope := mkScope d (sc_start sc).
(* Scope.Range: [Start, current offset) *)
Definition scope_range (sc : scope) (s : state) : range := mkRange (sc_start sc) (off s).
(* Scope.Annotate *)
Definition annotate (sc : scope) (s : state) (e : list err) : list err :=
  mkErr (KWhile (sc_desc sc)) (sc_start sc) (off s) :: e.

(* Range.Extract, Range.Empty, Range.Extend *)
Definition extract (E : env) (r : range) : str := slice (e_text E) (r_start r) (r_end r).
Definition range_empty (r : range) : bool := r_start r =? r_end r.
Definition extend (r r2 : range) : range :=
  mkRange (if r_start r2 <? r_start r then r_start r2 else r_start r)
          (if r_end r <? r_end r2 then r_end r2 else r_end r).

Section WithEnv.
Variable E : env.

(* ---- Advance, Backtrack ---- *)

Definition advance (s : state) : res unit :=
  let o := off s + clen s in
  let r := skipn (Z.to_nat (clen s)) (rest s) in
  if (o =? e_len E) && negb (cur s =? eof) then Ok tt (mkState o eof 0 r)
  else
    let (c, w) := e_decode E r in
    let s' := mkState o c w r in
    if c =? rune_error then
      if w =? 0 then Err [mkErr KEof o o] s'
      else if w =? 1 then Err [mkErr KUtf8 o o] s'
      else Ok tt s'
    else Ok tt s'.

(* At the end of the text this yields (RuneError, width 0), which is not EOF. *)
Definition backtrack (o : Z) : state :=
  let r := skipn (Z.to_nat o) (e_text E) in
  let (c, w) := e_decode E r in
  mkState o c w r.

(* ---- ReadWhile, ReadWhile1, ReadUntil ---- *)

Fixpoint read_while_loop (p : Z -> bool) (start : Z) (fuel : nat) (s : state) : res range :=
  match fuel with
  | O => OutOfFuel
  | S f =>
    if p (cur s) && negb (cur s =? eof) then
      match advance s with
      | Ok _ s' => read_while_loop p start f s'
      | Err e s' => Err (mkErr KNext start (off s') :: e) s'
      | OutOfFuel => OutOfFuel
      end
    else Ok (mkRange start (off s)) s
  end.

Definition read_while (p : Z -> bool) (s : state) : res range :=
  read_while_loop p (off s) (e_fuel E) s.

Definition read_while1 (p : Z -> bool) (s : state) : res range :=
  if cur s =? eof then Err [mkErr KEofWant (off s) (off s)] s
  else if negb (p (cur s)) then Err [mkErr KChar (off s) (off s)] s
  else read_while_loop p (off s) (e_fuel E) s.

(* ReadUntil is not used by the parser.  Its loop advances before looking at EOF, so at the
   end of the text it runs: EOF -> Advance fails (unexpected end of file). *)
Fixpoint read_until_loop (p : Z -> bool) (start : Z) (fuel : nat) (s : state) : res range :=
  match fuel with
  | O => OutOfFuel
  | S f =>
    if negb (p (cur s)) then
      match advance s with
      | Ok _ s' =>
        if cur s' =? eof then Err [mkErr KEofWant start (off s')] s'
        else read_until_loop p start f s'
      | Err e s' => Err (mkErr KNext start (off s') :: e) s'
      | OutOfFuel => OutOfFuel
      end
    else Ok (mkRange start (off s)) s
  end.

Definition read_until (p : Z -> bool) (s : state) : res range :=
  read_until_loop p (off s) (S (e_fuel E)) s.

(* ---- ReadCharacter, ReadCharacterWith ---- *)

Definition read_character_with (p : Z -> bool) (s : state) : res range :=
  let start := off s in
  if cur s =? eof then Err [mkErr KEofWant start start] s
  else if negb (p (cur s)) then Err [mkErr KChar start start] s
  else match advance s with
       | Ok _ s' => Ok (mkRange start (off s')) s'
       | Err e s' => Err (mkErr KNext start (off s') :: e) s'
       | OutOfFuel => OutOfFuel
       end.

Definition read_character (r : Z) (s : state) : res range :=
  read_character_with (fun c => c =? r) s.

(* ---- ReadString, ReadAlternative, ReadN ---- *)

(* [for _, ch := range str]: str is given as its list of runes *)
Fixpoint read_string_loop (str : list Z) (start : Z) (s : state) : res range :=
  match str with
  | [] => Ok (mkRange start (off s)) s
  | ch :: str' =>
    if negb (ch =? cur s) then Err [mkErr KStr start (off s)] s
    else match advance s with
         | Ok _ s' => read_string_loop str' start s'
         | Err e s' => Err (mkErr KStr start (off s') :: e) s'
         | OutOfFuel => OutOfFuel
         end
  end.

Definition read_string (str : list Z) (s : state) : res range :=
  read_string_loop str (off s) s.

Fixpoint read_alternative_loop (ss : list (list Z)) (start : Z) (s : state) : res range :=
  match ss with
  | [] => Err [mkErr KAlt start (off s)] s
  | t :: ss' =>
    match read_string t s with
    | Ok r s' => Ok r s'
    | Err _ _ => read_alternative_loop ss' start (backtrack start)
    | OutOfFuel => OutOfFuel
    end
  end.

Definition read_alternative (ss : list (list Z)) (s : state) : res range :=
  if cur s =? eof then Err [mkErr KEofWant (off s) (off s)] s
  else read_alternative_loop ss (off s) s.

(* ReadN is not used by the parser; i counts the runes read so far *)
Fixpoint read_n_loop (n : nat) (start : Z) (s : state) : res range :=
  match n with
  | O => Ok (mkRange start (off s)) s
  | S n' =>
    if cur s =? eof then Err [mkErr KReadN start (off s); mkErr KOther 0 0] s
    else match advance s with
         | Ok _ s' => read_n_loop n' start s'
         | Err e s' => Err (mkErr KReadN start (off s') :: e) s'
         | OutOfFuel => OutOfFuel
         end
  end.

Definition read_n (n : nat) (s : state) : res range := read_n_loop n (off s) s.

End WithEnv.

End ScanM.
Export ScanM.
