(* journal.FromPath with its three consumers, as a labelled transition system (refines
   Model/PipeLoader.v, which folds the second and third stage into one consumer).
   Executable definitions only; proofs in Proofs/PipeFromPathProofs.v; statements in Properties/C19.v.

     syntaxCh, worker1 := syntax.ParseFileRecursively(path)      stage 1: parser tasks (errgroup)
     modelCh,  worker2 := model.FromStream(reg, syntaxCh)        stage 2: dispatcher + conversion tasks
     journalCh, worker3 := journal.FromModelStream(modelCh)      stage 3: the builder (Builder.Add)
     p := pool.New().WithErrors().WithFirstError().WithContext(ctx); p.Go(worker1..3); p.Wait()

   The outer pool has no cancel-on-error: its context is never cancelled, so a worker that blocks
   on a channel is released only by its partner or by closure of the channel.

   Stage 1 is as in Model/PipeLoader.v (one task per include directive, spawned while the including
   file is parsed; a task that has parsed its file pushes it into the unbuffered syntaxCh with
   cpr.Push under the errgroup's context; a parse error cancels that context; when all tasks have
   returned, worker1 returns the errgroup's first error and closes syntaxCh).

   Stage 2: the dispatcher is cpr.ForEach(ctx, syntaxCh, callback) under the outer context.  The
   callback hands the received file to an inner pool (pool.New().WithContext(ctx).WithCancelOnError()
   .WithFirstError(), unbounded: wg.Go does not block) and ALWAYS returns nil - so the dispatcher
   keeps receiving until syntaxCh is closed, also after a conversion error (the drain).  A
   conversion task converts its file (model.ParseDirective on every directive); on an error the
   inner pool records it and cancels the inner context; otherwise the task pushes the directives
   into the unbuffered modelCh with cpr.Push under the inner context (so it is released by the
   builder receiving, or by the inner cancellation).  After the dispatcher has seen syntaxCh
   closed, worker2 waits for the conversion tasks (wg.Wait), returns the inner pool's first error
   and closes modelCh.

   Stage 3: cpr.ForEach(ctx, modelCh, func(ds) { for d in ds { if err := j.Add(d) ... return err } })
   under the outer context; when modelCh is closed the builder is pushed into the buffered
   journalCh (never blocks).  If Builder.Add returns an error the worker returns it - and stops
   receiving.

   p.Wait() returns when the three workers have returned; the result is the first error in the
   order in which the workers returned ([werrs]), else the builder.

   Files are numbers; [inc], [bad] as in PipeLoader.v; [cbad f]: the conversion of f fails;
   [abad f]: Builder.Add fails on a directive of f.  (In knut as it is, [abad] is constantly false:
   Builder.Add fails only on a directive type that model.ParseDirective never produces.)
   [drain = true] is the code as it is.  [drain = false] is the variant in which model.FromStream
   returns at the first conversion error instead of draining its input (label DAbort).          *)
From Coq Require Import List Bool Arith PeanoNat.
From Knut Require Import Model.PipeLoader.
Import ListNotations.
Open Scope bool_scope.

Inductive cst := CNew | CRdy | CPushed | CFail | CCancel.
Record ctask := mkC { c_file : nat; c_st : cst }.

Inductive dstat := DRecv | DWait | DDone.   (* dispatcher: in ForEach / in wg.Wait / returned, modelCh closed *)
Inductive bstat := BRecv | BDone | BFail.   (* builder: in ForEach / returned nil / returned Add's error *)
Inductive werr := WParse (f : nat) | WConv (f : nat) | WAdd (f : nat).

Record fstate := mkF {
  f_ptasks : list ptask;   (* stage 1: parser tasks *)
  f_pcancel : bool;        (* the errgroup's context is cancelled *)
  f_perrs : list nat;      (* parse errors in the order returned; the errgroup keeps the first *)
  f_synclosed : bool;      (* worker1 has returned: syntaxCh is closed *)
  f_disp : dstat;          (* stage 2: the dispatcher *)
  f_ctasks : list ctask;   (* conversion tasks of the inner pool *)
  f_ccancel : bool;        (* the inner pool's context is cancelled *)
  f_cerrs : list nat;      (* conversion errors in addErr order; WithFirstError keeps the first *)
  f_bld : bstat;           (* stage 3: the builder *)
  f_added : list nat;      (* files whose directives have been added to the builder, in order *)
  f_werrs : list werr      (* errors of the outer pool in the order the workers returned *)
}.

Inductive flabel :=
  | PSpawn (t : nat) | PParsed (t : nat) | PPush (t : nat) | PObserve (t : nat) | PClose
  | DEnd | DAbort | DRet
  | CConv (c : nat) | CPush (c : nat) | CObserve (c : nat)
  | BEnd.

Definition dstat_eqb (a b : dstat) : bool :=
  match a, b with DRecv, DRecv | DWait, DWait | DDone, DDone => true | _, _ => false end.
Definition bstat_eqb (a b : bstat) : bool :=
  match a, b with BRecv, BRecv | BDone, BDone | BFail, BFail => true | _, _ => false end.

Definition ctask_terminal (c : ctask) : bool :=
  match c_st c with CPushed | CFail | CCancel => true | _ => false end.

Definition first_err (mk : nat -> werr) (l : list nat) : list werr :=
  match l with f :: _ => [mk f] | [] => [] end.

Definition is_nil {A : Type} (l : list A) : bool := match l with [] => true | _ => false end.

Definition set_ptasks (st : fstate) (v : list ptask) : fstate :=
  mkF v (f_pcancel st) (f_perrs st) (f_synclosed st) (f_disp st) (f_ctasks st) (f_ccancel st)
      (f_cerrs st) (f_bld st) (f_added st) (f_werrs st).
Definition set_ctasks (st : fstate) (v : list ctask) : fstate :=
  mkF (f_ptasks st) (f_pcancel st) (f_perrs st) (f_synclosed st) (f_disp st) v (f_ccancel st)
      (f_cerrs st) (f_bld st) (f_added st) (f_werrs st).
Definition set_disp (st : fstate) (v : dstat) : fstate :=
  mkF (f_ptasks st) (f_pcancel st) (f_perrs st) (f_synclosed st) v (f_ctasks st) (f_ccancel st)
      (f_cerrs st) (f_bld st) (f_added st) (f_werrs st).

Section FromPath.
  Variable inc : nat -> list nat.
  Variables bad cbad abad : nat -> bool.
  Variable drain : bool.

  Definition finit (root : nat) : fstate :=
    mkF [mkTask root (Parsing (inc root))] false [] false DRecv [] false [] BRecv [] [].

  Definition fstep (l : flabel) (st : fstate) : option fstate :=
    match l with
    | PSpawn t =>
        match nth_error (f_ptasks st) t with
        | Some (mkTask f (Parsing (g :: rest))) =>
            Some (set_ptasks st (set_nth (f_ptasks st) t (mkTask f (Parsing rest)) ++
                                 [mkTask g (Parsing (inc g))]))
        | _ => None
        end
    | PParsed t =>
        match nth_error (f_ptasks st) t with
        | Some (mkTask f (Parsing [])) =>
            if bad f
            then Some (mkF (set_nth (f_ptasks st) t (mkTask f PFail)) true (f_perrs st ++ [f])
                           (f_synclosed st) (f_disp st) (f_ctasks st) (f_ccancel st) (f_cerrs st)
                           (f_bld st) (f_added st) (f_werrs st))
            else Some (set_ptasks st (set_nth (f_ptasks st) t (mkTask f PRdy)))
        | _ => None
        end
    | PPush t =>      (* rendezvous on syntaxCh; the callback hands the file to the inner pool *)
        match nth_error (f_ptasks st) t with
        | Some (mkTask f PRdy) =>
            if dstat_eqb (f_disp st) DRecv
            then Some (mkF (set_nth (f_ptasks st) t (mkTask f PPushed)) (f_pcancel st) (f_perrs st)
                           (f_synclosed st) (f_disp st) (f_ctasks st ++ [mkC f CNew]) (f_ccancel st)
                           (f_cerrs st) (f_bld st) (f_added st) (f_werrs st))
            else None
        | _ => None
        end
    | PObserve t =>
        match nth_error (f_ptasks st) t with
        | Some (mkTask f PRdy) =>
            if f_pcancel st then Some (set_ptasks st (set_nth (f_ptasks st) t (mkTask f PCancel))) else None
        | _ => None
        end
    | PClose =>       (* errgroup.Wait returns; worker1 returns its error; syntaxCh is closed *)
        if negb (f_synclosed st) && forallb task_terminal (f_ptasks st)
        then Some (mkF (f_ptasks st) (f_pcancel st) (f_perrs st) true (f_disp st) (f_ctasks st)
                       (f_ccancel st) (f_cerrs st) (f_bld st) (f_added st)
                       (f_werrs st ++ first_err WParse (f_perrs st)))
        else None
    | DEnd =>         (* the dispatcher sees syntaxCh closed *)
        if dstat_eqb (f_disp st) DRecv && f_synclosed st then Some (set_disp st DWait) else None
    | DAbort =>       (* only in the variant without the drain: return at the first conversion error *)
        if negb drain && dstat_eqb (f_disp st) DRecv && negb (is_nil (f_cerrs st))
        then Some (set_disp st DWait) else None
    | DRet =>         (* wg.Wait returns; worker2 returns the first conversion error; modelCh is closed *)
        if dstat_eqb (f_disp st) DWait && forallb ctask_terminal (f_ctasks st)
        then Some (mkF (f_ptasks st) (f_pcancel st) (f_perrs st) (f_synclosed st) DDone (f_ctasks st)
                       (f_ccancel st) (f_cerrs st) (f_bld st) (f_added st)
                       (f_werrs st ++ first_err WConv (f_cerrs st)))
        else None
    | CConv c =>
        match nth_error (f_ctasks st) c with
        | Some (mkC f CNew) =>
            if cbad f
            then Some (mkF (f_ptasks st) (f_pcancel st) (f_perrs st) (f_synclosed st) (f_disp st)
                           (set_nth (f_ctasks st) c (mkC f CFail)) true (f_cerrs st ++ [f])
                           (f_bld st) (f_added st) (f_werrs st))
            else Some (set_ctasks st (set_nth (f_ctasks st) c (mkC f CRdy)))
        | _ => None
        end
    | CPush c =>      (* rendezvous on modelCh; the builder adds the directives of the file *)
        match nth_error (f_ctasks st) c with
        | Some (mkC f CRdy) =>
            if bstat_eqb (f_bld st) BRecv
            then
              if abad f
              then Some (mkF (f_ptasks st) (f_pcancel st) (f_perrs st) (f_synclosed st) (f_disp st)
                             (set_nth (f_ctasks st) c (mkC f CPushed)) (f_ccancel st) (f_cerrs st)
                             BFail (f_added st) (f_werrs st ++ [WAdd f]))
              else Some (mkF (f_ptasks st) (f_pcancel st) (f_perrs st) (f_synclosed st) (f_disp st)
                             (set_nth (f_ctasks st) c (mkC f CPushed)) (f_ccancel st) (f_cerrs st)
                             (f_bld st) (f_added st ++ [f]) (f_werrs st))
            else None
        | _ => None
        end
    | CObserve c =>
        match nth_error (f_ctasks st) c with
        | Some (mkC f CRdy) =>
            if f_ccancel st then Some (set_ctasks st (set_nth (f_ctasks st) c (mkC f CCancel))) else None
        | _ => None
        end
    | BEnd =>         (* the builder sees modelCh closed and delivers the journal *)
        if bstat_eqb (f_bld st) BRecv && dstat_eqb (f_disp st) DDone
        then Some (mkF (f_ptasks st) (f_pcancel st) (f_perrs st) (f_synclosed st) (f_disp st)
                       (f_ctasks st) (f_ccancel st) (f_cerrs st) BDone (f_added st) (f_werrs st))
        else None
    end.

  Definition fstep_or_stay (st : fstate) (l : flabel) : fstate :=
    match fstep l st with Some st' => st' | None => st end.
  Definition frun (sched : list flabel) (st : fstate) : fstate := fold_left fstep_or_stay sched st.

  Fixpoint feffective (sched : list flabel) (st : fstate) : nat :=
    match sched with
    | [] => 0
    | l :: rest =>
        match fstep l st with
        | Some st' => S (feffective rest st')
        | None => feffective rest st
        end
    end.

  (* the three workers have returned: p.Wait() returns *)
  Definition ffinished (st : fstate) : bool :=
    f_synclosed st && dstat_eqb (f_disp st) DDone && negb (bstat_eqb (f_bld st) BRecv).

  Definition fenabled (st : fstate) (l : flabel) : bool :=
    match fstep l st with Some _ => true | None => false end.

  (* the labels that can be enabled at all in st *)
  Definition flabels (st : fstate) : list flabel :=
    flat_map (fun t => [PSpawn t; PParsed t; PPush t; PObserve t]) (seq 0 (length (f_ptasks st))) ++
    [PClose; DEnd; DAbort; DRet; BEnd] ++
    flat_map (fun c => [CConv c; CPush c; CObserve c]) (seq 0 (length (f_ctasks st))).

  (* a canonical scheduler: the first enabled label *)
  Definition fpick (st : fstate) : option flabel := find (fenabled st) (flabels st).

  Fixpoint fdrain (fuel : nat) (st : fstate) : fstate :=
    match fuel with
    | 0 => st
    | S k => match fpick st with
             | Some l => fdrain k (fstep_or_stay st l)
             | None => st
             end
    end.

  (* what FromPath returns *)
  Inductive foutcome := FOk (files : list nat) | FErr (e : werr) | FRunning.
  Definition foutcome_of (st : fstate) : foutcome :=
    if ffinished st
    then match f_werrs st with e :: _ => FErr e | [] => FOk (f_added st) end
    else FRunning.

  (* an error of the outer pool names a stage function that did fail *)
  Definition genuine (e : werr) : bool :=
    match e with WParse f => bad f | WConv f => cbad f | WAdd f => abad f end.

  (* a goroutine is blocked forever in cpr.Push: nothing is enabled and a task still wants to send *)
  Definition stuck_pusher (st : fstate) : bool :=
    existsb (fun t => match t_st t with PRdy => true | _ => false end) (f_ptasks st) ||
    existsb (fun c => match c_st c with CRdy => true | _ => false end) (f_ctasks st).
End FromPath.
