(* The repaired variants of the model functions that can panic (findings/C14-*.patch), and the
   commands on top of the include loader.  Nothing here changes Model/Cli.v, Ledger.v or
   Account.v: the pinned functions stay as they are, the repaired ones are new definitions.

   pinned                                   repaired
   transaction.expand: NewPartition panics  returns an error at exactly that place
     on a zero start, QuoRem divides by 0     (C14-accrual-window.patch)
     for an empty window
   Multiperiod.Partition: NewPartition      returns an error when the clipped period starts at
     panics on a zero start                    the zero time (C14-zero-start.patch)
   -m with negative level/suffix: slice     MappingFlag.Set rejects negative numbers
     bounds panic in account.Shorten           (C14-mapping-negative.patch)
   parseRec: unbounded recursion on cycles  ancestor check (C14-include-cycle.patch), Model/Loader.v *)
From Coq Require Import ZArith List Bool.
From Knut Require Import Model.Str Model.Dec Model.Date Model.Account Model.Ledger Model.Price
     Model.Journal Model.Check Model.Pipeline Model.Table Model.Report Model.JPrinter Model.Cli Model.Loader.
Import ListNotations.
Open Scope bool_scope.
Open Scope Z_scope.

Module CliSafeM.

(* ---------------------------------------------------------------- lib/model *)

(* the loop body of transaction.expand with the two added checks: the error is returned
   exactly where the pinned code panics, everything else is unchanged *)
Definition expand_posting_safe (t : txn) (ac : accrual) (p : posting) : mresult (list txn) :=
  match expand_posting t ac p with
  | MPanic m => MErr m
  | r => r
  end.

Fixpoint expand_postings_safe (t : txn) (ac : accrual) (ps : list posting) : mresult (list txn) :=
  match ps with
  | [] => MOk []
  | p :: rest =>
    mbind (expand_posting_safe t ac p) (fun l1 =>
    mbind (expand_postings_safe t ac rest) (fun l2 => MOk (l1 ++ l2)))
  end.

Definition expand_safe (t : txn) (ac : accrual) : mresult (list txn) :=
  mbind (check_account (ac_account ac)) (fun _ => expand_postings_safe t ac (t_postings t)).

Definition txn_create_safe (s : stxn) : mresult (list txn) :=
  mbind (postings_create (st_bookings s)) (fun ps =>
  let t := mkTxn (st_date s) (st_desc s) ps (st_targets s) in
  match st_accrual s with
  | Some ac => expand_safe t ac
  | None => MOk [t]
  end).

Definition parse_directive_safe (s : sdirective) : mresult (list directive) :=
  match s with
  | STxn t => mbind (txn_create_safe t) (fun ts => MOk (map DTxn ts))
  | _ => parse_directive s
  end.

Fixpoint parse_directives_safe (l : list sdirective) : mresult (list directive) :=
  match l with
  | [] => MOk []
  | s :: rest =>
    mbind (parse_directive_safe s) (fun ds =>
    mbind (parse_directives_safe rest) (fun ds' => MOk (ds ++ ds')))
  end.

Definition load_safe (ds : list sdirective) : cresult builder :=
  cbind (of_mresult (parse_directives_safe ds)) (fun l => COk (builder_of l)).

(* ---------------------------------------------------------------- flags *)

Definition k_flag : str := [102;108;97;103].   (* flag *)

(* MappingFlag.Set with the added check *)
Definition mapping_flag_ok (m : list rule) : bool :=
  forallb (fun r => (0 <=? r_level r) && (0 <=? r_suffix r)) m.

(* account.Shorten is unchanged by the repair; on non-negative numbers it needs no panic
   branch: [shorten_safe] is [shorten] there (NoPanic.shorten_safe_agrees) *)
Definition shorten_safe (m : list rule) (a : account) : option account :=
  match m with
  | [] => Some a
  | _ =>
    match mapping_level m (acc_name a) with
    | None => Some a
    | Some (level, suffix) =>
      if level =? 0 then None
      else if acc_level a <=? suffix then Some a
      else if acc_level a - suffix <? level then Some a
      else
        let split_pos := Z.to_nat (acc_level a - suffix) in
        Some (firstn (Z.to_nat level) (firstn split_pos a) ++ skipn split_pos a)
    end
  end.

Definition shorten_result_of (o : option account) : shorten_result :=
  match o with Some a => ShAcc a | None => ShHidden end.

(* Multiperiod.Partition with the added check *)
Definition cfg_partition_safe (cfg : balance_cfg) (b : builder) : cresult partition :=
  let p := clip (mkPeriod (bc_from cfg) (bc_to cfg)) (builder_period b) in
  if p_start p =? 0 then CErr k_zerotime []
  else match new_partition p (bc_interval cfg) (bc_last cfg) with
       | POk pt => COk pt
       | PPanic => CPanic k_zerotime
       | POutOfFuel => CPanic k_fuel
       end.

(* ---------------------------------------------------------------- commands *)

(* balanceRunner.execute of the repaired code; flag errors come first (cobra parses the flags
   before the command runs) *)
Definition balance_report_safe (cfg : balance_cfg) (ds : list sdirective) : cresult (report * partition) :=
  if negb (mapping_flag_ok (bc_mapping cfg)) then CErr k_flag [] else
  cbind (match bc_valuation cfg with
         | Some v => if valid_commodity v then COk tt else CErr k_valuation v
         | None => COk tt end) (fun _ =>
  cbind (load_safe ds) (fun b =>
  cbind (cfg_partition_safe cfg b) (fun part =>
  let b := if bc_close cfg then builder_touch b (start_dates part) else b in
  let days := b_days b in
  cbind (run_stage (check_proc_current (bc_lenient cfg)) check_init days) (fun r1 =>
  cbind (match bc_valuation cfg with
         | Some v =>
           cbind (run_stage (compute_prices_proc v) (mkCp [] None) (snd r1)) (fun r2 =>
           cbind (run_stage (valuate_proc v) (mkVal None None []) (snd r2)) (fun r3 => COk (snd r3)))
         | None => COk (snd r1)
         end) (fun days =>
  cbind (run_stage (filter_proc (span part)) tt days) (fun r4 =>
  cbind (if bc_close cfg
         then cbind (run_stage (close_proc (start_dates part)) (mkClose [] []) (snd r4)) (fun r5 => COk (snd r5))
         else COk (snd r4)) (fun days =>
  cbind (run_stage (query_proc (balance_query cfg part) report_insert) new_report days) (fun r6 =>
  COk (fst r6, part))))))))).

Definition balance_table_safe (cfg : balance_cfg) (ds : list sdirective) : cresult table :=
  cbind (balance_report_safe cfg ds) (fun rp =>
  COk (render_report (mkRenderCfg (bc_valuation cfg) (bc_details cfg) (bc_alpha cfg) (bc_diff cfg))
                     (fst rp) (end_dates (snd rp)))).

Definition balance_csv_safe (cfg : balance_cfg) (ds : list sdirective) : cresult str :=
  cbind (balance_table_safe cfg ds) (fun t => COk (render_csv t)).

Definition balance_text_safe (cfg : balance_cfg) (tc : text_cfg) (ds : list sdirective) : cresult str :=
  cbind (balance_table_safe cfg ds) (fun t => COk (render_text tc t)).

Definition check_cmd_safe (lenient : bool) (ds : list sdirective) : cresult unit :=
  cbind (load_safe ds) (fun b =>
  cbind (run_stage (check_proc lenient) check_init (b_days b)) (fun _ => COk tt)).

Definition print_cmd_safe (lenient : bool) (ds : list sdirective) : cresult str :=
  cbind (load_safe ds) (fun b =>
  cbind (run_stage (check_proc_current lenient) check_init (b_days b)) (fun _ =>
  COk (print_journal (b_days b)))).

(* ---------------------------------------------------------------- commands on a file tree *)

Definition k_load : str := [108;111;97;100].       (* load *)
Definition k_cycle : str := [99;121;99;108;101].   (* cycle *)
Definition k_missing : str := [109;105;115;115;105;110;103].
Definition k_badfile : str := [98;97;100;102;105;108;101].

Definition lerror_name (e : lerror) : str :=
  match e with ECycle _ => k_cycle | EMissing _ => k_missing | EBad _ => k_badfile end.

(* journal.FromPath on the repaired loader, then the command *)
Definition run_fs {A} (fs : fsys) (root : path) (k : list sdirective -> cresult A) : cresult A :=
  match LoaderM.load (fuel_for fs) fs root with
  | LOk ds => k ds
  | LErr e => CErr k_load (lerror_name e)
  | LOutOfFuel => CPanic k_fuel
  end.

Inductive predicted := PredOK | PredERR | PredPANIC.
Definition predict {A} (r : cresult A) : predicted :=
  match r with COk _ => PredOK | CErr _ _ => PredERR | CPanic _ => PredPANIC end.

Definition check_fs (lenient : bool) (fs : fsys) (root : path) : predicted :=
  predict (run_fs fs root (check_cmd_safe lenient)).
Definition print_fs (lenient : bool) (fs : fsys) (root : path) : predicted :=
  predict (run_fs fs root (print_cmd_safe lenient)).
Definition balance_fs (cfg : balance_cfg) (fs : fsys) (root : path) : predicted :=
  predict (run_fs fs root (balance_table_safe cfg)).

(* the pinned commands on the same (repaired) loader: what the unpatched code does on an
   acyclic tree *)
Definition check_fs_pinned (lenient : bool) (fs : fsys) (root : path) : predicted :=
  predict (run_fs fs root (check_cmd lenient)).
Definition print_fs_pinned (lenient : bool) (fs : fsys) (root : path) : predicted :=
  predict (run_fs fs root (print_cmd lenient)).
Definition balance_fs_pinned (cfg : balance_cfg) (fs : fsys) (root : path) : predicted :=
  predict (run_fs fs root (balance_table cfg)).

(* "some file of the include graph cannot be loaded (missing, unreadable, unparseable) or
   includes itself": the loader's error, if any (LoaderProofs.included_error_fails_all,
   cycle_is_error) *)
Definition load_error (fs : fsys) (root : path) : option str :=
  match LoaderM.load (fuel_for fs) fs root with LErr e => Some (lerror_name e) | _ => None end.

End CliSafeM.
Export CliSafeM.
