(* Model of include resolution: lib/syntax/syntax.go ParseFileRecursively / parseRec.

   A file system is an association list from cleaned relative paths (segment lists) to file
   contents; a file is either a list of items (syntax-level directives and include directives)
   or "bad" (unreadable, a directory, or it does not parse).  An include is resolved with
   path.Join(filepath.Dir(file), target): the including file's directory, the target split at
   '/', lexically cleaned ("" and "." dropped, ".." cancels the preceding segment).

   Go runs one goroutine per file in an errgroup and Wait()s for all of them: every include is
   followed whatever happens elsewhere.  [seq] is that combination: a branch that never ends
   makes the whole load never end; otherwise the first error (in document order) is the
   result; otherwise the directives are concatenated (knut's results do not depend on the
   arrival order of the files, C05/C06).

   Two loaders:
   - [load_pinned]: the code as pinned - no cycle detection.  On a cyclic include graph the
     recursion never ends; in the model: OutOfFuel for every fuel.
   - [load]: the repaired code (findings/C14-include-cycle.patch): parseRec carries the chain
     of including files; a file that is its own ancestor is an error.  A diamond is not a
     cycle: the shared file is loaded once per including file, exactly as before. *)
From Coq Require Import ZArith List Bool.
From Knut Require Import Model.Str Model.Ledger.
Import ListNotations.
Open Scope bool_scope.
Open Scope Z_scope.

Module LoaderM.

Definition path := list str.

Definition slash : Z := 47.
Definition s_dot : str := [46].
Definition s_dotdot : str := [46; 46].

(* strings.Split(s, "/") *)
Fixpoint split_slash_aux (s : str) (cur : str) : list str :=
  match s with
  | [] => [rev cur]
  | c :: t => if c =? slash then rev cur :: split_slash_aux t [] else split_slash_aux t (c :: cur)
  end.
Definition split_slash (s : str) : list str := split_slash_aux s [].

(* path.Clean on a relative path given by its raw segments; [acc] is the stack of kept
   segments, innermost first *)
Fixpoint clean_aux (segs : list str) (acc : list str) : path :=
  match segs with
  | [] => rev acc
  | s :: rest =>
    if str_eqb s [] || str_eqb s s_dot then clean_aux rest acc
    else if str_eqb s s_dotdot then
      match acc with
      | [] => clean_aux rest [s_dotdot]
      | top :: acc' => if str_eqb top s_dotdot then clean_aux rest (s_dotdot :: acc) else clean_aux rest acc'
      end
    else clean_aux rest (s :: acc)
  end.
Definition clean (segs : list str) : path := clean_aux segs [].

(* the path of the command line argument *)
Definition path_of_string (s : str) : path := clean (split_slash s).

(* filepath.Dir: everything but the last segment *)
Definition dir (p : path) : path := removelast p.

(* path.Join(filepath.Dir(file), target) *)
Definition resolve (file : path) (target : str) : path := clean (dir file ++ split_slash target).

Inductive item := IDir (d : sdirective) | IInc (target : str).
Inductive fcontent := FOk (items : list item) | FBad.
Definition fsys := list (path * fcontent).

Fixpoint path_eqb (a b : path) : bool :=
  match a, b with
  | [], [] => true
  | x :: a', y :: b' => str_eqb x y && path_eqb a' b'
  | _, _ => false
  end.

Fixpoint lookup (fs : fsys) (p : path) : option fcontent :=
  match fs with
  | [] => None
  | (q, c) :: rest => if path_eqb p q then Some c else lookup rest p
  end.

Definition mem_path (p : path) (l : list path) : bool := existsb (path_eqb p) l.

Inductive lerror := ECycle (p : path) | EMissing (p : path) | EBad (p : path).
Inductive lresult := LOk (ds : list sdirective) | LErr (e : lerror) | LOutOfFuel.

(* errgroup: all branches run to their end *)
Definition seq (r1 r2 : lresult) : lresult :=
  match r1, r2 with
  | LOutOfFuel, _ => LOutOfFuel
  | _, LOutOfFuel => LOutOfFuel
  | LErr e, _ => LErr e
  | _, LErr e => LErr e
  | LOk a, LOk b => LOk (a ++ b)
  end.

Section Items.
  (* what loading the file behind an include yields *)
  Variable sub : str -> lresult.
  Fixpoint load_items (its : list item) : lresult :=
    match its with
    | [] => LOk []
    | IDir d :: rest => seq (LOk [d]) (load_items rest)
    | IInc t :: rest => seq (sub t) (load_items rest)
    end.
End Items.

(* the pinned loader: no cycle detection *)
Fixpoint load_pinned (fuel : nat) (fs : fsys) (p : path) : lresult :=
  match fuel with
  | O => LOutOfFuel
  | S f =>
    match lookup fs p with
    | None => LErr (EMissing p)
    | Some FBad => LErr (EBad p)
    | Some (FOk items) => load_items (fun t => load_pinned f fs (resolve p t)) items
    end
  end.

(* the repaired loader: [anc] is the chain of including files *)
Fixpoint load_file (fuel : nat) (fs : fsys) (anc : list path) (p : path) : lresult :=
  match fuel with
  | O => LOutOfFuel
  | S f =>
    if mem_path p anc then LErr (ECycle p)
    else
      match lookup fs p with
      | None => LErr (EMissing p)
      | Some FBad => LErr (EBad p)
      | Some (FOk items) => load_items (fun t => load_file f fs (p :: anc) (resolve p t)) items
      end
  end.

Definition load (fuel : nat) (fs : fsys) (root : path) : lresult := load_file fuel fs [] root.

(* the include chain consists of distinct files of fs: its length is at most |fs| *)
Definition fuel_for (fs : fsys) : nat := S (length fs).

End LoaderM.
Export LoaderM.
