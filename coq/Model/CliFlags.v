(* The commands behind their command lines: cobra parses and validates the flags (Model/Flags.v),
   then the command's Run function evaluates the flag values that need the file system or the
   registry (--cpuprofile, --universe, -v) and runs the command (Model/CliSafe.v, CliSafeMore.v
   over the include loader).  The result is the exit class only.

   [today] stands for date.Today(), the default of --to. *)
From Coq Require Import ZArith List Bool.
From Knut Require Import Model.Str Model.Date Model.Account Model.Ledger Model.Cli Model.Loader
     Model.CliSafe Model.CliPortfolio Model.CliSafeMore Model.Flags.
Import ListNotations.
Open Scope bool_scope.
Open Scope Z_scope.

Module CliFlagsM.

(* ---------------------------------------------------------------- flag values -> configurations *)

(* IntervalFlags.Value: the first flag that is true, in the order of date.Interval *)
Definition interval_of (sets : list setting) : interval :=
  if get_bool n_once false sets then Once
  else if get_bool n_days false sets then Daily
  else if get_bool n_weeks false sets then Weekly
  else if get_bool n_months false sets then Monthly
  else if get_bool n_quarters false sets then Quarterly
  else if get_bool n_years false sets then Yearly
  else Once.

Definition get_date (name : str) (def : Z) (sets : list setting) : Z :=
  match last_value name sets with Some (VDate d) => d | _ => def end.

(* a RegexFlag: all its patterns; None when the meaning of one of them is outside Model/Str.v *)
Fixpoint rxs_of (vs : list fvalue) : option (list rx) :=
  match vs with
  | [] => Some []
  | VRegex src :: t =>
    match rx_sem src, rxs_of t with
    | Some l, Some r => Some (l ++ r)
    | _, _ => None
    end
  | _ :: t => rxs_of t
  end.

(* a MappingFlag: its rules (a rule holds one expression) *)
Fixpoint rules_of (vs : list fvalue) : option (list rule) :=
  match vs with
  | [] => Some []
  | VRule l sf r :: t =>
    match rules_of t with
    | None => None
    | Some rest =>
      match r with
      | None => Some (mkRule l sf None :: rest)
      | Some src => match rx_sem src with
                    | Some [x] => Some (mkRule l sf (Some x) :: rest)
                    | _ => None
                    end
      end
    end
  | _ :: t => rules_of t
  end.

(* CommodityFlag: the empty string is "no valuation" *)
Definition valuation_of (sets : list setting) : option commodity :=
  match get_str n_val [] sets with [] => None | v => Some v end.

Definition balance_cfg_of (today : Z) (sets : list setting) : option balance_cfg :=
  match rules_of (all_values n_map sets), rxs_of (all_values n_remap sets), rxs_of (all_values n_account sets),
        rxs_of (all_values n_commodity sets), rxs_of (all_values n_show sets) with
  | Some m, Some rm, Some ac, Some co, Some sh =>
    Some (mkBalanceCfg (get_date n_from 0 sets) (get_date n_to today sets) (interval_of sets) (get_int n_last sets)
                       (get_bool n_diff false sets) (get_bool n_close true sets) (valuation_of sets)
                       (get_bool n_sort false sets) m rm ac co sh true)
  | _, _, _, _, _ => None
  end.

Definition pf_cfg_of (today : Z) (sets : list setting) : option pf_cfg :=
  match rules_of (all_values n_map sets), rxs_of (all_values n_account sets), rxs_of (all_values n_commodity sets) with
  | Some m, Some ac, Some co =>
    Some (mkPfCfg (get_date n_from 0 sets) (get_date n_to today sets) (interval_of sets) (get_int n_last sets)
                  (valuation_of sets) ac co m (get_bool n_sort false sets) None true)
  | _, _, _ => None
  end.

(* ---------------------------------------------------------------- flag values that name files *)

Definition file_ok (fs : fsys) (p : path) : bool :=
  match lookup fs p with Some (FOk _) => true | _ => false end.

Fixpoint is_path_prefix (d p : path) : bool :=
  match d, p with
  | [], _ => true
  | x :: d', y :: p' => str_eqb x y && is_path_prefix d' p'
  | _ :: _, [] => false
  end.

(* os.Create(--cpuprofile): Some true = created, Some false = log.Fatal (exit 1), None = no opinion *)
Definition profile_check (fs : fsys) (sets : list setting) : option bool :=
  match get_str n_cpuprofile [] sets with
  | [] => Some true                                   (* no profile *)
  | v =>
    let p := path_of_string v in
    match p with
    | [] => Some false                                (* the working directory itself *)
    | _ =>
      let d := dir p in
      match d with
      | [] => (match lookup fs p with None => Some true | Some _ => None end)
      | _ =>
        if existsb (fun e => is_path_prefix d (fst e) && (length d <? length (fst e))%nat) fs
        then (match lookup fs p with None => Some true | Some _ => None end)
        else match lookup fs d with None => Some false | Some _ => None end
      end
    end
  end.

(* performance.LoadUniverseFromFile(--universe): Some true = no universe asked for, Some false = the
   file cannot be opened, None = no opinion (the YAML reader is not modelled) *)
Definition universe_check (fs : fsys) (sets : list setting) : option bool :=
  match get_str n_universe [] sets with
  | [] => Some true
  | v => match lookup fs (path_of_string v) with None => Some false | Some _ => None end
  end.

(* r.valuation.Value(reg): the registry rejects a name that is not letters and digits *)
Definition valuation_ok (sets : list setting) : bool :=
  match valuation_of sets with None => true | Some v => commodity_name_ok v end.

(* ---------------------------------------------------------------- the commands *)

Inductive outcome :=
| ORejected (e : perr)       (* usage error: exit 1, nothing but the diagnostic and the usage text on stderr *)
| OHelp                      (* exit 0 *)
| ORun (p : predicted)       (* the command ran: its class *)
| ONone.                     (* the model has no opinion *)

Definition root_of (pos : list str) : path :=
  match pos with p :: _ => path_of_string p | [] => [] end.

(* --digits beyond this only costs time (finding F17): no opinion *)
Definition digits_modelled (sets : list setting) : bool :=
  (-1000 <=? get_int n_digits sets) && (get_int n_digits sets <=? 1000).

Definition run_command (c : command) (today : Z) (sets : list setting) (pos : list str) (fs : fsys) : outcome :=
  let root := root_of pos in
  match c with
  | CmdCheck =>
    let p := check_fs true fs root in
    if get_bool n_nocheck false sets then
      match load_error fs root, p with
      | Some _, _ => ORun PredERR
      | None, PredOK => ORun PredOK
      | None, _ => ONone
      end
    else ORun p
  | CmdPrint => ORun (print_fs true fs root)
  | CmdFormat =>
    ORun (if forallb (fun a => file_ok fs (path_of_string a)) pos then PredOK else PredERR)
  | CmdInfer =>
    let t := path_of_string (get_str n_training [] sets) in
    match LoaderM.load (fuel_for fs) fs t with
    | LOk _ => ORun (if file_ok fs root then PredOK else PredERR)
    | LErr _ => ORun PredERR
    | LOutOfFuel => ORun PredPANIC
    end
  | CmdTranscode =>
    if negb (valuation_ok sets) then ORun PredERR
    else ORun (transcode_fs true (valuation_of sets) fs root)
  | CmdBalance =>
    match profile_check fs sets with
    | Some false => ORun PredERR
    | None => ONone
    | Some true =>
      if negb (valuation_ok sets) then ORun PredERR
      else match balance_cfg_of today sets with
           | None => ONone
           | Some cfg => if digits_modelled sets then ORun (balance_fs cfg fs root) else ONone
           end
    end
  | CmdWeights =>
    match universe_check fs sets with
    | Some false => ORun PredERR
    | None => ONone
    | Some true =>
      if negb (valuation_ok sets) then ORun PredERR
      else match pf_cfg_of today sets with
           | None => ONone
           | Some cfg => if digits_modelled sets then ORun (weights_fs cfg fs root) else ONone
           end
    end
  | CmdReturns =>
    match profile_check fs sets with
    | Some false => ORun PredERR
    | None => ONone
    | Some true =>
      if negb (valuation_ok sets) then ORun PredERR
      else match pf_cfg_of today sets with
           | None => ONone
           | Some cfg => ORun (returns_fs cfg fs root)
           end
    end
  end.

(* knut <command words> argv, in a file tree *)
Definition run_argv (c : command) (today : Z) (argv : list str) (fs : fsys) : outcome :=
  match parse_cmdline c argv with
  | CLRejected e => ORejected e
  | CLHelp => OHelp
  | CLRun sets pos => run_command c today sets pos fs
  end.

End CliFlagsM.
Export CliFlagsM.
