(* Model of lib/journal/performance/universe.go (Universe.Locate) and
   lib/reports/weights/weights.go (Query.Execute, Report.Add, PropagateWeights, SortWeighted,
   Renderer), with exact rationals where the Go code has float64 (see Model/Perf.v: float
   rounding is not modelled; [None] stands for a value that is not a finite number in Go,
   i.e. a weight computed with a zero total). *)
From Coq Require Import ZArith QArith List Bool.
From Knut Require Import Model.Str Model.Dec Model.Date Model.Account Model.Ledger Model.Price
     Model.Journal Model.Report Model.Perf.
Import ListNotations.
Open Scope bool_scope.
Open Scope Z_scope.

(* ---------------------------------------------------------------- Universe *)

(* Universe: commodity -> class segments ++ [commodity name] (fromYAML) *)
Definition universe := smap (list str).

Definition s_Other : str := [79;116;104;101;114].

(* Universe.Locate *)
Definition locate (u : universe) (c : commodity) : list str :=
  match sm_get u c with
  | Some class => class
  | None => [s_Other; c]
  end.

(* fromYAML for one class: append(strings.Split(class, ":"), name) *)
Definition universe_add (u : universe) (class : str) (c : commodity) : universe :=
  sm_put u c (split_colon class ++ [c]).

(* ---------------------------------------------------------------- Query.Execute *)

(* the -m mapping applied to a located path:
     level, suffix, ok := Mapping.Level(strings.Join(ss, ":"))
     if ok && level < len(ss)-suffix { ss = append(ss[:level], ss[len(ss)-suffix:]...) }
   as specified, i.e. on a fresh slice (the Go code appends into the slice stored in the
   universe, see findings/C20-universe-aliasing.md).  None = a Go slice-bounds panic. *)
Definition map_path (m : list rule) (ss : list str) : option (list str) :=
  match mapping_level m (join [colon] ss) with
  | None => Some ss
  | Some (level, suffix) =>
    let n := Z.of_nat (length ss) in
    if level <? n - suffix then
      if (level <? 0) || (suffix <? 0) then None
      else Some (firstn (Z.to_nat level) ss ++ skipn (Z.to_nat (n - suffix)) ss)
    else Some ss
  end.

(* one r.Add call: path, date, weight *)
Definition entry := (list str * Z * option Q)%type.

Inductive wresult (A : Type) := WOk (a : A) | WPanic.
Arguments WOk {A} a.
Arguments WPanic {A}.

(* the body of the DayEnd callback for a day that is a period end:
   total = sum of V1; for every commodity r.Add(path, date, v / total) *)
Fixpoint day_entries (u : universe) (m : list rule) (date : Z) (total : Q) (v1 : pcv) : wresult (list entry) :=
  match v1 with
  | [] => WOk []
  | (c, v) :: rest =>
    match map_path m (locate u c) with
    | None => WPanic
    | Some ss =>
      match day_entries u m date total rest with
      | WPanic => WPanic
      | WOk l => WOk ((ss, date, qdiv v total) :: l)
      end
    end
  end.

(* all r.Add calls of a run: the days whose date is a period end, in day order *)
Fixpoint query_entries (u : universe) (m : list rule) (ends : list Z) (l : list (Z * (pcv * pcv)))
  : wresult (list entry) :=
  match l with
  | [] => WOk []
  | (d, (_, v1)) :: rest =>
    if existsb (Z.eqb d) ends then
      match day_entries u m d (pcv_sum v1) v1 with
      | WPanic => WPanic
      | WOk es =>
        match query_entries u m ends rest with
        | WPanic => WPanic
        | WOk es' => WOk (es ++ es')
        end
      end
    else query_entries u m ends rest
  end.

(* ---------------------------------------------------------------- Report *)

(* Value.Weights: date -> weight, sorted by date *)
Definition wmap := list (Z * option Q).

Definition oadd (a b : option Q) : option Q :=
  match a, b with Some x, Some y => Some (qadd x y) | _, _ => None end.

Fixpoint wm_get (m : wmap) (d : Z) : option (option Q) :=
  match m with
  | [] => None
  | (d', w) :: rest => if d =? d' then Some w else wm_get rest d
  end.

(* Weights[date] += w *)
Fixpoint wm_add (m : wmap) (d : Z) (w : option Q) : wmap :=
  match m with
  | [] => [(d, w)]
  | (d', w') :: rest =>
    if d =? d' then (d', oadd w' w) :: rest
    else if d <? d' then (d, w) :: m
    else (d', w') :: wm_add rest d w
  end.

Definition wm_plus (a b : wmap) : wmap := fold_left (fun acc kv => wm_add acc (fst kv) (snd kv)) b a.

(* multimap.Node[Value]: Segment, Value.Leaf, Value.Weights, Children.  The children are kept
   in alphabetical order of their segment (the Go map has no order; the renderer sorts) *)
Inductive wnode := WNode (seg : str) (leaf : bool) (weights : wmap) (children : list wnode).

Definition wn_seg (n : wnode) := match n with WNode s _ _ _ => s end.
Definition wn_leaf (n : wnode) := match n with WNode _ l _ _ => l end.
Definition wn_weights (n : wnode) := match n with WNode _ _ w _ => w end.
Definition wn_children (n : wnode) := match n with WNode _ _ _ c => c end.

Definition wn_new (s : str) : wnode := WNode s false [] [].

(* GetDefault(n.Children, head, New) followed by [f] on that child *)
Fixpoint wchildren_upd (h : str) (f : wnode -> wnode) (l : list wnode) : list wnode :=
  match l with
  | [] => [f (wn_new h)]
  | c :: rest =>
    match str_cmp h (wn_seg c) with
    | Eq => f c :: rest
    | Lt => f (wn_new h) :: l
    | Gt => c :: wchildren_upd h f rest
    end
  end.

(* Report.Add: GetOrCreate(ss), then Leaf = true and Weights[date] += w *)
Fixpoint wn_add (ss : list str) (date : Z) (w : option Q) (n : wnode) : wnode :=
  match ss with
  | [] => WNode (wn_seg n) true (wm_add (wn_weights n) date w) (wn_children n)
  | h :: tl => WNode (wn_seg n) (wn_leaf n) (wn_weights n) (wchildren_upd h (wn_add tl date w) (wn_children n))
  end.

Definition wroot : wnode := wn_new [].

Definition report_of (es : list entry) : wnode :=
  fold_left (fun n e => let '(ss, d, w) := e in wn_add ss d w n) es wroot.

(* Report.dates: the set of dates of the Add calls, sorted *)
Fixpoint insert_date (d : Z) (l : list Z) : list Z :=
  match l with
  | [] => [d]
  | x :: rest => if d =? x then l else if d <? x then d :: l else x :: insert_date d rest
  end.
Definition report_dates (es : list entry) : list Z :=
  fold_left (fun l e => let '(_, d, _) := e in insert_date d l) es [].

(* PropagateWeights: post-order; every node adds the (already propagated) weights of its
   children to its own *)
Fixpoint propagate (n : wnode) : wnode :=
  match n with
  | WNode s lf w ch =>
    let ch' := map propagate ch in
    WNode s lf (fold_left (fun acc c => wm_plus acc (wn_weights c)) ch' w) ch'
  end.

(* SortWeighted: Weight = - sum over dates; ascending by Weight.  sort.Slice is not stable and
   the Go map order is random: siblings of equal weight appear in any order; here they keep
   their alphabetical order. *)
Definition wn_total (n : wnode) : Q :=
  fold_left (fun acc kv => match snd kv with Some q => qadd acc q | None => acc end) (wn_weights n) 0%Q.

Definition heavier (a b : wnode) : bool :=
  match Qcompare (wn_total a) (wn_total b) with Gt => true | _ => false end.

Fixpoint sort_weighted (n : wnode) : wnode :=
  match n with
  | WNode s lf w ch => WNode s lf w (sort_by heavier (map sort_weighted ch))
  end.

(* ---------------------------------------------------------------- Renderer *)

(* a table row: indent, label, one cell per date.  Cell: None = empty (no weight for that
   date, or a weight that is zero), Some w = AddPercent(w) *)
Definition wrow := (Z * str * list (option (option Q)))%type.

Definition wcell (w : wmap) (d : Z) : option (option Q) :=
  match wm_get w d with
  | Some (Some q) => if q_is_zero q then None else Some (Some q)
  | Some None => Some None
  | None => None
  end.

Fixpoint render_wnode (dates : list Z) (indent : Z) (n : wnode) : list wrow :=
  match n with
  | WNode s _ w ch =>
    (indent, s, map (wcell w) dates) :: flat_map (render_wnode dates (indent + 2)) ch
  end.

(* Renderer.Render without the table cells: the rows below the header *)
Definition render_weights (alpha : bool) (es : list entry) : list Z * list wrow :=
  let r := propagate (report_of es) in
  let r := if alpha then r else sort_weighted r in
  let dates := report_dates es in
  (dates, flat_map (render_wnode dates 0) (wn_children r)).

(* ---------------------------------------------------------------- CSV layout *)

Definition s_Commodity : str := [67;111;109;109;111;100;105;116;121].
Definition s_NaN : str := [78;97;78].

(* a rational with [places] decimals, rounded half away from zero *)
Definition q_fixed (q : Q) (places : Z) : str :=
  let n := Qnum q * pow10 places in
  let d := Zpos (Qden q) in
  let r := (2 * Z.abs n + d) / (2 * d) in
  to_string_gen false (mkDec (if n <? 0 then - r else r) (- places)).

(* the CSV renderer writes a percent cell with "%f" (6 decimals); the model writes 9 decimals
   of the exact weight, and "NaN" where the weight is not a finite number in Go *)
Definition csv_wcell (c : option (option Q)) : str :=
  match c with
  | None => []
  | Some None => s_NaN
  | Some (Some q) => q_fixed q 9
  end.

Definition weights_csv (t : list Z * list wrow) : str :=
  let '(dates, rows) := t in
  join [44] (s_Commodity :: map format_date dates) ++ [10] ++
  concat (map (fun r => let '(_, s, cells) := r in join [44] (s :: map csv_wcell cells) ++ [10]) rows).
