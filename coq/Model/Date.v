(* Model of lib/common/date/date.go and of the part of Go's time package it uses.
   Dates are days (Z); day 0 = 0001-01-01 (Go's zero time.Time), a Monday.
   Executable definitions only; proofs live in Proofs/DateProofs.v.          *)
From Coq Require Import ZArith List Bool.
Import ListNotations.
Open Scope bool_scope.
Open Scope Z_scope.

(* ---------------------------------------------------------------- calendar *)
(* Proleptic Gregorian calendar, H. Hinnant's civil_from_days / days_from_civil,
   shifted so that day 0 = 0001-01-01.  Z.div / Z.modulo are floor division.  *)

Definition civil (d : Z) : Z * Z * Z :=
  let z := d + 306 in
  let era := z / 146097 in
  let doe := z - era * 146097 in
  let yoe := (doe - doe / 1460 + doe / 36524 - doe / 146096) / 365 in
  let y := yoe + era * 400 in
  let doy := doe - (365 * yoe + yoe / 4 - yoe / 100) in
  let mp := (5 * doy + 2) / 153 in
  let dd := doy - (153 * mp + 2) / 5 + 1 in
  let m := if mp <? 10 then mp + 3 else mp - 9 in
  (if m <=? 2 then y + 1 else y, m, dd).

Definition of_civil (y m dd : Z) : Z :=
  let y' := if m <=? 2 then y - 1 else y in
  let era := y' / 400 in
  let yoe := y' - era * 400 in
  let doy := (153 * (if 2 <? m then m - 3 else m + 9) + 2) / 5 + dd - 1 in
  let doe := yoe * 365 + yoe / 4 - yoe / 100 + doy in
  era * 146097 + doe - 306.

Definition year_of (d : Z) : Z := fst (fst (civil d)).
Definition month_of (d : Z) : Z := snd (fst (civil d)).
Definition day_of (d : Z) : Z := snd (civil d).

Definition is_leap (y : Z) : bool :=
  ((y mod 4 =? 0) && negb (y mod 100 =? 0)) || (y mod 400 =? 0).

Definition days_in_month (y m : Z) : Z :=
  if m =? 2 then (if is_leap y then 29 else 28)
  else if (m =? 4) || (m =? 6) || (m =? 9) || (m =? 11) then 30 else 31.

(* time.Date(y, m, dd, 0,0,0,0, UTC) with Go's normalisation of out-of-range months and
   days: months are folded into years, then the day offset is added as days. *)
Definition go_date (y m dd : Z) : Z :=
  let m0 := m - 1 in
  of_civil (y + m0 / 12) (m0 mod 12 + 1) 1 + (dd - 1).

(* t.AddDate(years, months, days) for a midnight-UTC t *)
Definition add_date (d years months days : Z) : Z :=
  let '(y, m, dd) := civil d in go_date (y + years) (m + months) (dd + days).

(* time.Weekday: Sunday = 0 ... Saturday = 6; day 0 is a Monday *)
Definition weekday (d : Z) : Z := (d + 1) mod 7.

(* ---------------------------------------------------------------- intervals *)

Inductive interval := Once | Daily | Weekly | Monthly | Quarterly | Yearly.

Definition interval_eqb (a b : interval) : bool :=
  match a, b with
  | Once, Once | Daily, Daily | Weekly, Weekly | Monthly, Monthly
  | Quarterly, Quarterly | Yearly, Yearly => true
  | _, _ => false
  end.

(* date.StartOf *)
Definition start_of (d : Z) (iv : interval) : Z :=
  match iv with
  | Once | Daily => d
  | Weekly => let x := (weekday d + 6) mod 7 in add_date d 0 0 (- x)
  | Monthly => go_date (year_of d) (month_of d) 1
  | Quarterly => go_date (year_of d) ((month_of d - 1) / 3 * 3 + 1) 1
  | Yearly => go_date (year_of d) 1 1
  end.

(* date.EndOf *)
Definition end_of (d : Z) (iv : interval) : Z :=
  match iv with
  | Once | Daily => d
  | Weekly => let x := (7 - weekday d) mod 7 in add_date d 0 0 x
  | Monthly => add_date (start_of d Monthly) 0 1 (-1)
  | Quarterly => add_date (add_date (start_of d Quarterly) 0 3 0) 0 0 (-1)
  | Yearly => go_date (year_of d) 12 31
  end.

(* ---------------------------------------------------------------- periods *)

Record period := mkPeriod { p_start : Z; p_end : Z }.

(* Period.Clip *)
Definition clip (p p2 : period) : period :=
  mkPeriod (if p_start p <? p_start p2 then p_start p2 else p_start p)
           (if p_end p2 <? p_end p then p_end p2 else p_end p).

(* Period.Contains *)
Definition period_contains (p : period) (t : Z) : bool :=
  negb (t <? p_start p) && negb (p_end p <? t).

Record partition := mkPartition { span : period; pt_interval : interval; periods : list period }.

Inductive presult (A : Type) := POk (a : A) | PPanic | POutOfFuel.
Arguments POk {A} a.
Arguments PPanic {A}.
Arguments POutOfFuel {A}.

(* The for-loop of NewPartition.  Go appends periods from the last one backwards and then
   reverses the slice; consing onto [acc] builds the reversed slice directly.
   [fuel] bounds the number of iterations; DateProofs.np_loop_fuel shows that
   [Z.to_nat (e - s) + 1] is never exhausted. *)
Fixpoint np_loop (fuel : nat) (s : Z) (iv : interval) (last counter end_ : Z)
         (acc : list period) : option (list period) :=
  if (end_ <? s) || ((last <=? counter) && (0 <? last)) then Some acc
  else match fuel with
       | O => None
       | S f =>
         let st0 := start_of end_ iv in
         let st := if st0 <? s then s else st0 in
         np_loop f s iv last (counter + 1) (add_date st 0 0 (-1)) (mkPeriod st end_ :: acc)
       end.

(* date.NewPartition; IsZero() of a midnight-UTC time is "day 0" *)
Definition new_partition (p : period) (iv : interval) (last : Z) : presult partition :=
  if p_start p =? 0 then PPanic
  else match iv with
       | Once => POk (mkPartition p iv [p])
       | _ =>
         match np_loop (Z.to_nat (p_end p - p_start p) + 1) (p_start p) iv last 0 (p_end p) [] with
         | Some ps => POk (mkPartition p iv ps)
         | None => POutOfFuel
         end
       end.

(* Partition.Contains *)
Definition partition_contains (pt : partition) (d : Z) : bool := period_contains (span pt) d.

(* Partition.Align: sort.Search over the period ends for the first end >= d; the zero time
   (here None) if there is none.  sort.Search is a binary search; on the ascending ends that
   NewPartition produces it returns the first index satisfying the predicate, which is what
   this linear search computes. *)
Fixpoint align_list (ps : list period) (d : Z) : option Z :=
  match ps with
  | [] => None
  | p :: rest => if negb (p_end p <? d) then Some (p_end p) else align_list rest d
  end.
Definition align (pt : partition) (d : Z) : option Z := align_list (periods pt) d.

(* The binary search sort.Search actually performs, kept for the correspondence check and
   for DateProofs.align_bsearch_eq (equal to align_list on ascending ends). *)
Fixpoint bsearch (fuel : nat) (f : Z -> bool) (i j : Z) : Z :=
  match fuel with
  | O => i
  | S fu => if i <? j then
              let h := (i + j) / 2 in
              if negb (f h) then bsearch fu f (h + 1) j else bsearch fu f i h
            else i
  end.

Definition start_dates (pt : partition) : list Z := map p_start (periods pt).
Definition end_dates (pt : partition) : list Z := map p_end (periods pt).

(* ---------------------------------------------------------------- ISO dates *)
(* time.Parse("2006-01-02") on a string that the harness knows to be yyyy-mm-dd with digits:
   accepted iff month in 1..12 and day in 1..days_in_month. *)
Definition parse_ymd (y m dd : Z) : option Z :=
  if (1 <=? m) && (m <=? 12) && (1 <=? dd) && (dd <=? days_in_month y m)
  then Some (of_civil y m dd) else None.
