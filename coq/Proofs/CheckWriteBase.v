(* `knut check --write` (Model/CheckWrite.v), first layer:
   1. the processor with the DayEnd callback, run over a list of days, is the plain recursion
      [write_days]: the checker of Model/Check.v day by day, and after each day the assertion
      computed from the quantity map ([process_days_write]);
   2. the command fails exactly when `knut check` fails, with the same error, and then has no
      output ([check_write_verdict]);
   3. permuting the directives changes neither the collected assertions nor the printed bytes
      ([check_write_cmd_perm]; on top of the C05 lemmas of Proofs/OrderStages.v, OrderCmd.v). *)
From Coq Require Import ZArith List Bool Lia Permutation.
From Knut Require Import Model.Str Model.Dec Model.Date Model.Account Model.Ledger Model.Price Model.Journal
     Model.Check Model.Pipeline Model.JPrinter Model.Cli Model.CheckWrite Spec.WellformedSpec
     Proofs.BuilderProofs Proofs.CheckPerm Proofs.OrderProofs Proofs.OrderStages Proofs.OrderCmd.
Import ListNotations.
Open Scope bool_scope.
Open Scope Z_scope.

(* ------------------------------------------------------------------ 1. the plain recursion *)

Fixpoint write_days (s : check_state) (days : list day) : presult (check_state * list wassertion) :=
  match days with
  | [] => ROk (s, [])
  | d :: rest =>
    rbind (process_day check_proc_fixed s d) (fun sd =>
    rbind (write_days (fst sd) rest) (fun r =>
    ROk (fst r, day_end_assertions (ck_qty (fst sd)) (d_date d) ++ snd r)))
  end.

Lemma fold_res_lift {A} (f : check_state -> A -> presult check_state) out l : forall s,
  fold_res (lift_cb f) (s, out) l = rbind (fold_res f s l) (fun s' => ROk (s', out)).
Proof.
  induction l as [|x l IH]; intros s; cbn [fold_res]; [reflexivity|].
  unfold lift_cb at 1. cbn [fst snd].
  destruct (f s x) as [s1|k d|m]; cbn [rbind]; [apply IH|reflexivity|reflexivity].
Qed.

Lemma fold_postings_lift f t out ps : forall s,
  fold_postings (lift_posting f) t (s, out) ps =
  rbind (fold_postings f t s ps) (fun r => ROk ((fst r, out), snd r)).
Proof.
  induction ps as [|p ps IH]; intros s; cbn [fold_postings]; [reflexivity|].
  unfold lift_posting at 1. cbn [fst snd].
  destruct (f s t p) as [[s1 p1]|k d|m]; cbn [rbind fst snd]; try reflexivity.
  rewrite IH.
  destruct (fold_postings f t s1 ps) as [[s2 ps2]|k d|m]; reflexivity.
Qed.

Lemma fold_txns_lift out ts : forall s,
  fold_txns check_write_proc (s, out) ts =
  rbind (fold_txns check_proc_fixed s ts) (fun r => ROk ((fst r, out), snd r)).
Proof.
  induction ts as [|t ts IH]; intros s; cbn [fold_txns]; [reflexivity|].
  unfold check_write_proc at 1 2, check_proc_fixed at 1 2. cbn [pr_txn pr_posting rbind].
  rewrite fold_postings_lift.
  destruct (fold_postings ck_posting_cb t s (t_postings t)) as [[s1 ps1]|k d|m]; cbn [rbind fst snd]; try reflexivity.
  rewrite IH.
  destruct (fold_txns check_proc_fixed s1 ts) as [[s2 ts2]|k d|m]; reflexivity.
Qed.

Lemma fold_asserts_lift out l : forall s,
  fold_asserts check_write_proc (s, out) l =
  rbind (fold_asserts check_proc_fixed s l) (fun s' => ROk (s', out)).
Proof.
  induction l as [|a l IH]; intros s; cbn [fold_asserts]; [reflexivity|].
  unfold check_write_proc at 1, check_proc_fixed at 1. cbn [pr_balance].
  change (fun (s0 : wstate) (b : balance) => lift_balance ck_balance_fixed s0 a b)
    with (lift_cb (fun s0 b => ck_balance_fixed s0 a b)).
  rewrite (fold_res_lift (fun s0 b => ck_balance_fixed s0 a b) out a s).
  destruct (fold_res (fun s0 b => ck_balance_fixed s0 a b) s a) as [s1|k d|m]; cbn [rbind];
    [apply IH|reflexivity|reflexivity].
Qed.

Lemma process_day_write s out d :
  process_day check_write_proc (s, out) d =
  rbind (process_day check_proc_fixed s d) (fun sd =>
  ROk ((fst sd, out ++ day_end_assertions (ck_qty (fst sd)) (d_date d)), snd sd)).
Proof.
  unfold process_day.
  unfold check_write_proc, check_proc_fixed.
  cbn [pr_day_start pr_price pr_open pr_close pr_day_end rbind fst snd].
  fold check_write_proc. fold check_proc_fixed.
  rewrite (fold_res_lift ck_open_cb out (d_opens d) s).
  destruct (fold_res ck_open_cb s (d_opens d)) as [s1|k x|m]; cbn [rbind]; try reflexivity.
  rewrite fold_txns_lift.
  destruct (fold_txns check_proc_fixed s1 (d_txns d)) as [[s2 ts2]|k x|m]; cbn [rbind fst snd d_asserts d_closes]; try reflexivity.
  rewrite fold_asserts_lift.
  destruct (fold_asserts check_proc_fixed s2 (d_asserts d)) as [s3|k x|m]; cbn [rbind]; try reflexivity.
  rewrite (fold_res_lift ck_close_cb out (d_closes d) s3).
  destruct (fold_res ck_close_cb s3 (d_closes d)) as [s4|k x|m]; cbn [rbind]; try reflexivity.
Qed.

Lemma process_days_write days : forall s out,
  rfst (process_days check_write_proc (s, out) days) =
  rbind (write_days s days) (fun r => ROk (fst r, out ++ snd r)).
Proof.
  induction days as [|d days IH]; intros s out; cbn [process_days write_days rbind rfst fst snd].
  - rewrite app_nil_r. reflexivity.
  - rewrite process_day_write.
    destruct (process_day check_proc_fixed s d) as [[s1 d1]|k x|m]; cbn [rbind fst snd]; try reflexivity.
    specialize (IH s1 (out ++ day_end_assertions (ck_qty s1) (d_date d))).
    destruct (process_days check_write_proc (s1, out ++ day_end_assertions (ck_qty s1) (d_date d)) days)
      as [[[s2 o2] ds2]|k x|m]; cbn [rbind rfst fst snd] in *;
      destruct (write_days s1 days) as [[s3 w3]|k' x'|m']; cbn [rbind fst snd] in *; try discriminate; try congruence.
    inversion IH. subst. rewrite <- app_assoc. reflexivity.
Qed.

(* the assertions the command collects, from the directives *)
Definition written_of (days : list day) : presult (list wassertion) :=
  rbind (write_days check_init days) (fun r => ROk (snd r)).

Lemma check_write_assertions_eq sds :
  check_write_assertions sds =
  cbind (load sds) (fun b => of_presult (written_of (b_days b))).
Proof.
  unfold check_write_assertions, written_of, run_stage, wstate_init.
  destruct (load sds) as [b|k d|m]; cbn [cbind]; try reflexivity.
  pose proof (process_days_write (b_days b) check_init []) as H.
  destruct (process_days check_write_proc (check_init, []) (b_days b)) as [[[s o] ds]|k x|m];
    cbn [rfst fst snd] in H;
    destruct (write_days check_init (b_days b)) as [[s3 w3]|k' x'|m']; cbn [rbind fst snd app] in *;
    try discriminate; cbn; congruence.
Qed.

(* ------------------------------------------------------------------ 2. the verdict *)

Lemma write_days_verdict days : forall s,
  rfst (write_days s days) = rfst (process_days check_proc_fixed s days).
Proof.
  induction days as [|d days IH]; intros s; cbn [write_days process_days rbind rfst fst]; [reflexivity|].
  destruct (process_day check_proc_fixed s d) as [[s1 d1]|k x|m]; cbn [rbind fst snd]; try reflexivity.
  specialize (IH s1).
  destruct (write_days s1 days) as [[s2 w]|k x|m], (process_days check_proc_fixed s1 days) as [[s3 ds3]|k' x'|m'];
    cbn [rbind rfst fst snd] in *; try discriminate; congruence.
Qed.

(* `check --write` and `check` succeed and fail together, with the same error; what the
   successful run prints is [write_file] of the collected assertions.  A failing run has no
   output at all: the result of the command is the error. *)
Theorem check_write_verdict sds :
  match check_cmd_fixed sds with
  | COk _ => exists W, check_write_assertions sds = COk W /\ check_write_cmd sds = COk (write_file W)
  | CErr k d => check_write_assertions sds = CErr k d /\ check_write_cmd sds = CErr k d
  | CPanic m => check_write_assertions sds = CPanic m /\ check_write_cmd sds = CPanic m
  end.
Proof.
  unfold check_write_cmd. rewrite check_write_assertions_eq. unfold check_cmd_fixed, written_of, run_stage.
  destruct (load sds) as [b|k d|m]; cbn [cbind]; try (split; reflexivity).
  pose proof (write_days_verdict (b_days b) check_init) as H.
  destruct (write_days check_init (b_days b)) as [[s w]|k x|m],
           (process_days check_proc_fixed check_init (b_days b)) as [[s' ds']|k' x'|m'];
    cbn [rfst rbind of_presult cbind fst snd] in *; try discriminate.
  - exists w. split; reflexivity.
  - inversion H. split; reflexivity.
  - inversion H. split; reflexivity.
Qed.

Theorem check_write_fails_silently sds :
  check_cmd_fixed sds <> COk tt ->
  (forall t, check_write_cmd sds <> COk t) /\
  (forall k d, check_cmd_fixed sds = CErr k d -> check_write_cmd sds = CErr k d).
Proof.
  intros H. pose proof (check_write_verdict sds) as V.
  destruct (check_cmd_fixed sds) as [[]|k d|m].
  - contradiction H. reflexivity.
  - destruct V as [_ V]. split; [intros t; rewrite V; discriminate|]. intros k' d' E. inversion E. subst. exact V.
  - destruct V as [_ V]. split; [intros t; rewrite V; discriminate|]. intros k' d' E. discriminate.
Qed.

Theorem check_write_succeeds sds :
  check_cmd_fixed sds = COk tt ->
  exists W, check_write_assertions sds = COk W /\ check_write_cmd sds = COk (write_file W).
Proof. intros H. pose proof (check_write_verdict sds) as V. rewrite H in V. exact V. Qed.

(* ------------------------------------------------------------------ 3. the order of the directives *)

Lemma write_days_rel l1 l2 :
  Forall2 DIok l1 l2 -> forall s1 s2, Rck s1 s2 ->
  req (fun a b => Rck (fst a) (fst b) /\ snd a = snd b) (write_days s1 l1) (write_days s2 l2).
Proof.
  intros HF. induction HF as [|d1 d2 l1 l2 Hd Hl IH]; intros s1 s2 Hs; cbn [write_days].
  - cbn. split; [exact Hs|reflexivity].
  - eapply req_bind.
    + apply (check_day_rel ck_balance_fixed ck_balance_fixed_pure ck_balance_fixed_resp s1 s2 d1 d2 Hs Hd).
    + intros [s1' d1'] [s2' d2'] (H1 & _ & _). cbn [fst snd] in *.
      eapply req_bind; [apply IH; exact H1|].
      intros [s1'' w1] [s2'' w2] (H3 & H4). cbn [fst snd req] in *. split; [exact H3|].
      destruct H1 as [_ Hq]. destruct Hd as [(Hdate & _) _]. rewrite Hq, Hdate, H4. reflexivity.
Qed.

Theorem check_write_assertions_perm sds1 sds2 :
  Permutation sds1 sds2 -> sd_syntactic sds1 ->
  ceq eq (check_write_assertions sds1) (check_write_assertions sds2).
Proof.
  intros P Hs. rewrite !check_write_assertions_eq. eapply ceq_bind; [apply load_perm; eassumption|].
  intros b1 b2 (HF & _ & _). apply ceq_of_presult. unfold written_of.
  eapply req_bind; [apply write_days_rel; [exact HF|apply Rck_refl]|].
  intros [s1 w1] [s2 w2] (_ & H). cbn [snd req] in *. exact H.
Qed.

(* both commands fail, or both print the same bytes *)
Theorem check_write_cmd_perm sds1 sds2 :
  Permutation sds1 sds2 -> sd_syntactic sds1 ->
  ceq eq (check_write_cmd sds1) (check_write_cmd sds2).
Proof.
  intros P Hs. unfold check_write_cmd. eapply ceq_bind; [apply check_write_assertions_perm; eassumption|].
  intros a b E. subst b. cbn. reflexivity.
Qed.

(* ------------------------------------------------------------------ 4. a function of the loaded journal *)

Lemma check_write_factor sds : check_write_cmd sds = cbind (load sds) check_write_of.
Proof.
  unfold check_write_cmd, check_write_assertions, check_write_of.
  destruct (load sds) as [b|k d|m]; cbn [cbind]; try reflexivity.
  destruct (run_stage check_write_proc wstate_init (b_days b)) as [r|k d|m]; reflexivity.
Qed.
