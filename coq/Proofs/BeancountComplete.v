(* C16: complete_check (Spec/BeancountSpec.v) finds nothing on the model's items.
   A transaction is identified in the text by its key (date, description, accounts of its postings),
   which no stage changes (txn_sim).  The keys of the emitted transactions are, up to order, the keys
   of the journal's transactions (after accrual expansion) followed by the keys of Valuate's
   adjustments (Proofs/TranscodeAdjust.v transcode_days_val); remove_all takes the former out one by
   one (no lost-transaction); what remains are keys of adjustments -- adjustment_key accepts each
   (no spurious-transaction) -- with pairwise different (date, description): the days' dates are
   strictly ascending and the descriptions of one day are pairwise different (no
   duplicated-adjustment). *)
From Coq Require Import ZArith List Bool Lia Sorted Permutation.
From Knut Require Import Model.Str Model.Dec Model.Date Model.Account Model.Ledger Model.Journal
     Model.Pipeline Model.Cli Model.Beancount Model.CliTranscode
     Spec.WellformedSpec Spec.LedgerSyntax Spec.BeancountSpec Spec.BeancountErase Spec.BeancountLex Spec.BeancountAdjLex
     Proofs.StrProofs Proofs.CheckLemmas Proofs.BeancountProofs Proofs.BeancountRead
     Proofs.TranscodeAdjust Proofs.BeancountKnownShape.
Import ListNotations.
Open Scope bool_scope.
Open Scope Z_scope.

(* ================================================================== keys *)

Definition txn_key (t : txn) : tkey := (t_date t, t_desc t, map (fun p => acc_name (p_acc p)) (t_postings t)).

Lemma directive_keys_txns ds : directive_keys ds = map txn_key (directive_txns ds).
Proof.
  unfold directive_keys, directive_txns. induction ds as [|d ds IH]; [reflexivity|].
  cbn [flat_map]. rewrite IH, map_app. destruct d; reflexivity.
Qed.

Lemma entry_keys_txns v es : entry_keys (erase_entries v es) = map txn_key (entry_txns es).
Proof.
  unfold entry_keys, erase_entries, entry_txns. induction es as [|e es IH]; [reflexivity|].
  cbn [map flat_map]. rewrite IH, map_app. destruct e as [d a|d a|t]; cbn [erase_entry app map]; try reflexivity.
  unfold txn_key. rewrite map_map. reflexivity.
Qed.

Lemma postings_sim_accs ps ps' : Forall2 posting_sim ps ps' ->
  map (fun p => acc_name (p_acc p)) ps' = map (fun p => acc_name (p_acc p)) ps.
Proof. induction 1 as [|x y l m (Ha & _) _ IH]; [reflexivity|]. cbn [map]. rewrite Ha, IH. reflexivity. Qed.

Lemma txn_sim_key t t' : txn_sim t t' -> txn_key t' = txn_key t.
Proof. intros (H1 & H2 & _ & H4). unfold txn_key. rewrite H1, H2, (postings_sim_accs _ _ H4). reflexivity. Qed.

Lemma txns_sim_keys l m : Forall2 txn_sim l m -> map txn_key m = map txn_key l.
Proof. induction 1 as [|x y l m Hxy _ IH]; [reflexivity|]. cbn [map]. rewrite (txn_sim_key _ _ Hxy), IH. reflexivity. Qed.

Lemma strs_eqb_eq a b : strs_eqb a b = true <-> a = b.
Proof.
  revert b. induction a as [|x a IH]; intros [|y b]; cbn [strs_eqb]; try (split; [discriminate|discriminate]); [tauto|].
  rewrite andb_true_iff, StrProofs.str_eqb_eq, IH. split; [intros [-> ->]; reflexivity|intros E; inversion E; auto].
Qed.

Lemma tkey_eqb_eq x y : tkey_eqb x y = true <-> x = y.
Proof.
  destruct x as [[d s] l], y as [[d' s'] l']. unfold tkey_eqb. cbn [fst snd].
  rewrite !andb_true_iff, Z.eqb_eq, StrProofs.str_eqb_eq, strs_eqb_eq.
  split; [intros [[-> ->] ->]; reflexivity|intros E; inversion E; auto].
Qed.

(* ================================================================== remove_one, remove_all *)

Lemma remove_one_in k l : In k l -> exists l', remove_one k l = Some l' /\ Permutation l (k :: l').
Proof.
  induction l as [|x rest IH]; intros Hin; [destruct Hin|]. cbn [remove_one].
  destruct (tkey_eqb k x) eqn:E.
  - apply tkey_eqb_eq in E. subst x. exists rest. split; [reflexivity|apply Permutation_refl].
  - assert (Hrest : In k rest).
    { destruct Hin as [->|Hin]; [|exact Hin]. assert (E' : tkey_eqb k k = true) by (apply tkey_eqb_eq; reflexivity). congruence. }
    destruct (IH Hrest) as (r & -> & Hp). exists (x :: r). split; [reflexivity|].
    eapply Permutation_trans; [apply perm_skip; exact Hp|apply perm_swap].
Qed.

Lemma remove_all_perm user : forall emitted rest, Permutation emitted (user ++ rest) ->
  exists r, remove_all user emitted = ([], r) /\ Permutation r rest.
Proof.
  induction user as [|k user IH]; intros emitted rest Hp; cbn [remove_all].
  - exists emitted. split; [reflexivity|exact Hp].
  - assert (Hin : In k emitted) by (apply (Permutation_in _ (Permutation_sym Hp)); left; reflexivity).
    destruct (remove_one_in k emitted Hin) as (e' & -> & Hp').
    apply IH. apply (Permutation_cons_inv (a := k)). eapply Permutation_trans; [symmetry; exact Hp'|exact Hp].
Qed.

(* ================================================================== check_remainder *)

Definition key_dd (k : tkey) : Z * str := (fst (fst k), snd (fst k)).

Lemma check_remainder_nil l :
  Forall (fun k => adjustment_key k = true) l -> NoDup (map key_dd l) -> check_remainder l = [].
Proof.
  induction l as [|k rest IH]; intros Ha Hn; [reflexivity|]. cbn [check_remainder].
  inversion Ha as [|? ? Hk Hrest]; subst. cbn [map] in Hn. inversion Hn as [|? ? Hnot Hn']; subst.
  rewrite Hk, (IH Hrest Hn'), app_nil_r.
  destruct (existsb (fun k' => (fst (fst k) =? fst (fst k')) && str_eqb (snd (fst k)) (snd (fst k'))) rest) eqn:E; [|reflexivity].
  exfalso. apply existsb_exists in E. destruct E as (k' & Hin & E). apply andb_true_iff in E. destruct E as [E1 E2].
  apply Z.eqb_eq in E1. apply StrProofs.str_eqb_eq in E2. apply Hnot. apply in_map_iff. exists k'. split; [|exact Hin].
  unfold key_dd. rewrite E1, E2. reflexivity.
Qed.

(* the key of a value adjustment for a good position is accepted *)
Lemma adjustment_key_lex dt t : adjustment_lex dt t -> adjustment_key (txn_key t) = true.
Proof.
  intros (c & a & gain & HAL & Hok & Hc & _ & Hs & Hp). unfold adjustment_key, txn_key. cbn [fst snd].
  rewrite Hs, (adjusted_account_s_adjust c a Hc), (is_al_name_acc a HAL Hok), (valuation_name_acc a Hok). cbn [andb].
  rewrite (postings_sim_accs _ _ Hp).
  destruct (pair_build_shape (valuation_account_for a) a c dec_nil gain) as (p1 & p2 & -> & _ & _ & HA).
  cbn [map]. destruct HA as [(-> & ->)|(-> & ->)]; cbn [strs_eqb]; rewrite !StrProofs.str_eqb_refl; cbn [andb orb];
    [apply orb_true_r|reflexivity].
Qed.

(* ================================================================== the keys of the emitted transactions *)

Lemma NoDup_app_intro {A} (a b : list A) : NoDup a -> NoDup b -> (forall x, In x a -> ~ In x b) -> NoDup (a ++ b).
Proof.
  induction a as [|x a IH]; intros Ha Hb Hd; [exact Hb|]. cbn [app]. inversion Ha as [|? ? Hx Ha']; subst.
  constructor.
  - intros Hin. apply in_app_or in Hin. destruct Hin as [Hin|Hin]; [exact (Hx Hin)|]. apply (Hd x); [left; reflexivity|exact Hin].
  - apply IH; [exact Ha'|exact Hb|]. intros y Hy. apply Hd. right. exact Hy.
Qed.

Definition txn_dd (t : txn) : Z * str := (t_date t, t_desc t).

Lemma nodup_dd dt ts : Forall (fun t => t_date t = dt) ts -> NoDup (map t_desc ts) -> NoDup (map txn_dd ts).
Proof.
  induction ts as [|t ts IH]; intros Hd Hn; [constructor|]. cbn [map] in *.
  inversion Hd as [|? ? Ht Hd']; subst. inversion Hn as [|? ? Hx Hn']; subst. constructor; [|apply IH; assumption].
  intros Hin. apply Hx. apply in_map_iff in Hin. destruct Hin as (t' & E & Hin). apply in_map_iff. exists t'.
  split; [|exact Hin]. unfold txn_dd in E. inversion E. reflexivity.
Qed.

Lemma val_days_adjs d3 days : Forall2 val_day_rel d3 days -> Sorted Z.lt (dates d3) ->
  exists adjs, Permutation (map txn_key (all_txns days)) (map txn_key (all_txns d3) ++ map txn_key adjs) /\
    Forall (fun t => adjustment_lex (t_date t) t /\ In (t_date t) (dates d3)) adjs /\
    NoDup (map txn_dd adjs).
Proof.
  induction 1 as [|d d' l l' Hdd _ IH]; intros Hs.
  - exists []. split; [apply Permutation_refl|]. split; constructor.
  - unfold dates in Hs. cbn [map] in Hs. pose proof (Sorted_extends Z.lt_trans Hs) as Hlt.
    inversion Hs as [|? ? Hs' _]; subst. destruct (IH Hs') as (A & P1 & P2 & P3).
    destruct Hdd as (Hdate & ts & Hsim & Hadj & Hnd).
    assert (Hdates : Forall (fun t => t_date t = d_date d) ts).
    { eapply Forall_impl; [|exact Hadj]. intros t (c & a & g & _ & _ & _ & Hd & _). exact Hd. }
    exists (ts ++ A). split; [|split].
    + rewrite !all_txns_cons, !map_app, (txns_sim_keys _ _ Hsim), map_app, P1, <- !app_assoc.
      apply Permutation_app_head. rewrite !app_assoc. apply Permutation_app_tail. apply Permutation_app_comm.
    + apply Forall_app. split.
      * rewrite Forall_forall in Hadj, Hdates |- *. intros t Ht. rewrite (Hdates t Ht).
        split; [apply Hadj; exact Ht|left; reflexivity].
      * eapply Forall_impl; [|exact P2]. intros t [H1 H2]. split; [exact H1|right; exact H2].
    + rewrite map_app. apply NoDup_app_intro; [exact (nodup_dd _ _ Hdates Hnd)|exact P3|].
      intros x Hx1 Hx2. apply in_map_iff in Hx1. destruct Hx1 as (t1 & <- & Ht1).
      apply in_map_iff in Hx2. destruct Hx2 as (t2 & E & Ht2).
      rewrite Forall_forall in Hdates, P2, Hlt. destruct (P2 t2 Ht2) as [_ Hin2].
      unfold txn_dd in E. inversion E as [[E1 E2]]. rewrite (Hdates t1 Ht1) in E1.
      specialize (Hlt _ Hin2). fold (dates l) in Hin2. lia.
Qed.

Lemma days_no_extra_keys l l' : Forall2 (day_step no_extra) l l' ->
  Permutation (map txn_key (all_txns l')) (map txn_key (all_txns l)).
Proof.
  intros H.
  destruct (days_step_complete no_extra l l' (fun dt t t' _ (F : no_extra dt t) => match F with end) H) as (U & A & P1 & P2 & P3).
  assert (EA : A = []).
  { destruct A as [|t A]; [reflexivity|]. inversion P3 as [|? ? (dt & []) _]. }
  subst A. rewrite app_nil_r in P1. rewrite <- (txns_sim_keys _ _ P2). apply Permutation_map. exact P1.
Qed.

(* ================================================================== the theorem *)

Theorem complete_check_model l v sds dl days :
  parse_directives sds = MOk dl -> journal_adj_lex_b dl = true -> transcode_days l v sds = COk days ->
  complete_check sds (erase_entries v (transcode_entries days [])) = [].
Proof.
  intros Hp Hadj H. unfold complete_check. rewrite Hp.
  destruct (transcode_days_val l v sds dl days Hp Hadj H) as (d3 & F & R & _).
  assert (Hs3 : Sorted Z.lt (dates d3)).
  { rewrite (days_step_dates _ _ _ F). apply builder_of_sorted. }
  destruct (val_days_adjs d3 days R Hs3) as (A & P1 & P2 & P3).
  assert (Hperm : Permutation (entry_keys (erase_entries v (transcode_entries days [])))
                              (directive_keys dl ++ map txn_key A)).
  { rewrite entry_keys_txns, directive_keys_txns.
    eapply Permutation_trans; [apply Permutation_map; apply transcode_entries_perm|].
    eapply Permutation_trans; [exact P1|]. apply Permutation_app_tail.
    eapply Permutation_trans; [exact (days_no_extra_keys _ _ F)|]. apply Permutation_map. apply builder_of_txns. }
  destruct (remove_all_perm _ _ _ Hperm) as (r & -> & Hr). cbn [app].
  apply check_remainder_nil.
  - eapply Permutation_Forall; [symmetry; exact Hr|]. apply Forall_forall. intros k Hk.
    apply in_map_iff in Hk. destruct Hk as (t & <- & Ht). rewrite Forall_forall in P2.
    destruct (P2 t Ht) as [Hl _]. eapply adjustment_key_lex; exact Hl.
  - eapply Permutation_NoDup; [apply Permutation_map; symmetry; exact Hr|]. rewrite map_map. exact P3.
Qed.
