(* Proofs for C10: the accrual expansion of Model/Ledger.v (repaired variant [_fixed]) conserves
   every account's bookings, every generated transaction balances, the accrual account nets to
   zero, parts are dated at the period ends; the pinned variant drops equity legs. *)
From Coq Require Import ZArith QArith Qpower List Bool Lia Permutation.
From Knut Require Import Model.Str Model.Dec Model.Date Model.Account Model.Ledger.
From Knut Require Import Spec.DateSpec Spec.AccrualSpec.
From Knut Require Import Proofs.DecProofs Proofs.DateProofs Proofs.DecValueAccrual.
Import ListNotations.
Open Scope bool_scope.
Open Scope Z_scope.

(* ---------------------------------------------------------------- equality tests *)

Lemma list_eqb_eq {A} (eqb : A -> A -> bool) :
  (forall x y, eqb x y = true <-> x = y) ->
  forall l1 l2, list_eqb eqb l1 l2 = true <-> l1 = l2.
Proof.
  intros Heq. induction l1 as [|x r1 IH]; destruct l2 as [|y r2]; cbn [list_eqb]; split; intros H;
    try reflexivity; try discriminate.
  - apply andb_true_iff in H. destruct H as [H1 H2]. apply Heq in H1. apply IH in H2. subst. reflexivity.
  - injection H as Hx Hr. subst. apply andb_true_iff. split; [apply Heq; reflexivity|apply IH; reflexivity].
Qed.

Lemma s_eqb_eq a b : s_eqb a b = true <-> a = b.
Proof. apply list_eqb_eq. intros x y. apply Z.eqb_eq. Qed.

Lemma a_eqb_eq a b : a_eqb a b = true <-> a = b.
Proof. apply list_eqb_eq. exact s_eqb_eq. Qed.

Lemma s_eqb_refl a : s_eqb a a = true.
Proof. apply s_eqb_eq. reflexivity. Qed.

Lemma a_eqb_refl a : a_eqb a a = true.
Proof. apply a_eqb_eq. reflexivity. Qed.

Lemma a_eqb_neq a b : a <> b -> a_eqb a b = false.
Proof. intros H. destruct (a_eqb a b) eqn:E; [apply a_eqb_eq in E; contradiction|reflexivity]. Qed.

Lemma a_eqb_sym a b : a_eqb a b = a_eqb b a.
Proof.
  destruct (a_eqb a b) eqn:E1, (a_eqb b a) eqn:E2; try reflexivity.
  - apply a_eqb_eq in E1. subst. rewrite a_eqb_refl in E2. discriminate.
  - apply a_eqb_eq in E2. subst. rewrite a_eqb_refl in E1. discriminate.
Qed.

(* ---------------------------------------------------------------- sums *)

Lemma booked_app a c l1 l2 : (booked a c (l1 ++ l2) == booked a c l1 + booked a c l2)%Q.
Proof.
  induction l1 as [|p r IH]; cbn [booked app].
  - ring.
  - rewrite IH. ring.
Qed.

Lemma com_total_app c l1 l2 : (com_total c (l1 ++ l2) == com_total c l1 + com_total c l2)%Q.
Proof.
  induction l1 as [|p r IH]; cbn [com_total app].
  - ring.
  - rewrite IH. ring.
Qed.

Lemma all_postings_app l1 l2 : all_postings (l1 ++ l2) = all_postings l1 ++ all_postings l2.
Proof. unfold all_postings. apply flat_map_app. Qed.

Lemma all_postings_cons t l : all_postings (t :: l) = t_postings t ++ all_postings l.
Proof. reflexivity. Qed.

(* the accrual account's side of the legs: the part of a commodity total that sits on postings
   in commodity c, whatever their account *)
Lemma booked_le_total a c ps :
  (forall p, In p ps -> p_acc p = a) -> (booked a c ps == com_total c ps)%Q.
Proof.
  induction ps as [|p r IH]; intros H; cbn [booked com_total].
  - reflexivity.
  - rewrite IH by (intros q Hq; apply H; right; exact Hq).
    unfold on. rewrite (H p (or_introl eq_refl)), a_eqb_refl. cbn [andb]. reflexivity.
Qed.

(* ---------------------------------------------------------------- pairs *)

Lemma neg_dec_nil : neg dec_nil = dec_nil.
Proof. reflexivity. Qed.

Lemma pair_build_is_pair cr db c q : is_pair cr db c q (pair_build cr db c q dec_nil).
Proof.
  unfold pair_build, is_pair, pair_postings.
  destruct (is_neg q || is_zero q && is_neg dec_nil).
  - right. cbn [rev app]. rewrite !neg_involutive. reflexivity.
  - left. reflexivity.
Qed.

Definition ind (b : bool) (x : Q) : Q := if b then x else 0%Q.

Add Parametric Morphism (b : bool) : (ind b) with signature Qeq ==> Qeq as ind_mor.
Proof. intros x y H. destruct b; cbn [ind]; [exact H|reflexivity]. Qed.

Lemma booked_pair a c x y cm q ps :
  is_pair x y cm q ps ->
  (booked a c ps == ind (a_eqb y a && s_eqb cm c) (dvalue q) - ind (a_eqb x a && s_eqb cm c) (dvalue q))%Q.
Proof.
  intros [H|H]; subst ps; unfold pair_postings; cbn [rev app booked]; unfold on, ind; cbn [p_acc p_com p_qty];
    destruct (a_eqb y a && s_eqb cm c), (a_eqb x a && s_eqb cm c); rewrite ?dvalue_neg; ring.
Qed.

Lemma com_total_pair c x y cm q ps : is_pair x y cm q ps -> (com_total c ps == 0)%Q.
Proof.
  intros [H|H]; subst ps; unfold pair_postings; cbn [rev app com_total]; cbn [p_com p_qty];
    destruct (s_eqb cm c); rewrite ?dvalue_neg; ring.
Qed.

Lemma is_pair_balanced x y cm q ps : is_pair x y cm q ps -> balanced ps.
Proof. intros H c. exact (com_total_pair c x y cm q ps H). Qed.

(* ---------------------------------------------------------------- mbind inversion *)

Lemma mbind_ok {A B} (x : mresult A) (f : A -> mresult B) b :
  mbind x f = MOk b -> exists a, x = MOk a /\ f a = MOk b.
Proof. destruct x as [a|m|m]; cbn [mbind]; intros H; [exists a; auto|discriminate|discriminate]. Qed.

Lemma mbind_panic {A B} (x : mresult A) (f : A -> mresult B) m :
  mbind x f = MPanic m -> x = MPanic m \/ exists a, x = MOk a /\ f a = MPanic m.
Proof.
  destruct x as [a|m'|m']; cbn [mbind]; intros H; [right; exists a; auto|discriminate|].
  left. injection H as H. subst m'. reflexivity.
Qed.

(* ---------------------------------------------------------------- posting.Create *)

Lemma postings_create_booked a c bs ps :
  postings_create bs = MOk ps -> (booked a c ps == booked_src a c bs)%Q.
Proof.
  revert ps. induction bs as [|b rest IH]; intros ps H; cbn [postings_create] in H.
  - injection H as H. subst ps. reflexivity.
  - apply mbind_ok in H. destruct H as [u1 [_ H]].
    apply mbind_ok in H. destruct H as [u2 [_ H]].
    apply mbind_ok in H. destruct H as [ps' [Hps' H]].
    injection H as H. subst ps. rewrite booked_app. rewrite (IH ps' Hps').
    rewrite (booked_pair a c _ _ _ _ _ (pair_build_is_pair (b_credit b) (b_debit b) (b_com b) (b_qty b))).
    cbn [booked_src]. unfold ind.
    destruct (s_eqb (b_com b) c); rewrite ?andb_true_r, ?andb_false_r; ring.
Qed.

Lemma postings_create_balanced bs ps : postings_create bs = MOk ps -> balanced ps.
Proof.
  revert ps. induction bs as [|b rest IH]; intros ps H c; cbn [postings_create] in H.
  - injection H as H. subst ps. reflexivity.
  - apply mbind_ok in H. destruct H as [u1 [_ H]].
    apply mbind_ok in H. destruct H as [u2 [_ H]].
    apply mbind_ok in H. destruct H as [ps' [Hps' H]].
    injection H as H. subst ps. rewrite com_total_app, (IH ps' Hps' c).
    rewrite (com_total_pair c _ _ _ _ _ (pair_build_is_pair (b_credit b) (b_debit b) (b_com b) (b_qty b))). ring.
Qed.

Lemma postings_create_no_panic bs m : postings_create bs <> MPanic m.
Proof.
  induction bs as [|b rest IH]; cbn [postings_create]; [discriminate|].
  unfold check_account.
  destruct (valid_account (b_credit b)); cbn [mbind]; [|discriminate].
  destruct (valid_account (b_debit b)); cbn [mbind]; [|discriminate].
  destruct (postings_create rest) as [ps|m'|m'] eqn:E; cbn [mbind]; [discriminate|discriminate|].
  intros H. injection H as H. subst m'. apply IH. reflexivity.
Qed.

Lemma not_in_bookings_src a c bs : ~ in_bookings a bs -> (booked_src a c bs == 0)%Q.
Proof.
  induction bs as [|b rest IH]; intros H; cbn [booked_src]; [reflexivity|].
  rewrite IH.
  - rewrite (a_eqb_neq (b_debit b) a), (a_eqb_neq (b_credit b) a).
    + destruct (s_eqb (b_com b) c); ring.
    + intros E. apply H. exists b. split; [left; reflexivity|left; exact E].
    + intros E. apply H. exists b. split; [left; reflexivity|right; exact E].
  - intros [b' [Hin Hb']]. apply H. exists b'. split; [right; exact Hin|exact Hb'].
Qed.

(* ---------------------------------------------------------------- the parts of one leg *)

Definition first_rem (i : Z) (ends : list Z) (rem : dec) : Q :=
  match ends with [] => 0%Q | _ :: _ => if i =? 0 then dvalue rem else 0%Q end.

(* the quantities of the parts i+1.. sum to (number of parts) * amount, plus the remainder if
   the first part is among them *)
Lemma accrual_parts_booked a c desc tg acc p amount rem n ends : forall i,
  0 <= i ->
  let total := (first_rem i ends rem + inject_Z (Z.of_nat (length ends)) * dvalue amount)%Q in
  (booked a c (all_postings (accrual_parts desc tg acc p amount rem n i ends))
   == ind (on a c p) total - ind (a_eqb acc a && s_eqb (p_com p) c) total)%Q.
Proof.
  induction ends as [|dt rest IH]; intros i Hi total; cbn [accrual_parts].
  - unfold total, first_rem, ind. cbn [all_postings flat_map booked length Z.of_nat].
    destruct (on a c p), (a_eqb acc a && s_eqb (p_com p) c); unfold inject_Z; ring.
  - rewrite all_postings_cons, booked_app. cbn [t_postings].
    rewrite (booked_pair a c _ _ _ _ _ (pair_build_is_pair acc (p_acc p) (p_com p) _)).
    rewrite (IH (i + 1)) by lia.
    assert (Hfr : first_rem (i + 1) rest rem = 0%Q).
    { unfold first_rem. destruct rest; [reflexivity|]. replace (i + 1 =? 0) with false by lia. reflexivity. }
    rewrite Hfr. unfold total, first_rem. cbn [length]. rewrite Nat2Z.inj_succ. unfold Z.succ.
    rewrite inject_Z_plus. unfold on, ind.
    destruct (i =? 0);
      destruct (a_eqb (p_acc p) a && s_eqb (p_com p) c), (a_eqb acc a && s_eqb (p_com p) c);
      rewrite ?dvalue_add; unfold inject_Z; ring.
Qed.

Lemma accrual_parts_balanced desc tg acc p amount rem n ends : forall i,
  Forall (fun t => balanced (t_postings t)) (accrual_parts desc tg acc p amount rem n i ends).
Proof.
  induction ends as [|dt rest IH]; intros i; cbn [accrual_parts]; constructor.
  - cbn [t_postings]. eapply is_pair_balanced. apply pair_build_is_pair.
  - apply IH.
Qed.

Lemma accrual_parts_pairs desc tg acc p amount rem n ends : forall i,
  Forall (fun t => exists a b c q, is_pair a b c q (t_postings t)) (accrual_parts desc tg acc p amount rem n i ends).
Proof.
  induction ends as [|dt rest IH]; intros i; cbn [accrual_parts]; constructor.
  - cbn [t_postings]. do 4 eexists. apply pair_build_is_pair.
  - apply IH.
Qed.

Lemma accrual_parts_targets desc tg acc p amount rem n ends : forall i,
  Forall (fun t => t_targets t = tg) (accrual_parts desc tg acc p amount rem n i ends).
Proof.
  induction ends as [|dt rest IH]; intros i; cbn [accrual_parts]; constructor; [reflexivity|apply IH].
Qed.

Lemma accrual_parts_ok desc tg acc p amount rem n ends : forall k,
  parts_ok desc tg acc p n k ends (accrual_parts desc tg acc p amount rem n (Z.of_nat k) ends).
Proof.
  induction ends as [|dt rest IH]; intros k; cbn [accrual_parts]; constructor; cbn [t_date t_desc t_targets t_postings];
    try reflexivity.
  - eexists. apply pair_build_is_pair.
  - replace (Z.of_nat k + 1) with (Z.of_nat (S k)) by lia. apply IH.
Qed.

(* ---------------------------------------------------------------- the window's partition *)

(* for a non-empty window that does not start at the zero time the partition exists and has at
   least one period; for every interval but Once it tiles the window (C11) *)
Lemma accrual_partition s e iv :
  s <> 0 -> s <= e ->
  exists part,
    new_partition (mkPeriod s e) iv 0 = POk part /\
    periods part <> [] /\
    (iv <> Once -> tiles s e (periods part)) /\
    (iv = Once -> periods part = [mkPeriod s e]).
Proof.
  intros Hs Hse. destruct (interval_eqb iv Once) eqn:Eiv.
  - assert (iv = Once) by (destruct iv; try discriminate; reflexivity). subst iv.
    exists (mkPartition (mkPeriod s e) Once [mkPeriod s e]).
    rewrite partition_once by assumption.
    split; [reflexivity|]. cbn [periods]. split; [discriminate|]. split; [intros Hne; contradiction|reflexivity].
  - assert (Hiv : iv <> Once) by (intros E; subst iv; discriminate).
    destruct (partition_unlimited s e iv Hiv Hs) as [ps [Hnp [_ [Ht _]]]].
    exists (mkPartition (mkPeriod s e) iv ps). cbn [periods].
    split; [exact Hnp|]. split.
    + intros E. specialize (Ht Hse). rewrite E in Ht. exact Ht.
    + split; [intros _; exact (Ht Hse)|intros E; contradiction].
Qed.

Lemma empty_partition s e iv :
  s <> 0 -> e < s -> iv <> Once ->
  exists part, new_partition (mkPeriod s e) iv 0 = POk part /\ periods part = [].
Proof.
  intros Hs Hes Hiv.
  destruct (partition_unlimited s e iv Hiv Hs) as [ps [Hnp [He _]]].
  exists (mkPartition (mkPeriod s e) iv ps). split; [exact Hnp|]. cbn [periods]. exact (He Hes).
Qed.

Lemma tiles_ends_ascending : forall ps s e, tiles s e ps -> ascending (map p_end ps).
Proof.
  induction ps as [|p rest IH]; intros s e H; cbn [map ascending]; [exact I|].
  cbn [tiles] in H. destruct H as [Hs [Hle Hrest]].
  destruct rest as [|q rest'].
  - cbn [map]. split; exact I.
  - split.
    + cbn [map]. cbn [tiles] in Hrest. destruct Hrest as [Hqs [Hqle _]]. lia.
    + exact (IH _ _ Hrest).
Qed.

(* ---------------------------------------------------------------- one posting *)

Section OnePosting.
  Variable rebook : account -> bool.
  Variables (t : txn) (ac : accrual) (p : posting).

  Definition rebooked : list txn :=
    [mkTxn (t_date t) (t_desc t) (pair_build (ac_account ac) (p_acc p) (p_com p) (p_qty p) dec_nil) (t_targets t)].

  Definition r1 : list txn := if rebook (p_acc p) then rebooked else [].

  (* inversion of a successful expansion of one posting *)
  Lemma expand_posting_inv l :
    expand_posting_gen rebook t ac p = MOk l ->
    (is_IE (p_acc p) = false /\ l = r1) \/
    (is_IE (p_acc p) = true /\
     exists part amount rem,
       new_partition (mkPeriod (ac_start ac) (ac_end ac)) (ac_interval ac) 0 = POk part /\
       periods part <> [] /\
       quo_rem (p_qty p) (of_int (Z.of_nat (length (periods part)))) 1 = DOk (amount, rem) /\
       l = r1 ++ accrual_parts (t_desc t) (t_targets t) (ac_account ac) p amount rem
                               (Z.of_nat (length (periods part))) 0 (end_dates part)).
  Proof.
    unfold expand_posting_gen. fold rebooked. fold r1. intros H.
    destruct (is_IE (p_acc p)).
    - right. split; [reflexivity|].
      destruct (new_partition (mkPeriod (ac_start ac) (ac_end ac)) (ac_interval ac) 0) as [part| |]; try discriminate.
      destruct (quo_rem (p_qty p) (of_int (Z.of_nat (length (periods part)))) 1) as [[amount rem]|] eqn:Eq; try discriminate.
      injection H as H. exists part, amount, rem. repeat split; auto.
      intros Hnil. rewrite Hnil in Eq. cbn [length Z.of_nat] in Eq. rewrite quo_rem_zero_panics in Eq. discriminate.
    - left. split; [reflexivity|]. injection H as H. auto.
  Qed.

  Lemma expand_posting_balanced l :
    expand_posting_gen rebook t ac p = MOk l -> Forall (fun x => balanced (t_postings x)) l.
  Proof.
    intros H. apply expand_posting_inv in H.
    assert (Hr1 : Forall (fun x => balanced (t_postings x)) r1).
    { unfold r1. destruct (rebook (p_acc p)); [|constructor]. constructor; [|constructor].
      cbn [t_postings]. eapply is_pair_balanced. apply pair_build_is_pair. }
    destruct H as [[_ Hl]|[_ [part [amount [rem [_ [_ [_ Hl]]]]]]]]; subst l; [exact Hr1|].
    apply Forall_app. split; [exact Hr1|apply accrual_parts_balanced].
  Qed.

  Lemma expand_posting_targets l :
    expand_posting_gen rebook t ac p = MOk l -> Forall (fun x => t_targets x = t_targets t) l.
  Proof.
    intros H. apply expand_posting_inv in H.
    assert (Hr1 : Forall (fun x => t_targets x = t_targets t) r1).
    { unfold r1. destruct (rebook (p_acc p)); [|constructor]. constructor; [reflexivity|constructor]. }
    destruct H as [[_ Hl]|[_ [part [amount [rem [_ [_ [_ Hl]]]]]]]]; subst l; [exact Hr1|].
    apply Forall_app. split; [exact Hr1|apply accrual_parts_targets].
  Qed.

  (* never a panic on a non-empty window that does not start at the zero time *)
  Lemma expand_posting_ok :
    ac_start ac <> 0 -> ac_start ac <= ac_end ac -> exists l, expand_posting_gen rebook t ac p = MOk l.
  Proof.
    intros Hs Hse. unfold expand_posting_gen.
    destruct (is_IE (p_acc p)); [|eexists; reflexivity].
    destruct (accrual_partition _ _ (ac_interval ac) Hs Hse) as [part [Hnp [Hne _]]].
    rewrite Hnp.
    destruct (quo_rem_ok (p_qty p) (Z.of_nat (length (periods part)))) as [q [r Hq]].
    - destruct (periods part); [contradiction|cbn [length]; lia].
    - rewrite Hq. eexists; reflexivity.
  Qed.

  (* an empty window (end before start) divides by the number of periods, which is zero *)
  Lemma expand_posting_empty_window :
    ac_start ac <> 0 -> ac_end ac < ac_start ac -> ac_interval ac <> Once -> is_IE (p_acc p) = true ->
    expand_posting_gen rebook t ac p = MPanic e_divzero.
  Proof.
    intros Hs Hes Hiv HIE. unfold expand_posting_gen. rewrite HIE.
    destruct (empty_partition _ _ _ Hs Hes Hiv) as [part [Hnp Hnil]].
    rewrite Hnp, Hnil. cbn [length Z.of_nat]. rewrite quo_rem_zero_panics. reflexivity.
  Qed.
End OnePosting.

(* the repaired expansion of one posting: its own account receives exactly its quantity, the
   accrual account the opposite *)
Lemma expand_posting_fixed_booked a c t ac p l :
  expand_posting_fixed t ac p = MOk l ->
  (booked a c (all_postings l)
   == ind (on a c p) (dvalue (p_qty p)) - ind (a_eqb (ac_account ac) a && s_eqb (p_com p) c) (dvalue (p_qty p)))%Q.
Proof.
  intros H. apply expand_posting_inv in H. unfold r1, rebook_fixed in H.
  destruct H as [[HIE Hl]|[HIE [part [amount [rem [Hnp [Hne [Hq Hl]]]]]]]]; rewrite HIE in Hl; cbn [negb] in Hl; subst l.
  - unfold rebooked. rewrite all_postings_cons. cbn [t_postings all_postings flat_map]. rewrite app_nil_r.
    rewrite (booked_pair a c _ _ _ _ _ (pair_build_is_pair (ac_account ac) (p_acc p) (p_com p) (p_qty p))).
    unfold on. reflexivity.
  - cbn [app]. rewrite accrual_parts_booked by lia.
    assert (Htot : (first_rem 0 (end_dates part) rem
                    + inject_Z (Z.of_nat (length (end_dates part))) * dvalue amount == dvalue (p_qty p))%Q).
    { unfold end_dates. rewrite map_length. rewrite (quo_rem_spec _ _ _ _ Hq).
      unfold first_rem. destruct (periods part) as [|x r]; [contradiction|]. cbn [map Z.eqb]. ring. }
    rewrite Htot. reflexivity.
Qed.

(* the pinned expansion of one posting: as above unless the account is an equity account (or of
   no type at all), whose postings generate nothing *)
Lemma expand_posting_pinned_dropped t ac p :
  is_AL (p_acc p) = false -> is_IE (p_acc p) = false -> expand_posting_gen rebook_pinned t ac p = MOk [].
Proof.
  intros HAL HIE. unfold expand_posting_gen, rebook_pinned. rewrite HAL, HIE. reflexivity.
Qed.

Lemma expand_posting_fixed_leg t ac p l :
  expand_posting_fixed t ac p = MOk l ->
  exists ends,
    (is_IE (p_acc p) = true ->
     exists part, new_partition (mkPeriod (ac_start ac) (ac_end ac)) (ac_interval ac) 0 = POk part /\
                  ends = end_dates part) /\
    leg_ok (t_date t) (t_desc t) (t_targets t) (ac_account ac) ends p l.
Proof.
  intros H. apply expand_posting_inv in H. unfold r1, rebook_fixed in H.
  destruct H as [[HIE Hl]|[HIE [part [amount [rem [Hnp [Hne [Hq Hl]]]]]]]]; rewrite HIE in Hl; cbn [negb] in Hl; subst l.
  - exists []. split; [intros E; rewrite HIE in E; discriminate|]. unfold leg_ok. rewrite HIE.
    eexists. split; [reflexivity|]. cbn [t_date t_desc t_targets t_postings].
    repeat split. apply pair_build_is_pair.
  - exists (end_dates part). split; [intros _; exists part; auto|].
    unfold leg_ok. rewrite HIE. cbn [app].
    replace (Z.of_nat (length (periods part))) with (Z.of_nat (length (end_dates part)))
      by (unfold end_dates; rewrite map_length; reflexivity).
    apply (accrual_parts_ok _ _ _ _ _ _ _ _ 0%nat).
Qed.

(* ---------------------------------------------------------------- all postings *)

Lemma expand_postings_balanced rebook t ac ps : forall l,
  expand_postings_gen rebook t ac ps = MOk l -> Forall (fun x => balanced (t_postings x)) l.
Proof.
  induction ps as [|p rest IH]; intros l H; cbn [expand_postings_gen] in H.
  - injection H as H. subst l. constructor.
  - apply mbind_ok in H. destruct H as [l1 [H1 H]].
    apply mbind_ok in H. destruct H as [l2 [H2 H]]. injection H as H. subst l.
    apply Forall_app. split; [exact (expand_posting_balanced _ _ _ _ _ H1)|exact (IH _ H2)].
Qed.

Lemma expand_postings_targets rebook t ac ps : forall l,
  expand_postings_gen rebook t ac ps = MOk l -> Forall (fun x => t_targets x = t_targets t) l.
Proof.
  induction ps as [|p rest IH]; intros l H; cbn [expand_postings_gen] in H.
  - injection H as H. subst l. constructor.
  - apply mbind_ok in H. destruct H as [l1 [H1 H]].
    apply mbind_ok in H. destruct H as [l2 [H2 H]]. injection H as H. subst l.
    apply Forall_app. split; [exact (expand_posting_targets _ _ _ _ _ H1)|exact (IH _ H2)].
Qed.

Lemma expand_postings_ok rebook t ac ps :
  ac_start ac <> 0 -> ac_start ac <= ac_end ac -> exists l, expand_postings_gen rebook t ac ps = MOk l.
Proof.
  intros Hs Hse. induction ps as [|p rest [l2 IH]]; cbn [expand_postings_gen]; [eexists; reflexivity|].
  destruct (expand_posting_ok rebook t ac p Hs Hse) as [l1 H1]. rewrite H1, IH. cbn [mbind]. eexists; reflexivity.
Qed.

Lemma expand_postings_empty_window rebook t ac ps :
  ac_start ac <> 0 -> ac_end ac < ac_start ac -> ac_interval ac <> Once ->
  existsb (fun p => is_IE (p_acc p)) ps = true ->
  expand_postings_gen rebook t ac ps = MPanic e_divzero.
Proof.
  intros Hs Hes Hiv. induction ps as [|p rest IH]; cbn [existsb expand_postings_gen]; [discriminate|].
  intros H. destruct (is_IE (p_acc p)) eqn:HIE.
  - rewrite (expand_posting_empty_window rebook t ac p Hs Hes Hiv HIE). reflexivity.
  - cbn [orb] in H. unfold expand_posting_gen at 1. rewrite HIE. cbn [mbind]. rewrite (IH H). reflexivity.
Qed.

Lemma expand_postings_zero_start rebook t ac ps :
  ac_start ac = 0 -> existsb (fun p => is_IE (p_acc p)) ps = true ->
  expand_postings_gen rebook t ac ps = MPanic e_zerotime.
Proof.
  intros Hs. induction ps as [|p rest IH]; cbn [existsb expand_postings_gen]; [discriminate|].
  intros H. destruct (is_IE (p_acc p)) eqn:E.
  - unfold expand_posting_gen. rewrite E. unfold new_partition. cbn [p_start]. rewrite Hs. reflexivity.
  - cbn [orb] in H. unfold expand_posting_gen at 1. rewrite E. cbn [mbind]. rewrite (IH H). reflexivity.
Qed.

(* the sum over all legs: every account keeps what the original postings booked on it, and the
   accrual account additionally receives the opposite of everything *)
Lemma expand_postings_fixed_booked a c t ac ps : forall l,
  expand_postings_fixed t ac ps = MOk l ->
  (booked a c (all_postings l) == booked a c ps - ind (a_eqb (ac_account ac) a) (com_total c ps))%Q.
Proof.
  induction ps as [|p rest IH]; intros l H; cbn [expand_postings_fixed expand_postings_gen] in H.
  - injection H as H. subst l. cbn [all_postings flat_map booked com_total]. unfold ind.
    destruct (a_eqb (ac_account ac) a); ring.
  - apply mbind_ok in H. destruct H as [l1 [H1 H]].
    apply mbind_ok in H. destruct H as [l2 [H2 H]]. injection H as H. subst l.
    rewrite all_postings_app, booked_app.
    rewrite (expand_posting_fixed_booked a c t ac p l1 H1). rewrite (IH l2 H2).
    cbn [booked com_total]. unfold ind.
    destruct (a_eqb (ac_account ac) a), (on a c p), (s_eqb (p_com p) c); cbn [andb]; ring.
Qed.

Lemma expand_postings_fixed_legs t ac ps : forall l,
  expand_postings_fixed t ac ps = MOk l ->
  exists legs, l = concat legs /\
    Forall2 (fun p leg => exists ends,
               (is_IE (p_acc p) = true ->
                exists part, new_partition (mkPeriod (ac_start ac) (ac_end ac)) (ac_interval ac) 0 = POk part /\
                             ends = end_dates part) /\
               leg_ok (t_date t) (t_desc t) (t_targets t) (ac_account ac) ends p leg) ps legs.
Proof.
  induction ps as [|p rest IH]; intros l H; cbn [expand_postings_fixed expand_postings_gen] in H.
  - injection H as H. subst l. exists []. split; [reflexivity|constructor].
  - apply mbind_ok in H. destruct H as [l1 [H1 H]].
    apply mbind_ok in H. destruct H as [l2 [H2 H]]. injection H as H. subst l.
    destruct (IH l2 H2) as [legs [Hc HF]].
    exists (l1 :: legs). split; [cbn [concat]; rewrite Hc; reflexivity|].
    constructor; [exact (expand_posting_fixed_leg t ac p l1 H1)|exact HF].
Qed.

(* ---------------------------------------------------------------- transaction.Create *)

Lemma txn_create_inv rebook s ts :
  txn_create_gen rebook s = MOk ts ->
  exists ps, postings_create (st_bookings s) = MOk ps /\
    match st_accrual s with
    | None => ts = [mkTxn (st_date s) (st_desc s) ps (st_targets s)]
    | Some ac => valid_account (ac_account ac) = true /\
                 expand_postings_gen rebook (mkTxn (st_date s) (st_desc s) ps (st_targets s)) ac ps = MOk ts
    end.
Proof.
  unfold txn_create_gen. intros H. apply mbind_ok in H. destruct H as [ps [Hps H]].
  exists ps. split; [exact Hps|].
  destruct (st_accrual s) as [ac|].
  - unfold expand_gen, check_account in H. cbn [t_postings] in H.
    destruct (valid_account (ac_account ac)); cbn [mbind] in H; [split; [reflexivity|exact H]|discriminate].
  - injection H as H. auto.
Qed.

(* every generated transaction balances -- with or without an accrual, pinned or repaired *)
Lemma create_each_balances rebook s ts :
  txn_create_gen rebook s = MOk ts -> Forall (fun t => balanced (t_postings t)) ts.
Proof.
  intros H. apply txn_create_inv in H. destruct H as [ps [Hps H]].
  destruct (st_accrual s) as [ac|].
  - destruct H as [_ H]. exact (expand_postings_balanced _ _ _ _ _ H).
  - subst ts. constructor; [|constructor]. cbn [t_postings]. exact (postings_create_balanced _ _ Hps).
Qed.

(* ... and in the accrual case consists of exactly one pair *)
Lemma expand_postings_pairs rebook t ac ps : forall l,
  expand_postings_gen rebook t ac ps = MOk l ->
  Forall (fun x => exists a b c q, is_pair a b c q (t_postings x)) l.
Proof.
  induction ps as [|p rest IH]; intros l H; cbn [expand_postings_gen] in H.
  - injection H as H. subst l. constructor.
  - apply mbind_ok in H. destruct H as [l1 [H1 H]].
    apply mbind_ok in H. destruct H as [l2 [H2 H]]. injection H as H. subst l.
    apply Forall_app. split; [|exact (IH _ H2)].
    apply expand_posting_inv in H1.
    assert (Hr1 : Forall (fun x => exists a b c q, is_pair a b c q (t_postings x)) (r1 rebook t ac p)).
    { unfold r1. destruct (rebook (p_acc p)); [|constructor]. constructor; [|constructor].
      cbn [t_postings]. do 4 eexists. apply pair_build_is_pair. }
    destruct H1 as [[_ Hl]|[_ [part [amount [rem [_ [_ [_ Hl]]]]]]]]; subst l1; [exact Hr1|].
    apply Forall_app. split; [exact Hr1|].
    apply accrual_parts_pairs.
Qed.

Lemma create_each_pair rebook s ac ts :
  txn_create_gen rebook s = MOk ts -> st_accrual s = Some ac ->
  Forall (fun t => exists a b c q, is_pair a b c q (t_postings t)) ts.
Proof.
  intros H Hac. apply txn_create_inv in H. destruct H as [ps [Hps H]]. rewrite Hac in H.
  destruct H as [_ H]. exact (expand_postings_pairs _ _ _ _ _ H).
Qed.

(* conservation, for every account including the accrual account *)
Lemma create_fixed_conserve s ac ts a c :
  txn_create_fixed s = MOk ts -> st_accrual s = Some ac ->
  (booked_txns a c ts == booked_src a c (st_bookings s))%Q.
Proof.
  intros H Hac. apply txn_create_inv in H. destruct H as [ps [Hps H]]. rewrite Hac in H.
  destruct H as [_ H]. unfold booked_txns.
  rewrite (expand_postings_fixed_booked a c _ ac ps ts H).
  rewrite (postings_create_booked a c _ _ Hps).
  rewrite (postings_create_balanced _ _ Hps c). unfold ind. destruct (a_eqb (ac_account ac) a); ring.
Qed.

Lemma create_fixed_conserve_other s ac ts a c :
  txn_create_fixed s = MOk ts -> st_accrual s = Some ac ->
  a <> ac_account ac ->
  (booked_txns a c ts == booked_src a c (st_bookings s))%Q.
Proof. intros H Hac _. exact (create_fixed_conserve s ac ts a c H Hac). Qed.

Lemma create_fixed_conserve_accrual s ac ts c :
  txn_create_fixed s = MOk ts -> st_accrual s = Some ac ->
  (booked_txns (ac_account ac) c ts == booked_src (ac_account ac) c (st_bookings s))%Q.
Proof. intros H Hac. exact (create_fixed_conserve s ac ts (ac_account ac) c H Hac). Qed.

Lemma create_fixed_accrual_zero s ac ts c :
  txn_create_fixed s = MOk ts -> st_accrual s = Some ac ->
  ~ in_bookings (ac_account ac) (st_bookings s) ->
  (booked_txns (ac_account ac) c ts == 0)%Q.
Proof.
  intros H Hac Hnot. rewrite (create_fixed_conserve s ac ts _ c H Hac). apply not_in_bookings_src. exact Hnot.
Qed.

Lemma create_targets rebook s ts :
  txn_create_gen rebook s = MOk ts -> Forall (fun t => t_targets t = st_targets s) ts.
Proof.
  intros H. apply txn_create_inv in H. destruct H as [ps [Hps H]].
  destruct (st_accrual s) as [ac|].
  - destruct H as [_ H]. exact (expand_postings_targets _ _ _ _ _ H).
  - subst ts. constructor; [reflexivity|constructor].
Qed.

Lemma create_no_panic rebook s ac :
  st_accrual s = Some ac -> ac_start ac <> 0 -> ac_start ac <= ac_end ac ->
  forall m, txn_create_gen rebook s <> MPanic m.
Proof.
  intros Hac Hs Hse m H. unfold txn_create_gen in H.
  apply mbind_panic in H. destruct H as [H|[ps [Hps H]]]; [exact (postings_create_no_panic _ _ H)|].
  rewrite Hac in H. unfold expand_gen, check_account in H.
  destruct (valid_account (ac_account ac)); cbn [mbind] in H; [|discriminate].
  destruct (expand_postings_ok rebook (mkTxn (st_date s) (st_desc s) ps (st_targets s)) ac ps Hs Hse) as [l Hl].
  cbn [t_postings] in H. rewrite Hl in H. discriminate.
Qed.

(* with valid accounts the expansion succeeds *)
Lemma create_ok rebook s ac :
  st_accrual s = Some ac -> ac_start ac <> 0 -> ac_start ac <= ac_end ac ->
  (exists ts, txn_create_gen rebook s = MOk ts) \/ txn_create_gen rebook s = MErr e_account.
Proof.
  intros Hac Hs Hse. unfold txn_create_gen.
  assert (Hpc : forall bs, (exists ps, postings_create bs = MOk ps) \/ postings_create bs = MErr e_account).
  { induction bs as [|b rest IH]; cbn [postings_create]; [left; eexists; reflexivity|].
    unfold check_account.
    destruct (valid_account (b_credit b)); cbn [mbind]; [|right; reflexivity].
    destruct (valid_account (b_debit b)); cbn [mbind]; [|right; reflexivity].
    destruct IH as [[ps IH]|IH]; rewrite IH; cbn [mbind]; [left; eexists; reflexivity|right; reflexivity]. }
  destruct (Hpc (st_bookings s)) as [[ps Hps]|Hps]; rewrite Hps; cbn [mbind]; [|right; reflexivity].
  rewrite Hac. unfold expand_gen, check_account.
  destruct (valid_account (ac_account ac)); cbn [mbind]; [|right; reflexivity].
  left. cbn [t_postings]. apply expand_postings_ok; assumption.
Qed.

Lemma create_empty_window rebook s ac ps :
  st_accrual s = Some ac -> postings_create (st_bookings s) = MOk ps ->
  valid_account (ac_account ac) = true ->
  ac_start ac <> 0 -> ac_end ac < ac_start ac -> ac_interval ac <> Once ->
  existsb (fun p => is_IE (p_acc p)) ps = true ->
  txn_create_gen rebook s = MPanic e_divzero.
Proof.
  intros Hac Hps Hv Hs Hes Hiv HIE. unfold txn_create_gen. rewrite Hps. cbn [mbind]. rewrite Hac.
  unfold expand_gen, check_account. rewrite Hv. cbn [mbind t_postings].
  apply expand_postings_empty_window; assumption.
Qed.

Lemma create_zero_start rebook s ac ps :
  st_accrual s = Some ac -> postings_create (st_bookings s) = MOk ps ->
  valid_account (ac_account ac) = true -> ac_start ac = 0 ->
  existsb (fun p => is_IE (p_acc p)) ps = true ->
  txn_create_gen rebook s = MPanic e_zerotime.
Proof.
  intros Hac Hps Hv Hs HIE. unfold txn_create_gen. rewrite Hps. cbn [mbind]. rewrite Hac.
  unfold expand_gen, check_account. rewrite Hv. cbn [mbind t_postings].
  apply expand_postings_zero_start; assumption.
Qed.

(* dates: the generated transactions are the concatenation of the expansions of the legs *)
Lemma create_fixed_dates s ac ts :
  txn_create_fixed s = MOk ts -> st_accrual s = Some ac ->
  ac_start ac <> 0 -> ac_start ac <= ac_end ac ->
  exists ps part legs,
    postings_create (st_bookings s) = MOk ps /\
    new_partition (mkPeriod (ac_start ac) (ac_end ac)) (ac_interval ac) 0 = POk part /\
    periods part <> [] /\
    (ac_interval ac <> Once -> tiles (ac_start ac) (ac_end ac) (periods part)) /\
    (ac_interval ac = Once -> periods part = [mkPeriod (ac_start ac) (ac_end ac)]) /\
    (ac_interval ac <> Once -> ascending (end_dates part)) /\
    ts = concat legs /\
    Forall2 (leg_ok (st_date s) (st_desc s) (st_targets s) (ac_account ac) (end_dates part)) ps legs.
Proof.
  intros H Hac Hs Hse. apply txn_create_inv in H. destruct H as [ps [Hps H]]. rewrite Hac in H.
  destruct H as [_ H].
  destruct (accrual_partition _ _ (ac_interval ac) Hs Hse) as [part [Hnp [Hne [Ht Ho]]]].
  destruct (expand_postings_fixed_legs _ ac ps ts H) as [legs [Hc HF]].
  exists ps, part, legs. repeat split; auto.
  - intros Hiv. unfold end_dates. eapply tiles_ends_ascending. exact (Ht Hiv).
  - cbn [t_date t_desc t_targets] in HF.
    clear Hc H Hps. induction HF as [|p leg ps' legs' [ends [He Hleg]] HF IH]; constructor; [|exact IH].
    unfold leg_ok in *. destruct (is_IE (p_acc p)) eqn:HIE; [|exact Hleg].
    destruct (He eq_refl) as [part' [Hnp' Hends]]. rewrite Hnp in Hnp'. injection Hnp' as Hp. subst part' ends.
    exact Hleg.
Qed.

(* ---------------------------------------------------------------- the executable statement *)

Lemma qadd_eq x y : (qadd x y == x + y)%Q.
Proof. unfold qadd. apply Qred_correct. Qed.

Lemma booked_r_eq a c ps : (booked_r a c ps == booked a c ps)%Q.
Proof.
  induction ps as [|p r IH]; cbn [booked_r booked]; [reflexivity|]. rewrite qadd_eq, IH. reflexivity.
Qed.

Lemma booked_src_r_eq a c bs : (booked_src_r a c bs == booked_src a c bs)%Q.
Proof.
  induction bs as [|b r IH]; cbn [booked_src_r booked_src]; [reflexivity|]. rewrite qadd_eq, IH. reflexivity.
Qed.

Lemma com_total_r_eq c ps : (com_total_r c ps == com_total c ps)%Q.
Proof.
  induction ps as [|p r IH]; cbn [com_total_r com_total]; [reflexivity|]. rewrite qadd_eq, IH. reflexivity.
Qed.

Lemma com_total_absent c ps : (forall p, In p ps -> p_com p <> c) -> (com_total c ps == 0)%Q.
Proof.
  induction ps as [|p r IH]; intros H; cbn [com_total]; [reflexivity|].
  rewrite IH by (intros q Hq; apply H; right; exact Hq).
  destruct (s_eqb (p_com p) c) eqn:E; [apply s_eqb_eq in E; exfalso; exact (H p (or_introl eq_refl) E)|ring].
Qed.

Lemma booked_absent a c ps : (forall p, In p ps -> (p_acc p, p_com p) <> (a, c)) -> (booked a c ps == 0)%Q.
Proof.
  induction ps as [|p r IH]; intros H; cbn [booked]; [reflexivity|].
  rewrite IH by (intros q Hq; apply H; right; exact Hq).
  unfold on. destruct (a_eqb (p_acc p) a) eqn:E1; cbn [andb]; [|ring].
  destruct (s_eqb (p_com p) c) eqn:E2; [|ring].
  apply a_eqb_eq in E1. apply s_eqb_eq in E2. exfalso. apply (H p (or_introl eq_refl)). rewrite E1, E2. reflexivity.
Qed.

Lemma booked_src_absent a c bs :
  (forall b, In b bs -> (b_credit b, b_com b) <> (a, c) /\ (b_debit b, b_com b) <> (a, c)) ->
  (booked_src a c bs == 0)%Q.
Proof.
  induction bs as [|b r IH]; intros H; cbn [booked_src]; [reflexivity|].
  rewrite IH by (intros q Hq; apply H; right; exact Hq).
  destruct (H b (or_introl eq_refl)) as [Hc Hd].
  destruct (s_eqb (b_com b) c) eqn:E2; [|ring]. apply s_eqb_eq in E2.
  rewrite (a_eqb_neq (b_debit b) a), (a_eqb_neq (b_credit b) a); [ring| |].
  - intros E. apply Hc. rewrite E, E2. reflexivity.
  - intros E. apply Hd. rewrite E, E2. reflexivity.
Qed.

(* soundness of the executable clauses: what the check accepts satisfies the statements *)
Lemma balanced_b_sound ps : balanced_b ps = true -> balanced ps.
Proof.
  unfold balanced_b. intros H c. rewrite forallb_forall in H.
  destruct (in_dec (list_eq_dec Z.eq_dec) c (map p_com ps)) as [Hin|Hout].
  - apply in_map_iff in Hin. destruct Hin as [p [Hp Hin]]. specialize (H p Hin).
    apply Qeq_bool_iff in H. rewrite com_total_r_eq, Hp in H. exact H.
  - apply com_total_absent. intros p Hin E. apply Hout. apply in_map_iff. exists p. auto.
Qed.

Lemma conserve_b_sound bs ts :
  conserve_b bs ts = true -> forall a c, (booked_txns a c ts == booked_src a c bs)%Q.
Proof.
  unfold conserve_b, booked_txns. intros H a c. rewrite forallb_forall in H.
  destruct (in_dec cell_eq_dec (a, c) (cells_of_postings (all_postings ts) ++ cells_of_bookings bs)) as [Hin|Hout].
  - apply (nodup_In cell_eq_dec) in Hin. specialize (H _ Hin). cbn [fst snd] in H. apply Qeq_bool_iff in H.
    rewrite booked_r_eq, booked_src_r_eq in H. exact H.
  - rewrite booked_absent, booked_src_absent; [reflexivity| |].
    + intros b Hb. split; intros E; apply Hout; apply in_or_app; right; unfold cells_of_bookings;
        apply in_flat_map; exists b; (split; [exact Hb|]); rewrite <- E; cbn [In]; auto.
    + intros p Hp E. apply Hout. apply in_or_app. left. unfold cells_of_postings. apply in_map_iff.
      exists p. auto.
Qed.

Lemma accrual_zero_b_sound acc ts :
  accrual_zero_b acc ts = true -> forall c, (booked_txns acc c ts == 0)%Q.
Proof.
  unfold accrual_zero_b, booked_txns. intros H c. rewrite forallb_forall in H.
  destruct (in_dec str_eq_dec c (map p_com (all_postings ts))) as [Hin|Hout].
  - apply (nodup_In str_eq_dec) in Hin. specialize (H c Hin).
    apply Qeq_bool_iff in H. rewrite booked_r_eq in H. exact H.
  - apply booked_absent. intros p Hin E. apply Hout. apply in_map_iff. exists p.
    split; [injection E as _ E; exact E|exact Hin].
Qed.

Lemma in_bookings_b_false acc bs : in_bookings_b acc bs = false -> ~ in_bookings acc bs.
Proof.
  unfold in_bookings_b, in_bookings. intros H [b [Hin Hb]].
  assert (Ht : existsb (fun b => a_eqb (b_credit b) acc || a_eqb (b_debit b) acc) bs = true).
  { apply existsb_exists. exists b. split; [exact Hin|].
    destruct Hb as [Hb|Hb]; rewrite Hb, a_eqb_refl; [reflexivity|apply orb_true_r]. }
  rewrite Ht in H. discriminate.
Qed.

Lemma verdict_sound s ac ends ts :
  accrual_verdict s ac ends ts = 0 ->
  Forall (fun t => balanced (t_postings t)) ts /\
  (forall a c, (booked_txns a c ts == booked_src a c (st_bookings s))%Q) /\
  (~ in_bookings (ac_account ac) (st_bookings s) -> forall c, (booked_txns (ac_account ac) c ts == 0)%Q).
Proof.
  unfold accrual_verdict. intros H.
  destruct (forallb (fun t => balanced_b (t_postings t)) ts) eqn:E1; cbn [negb] in H; [|discriminate].
  destruct (conserve_b (st_bookings s) ts) eqn:E2; cbn [negb] in H; [|discriminate].
  split; [|split].
  - apply Forall_forall. intros t Hin. rewrite forallb_forall in E1. apply balanced_b_sound. exact (E1 t Hin).
  - exact (conserve_b_sound _ _ E2).
  - intros Hnot c. rewrite (conserve_b_sound _ _ E2). apply not_in_bookings_src. exact Hnot.
Qed.

(* clause 5 *)
Lemma list_eqb_refl {A} (eqb : A -> A -> bool) : (forall x, eqb x x = true) -> forall l, list_eqb eqb l l = true.
Proof. intros H. induction l as [|x r IH]; cbn [list_eqb]; [reflexivity|]. rewrite H, IH. reflexivity. Qed.

Lemma targets_b_sound targets ts : targets_b targets ts = true -> Forall (fun t => t_targets t = targets) ts.
Proof.
  unfold targets_b. intros H. rewrite forallb_forall in H. apply Forall_forall. intros t Hin. specialize (H t Hin).
  destruct targets as [l1|], (t_targets t) as [l2|]; try discriminate; [|reflexivity].
  apply (list_eqb_eq s_eqb s_eqb_eq) in H. subst. reflexivity.
Qed.

Lemma targets_b_complete targets ts : Forall (fun t => t_targets t = targets) ts -> targets_b targets ts = true.
Proof.
  unfold targets_b. intros H. apply forallb_forall. intros t Hin. rewrite Forall_forall in H. rewrite (H t Hin).
  destruct targets as [l|]; [|reflexivity]. apply list_eqb_refl. exact s_eqb_refl.
Qed.

Lemma verdict_sound_targets s ac ends ts :
  accrual_verdict s ac ends ts = 0 -> Forall (fun t => t_targets t = st_targets s) ts.
Proof.
  unfold accrual_verdict. intros H.
  destruct (negb (forallb (fun t => balanced_b (t_postings t)) ts)); [discriminate|].
  destruct (negb (conserve_b (st_bookings s) ts)); [discriminate|].
  destruct (negb (in_bookings_b (ac_account ac) (st_bookings s)) && negb (accrual_zero_b (ac_account ac) ts)); [discriminate|].
  destruct (negb (dates_b (st_date s) (st_desc s) (ac_account ac) ends (st_bookings s) ts)); [discriminate|].
  destruct (targets_b (st_targets s) ts) eqn:E; cbn [negb] in H; [|discriminate].
  exact (targets_b_sound _ _ E).
Qed.

(* completeness of clauses 1-3: what satisfies the statements is accepted *)
Lemma balanced_b_complete ps : balanced ps -> balanced_b ps = true.
Proof.
  unfold balanced_b. intros H. apply forallb_forall. intros p _. apply Qeq_bool_iff.
  rewrite com_total_r_eq. apply H.
Qed.

Lemma conserve_b_complete bs ts :
  (forall a c, (booked_txns a c ts == booked_src a c bs)%Q) -> conserve_b bs ts = true.
Proof.
  unfold conserve_b, booked_txns. intros H. apply forallb_forall. intros [a c] _. cbn [fst snd].
  apply Qeq_bool_iff. rewrite booked_r_eq, booked_src_r_eq. apply H.
Qed.

Lemma accrual_zero_b_complete acc ts : (forall c, (booked_txns acc c ts == 0)%Q) -> accrual_zero_b acc ts = true.
Proof.
  unfold accrual_zero_b, booked_txns. intros H. apply forallb_forall. intros c _.
  apply Qeq_bool_iff. rewrite booked_r_eq. apply H.
Qed.

(* The repaired model's own output passes clauses 1, 2, 3 and 5 of the executable statement: the
   verdict on it can only be 0 or 4.  (That it is 0, i.e. that clause 4 -- the order-free
   comparison of dates/descriptions/leg accounts -- accepts the model's output, is not proved;
   the driver evaluates it on every case of every run and reports "!model-fails-spec-clause-4".) *)
Lemma model_meets_spec_partial s ac ends ts :
  txn_create_fixed s = MOk ts -> st_accrual s = Some ac ->
  accrual_verdict s ac ends ts = 0 \/ accrual_verdict s ac ends ts = 4.
Proof.
  intros H Hac. unfold accrual_verdict.
  assert (E1 : forallb (fun t => balanced_b (t_postings t)) ts = true).
  { apply forallb_forall. intros t Hin. apply balanced_b_complete.
    pose proof (create_each_balances _ _ _ H) as HF. rewrite Forall_forall in HF. exact (HF t Hin). }
  rewrite E1. cbn [negb].
  rewrite (conserve_b_complete _ _ (fun a c => create_fixed_conserve s ac ts a c H Hac)). cbn [negb].
  assert (E3 : negb (in_bookings_b (ac_account ac) (st_bookings s)) && negb (accrual_zero_b (ac_account ac) ts) = false).
  { destruct (in_bookings_b (ac_account ac) (st_bookings s)) eqn:Ein; [reflexivity|]. cbn [negb andb].
    rewrite accrual_zero_b_complete; [reflexivity|].
    intros c. apply (create_fixed_accrual_zero s ac ts c H Hac). exact (in_bookings_b_false _ _ Ein). }
  rewrite E3.
  destruct (dates_b (st_date s) (st_desc s) (ac_account ac) ends (st_bookings s) ts); cbn [negb]; [|right; reflexivity].
  rewrite (targets_b_complete _ _ (create_targets _ _ _ H)). left. reflexivity.
Qed.


(* ---------------------------------------------------------------- clause 4 on the model's output *)

Lemma observed_key_pair acc x c q d desc tg :
  observed_key acc (mkTxn d desc (pair_build acc x c q dec_nil) tg) = Some (d, desc, x, c).
Proof.
  unfold observed_key. cbn [t_postings t_date t_desc].
  destruct (pair_build_is_pair acc x c q) as [H|H]; rewrite H; unfold pair_postings; cbn [rev app];
    cbn [p_acc p_other p_com]; rewrite !a_eqb_refl, s_eqb_refl; cbn [andb orb].
  - reflexivity.
  - rewrite orb_true_r. destruct (a_eqb x acc) eqn:E; [apply a_eqb_eq in E; subst x|]; reflexivity.
Qed.

Definition part_keys (desc : str) (n : Z) (a : account) (c : commodity) (i : Z) (ends : list Z) : list key :=
  map (fun ie => (snd ie, part_desc desc (fst ie) n, a, c)) (numbered_from i ends).

Lemma accrual_parts_keys desc tg acc p amount rem n ends : forall i,
  map (observed_key acc) (accrual_parts desc tg acc p amount rem n i ends)
  = map Some (part_keys desc n (p_acc p) (p_com p) (i + 1) ends).
Proof.
  induction ends as [|dt rest IH]; intros i; cbn [accrual_parts map numbered_from part_keys]; [reflexivity|].
  rewrite observed_key_pair. cbn [fst snd]. unfold part_desc at 1. f_equal. apply IH.
Qed.

Lemma all_some_map_some {A} (l : list A) : all_some (map Some l) = Some l.
Proof. induction l as [|x r IH]; cbn [map all_some]; [reflexivity|]. rewrite IH. reflexivity. Qed.

Lemma all_some_app {A} (l1 l2 : list (option A)) k1 k2 :
  all_some l1 = Some k1 -> all_some l2 = Some k2 -> all_some (l1 ++ l2) = Some (k1 ++ k2).
Proof.
  revert k1. induction l1 as [|x r IH]; intros k1 H1 H2; cbn [all_some app] in *.
  - injection H1 as H1. subst k1. exact H2.
  - destruct x as [x|]; [|discriminate]. destruct (all_some r) as [kr|] eqn:E; [|discriminate].
    injection H1 as H1. subst k1. rewrite (IH kr eq_refl H2). reflexivity.
Qed.

Lemma expand_posting_fixed_keys t ac p l part :
  new_partition (mkPeriod (ac_start ac) (ac_end ac)) (ac_interval ac) 0 = POk part ->
  expand_posting_fixed t ac p = MOk l ->
  all_some (map (observed_key (ac_account ac)) l)
  = Some (leg_keys (t_date t) (t_desc t) (end_dates part) (p_acc p) (p_com p)).
Proof.
  intros Hpart H. apply expand_posting_inv in H. unfold r1, rebook_fixed in H.
  destruct H as [[HIE Hl]|[HIE [part' [amount [rem [Hnp [Hne [Hq Hl]]]]]]]]; rewrite HIE in Hl; cbn [negb] in Hl; subst l;
    unfold leg_keys; rewrite HIE.
  - unfold rebooked. cbn [map]. rewrite observed_key_pair. reflexivity.
  - rewrite Hpart in Hnp. injection Hnp as Hp. subst part'. cbn [app].
    rewrite accrual_parts_keys. rewrite all_some_map_some. unfold part_keys.
    replace (Z.of_nat (length (end_dates part))) with (Z.of_nat (length (periods part)))
      by (unfold end_dates; rewrite map_length; reflexivity).
    reflexivity.
Qed.

Lemma expand_postings_fixed_keys t ac part ps : forall l,
  new_partition (mkPeriod (ac_start ac) (ac_end ac)) (ac_interval ac) 0 = POk part ->
  expand_postings_fixed t ac ps = MOk l ->
  all_some (map (observed_key (ac_account ac)) l)
  = Some (flat_map (fun p => leg_keys (t_date t) (t_desc t) (end_dates part) (p_acc p) (p_com p)) ps).
Proof.
  induction ps as [|p rest IH]; intros l Hpart H; cbn [expand_postings_fixed expand_postings_gen] in H.
  - injection H as H. subst l. reflexivity.
  - apply mbind_ok in H. destruct H as [l1 [H1 H]].
    apply mbind_ok in H. destruct H as [l2 [H2 H]]. injection H as H. subst l.
    rewrite map_app. cbn [flat_map].
    apply all_some_app; [exact (expand_posting_fixed_keys t ac p l1 part Hpart H1)|exact (IH l2 Hpart H2)].
Qed.

(* the legs in posting order are the legs in booking order up to swapping the two sides of a booking *)
Lemma postings_create_keys date desc ends bs : forall ps,
  postings_create bs = MOk ps ->
  Permutation (expected_keys date desc ends bs)
              (flat_map (fun p => leg_keys date desc ends (p_acc p) (p_com p)) ps).
Proof.
  induction bs as [|b rest IH]; intros ps H; cbn [postings_create] in H.
  - injection H as H. subst ps. constructor.
  - apply mbind_ok in H. destruct H as [u1 [_ H]].
    apply mbind_ok in H. destruct H as [u2 [_ H]].
    apply mbind_ok in H. destruct H as [ps' [Hps' H]].
    injection H as H. subst ps. cbn [expected_keys flat_map]. rewrite flat_map_app.
    apply Permutation_app; [|exact (IH ps' Hps')].
    destruct (pair_build_is_pair (b_credit b) (b_debit b) (b_com b) (b_qty b)) as [Hp|Hp]; rewrite Hp;
      unfold pair_postings; cbn [rev app flat_map p_acc p_com]; rewrite app_nil_r.
    + apply Permutation_refl.
    + apply Permutation_app_comm.
Qed.

Lemma perm_filter_length {A} (f : A -> bool) l1 l2 :
  Permutation l1 l2 -> length (filter f l1) = length (filter f l2).
Proof.
  induction 1 as [|x l l' _ IH|x y l|l l' l'' _ IH1 _ IH2]; cbn [filter].
  - reflexivity.
  - destruct (f x); cbn [length]; rewrite IH; reflexivity.
  - destruct (f x), (f y); reflexivity.
  - rewrite IH1. exact IH2.
Qed.

Lemma same_keys_b_perm l1 l2 : Permutation l1 l2 -> same_keys_b l1 l2 = true.
Proof.
  intros H. unfold same_keys_b. rewrite (Permutation_length H), Nat.eqb_refl. cbn [andb].
  apply forallb_forall. intros k _. unfold count_key. rewrite (perm_filter_length _ _ _ H). apply Nat.eqb_refl.
Qed.

Lemma create_fixed_dates_b s ac ts part :
  txn_create_fixed s = MOk ts -> st_accrual s = Some ac ->
  new_partition (mkPeriod (ac_start ac) (ac_end ac)) (ac_interval ac) 0 = POk part ->
  dates_b (st_date s) (st_desc s) (ac_account ac) (end_dates part) (st_bookings s) ts = true.
Proof.
  intros H Hac Hpart. apply txn_create_inv in H. destruct H as [ps [Hps H]]. rewrite Hac in H.
  destruct H as [_ H]. unfold dates_b.
  rewrite (expand_postings_fixed_keys _ ac part ps ts Hpart H). cbn [t_date t_desc].
  apply same_keys_b_perm. exact (postings_create_keys _ _ _ _ _ Hps).
Qed.

(* The executable statement accepts everything the repaired model returns. *)
Lemma model_meets_spec s ac ts part :
  txn_create_fixed s = MOk ts -> st_accrual s = Some ac ->
  new_partition (mkPeriod (ac_start ac) (ac_end ac)) (ac_interval ac) 0 = POk part ->
  accrual_verdict s ac (end_dates part) ts = 0.
Proof.
  intros H Hac Hpart.
  destruct (model_meets_spec_partial s ac (end_dates part) ts H Hac) as [E|E]; [exact E|].
  exfalso. unfold accrual_verdict in E.
  rewrite (create_fixed_dates_b s ac ts part H Hac Hpart) in E. cbn [negb] in E.
  destruct (negb (forallb (fun t => balanced_b (t_postings t)) ts)); [discriminate|].
  destruct (negb (conserve_b (st_bookings s) ts)); [discriminate|].
  destruct (negb (in_bookings_b (ac_account ac) (st_bookings s)) && negb (accrual_zero_b (ac_account ac) ts)); [discriminate|].
  destruct (negb (targets_b (st_targets s) ts)); discriminate.
Qed.


(* ---------------------------------------------------------------- soundness of clause 4 *)

Lemma key_eqb_eq k1 k2 : key_eqb k1 k2 = true <-> k1 = k2.
Proof.
  destruct k1 as [[[d1 s1] a1] c1], k2 as [[[d2 s2] a2] c2]. unfold key_eqb.
  rewrite !andb_true_iff, Z.eqb_eq, !s_eqb_eq, a_eqb_eq. split.
  - intros [[[H1 H2] H3] H4]. subst. reflexivity.
  - intros H. injection H as H1 H2 H3 H4. auto.
Qed.

Lemma count_key_cons k x l : count_key k (x :: l) = ((if key_eqb k x then 1 else 0) + count_key k l)%nat.
Proof. unfold count_key. cbn [filter]. destruct (key_eqb k x); reflexivity. Qed.

Lemma count_key_app k l1 l2 : count_key k (l1 ++ l2) = (count_key k l1 + count_key k l2)%nat.
Proof. unfold count_key. rewrite filter_app, app_length. reflexivity. Qed.

Lemma count_pos_in k l : (0 < count_key k l)%nat -> In k l.
Proof.
  induction l as [|x r IH]; [cbn; lia|]. rewrite count_key_cons.
  destruct (key_eqb k x) eqn:E; [apply key_eqb_eq in E; subst; left; reflexivity|].
  intros H. right. apply IH. lia.
Qed.

Lemma same_counts_perm : forall l1 l2,
  length l1 = length l2 -> (forall k, In k l1 -> count_key k l1 = count_key k l2) -> Permutation l1 l2.
Proof.
  induction l1 as [|x r IH]; intros l2 Hlen Hc.
  - destruct l2; [constructor|discriminate].
  - assert (Hin : In x l2).
    { apply count_pos_in. rewrite <- (Hc x (or_introl eq_refl)). rewrite count_key_cons.
      replace (key_eqb x x) with true by (symmetry; apply key_eqb_eq; reflexivity). lia. }
    apply in_split in Hin. destruct Hin as [a [b Hl2]]. subst l2.
    apply Permutation_cons_app. apply IH.
    + rewrite app_length in *. cbn [length] in *. lia.
    + intros k Hk. specialize (Hc k (or_intror Hk)).
      rewrite count_key_cons, count_key_app, count_key_cons in Hc. rewrite count_key_app. lia.
Qed.

Lemma same_keys_b_sound l1 l2 : same_keys_b l1 l2 = true -> Permutation l1 l2.
Proof.
  unfold same_keys_b. intros H. apply andb_true_iff in H. destruct H as [Hl Hc].
  apply Nat.eqb_eq in Hl. rewrite forallb_forall in Hc.
  apply same_counts_perm; [exact Hl|]. intros k Hk. apply Nat.eqb_eq. exact (Hc k Hk).
Qed.

Lemma all_some_inv {A} (l : list (option A)) ks : all_some l = Some ks -> l = map Some ks.
Proof.
  revert ks. induction l as [|x r IH]; intros ks H; cbn [all_some] in H.
  - injection H as H. subst ks. reflexivity.
  - destruct x as [x|]; [|discriminate]. destruct (all_some r) as [kr|]; [|discriminate].
    injection H as H. subst ks. cbn [map]. rewrite (IH kr eq_refl). reflexivity.
Qed.

(* clause 4: every generated transaction is a pair with the accrual account, and the multiset of
   (date, description, leg account, commodity) is the expected one: per side of every booking
   line one entry per period end (income/expense side) or one at the original date *)
Lemma dates_b_sound date desc acc ends bs ts :
  dates_b date desc acc ends bs ts = true ->
  exists ks, map (observed_key acc) ts = map Some ks /\ Permutation (expected_keys date desc ends bs) ks.
Proof.
  unfold dates_b. destruct (all_some (map (observed_key acc) ts)) as [ks|] eqn:E; [|discriminate].
  intros H. exists ks. split; [exact (all_some_inv _ _ E)|exact (same_keys_b_sound _ _ H)].
Qed.

Lemma verdict_sound_dates s ac ends ts :
  accrual_verdict s ac ends ts = 0 ->
  exists ks, map (observed_key (ac_account ac)) ts = map Some ks /\
             Permutation (expected_keys (st_date s) (st_desc s) ends (st_bookings s)) ks.
Proof.
  unfold accrual_verdict. intros H.
  destruct (negb (forallb (fun t => balanced_b (t_postings t)) ts)); [discriminate|].
  destruct (negb (conserve_b (st_bookings s) ts)); [discriminate|].
  destruct (negb (in_bookings_b (ac_account ac) (st_bookings s)) && negb (accrual_zero_b (ac_account ac) ts)); [discriminate|].
  destruct (dates_b (st_date s) (st_desc s) (ac_account ac) ends (st_bookings s) ts) eqn:E; cbn [negb] in H; [|discriminate].
  exact (dates_b_sound _ _ _ _ _ _ E).
Qed.

(* ---------------------------------------------------------------- the pinned code *)

Lemma equity_refuted : exists s ac ts a c,
  txn_create_gen rebook_pinned s = MOk ts /\ st_accrual s = Some ac /\
  ac_start ac <> 0 /\ ac_start ac <= ac_end ac /\
  a <> ac_account ac /\ ~ in_bookings (ac_account ac) (st_bookings s) /\
  ~ (booked_txns a c ts == booked_src a c (st_bookings s))%Q /\
  ~ (booked_txns (ac_account ac) c ts == 0)%Q.
Proof.
  exists witness, witness_accrual.
  eexists. exists acc_equity_opening, chf.
  split; [vm_compute; reflexivity|].
  split; [reflexivity|].
  split; [vm_compute; discriminate|].
  split; [vm_compute; discriminate|].
  split; [discriminate|].
  split.
  - intros [bk [Hin Hb]]. cbn [st_bookings witness In] in Hin. destruct Hin as [Hin|[]]. subst bk.
    cbn [b_credit b_debit] in Hb. destruct Hb as [Hb|Hb]; discriminate Hb.
  - split; vm_compute; discriminate.
Qed.
