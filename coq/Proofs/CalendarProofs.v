(* Calendar facts for every day, lifted from the one-era sweeps of CalendarSweep.v. *)
From Coq Require Import ZArith List Bool Lia.
From Knut Require Import Model.Date Proofs.CalendarSweep.
Import ListNotations.
Open Scope bool_scope.
Open Scope Z_scope.

(* ------------------------------------------------------------ lifted facts *)

Lemma day_check_all d : day_check d = true.
Proof.
  pose proof (Z.div_mod d ERA ltac:(unfold ERA; lia)) as Hd.
  pose proof (Z.mod_pos_bound d ERA ltac:(unfold ERA; lia)) as Hr.
  set (r := d mod ERA) in *. set (k := d / ERA) in *.
  assert (Hin : In r (zrange 0 (Z.to_nat ERA))).
  { apply zrange_in. rewrite Z2Nat.id by (unfold ERA; lia). lia. }
  pose proof (proj1 (forallb_forall _ _) day_sweep r Hin) as Hc.
  replace d with (r + ERA * k) by lia.
  unfold day_check in *.
  replace (r + ERA * k + 1) with (r + 1 + ERA * k) by ring.
  rewrite !civil_period.
  destruct (civil r) as [[y m] dd] eqn:E. cbn [shift_y].
  rewrite !andb_true_iff in Hc. destruct Hc as [[Hv Ho] Hn].
  rewrite !andb_true_iff. repeat split.
  - unfold valid_civil_b in *. rewrite dim_period. exact Hv.
  - rewrite of_civil_period. apply Z.eqb_eq in Ho. apply Z.eqb_eq. lia.
  - apply triple_eqb_eq in Hn. rewrite Hn.
    change (y + 400 * k, m, dd) with (shift_y (y, m, dd) k).
    rewrite next_civil_period.
    destruct (shift_y (next_civil (y, m, dd)) k) as [[a b] c]; cbn.
    rewrite !Z.eqb_refl. reflexivity.
Qed.

Lemma dim_pos y m : 28 <= days_in_month y m <= 31.
Proof.
  unfold days_in_month.
  destruct (m =? 2); [destruct (is_leap y)|destruct ((m =? 4) || (m =? 6) || (m =? 9) || (m =? 11))]; lia.
Qed.

Lemma civil_valid d : valid_civil (civil d).
Proof.
  pose proof (day_check_all d) as H. unfold day_check in H.
  destruct (civil d) as [[y m] dd] eqn:E.
  rewrite !andb_true_iff in H. apply valid_civil_b_iff. tauto.
Qed.

Lemma of_civil_civil d : let '(y, m, dd) := civil d in of_civil y m dd = d.
Proof.
  pose proof (day_check_all d) as H. unfold day_check in H.
  destruct (civil d) as [[y m] dd] eqn:E.
  rewrite !andb_true_iff in H. apply Z.eqb_eq. tauto.
Qed.

Lemma civil_succ d : civil (d + 1) = next_civil (civil d).
Proof.
  pose proof (day_check_all d) as H. unfold day_check in H.
  destruct (civil d) as [[y m] dd] eqn:E.
  rewrite !andb_true_iff in H. apply triple_eqb_eq. tauto.
Qed.

Lemma civil_of_civil y m dd : valid_civil (y, m, dd) -> civil (of_civil y m dd) = (y, m, dd).
Proof.
  intros Hv.
  pose proof (Z.div_mod y 400 ltac:(lia)) as Hd.
  pose proof (Z.mod_pos_bound y 400 ltac:(lia)) as Hr.
  set (r := y mod 400) in *. set (k := y / 400) in *.
  assert (Hy : y = r + 400 * k) by lia.
  assert (Hv' : valid_civil (r, m, dd)).
  { unfold valid_civil in *. rewrite Hy, dim_period in Hv. exact Hv. }
  assert (Hin : In r (zrange 0 400)) by (apply zrange_in; cbn; lia).
  pose proof (proj1 (forallb_forall _ _) triple_sweep r Hin) as Hc.
  unfold year_check in Hc.
  assert (Hm : In m (zrange 1 12)) by (apply zrange_in; unfold valid_civil in *; cbn [Z.of_nat Pos.of_succ_nat Pos.succ]; lia).
  pose proof (proj1 (forallb_forall _ _) Hc m Hm) as Hc2. cbn beta in Hc2.
  assert (Hdd : In dd (zrange 1 31)).
  { apply zrange_in. unfold valid_civil in Hv'. pose proof (dim_pos r m). lia. }
  pose proof (proj1 (forallb_forall _ _) Hc2 dd Hdd) as Hc3. unfold triple_check in Hc3.
  apply valid_civil_b_iff in Hv'. rewrite Hv' in Hc3. cbn [negb orb] in Hc3.
  apply triple_eqb_eq in Hc3.
  rewrite Hy, of_civil_period, civil_period, Hc3. reflexivity.
Qed.

(* of_civil is linear in the day-of-month argument *)
Lemma of_civil_day y m dd : of_civil y m dd = of_civil y m 1 + (dd - 1).
Proof. unfold of_civil. destruct (m <=? 2); destruct (2 <? m); ring. Qed.

(* ------------------------------------------------------------ order *)

Definition lex_lt (a b : Z * Z * Z) : Prop :=
  let '(y1, m1, d1) := a in let '(y2, m2, d2) := b in
  y1 < y2 \/ (y1 = y2 /\ (m1 < m2 \/ (m1 = m2 /\ d1 < d2))).

Lemma lex_lt_trans a b c : lex_lt a b -> lex_lt b c -> lex_lt a c.
Proof. destruct a as [[? ?] ?], b as [[? ?] ?], c as [[? ?] ?]; cbn; lia. Qed.

Lemma lex_lt_irrefl a : ~ lex_lt a a.
Proof. destruct a as [[? ?] ?]; cbn; lia. Qed.

Lemma next_civil_lt t : valid_civil t -> lex_lt t (next_civil t).
Proof.
  destruct t as [[y m] dd]; unfold valid_civil, next_civil. intros [Hm Hd].
  destruct (dd <? days_in_month y m) eqn:E1; [unfold lex_lt; lia|].
  destruct (m <? 12) eqn:E2; unfold lex_lt; lia.
Qed.

Lemma civil_lt_mono d1 d2 : d1 < d2 -> lex_lt (civil d1) (civil d2).
Proof.
  intros H. replace d2 with (d1 + 1 + (d2 - d1 - 1)) by ring.
  assert (Hk : 0 <= d2 - d1 - 1) by lia.
  generalize dependent (d2 - d1 - 1). intros k Hk.
  pattern k. apply natlike_ind; [| |exact Hk].
  - rewrite Z.add_0_r, civil_succ. apply next_civil_lt, civil_valid.
  - intros x Hx IH. replace (d1 + 1 + Z.succ x) with (d1 + 1 + x + 1) by lia.
    eapply lex_lt_trans; [exact IH|]. rewrite (civil_succ (d1 + 1 + x)).
    apply next_civil_lt, civil_valid.
Qed.

Lemma civil_le_mono_inv d1 d2 : lex_lt (civil d1) (civil d2) -> d1 < d2.
Proof.
  intros H. destruct (Z_lt_ge_dec d1 d2) as [|Hge]; [assumption|exfalso].
  destruct (Z.eq_dec d1 d2) as [->|Hne]; [eapply lex_lt_irrefl; eauto|].
  assert (Hlt : d2 < d1) by lia. apply civil_lt_mono in Hlt.
  eapply lex_lt_irrefl. eapply lex_lt_trans; eauto.
Qed.

(* ------------------------------------------------------------ Go's Date / AddDate *)

Lemma go_date_valid_month y m dd : 1 <= m <= 12 -> go_date y m dd = of_civil y m 1 + (dd - 1).
Proof.
  intros Hm. unfold go_date.
  replace ((m - 1) / 12) with 0 by (symmetry; apply Z.div_small; lia).
  rewrite Z.mod_small by lia. f_equal. f_equal; ring.
Qed.

Lemma add_date_days d k : add_date d 0 0 k = d + k.
Proof.
  unfold add_date. pose proof (civil_valid d) as Hv. pose proof (of_civil_civil d) as Ho.
  destruct (civil d) as [[y m] dd]. unfold valid_civil in Hv.
  rewrite !Z.add_0_r, go_date_valid_month by lia.
  rewrite of_civil_day in Ho. lia.
Qed.

Lemma year_month_day d : civil d = (year_of d, month_of d, day_of d).
Proof. unfold year_of, month_of, day_of. destruct (civil d) as [[? ?] ?]. reflexivity. Qed.

Lemma month_range d : 1 <= month_of d <= 12.
Proof. pose proof (civil_valid d) as H. rewrite year_month_day in H. unfold valid_civil in H. lia. Qed.

Lemma day_range d : 1 <= day_of d <= days_in_month (year_of d) (month_of d).
Proof. pose proof (civil_valid d) as H. rewrite year_month_day in H. unfold valid_civil in H. lia. Qed.

Lemma month_start_eq d : of_civil (year_of d) (month_of d) 1 = d - (day_of d - 1).
Proof.
  pose proof (of_civil_civil d) as H. rewrite year_month_day in H.
  rewrite of_civil_day in H. lia.
Qed.
