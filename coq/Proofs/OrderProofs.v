(* C05  Directive order does not matter: the generic part, the builder, lib/model's
   ParseDirective over a permuted list.

   - [req R x y]: two processor results are equivalent: both fail (with whatever error), or both
     succeed with R-related values.  The error itself is NOT invariant under reordering: the
     checker reports the first offender in arrival order (witness in Properties/C05.v).
   - [fold_res_perm]: a monadic fold whose steps commute pairwise up to [req R] gives equivalent
     results on permuted lists.
   - [build_perm]: permuted directive lists give builders with the same period and the same
     days, each day's five lists being permutations of each other ([day_equiv]).
   - [parse_directives_perm]: ParseDirective works directive by directive, so a permuted
     syntax-level list gives a permuted model-level list (or both fail). *)
From Coq Require Import ZArith List Bool Lia Permutation Sorting.Sorted.
From Knut Require Import Model.Str Model.Dec Model.Date Model.Account Model.Ledger Model.Price Model.Journal
     Spec.WellformedSpec Proofs.BuilderProofs Proofs.CheckPerm.
Import ListNotations.
Open Scope bool_scope.
Open Scope Z_scope.

(* ------------------------------------------------------------------ equivalent results *)

Definition req {A} (R : A -> A -> Prop) (x y : presult A) : Prop :=
  match x, y with
  | ROk a, ROk b => R a b
  | ROk _, _ => False
  | _, ROk _ => False
  | _, _ => True
  end.

Lemma req_trans {A} (R : A -> A -> Prop) :
  (forall a b c, R a b -> R b c -> R a c) -> forall x y z, req R x y -> req R y z -> req R x z.
Proof. intros T [a| |] [b| |] [c| |]; cbn; try tauto; eauto. Qed.

Lemma req_sym {A} (R : A -> A -> Prop) :
  (forall a b, R a b -> R b a) -> forall x y, req R x y -> req R y x.
Proof. intros T [a| |] [b| |]; cbn; try tauto; eauto. Qed.

Lemma req_refl {A} (R : A -> A -> Prop) : (forall a, R a a) -> forall x, req R x x.
Proof. intros T [a| |]; cbn; auto. Qed.

Lemma req_impl {A} (R Q : A -> A -> Prop) x y : (forall a b, R a b -> Q a b) -> req R x y -> req Q x y.
Proof. intros T. destruct x, y; cbn; auto. Qed.

Lemma req_bind {A B} (R : A -> A -> Prop) (Q : B -> B -> Prop) x y f g :
  req R x y -> (forall a b, R a b -> req Q (f a) (g b)) -> req Q (rbind x f) (rbind y g).
Proof. destruct x, y; cbn; try tauto. intros H Hf. apply Hf. exact H. Qed.

Lemma req_ok_l {A} (R : A -> A -> Prop) x y a : req R x y -> x = ROk a -> exists b, y = ROk b /\ R a b.
Proof. intros H ->. destruct y; cbn in H; try contradiction. eauto. Qed.

(* ------------------------------------------------------------------ the generic fold lemma *)

Section FoldPerm.
  Context {S A : Type} (R : S -> S -> Prop) (f : S -> A -> presult S) (P : A -> Prop).
  Hypothesis R_trans : forall a b c, R a b -> R b c -> R a c.
  (* the step respects the state relation *)
  Hypothesis f_resp : forall s s' a, P a -> R s s' -> req R (f s a) (f s' a).
  (* two steps commute *)
  Hypothesis f_comm : forall s a b, P a -> P b -> R s s ->
    req R (rbind (f s a) (fun s1 => f s1 b)) (rbind (f s b) (fun s1 => f s1 a)).

  Lemma fold_res_resp l : Forall P l -> forall s s', R s s' -> req R (fold_res f s l) (fold_res f s' l).
  Proof.
    induction 1 as [|x l Hx Hl IH]; intros s s' H; cbn [fold_res]; [exact H|].
    apply (req_bind R R); [apply f_resp; assumption|exact IH].
  Qed.

  Lemma fold_res_perm l1 l2 :
    Permutation l1 l2 -> Forall P l1 -> forall s s', R s s -> R s s' -> req R (fold_res f s l1) (fold_res f s' l2).
  Proof.
    induction 1 as [|x l l' HP IH|x y l|l l' l'' HP1 IH1 HP2 IH2]; intros HF s s' Hs H.
    - exact H.
    - inversion HF as [|? ? Hx Hl]; subst. cbn [fold_res].
      pose proof (f_resp s s' x Hx H) as H1. pose proof (f_resp s s x Hx Hs) as H0.
      destruct (f s x) as [s1| |], (f s' x) as [s1'| |]; cbn in *; try tauto.
      apply IH; assumption.
    - inversion HF as [|? ? Hy HF']; subst. inversion HF' as [|? ? Hx Hl]; subst.
      apply (req_trans R R_trans _ (fold_res f s (x :: y :: l))).
      + cbn [fold_res]. pose proof (f_comm s y x Hy Hx Hs) as C.
        destruct (f s y) as [s1| |] eqn:E1; destruct (f s x) as [s2| |] eqn:E2; cbn [rbind] in *;
          try (destruct (f s1 x) as [s3| |] eqn:E3); try (destruct (f s2 y) as [s4| |] eqn:E4);
          cbn [rbind req] in *; try tauto; try exact I.
        apply fold_res_resp; assumption.
      + apply (fold_res_resp (x :: y :: l)); [|exact H]. constructor; [exact Hx|]. constructor; assumption.
    - assert (HF' : Forall P l') by (eapply Permutation_Forall; eassumption).
      apply (req_trans R R_trans _ (fold_res f s l')); [apply IH1; assumption|apply IH2; assumption].
  Qed.
End FoldPerm.

(* ------------------------------------------------------------------ lists *)

Lemma map_inj_eq {A B} (g : A -> B) : (forall a b, g a = g b -> a = b) ->
  forall l1 l2, map g l1 = map g l2 -> l1 = l2.
Proof.
  intros Hg. induction l1 as [|a l1 IH]; intros [|b l2] H; cbn in H; try discriminate; [reflexivity|].
  injection H as H1 H2. f_equal; auto.
Qed.

Lemma perm_map_inj {A B} (g : A -> B) : (forall a b, g a = g b -> a = b) ->
  forall l1 l2, Permutation (map g l1) (map g l2) -> Permutation l1 l2.
Proof.
  intros Hg l1 l2 H. apply Permutation_map_inv in H. destruct H as [l3 [E P]].
  apply (map_inj_eq g Hg) in E. subst l3. apply Permutation_sym. exact P.
Qed.

Lemma Forall2_of_map_eq {A B} (g : A -> B) (R : A -> A -> Prop) : forall l1 l2,
  map g l1 = map g l2 -> (forall x y, In x l1 -> In y l2 -> g x = g y -> R x y) -> Forall2 R l1 l2.
Proof.
  induction l1 as [|a l1 IH]; intros [|b l2] H HR; cbn in H; try discriminate; [constructor|].
  injection H as H1 H2. constructor.
  - apply HR; [left; reflexivity|left; reflexivity|exact H1].
  - apply IH; [exact H2|]. intros x y Hx Hy. apply HR; right; assumption.
Qed.

(* ------------------------------------------------------------------ the builder *)

(* two days that differ at most in the order of the directives of each kind *)
Definition day_equiv (x y : day) : Prop :=
  d_date x = d_date y /\
  Permutation (d_prices x) (d_prices y) /\
  Permutation (d_opens x) (d_opens y) /\
  Permutation (d_txns x) (d_txns y) /\
  Permutation (d_asserts x) (d_asserts y) /\
  Permutation (d_closes x) (d_closes y) /\
  d_normalized x = d_normalized y.

Lemma day_equiv_refl x : day_equiv x x.
Proof. repeat split; apply Permutation_refl. Qed.

Lemma day_equiv_sym x y : day_equiv x y -> day_equiv y x.
Proof. intros (H0 & H1 & H2 & H3 & H4 & H5 & H6). repeat split; try (apply Permutation_sym; assumption); congruence. Qed.

Lemma day_equiv_trans x y z : day_equiv x y -> day_equiv y z -> day_equiv x z.
Proof.
  intros (H0 & H1 & H2 & H3 & H4 & H5 & H6) (K0 & K1 & K2 & K3 & K4 & K5 & K6).
  repeat split; try (eapply Permutation_trans; eassumption); congruence.
Qed.

Lemma price_directive_inj dt a b : price_directive dt a = price_directive dt b -> a = b.
Proof. destruct a as [[c p] t], b as [[c' p'] t']. unfold price_directive. cbn. intros H. injection H as -> -> ->. reflexivity. Qed.

Lemma upd_day_all (P : day -> Prop) days dt f :
  (forall y, In y days -> P y) -> (forall x, P x -> P (f x)) -> P (f (empty_day dt)) ->
  forall y, In y (upd_day days dt f) -> P y.
Proof.
  intros HP Hf He. induction days as [|x days IH]; cbn.
  - intros y [<-|[]]. exact He.
  - destruct (dt =? d_date x).
    + intros y [<-|H]; [apply Hf; apply HP; left; reflexivity|apply HP; right; exact H].
    + destruct (dt <? d_date x).
      * intros y [<-|H]; [exact He|apply HP; exact H].
      * intros y [<-|H]; [apply HP; left; reflexivity|].
        apply IH; [|exact H]. intros z Hz. apply HP. right. exact Hz.
Qed.

Lemma builder_not_normalized ds : forall x, In x (b_days (builder_of ds)) -> d_normalized x = None.
Proof.
  induction ds as [|d ds IH] using rev_ind; [intros x []|].
  rewrite builder_of_snoc, builder_add_days.
  apply upd_day_all; [exact IH| |destruct d; reflexivity].
  intros x Hx. destruct d; exact Hx.
Qed.

(* Builder.Add keeps the minimum of the transaction dates and the maximum of the transaction
   and price dates, whatever the order *)
Definition min_step (m : Z) (d : directive) : Z :=
  match d with DTxn t => if t_date t <? m then t_date t else m | _ => m end.
Definition max_step (m : Z) (d : directive) : Z :=
  match d with
  | DTxn t => if m <? t_date t then t_date t else m
  | DPrice dt _ _ _ => if m <? dt then dt else m
  | _ => m
  end.

Lemma builder_min_fold ds : forall b, b_min (fold_left builder_add ds b) = fold_left min_step ds (b_min b).
Proof. induction ds as [|d ds IH]; intros b; cbn [fold_left]; [reflexivity|]. rewrite IH. destruct d; reflexivity. Qed.

Lemma builder_max_fold ds : forall b, b_max (fold_left builder_add ds b) = fold_left max_step ds (b_max b).
Proof. induction ds as [|d ds IH]; intros b; cbn [fold_left]; [reflexivity|]. rewrite IH. destruct d; reflexivity. Qed.

Lemma min_step_comm m x y : min_step (min_step m x) y = min_step (min_step m y) x.
Proof.
  destruct x, y; cbn [min_step]; try reflexivity.
  destruct (t_date t <? m) eqn:E1, (t_date t0 <? m) eqn:E2; rewrite ?E1, ?E2;
    try (destruct (t_date t0 <? t_date t) eqn:E3); try (destruct (t_date t <? t_date t0) eqn:E4); lia.
Qed.

Lemma max_step_comm m x y : max_step (max_step m x) y = max_step (max_step m y) x.
Proof.
  assert (K : forall a b, (if (if m <? a then a else m) <? b then b else (if m <? a then a else m)) =
                          (if (if m <? b then b else m) <? a then a else (if m <? b then b else m))).
  { intros a b. destruct (m <? a) eqn:E1, (m <? b) eqn:E2; rewrite ?E1, ?E2;
      try (destruct (a <? b) eqn:E3); try (destruct (b <? a) eqn:E4); lia. }
  destruct x, y; cbn [max_step]; try reflexivity; apply K.
Qed.

Theorem build_perm ds1 ds2 :
  Permutation ds1 ds2 ->
  Forall2 day_equiv (b_days (builder_of ds1)) (b_days (builder_of ds2)) /\
  b_min (builder_of ds1) = b_min (builder_of ds2) /\
  b_max (builder_of ds1) = b_max (builder_of ds2).
Proof.
  intros P. split; [|split].
  - destruct (builder_canonical ds1) as (_ & D1 & _ & M1). destruct (builder_canonical ds2) as (_ & D2 & _ & M2).
    cbn zeta in *.
    apply (Forall2_of_map_eq d_date).
    + rewrite D1, D2. apply dates_perm. exact P.
    + intros x y Hx Hy E.
      destruct (M1 x Hx) as (A0 & A1 & A2 & A3 & A4). destruct (M2 y Hy) as (B0 & B1 & B2 & B3 & B4).
      rewrite E in A0, A1, A2, A3, A4.
      assert (S : forall k, Permutation (sel ds1 (d_date y) k) (sel ds2 (d_date y) k)).
      { intros k. unfold sel. apply perm_filter. exact P. }
      split; [exact E|].
      split. { apply (perm_map_inj (price_directive (d_date y))); [apply price_directive_inj|]. rewrite A0, B0. apply S. }
      split. { apply (perm_map_inj (DOpen (d_date y))); [intros a b H; injection H; auto|]. rewrite A1, B1. apply S. }
      split. { apply (perm_map_inj DTxn); [intros a b H; injection H; auto|]. rewrite A2, B2. apply S. }
      split. { apply (perm_map_inj (DAssert (d_date y))); [intros a b H; injection H; auto|]. rewrite A3, B3. apply S. }
      split. { apply (perm_map_inj (DClose (d_date y))); [intros a b H; injection H; auto|]. rewrite A4, B4. apply S. }
      rewrite (builder_not_normalized ds1 x Hx), (builder_not_normalized ds2 y Hy). reflexivity.
  - unfold builder_of. rewrite !builder_min_fold. apply fold_left_perm; [intros; apply min_step_comm|exact P].
  - unfold builder_of. rewrite !builder_max_fold. apply fold_left_perm; [intros; apply max_step_comm|exact P].
Qed.

(* Builder.Days(dates) (used by --close) creates the same empty days on both sides *)
Lemma upd_day_id_equiv dt l1 l2 :
  Forall2 day_equiv l1 l2 -> Forall2 day_equiv (upd_day l1 dt (fun x => x)) (upd_day l2 dt (fun x => x)).
Proof.
  induction 1 as [|x y l1 l2 Hxy Hl IH]; cbn [upd_day].
  - constructor; [apply day_equiv_refl|constructor].
  - assert (E : d_date x = d_date y) by apply Hxy. rewrite E.
    destruct (dt =? d_date y); [constructor; assumption|].
    destruct (dt <? d_date y).
    + constructor; [apply day_equiv_refl|]. constructor; assumption.
    + constructor; assumption.
Qed.

Lemma builder_touch_equiv b1 b2 dates :
  Forall2 day_equiv (b_days b1) (b_days b2) ->
  Forall2 day_equiv (b_days (builder_touch b1 dates)) (b_days (builder_touch b2 dates)).
Proof.
  unfold builder_touch. cbn [b_days]. generalize (b_days b1) (b_days b2).
  induction dates as [|d dates IH]; intros l1 l2 H; cbn [fold_left]; [exact H|].
  apply IH. apply upd_day_id_equiv. exact H.
Qed.

(* ------------------------------------------------------------------ lib/model ParseDirective *)

Definition meq {A} (R : A -> A -> Prop) (x y : mresult A) : Prop :=
  match x, y with
  | MOk a, MOk b => R a b
  | MOk _, _ => False
  | _, MOk _ => False
  | _, _ => True
  end.

Lemma meq_trans {A} (R : A -> A -> Prop) :
  (forall a b c, R a b -> R b c -> R a c) -> forall x y z, meq R x y -> meq R y z -> meq R x z.
Proof. intros T [a| |] [b| |] [c| |]; cbn; try tauto; eauto. Qed.

(* every directive is converted on its own: a permuted input gives a permuted output, and a
   directive that is rejected (or panics) makes both fail *)
Theorem parse_directives_perm l1 l2 :
  Permutation l1 l2 -> meq (@Permutation directive) (parse_directives l1) (parse_directives l2).
Proof.
  induction 1 as [|x l l' HP IH|x y l|l l' l'' HP1 IH1 HP2 IH2].
  - cbn. constructor.
  - cbn [parse_directives]. destruct (parse_directive x) as [o| |]; cbn [mbind]; try exact I.
    destruct (parse_directives l) as [a| |], (parse_directives l') as [b| |]; cbn in *; try tauto.
    apply Permutation_app_head. exact IH.
  - cbn [parse_directives].
    destruct (parse_directive x) as [ox| |], (parse_directive y) as [oy| |]; cbn [mbind]; try exact I;
      destruct (parse_directives l) as [a| |]; cbn; try exact I.
    apply Permutation_app_swap_app.
  - eapply meq_trans; [|eassumption|eassumption]. intros a b c. apply Permutation_trans.
Qed.
