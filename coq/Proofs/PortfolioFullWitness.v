(* C20, part 8: the hypotheses of the two full theorems (weights_match_balance_full,
   external_flows_zero_full) on a concrete run.
   W5: the journal W2 of PortfolioWitness (1000 CHF and 5 AAPL at 100 CHF bought in January; prices
   unchanged; February: one external deposit of 500 CHF on the 10th), `--months --to 2023-02-28 -v CHF`,
   no filters.  The valued days are 01-01, 01-05, 01-31, 02-10, 02-28; February is a deposit-only
   period. *)
From Coq Require Import ZArith QArith List Bool Lia.
From Knut Require Import Model.Str Model.Dec Model.Date Model.Account Model.Ledger Model.Price
     Model.Journal Model.Check Model.Pipeline Model.Report Model.Cli Model.Perf Model.Weights
     Model.CliPortfolio Spec.PortfolioSpec Spec.WellformedSpec
     Proofs.SMapProofs Proofs.PortfolioDays Proofs.PortfolioReturns Proofs.PortfolioWeights Proofs.PortfolioProofs
     Proofs.PortfolioWitness Proofs.PortfolioAlgebra Proofs.PortfolioValuesFull Proofs.PortfolioFlowsFull
     Proofs.PortfolioQuietDays.
Import ListNotations.
Open Scope Z_scope.

Definition w5_cfg : pf_cfg := mkPfCfg 0 (feb 28) Monthly 0 (Some CHF) [] [] [] false None true.

(* the intermediate results of returnsRunner.execute (as in external_flows_zero_full) *)
Definition w5_part : partition :=
  match load w2_journal with
  | COk b => match pf_partition w5_cfg b with COk part => part | _ => mkPartition (mkPeriod 0 0) Once [] end
  | _ => mkPartition (mkPeriod 0 0) Once []
  end.
Definition w5_days : list day :=
  match load w2_journal with
  | COk b => match valued_days w5_cfg (b_days (builder_touch b (end_dates w5_part))) with COk days => days | _ => [] end
  | _ => []
  end.
Definition w5_vs : list (Z * (pcv * pcv)) * list day :=
  match day_values w5_cfg w5_days with COk vs => vs | _ => ([], []) end.
Definition w5_fs : list (Z * flows_day) :=
  match day_flows repaired w5_cfg (snd w5_vs) with COk fs => fs | _ => [] end.
Definition w5_perfs : list perf := join_perf (fst w5_vs) w5_fs.

Lemma w5_runs :
  exists b, load w2_journal = COk b /\ pf_partition w5_cfg b = COk w5_part /\
    valued_days w5_cfg (b_days (builder_touch b (end_dates w5_part))) = COk w5_days /\
    day_values w5_cfg w5_days = COk w5_vs /\ day_flows repaired w5_cfg (snd w5_vs) = COk w5_fs.
Proof.
  destruct (load w2_journal) as [b| |] eqn:El; try (vm_compute in El; discriminate El).
  exists b. split; [reflexivity|].
  assert (Hb : COk b = load w2_journal) by (symmetry; exact El).
  unfold w5_days, w5_part. rewrite El.
  clear El. vm_compute in Hb. inversion Hb; subst b. clear Hb.
  vm_compute. repeat split; reflexivity.
Qed.

Definition untargeted_b (x : day) : bool :=
  forallb (fun t => match t_targets t with None => true | Some _ => false end) (d_txns x).

Lemma untargeted_b_ok x : untargeted_b x = true -> untargeted x.
Proof.
  unfold untargeted_b, untargeted. rewrite forallb_forall, Forall_forall. intros H t Ht.
  specialize (H t Ht). destruct (t_targets t); [discriminate|reflexivity].
Qed.

(* the dates of the valued days; February's days are untargeted (January's too, here) *)
Lemma w5_dates : map d_date w5_days = [jan 1; jan 5; jan 31; feb 10; feb 28].
Proof. vm_compute. reflexivity. Qed.

Lemma w5_february_untargeted x : In x w5_days -> In (d_date x) [feb 10; feb 28] -> untargeted x.
Proof.
  intros Hx _. apply untargeted_b_ok. revert x Hx. apply forallb_forall. vm_compute. reflexivity.
Qed.

(* the Performance records of February: the 10th (the deposit) and the 28th (the period end) *)
Definition w5_l : list perf := firstn 1 (skipn 3 w5_perfs).
Definition w5_p : perf := nth 4 w5_perfs (mkPerf 0 [] [] flows_zero).

Lemma w5_split : w5_perfs = firstn 3 w5_perfs ++ w5_l ++ w5_p :: [] /\ map pf_date (w5_l ++ [w5_p]) = [feb 10; feb 28].
Proof. vm_compute. split; reflexivity. Qed.

(* the deposit is an inflow of the 10th: V0 = 1500, inflow = 500, V1 = 2000 *)
Lemma w5_deposit :
  match w5_l with
  | [q] => (p_v0 q == 1500 # 1)%Q /\ (p_inflow q == 500 # 1)%Q /\ (p_outflow q == 0)%Q /\ (p_v1 q == 2000 # 1)%Q
  | _ => False
  end.
Proof. vm_compute. repeat split; reflexivity. Qed.

Lemma w5_reported : reported w5_part (end_dates w5_part) w5_l w5_p = Some 0%Q.
Proof. vm_compute. reflexivity. Qed.

Lemma w5_returns : second_return (returns_fixed w5_cfg w2_journal) = Some 0%Q.
Proof. vm_compute. reflexivity. Qed.

(* ---------------------------------------------------------------- weights_match_balance_full on W5 *)

Definition w5_pre : list day := firstn 3 w5_days.
Definition w5_d : day := nth 3 w5_days (empty_day 0).
Definition w5_post : list day := skipn 4 w5_days.
Definition w5_accs : list account := [a_bank; a_broker; a_opening].

Lemma w5_days_split : w5_days = w5_pre ++ w5_d :: w5_post /\ d_date w5_d = feb 10 /\ length w5_pre = 3%nat.
Proof. vm_compute. repeat split; reflexivity. Qed.

Lemma w5_asc : asc (map d_date (w5_pre ++ w5_d :: w5_post)).
Proof. destruct w5_days_split as [<- _]. rewrite w5_dates. vm_compute. repeat split; reflexivity. Qed.

Lemma covers_b_ok accs days d :
  NoDup (map acc_name accs) ->
  forallb (fun p => existsb (fun a => acc_eqb (p_acc p) a) accs) (postings_upto days d) = true ->
  covers accs days d.
Proof.
  intros Hnd H. split; [exact Hnd|]. rewrite forallb_forall in H. intros p Hp.
  specialize (H p Hp). apply existsb_exists in H. exact H.
Qed.

Lemma w5_covers : covers w5_accs (w5_pre ++ w5_d :: w5_post) (d_date w5_d).
Proof.
  destruct w5_days_split as [<- [-> _]]. apply covers_b_ok; [|vm_compute; reflexivity].
  vm_compute. repeat constructor; cbn [In]; intros H; repeat (destruct H as [H|H]; [discriminate H|]); exact H.
Qed.

Lemma w5_names_respected :
  names_respected (ca_acc (pf_calc w5_cfg)) w5_accs (postings_upto (w5_pre ++ w5_d :: w5_post) (d_date w5_d)).
Proof.
  destruct w5_days_split as [<- [-> _]]. apply names_respected_ok; apply Forall_forall.
  - apply forallb_forall. vm_compute. reflexivity.
  - intros p. revert p. apply forallb_forall. vm_compute. reflexivity.
Qed.

(* on 2023-02-10 the portfolio holds 1500 CHF and AAPL worth 500 CHF *)
Lemma w5_values :
  (portfolio_value (ca_acc (pf_calc w5_cfg)) (ca_com (pf_calc w5_cfg)) (w5_pre ++ w5_d :: w5_post) CHF (d_date w5_d) == 1500 # 1)%Q /\
  (portfolio_value_by_account (ca_acc (pf_calc w5_cfg)) (ca_com (pf_calc w5_cfg)) w5_accs (w5_pre ++ w5_d :: w5_post) AAPL (d_date w5_d) == 500 # 1)%Q.
Proof. destruct w5_days_split as [<- [-> _]]. vm_compute. split; reflexivity. Qed.

(* ---------------------------------------------------------------- external_flows_zero_line on W5 *)

(* the records before February end with the processed period end 2023-01-31; 02-10 is inside the
   window and no period end; 02-28 is a period end *)
Lemma w5_boundary : boundary w5_part (end_dates w5_part) (firstn 3 w5_perfs).
Proof.
  right. exists (firstn 2 w5_perfs), (nth 2 w5_perfs (mkPerf 0 [] [] flows_zero)).
  split; [vm_compute; reflexivity|]. split; vm_compute; reflexivity.
Qed.

Lemma w5_stretch :
  Forall (fun x => partition_contains w5_part (pf_date x) = true /\ mem (end_dates w5_part) (pf_date x) = false) w5_l /\
  partition_contains w5_part (pf_date w5_p) = true /\ mem (end_dates w5_part) (pf_date w5_p) = true.
Proof.
  split.
  - assert (E : w5_l = [nth 3 w5_perfs (mkPerf 0 [] [] flows_zero)]) by (vm_compute; reflexivity).
    rewrite E. constructor; [|constructor]. split; vm_compute; reflexivity.
  - split; vm_compute; reflexivity.
Qed.

(* ---------------------------------------------------------------- external_flows_zero_source on W5 *)
(* the days the builder makes from the directives (plus the period ends) *)
Definition w5_src_days : list day :=
  match load w2_journal with COk b => b_days (builder_touch b (end_dates w5_part)) | _ => [] end.

Lemma w5_src : exists b, load w2_journal = COk b /\ pf_partition w5_cfg b = COk w5_part /\
                         w5_src_days = b_days (builder_touch b (end_dates w5_part)).
Proof.
  destruct w5_runs as [b [H1 [H2 _]]]. exists b. split; [exact H1|]. split; [exact H2|].
  unfold w5_src_days. rewrite H1. reflexivity.
Qed.

Definition quiet_b (x : day) : bool := match d_prices x with [] => untargeted_b x | _ => false end.

Lemma quiet_b_ok x : quiet_b x = true -> quiet x.
Proof.
  unfold quiet_b, quiet. destruct (d_prices x); [|discriminate]. intros H. split; [reflexivity|apply untargeted_b_ok; exact H].
Qed.

(* February's days declare no price and carry no @performance annotation (2023-01-01 declares one) *)
Lemma w5_february_quiet x : In x w5_src_days -> In (d_date x) [feb 10; feb 28] -> quiet x.
Proof.
  intros Hx Hd. apply quiet_b_ok.
  assert (H : forallb (fun y => negb (mem [feb 10; feb 28] (d_date y)) || quiet_b y) w5_src_days = true) by (vm_compute; reflexivity).
  rewrite forallb_forall in H. specialize (H x Hx). apply mem_in in Hd. rewrite Hd in H. exact H.
Qed.

Lemma w5_january_not_quiet : existsb (fun y => negb (quiet_b y)) w5_src_days = true.
Proof. vm_compute. reflexivity. Qed.
