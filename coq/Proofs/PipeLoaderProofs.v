(* Proofs about Model/PipeLoader.v: on an acyclic include graph (one with a rank function) the
   loader terminates by channel closure under every schedule, and without errors the consumer
   receives exactly the multiset of files of the include tree; a self-include spawns forever.  *)
From Coq Require Import List Bool Arith PeanoNat Lia Permutation.
From Knut Require Import Model.PipeLoader.
Import ListNotations.

Lemma flat_map_ext_in' : forall (A B : Type) (f g : A -> list B) l,
  (forall a, In a l -> f a = g a) -> flat_map f l = flat_map g l.
Proof.
  induction l as [|a l IH]; intros H; simpl; [reflexivity|].
  rewrite (H a (or_introl eq_refl)), IH; [reflexivity|]. intros; apply H; right; assumption.
Qed.

Lemma nth_error_set_nth_len : forall (A : Type) (l : list A) t v, length (set_nth l t v) = length l.
Proof. induction l as [|x l IH]; intros [|t] v; simpl; auto. Qed.

Section LoaderProofs.
  Variable inc : nat -> list nat.
  Variable bad cbad : nat -> bool.

  Notation lstep := (lstep inc bad cbad).
  Notation lrun := (lrun inc bad cbad).
  Notation lstep_or_stay := (lstep_or_stay inc bad cbad).
  Notation leffective := (leffective inc bad cbad).
  Notation linit := (linit inc).
  Notation ldrain := (ldrain inc bad cbad).

  (* ---------------------------------------------------------------- acyclic include graphs *)
  Variable rank : nat -> nat.
  Hypothesis Hrank : forall f g, In g (inc f) -> rank g < rank f.

  Definition E (f : nat) : list nat := expand inc (rank f) f.
  Definition W (f : nat) : nat := wt inc (rank f) f.

  Lemma rank0_noinc : forall f, rank f = 0 -> inc f = [].
  Proof.
    intros f H. destruct (inc f) as [|g r] eqn:I; [reflexivity|].
    pose proof (Hrank f g) as R. rewrite I in R. specialize (R (or_introl eq_refl)). lia.
  Qed.

  Lemma expand_stable : forall d f, rank f <= d -> expand inc d f = E f.
  Proof.
    induction d as [d IH] using lt_wf_ind. intros f Hf. unfold E.
    destruct d as [|d].
    - replace (rank f) with 0 by lia. reflexivity.
    - destruct (rank f) as [|r] eqn:R.
      + simpl. rewrite (rank0_noinc f R). reflexivity.
      + simpl. f_equal. apply flat_map_ext_in'. intros g Hg.
        pose proof (Hrank f g Hg). rewrite (IH d ltac:(lia) g ltac:(lia)).
        rewrite (IH r ltac:(lia) g ltac:(lia)). reflexivity.
  Qed.

  Lemma E_unfold : forall f, E f = [f] ++ flat_map E (inc f).
  Proof.
    intros f. unfold E at 1. destruct (rank f) as [|r] eqn:R.
    - simpl. rewrite (rank0_noinc f R). reflexivity.
    - simpl. f_equal. apply flat_map_ext_in'. intros g Hg. pose proof (Hrank f g Hg).
      apply expand_stable. lia.
  Qed.

  Lemma wt_stable : forall d f, rank f <= d -> wt inc d f = W f.
  Proof.
    induction d as [d IH] using lt_wf_ind. intros f Hf. unfold W.
    destruct d as [|d].
    - replace (rank f) with 0 by lia. reflexivity.
    - destruct (rank f) as [|r] eqn:R.
      + simpl. rewrite (rank0_noinc f R). reflexivity.
      + simpl. do 3 f_equal. apply map_ext_in. intros g Hg.
        pose proof (Hrank f g Hg). rewrite (IH d ltac:(lia) g ltac:(lia)).
        rewrite (IH r ltac:(lia) g ltac:(lia)). reflexivity.
  Qed.

  Lemma W_unfold : forall f, W f = 2 + list_sum (map (fun g => 1 + W g) (inc f)).
  Proof.
    intros f. unfold W at 1. destruct (rank f) as [|r] eqn:R.
    - simpl. rewrite (rank0_noinc f R). reflexivity.
    - simpl. do 3 f_equal. apply map_ext_in. intros g Hg. pose proof (Hrank f g Hg).
      f_equal. apply wt_stable. lia.
  Qed.

  (* ---------------------------------------------------------------- termination *)
  Definition tw (t : ptask) : nat :=
    match t_st t with
    | Parsing rest => 2 + list_sum (map (fun g => 1 + W g) rest)
    | PRdy => 1
    | _ => 0
    end.

  Definition lmu (st : lstate) : nat :=
    list_sum (map tw (tasks st)) + (if syn_closed st then 0 else 1) + (if finished st then 0 else 1).

  Lemma sum_set_nth : forall l t v old, nth_error l t = Some old ->
    list_sum (map tw (set_nth l t v)) + tw old = list_sum (map tw l) + tw v.
  Proof.
    induction l as [|x l IH]; intros [|t] v old H; simpl in *; try discriminate.
    - injection H as ->. lia.
    - specialize (IH t v old H). lia.
  Qed.

  Lemma list_sum_app' : forall a b, list_sum (a ++ b) = list_sum a + list_sum b.
  Proof. induction a as [|x a IH]; intros b; simpl; [reflexivity|]. rewrite IH. lia. Qed.

  Lemma lstep_decreases : forall l st st', lstep l st = Some st' -> lmu st' < lmu st.
  Proof.
    intros l st st' Hs. destruct l as [t|t|t|t| |]; simpl in Hs.
    - destruct (nth_error (tasks st) t) as [[f [[|g rest]| | | |]]|] eqn:N; try discriminate.
      injection Hs as <-. unfold lmu, set_task. cbn [tasks syn_closed finished].
      pose proof (sum_set_nth _ _ (mkTask f (Parsing rest)) _ N) as S.
      rewrite map_app, list_sum_app'.
      assert (T1 : tw (mkTask g (Parsing (inc g))) = W g)
        by (unfold tw; cbn [t_st]; symmetry; apply W_unfold).
      assert (T2 : tw (mkTask f (Parsing (g :: rest))) = 1 + W g + tw (mkTask f (Parsing rest)))
        by (unfold tw; simpl; lia).
      change (list_sum (map tw [mkTask g (Parsing (inc g))])) with (tw (mkTask g (Parsing (inc g))) + 0).
      rewrite T1. rewrite T2 in S. lia.
    - destruct (nth_error (tasks st) t) as [[f [[|g rest]| | | |]]|] eqn:N; try discriminate.
      destruct (bad f); injection Hs as <-; unfold lmu; simpl; rewrite app_nil_r.
      + pose proof (sum_set_nth _ _ (mkTask f PFail) _ N) as S. unfold tw in *; simpl in *; lia.
      + pose proof (sum_set_nth _ _ (mkTask f PRdy) _ N) as S. unfold tw in *; simpl in *; lia.
    - destruct (nth_error (tasks st) t) as [[f [[|g rest]| | | |]]|] eqn:N; try discriminate.
      injection Hs as <-; unfold lmu; simpl; rewrite app_nil_r.
      pose proof (sum_set_nth _ _ (mkTask f PPushed) _ N) as S. unfold tw in *; simpl in *; lia.
    - destruct (nth_error (tasks st) t) as [[f [[|g rest]| | | |]]|] eqn:N; try discriminate.
      destruct (lcancel st); [|discriminate].
      injection Hs as <-; unfold lmu; simpl; rewrite app_nil_r.
      pose proof (sum_set_nth _ _ (mkTask f PCancel) _ N) as S. unfold tw in *; simpl in *; lia.
    - destruct (negb (syn_closed st) && forallb task_terminal (tasks st)) eqn:C; [|discriminate].
      apply andb_true_iff in C. destruct C as [C _]. apply negb_true_iff in C.
      injection Hs as <-. unfold lmu. simpl. rewrite C. lia.
    - destruct (syn_closed st && negb (finished st)) eqn:C; [|discriminate].
      apply andb_true_iff in C. destruct C as [C1 C2]. apply negb_true_iff in C2.
      injection Hs as <-. unfold lmu. simpl. rewrite C1, C2. lia.
  Qed.

  Lemma leffective_bound_from : forall sched st, leffective sched st <= lmu st.
  Proof.
    induction sched as [|l rest IH]; intros st; simpl; [lia|].
    destruct (lstep l st) as [st'|] eqn:S; [|apply IH].
    pose proof (lstep_decreases l st st' S). specialize (IH st'). lia.
  Qed.

  Lemma lmu_init : forall root, lmu (linit root) = W root + 2.
  Proof.
    intros. unfold lmu, PipeLoader.linit. cbn [tasks syn_closed finished].
    assert (T : tw (mkTask root (Parsing (inc root))) = W root)
      by (unfold tw; cbn [t_st]; symmetry; apply W_unfold).
    change (list_sum (map tw [mkTask root (Parsing (inc root))]))
      with (tw (mkTask root (Parsing (inc root))) + 0).
    rewrite T. lia.
  Qed.

  Lemma lrun_lmu : forall sched st, lmu (lrun sched st) <= lmu st.
  Proof.
    induction sched as [|l rest IH]; intros st; simpl; [lia|].
    unfold PipeLoader.lstep_or_stay. destruct (lstep l st) as [st'|] eqn:S; [|apply IH].
    pose proof (lstep_decreases l st st' S). specialize (IH st'). lia.
  Qed.

  Lemma first_move_enabled : forall ts off l, first_move ts off = Some l ->
    exists t x, nth_error ts t = Some x /\
      ((exists f g rest, x = mkTask f (Parsing (g :: rest)) /\ l = LSpawn (off + t)) \/
       (exists f, x = mkTask f (Parsing []) /\ l = LParsed (off + t)) \/
       (exists f, x = mkTask f PRdy /\ l = LPush (off + t))).
  Proof.
    induction ts as [|[f s] ts IH]; intros off l H; simpl in H; [discriminate|].
    destruct s as [[|g rest]| | | |];
      try (injection H as <-; exists 0, (mkTask f _); split; [reflexivity|]; rewrite Nat.add_0_r; eauto 8; fail);
      try (destruct (IH (S off) l H) as (t & x & N & D); exists (S t), x; split; [exact N|];
           replace (off + S t) with (S off + t) by lia; exact D).
    - injection H as <-. exists 0, (mkTask f (Parsing [])). split; [reflexivity|]. rewrite Nat.add_0_r. eauto 8.
    - injection H as <-. exists 0, (mkTask f (Parsing (g :: rest))). split; [reflexivity|]. rewrite Nat.add_0_r. eauto 8.
    - injection H as <-. exists 0, (mkTask f PRdy). split; [reflexivity|]. rewrite Nat.add_0_r. eauto 8.
  Qed.

  Lemma first_move_none : forall ts off, first_move ts off = None -> forallb task_terminal ts = true.
  Proof.
    induction ts as [|[f s] ts IH]; intros off H; simpl in *; [reflexivity|].
    destruct s as [[|g rest]| | | |]; try discriminate; unfold task_terminal at 1; simpl; eapply IH; eassumption.
  Qed.

  Lemma lpick_enabled : forall st l, lpick st = Some l -> exists st', lstep l st = Some st'.
  Proof.
    intros st l H. unfold lpick in H.
    destruct (finished st) eqn:F; [discriminate|].
    destruct (syn_closed st) eqn:C.
    - injection H as <-. simpl. rewrite C, F. simpl. eauto.
    - destruct (first_move (tasks st) 0) as [l'|] eqn:M.
      + injection H as <-. destruct (first_move_enabled _ _ _ M) as (t & x & N & D). simpl in D.
        destruct D as [(f & g & rest & -> & ->)|[(f & -> & ->)|(f & -> & ->)]]; simpl; rewrite N.
        * eauto.
        * destruct (bad f); eauto.
        * eauto.
      + injection H as <-. simpl. rewrite C. simpl. rewrite (first_move_none _ _ M). eauto.
  Qed.

  Lemma ldrain_finishes_from : forall fuel st, lmu st <= fuel -> finished (ldrain fuel st) = true.
  Proof.
    induction fuel as [|fuel IH]; intros st H; simpl.
    - unfold lmu in H. destruct (finished st); [reflexivity|lia].
    - destruct (lpick st) as [l|] eqn:P.
      + destruct (lpick_enabled st l P) as (st' & S). unfold PipeLoader.lstep_or_stay. rewrite S.
        apply IH. pose proof (lstep_decreases l st st' S). lia.
      + unfold lpick in P. destruct (finished st); [reflexivity|].
        destruct (syn_closed st); [discriminate|]. destruct (first_move (tasks st) 0); discriminate.
  Qed.

  (* ---------------------------------------------------------------- what is loaded *)
  Definition pending (t : ptask) : list nat :=
    match t_st t with
    | Parsing rest => [t_file t] ++ flat_map E rest
    | PRdy => [t_file t]
    | _ => []
    end.

  Notation cnt := (count_occ Nat.eq_dec).

  Lemma cnt_set_nth : forall l t v old x, nth_error l t = Some old ->
    cnt (flat_map pending (set_nth l t v)) x + cnt (pending old) x =
    cnt (flat_map pending l) x + cnt (pending v) x.
  Proof.
    induction l as [|y l IH]; intros [|t] v old x H; simpl in *; try discriminate.
    - injection H as ->. rewrite !count_occ_app. lia.
    - specialize (IH t v old x H). rewrite !count_occ_app. lia.
  Qed.

  Record LInv (root : nat) (st : lstate) : Prop := {
    L_count : forall x, cnt (got st ++ flat_map pending (tasks st)) x = cnt (E root) x;
    L_nocancel : lcancel st = false;
    L_noerr : perrs st = [];
    L_live : forall t, In t (tasks st) -> t_st t <> PFail /\ t_st t <> PCancel;
    L_closed : syn_closed st = true -> forallb task_terminal (tasks st) = true;
    L_finished : finished st = true -> syn_closed st = true
  }.

  Lemma in_set_nth : forall (A : Type) (l : list A) t v x, In x (set_nth l t v) -> x = v \/ In x l.
  Proof.
    induction l as [|y l IH]; intros [|t] v x H; simpl in *; auto.
    - destruct H as [H|H]; auto.
    - destruct H as [H|H]; auto. destruct (IH t v x H); auto.
  Qed.

  Lemma forallb_terminal_nth : forall l t x, forallb task_terminal l = true ->
    nth_error l t = Some x -> task_terminal x = true.
  Proof.
    intros l t x F N. rewrite forallb_forall in F. apply F. eapply nth_error_In; eassumption.
  Qed.

  Hypothesis Hnobad : forall f, bad f = false.

  Lemma linv_init : forall root, LInv root (linit root).
  Proof.
    intros root. constructor; simpl; try reflexivity; try discriminate.
    - intros x. unfold pending. simpl. rewrite app_nil_r. rewrite (E_unfold root). reflexivity.
    - intros t [<-|[]]. simpl. split; discriminate.
  Qed.

  Lemma lstep_linv : forall root l st st', LInv root st -> lstep l st = Some st' -> LInv root st'.
  Proof.
    intros root l st st' HI Hs. destruct HI as [Hc Hn He Hl Hcl Hf].
    destruct l as [t|t|t|t| |]; simpl in Hs.
    - destruct (nth_error (tasks st) t) as [[f [[|g rest]| | | |]]|] eqn:N; try discriminate.
      injection Hs as <-. constructor; simpl; auto.
      + intros x. rewrite <- (Hc x). pose proof (cnt_set_nth _ _ (mkTask f (Parsing rest)) _ x N) as S.
        assert (P1 : pending (mkTask g (Parsing (inc g))) = E g)
          by (unfold pending; cbn [t_st t_file]; symmetry; apply E_unfold).
        assert (P2 : forall y, cnt (pending (mkTask f (Parsing (g :: rest)))) y =
                               cnt (E g) y + cnt (pending (mkTask f (Parsing rest))) y).
        { intros y. unfold pending. cbn [t_st t_file flat_map]. rewrite !count_occ_app. lia. }
        rewrite flat_map_app. cbn [flat_map]. rewrite app_nil_r, P1.
        rewrite !count_occ_app. rewrite P2 in S. lia.
      + intros t' Ht'. apply in_app_or in Ht'. destruct Ht' as [Ht'|[<-|[]]].
        * apply in_set_nth in Ht'. destruct Ht' as [->|Ht']; [simpl; split; discriminate|auto].
        * simpl; split; discriminate.
      + intros C. specialize (Hcl C). pose proof (forallb_terminal_nth _ _ _ Hcl N). discriminate.
    - destruct (nth_error (tasks st) t) as [[f [[|g rest]| | | |]]|] eqn:N; try discriminate.
      rewrite Hnobad in Hs. injection Hs as <-. constructor; simpl; auto; rewrite app_nil_r.
      + intros x. rewrite <- (Hc x). pose proof (cnt_set_nth _ _ (mkTask f PRdy) _ x N) as S.
        rewrite !count_occ_app in *. unfold pending at 2 4 in S. simpl in S. lia.
      + intros t' Ht'. apply in_set_nth in Ht'. destruct Ht' as [->|Ht']; [simpl; split; discriminate|auto].
      + intros C. specialize (Hcl C). pose proof (forallb_terminal_nth _ _ _ Hcl N). discriminate.
    - destruct (nth_error (tasks st) t) as [[f [[|g rest]| | | |]]|] eqn:N; try discriminate.
      injection Hs as <-. constructor; simpl; auto; rewrite app_nil_r.
      + intros x. rewrite <- (Hc x). pose proof (cnt_set_nth _ _ (mkTask f PPushed) _ x N) as S.
        rewrite !count_occ_app in *. unfold pending at 2 4 in S. simpl in S. simpl.
        destruct (Nat.eq_dec f x); lia.
      + intros t' Ht'. apply in_set_nth in Ht'. destruct Ht' as [->|Ht']; [simpl; split; discriminate|auto].
      + intros C. specialize (Hcl C). pose proof (forallb_terminal_nth _ _ _ Hcl N). discriminate.
    - destruct (nth_error (tasks st) t) as [[f [[|g rest]| | | |]]|] eqn:N; try discriminate.
      rewrite Hn in Hs. discriminate.
    - destruct (negb (syn_closed st) && forallb task_terminal (tasks st)) eqn:C; [|discriminate].
      apply andb_true_iff in C. destruct C as [_ C].
      injection Hs as <-. constructor; simpl; auto.
    - destruct (syn_closed st && negb (finished st)) eqn:C; [|discriminate].
      apply andb_true_iff in C. destruct C as [C _].
      injection Hs as <-. constructor; simpl; auto.
  Qed.

  Lemma lrun_linv : forall root sched st, LInv root st -> LInv root (lrun sched st).
  Proof.
    intros root. induction sched as [|l rest IH]; intros st HI; simpl; [assumption|].
    apply IH. unfold PipeLoader.lstep_or_stay. destruct (lstep l st) eqn:S; [|assumption].
    eapply lstep_linv; eassumption.
  Qed.

  Lemma terminal_pending_nil : forall l, forallb task_terminal l = true ->
    (forall t, In t l -> t_st t <> PFail /\ t_st t <> PCancel) -> flat_map pending l = [].
  Proof.
    induction l as [|[f s] l IH]; intros F L; simpl in *; [reflexivity|].
    apply andb_true_iff in F. destruct F as [F1 F2].
    rewrite (IH F2 ltac:(intros; apply L; right; assumption)).
    unfold task_terminal in F1. simpl in F1. unfold pending. simpl.
    destruct s; try discriminate; reflexivity.
  Qed.

  Lemma finished_loaded : forall root st, LInv root st -> finished st = true ->
    Permutation (got st) (E root) /\ perrs st = [].
  Proof.
    intros root st HI F. destruct HI as [Hc Hn He Hl Hcl Hf]. split; [|assumption].
    apply (Permutation_count_occ Nat.eq_dec). intros x. rewrite <- (Hc x).
    rewrite (terminal_pending_nil _ (Hcl (Hf F)) Hl), app_nil_r. reflexivity.
  Qed.

End LoaderProofs.

(* a file that includes itself: the schedule Spawn 0, Spawn 1, ..., Spawn (k-1) is effective at
   every step, for every k: no bound on the number of steps, tasks and loaded copies *)
Section SelfInclude.
  Let inc1 (f : nat) : list nat := [f].
  Let nb (f : nat) : bool := false.

  Lemma set_nth_last : forall (A : Type) (pre : list A) x v, set_nth (pre ++ [x]) (length pre) v = pre ++ [v].
  Proof. induction pre as [|y pre IH]; intros; simpl; [reflexivity|]. rewrite IH. reflexivity. Qed.

  Lemma nth_error_last : forall (A : Type) (pre : list A) x, nth_error (pre ++ [x]) (length pre) = Some x.
  Proof. induction pre as [|y pre IH]; intros; simpl; [reflexivity|]. apply IH. Qed.

  Lemma self_include_spawns : forall k pre c s g p e f,
    leffective inc1 nb nb (map LSpawn (seq (length pre) k))
      (mkL (pre ++ [mkTask 0 (Parsing [0])]) c s g p e f) = k.
  Proof.
    induction k as [|k IH]; intros; simpl; [reflexivity|].
    rewrite nth_error_last. simpl. f_equal. unfold set_task. simpl. rewrite set_nth_last.
    rewrite <- app_assoc. simpl.
    specialize (IH (pre ++ [mkTask 0 (Parsing [])]) c s g p e f).
    rewrite app_length in IH. simpl in IH. rewrite Nat.add_1_r in IH.
    rewrite <- app_assoc in IH. simpl in IH. exact IH.
  Qed.

  Lemma self_include_unbounded : forall k,
    leffective inc1 nb nb (map LSpawn (seq 0 k)) (linit inc1 0) = k.
  Proof. intros k. apply (self_include_spawns k []). Qed.
End SelfInclude.
